/-
`Grammar.prime()` (`Model/Prime.lean`), generic part: the loop invariant, what the returned values are,
termination with an explicit iteration bound, and the exact condition under which the loop returns.
-/
import Model.Prime
namespace FV
namespace Prime

set_option linter.unusedSectionVars false
variable {α : Type} [DecidableEq α]

/-! ### lists of distances -/

theorem minD_isSome (a b : Dist) : (minD a b).isSome = (a.isSome || b.isSome) := by
  cases a <;> cases b <;> simp [minD]

theorem minList_isSome : ∀ (l : List Dist), (minList l).isSome = true ↔ ∃ d ∈ l, d.isSome = true
  | [] => by simp [minList]
  | d :: ds => by
    simp only [minList, minD_isSome, Bool.or_eq_true, minList_isSome ds, List.mem_cons]
    constructor
    · rintro (h | ⟨e, he, h⟩)
      · exact ⟨d, Or.inl rfl, h⟩
      · exact ⟨e, Or.inr he, h⟩
    · rintro ⟨e, rfl | he, h⟩
      · exact Or.inl h
      · exact Or.inr ⟨e, he, h⟩

theorem sumList_isSome : ∀ (l : List Dist), (sumList l).isSome = true ↔ ∀ d ∈ l, d.isSome = true
  | [] => by simp [sumList]
  | d :: ds => by
    have ih := sumList_isSome ds
    cases d with
    | none => simp [sumList]
    | some a =>
      cases hs : sumList ds with
      | none =>
        simp only [hs, Option.isSome_none, Bool.false_eq_true, false_iff] at ih
        simp only [sumList, hs, Option.isSome_none, Bool.false_eq_true, List.mem_cons, forall_eq_or_imp,
          Option.isSome_some, true_and, false_iff]
        exact ih
      | some b =>
        simp only [hs, Option.isSome_some, true_iff] at ih
        simp only [sumList, hs, Option.isSome_some, List.mem_cons, forall_eq_or_imp, true_and, true_iff]
        exact ih

/-- a finite minimum is the value of one of the entries, and no finite entry is smaller -/
theorem minList_some : ∀ (l : List Dist) (m : Nat), minList l = some m →
    (∃ d ∈ l, d = some m) ∧ ∀ e, some e ∈ l → m ≤ e
  | [], m, h => by simp [minList] at h
  | d :: ds, m, h => by
    simp only [minList] at h
    cases d with
    | none =>
      simp only [minD] at h
      obtain ⟨⟨x, hx, hxe⟩, hle⟩ := minList_some ds m h
      refine ⟨⟨x, List.mem_cons_of_mem _ hx, hxe⟩, ?_⟩
      intro e he
      rcases List.mem_cons.1 he with h1 | h1
      · cases h1
      · exact hle e h1
    | some a =>
      cases hr : minList ds with
      | none =>
        simp only [hr, minD, Option.some.injEq] at h
        subst h
        refine ⟨⟨some a, List.mem_cons_self .., rfl⟩, ?_⟩
        intro e he
        rcases List.mem_cons.1 he with h1 | h1
        · cases h1; exact Nat.le_refl _
        · have : (minList ds).isSome = true := (minList_isSome ds).2 ⟨some e, h1, rfl⟩
          simp [hr] at this
      | some b =>
        simp only [hr, minD, Option.some.injEq] at h
        obtain ⟨⟨x, hx, hxe⟩, hle⟩ := minList_some ds b hr
        subst h
        refine ⟨?_, ?_⟩
        · by_cases hab : a ≤ b
          · exact ⟨some a, List.mem_cons_self .., by simp [hab]⟩
          · exact ⟨x, List.mem_cons_of_mem _ hx, by simp [Nat.min_def, hab, hxe]⟩
        · intro e he
          rcases List.mem_cons.1 he with h1 | h1
          · cases h1; exact Nat.min_le_left _ _
          · exact Nat.le_trans (Nat.min_le_right _ _) (hle e h1)

/-- every summand of a finite sum is finite and at most the sum -/
theorem sumList_some : ∀ (l : List Dist) (m : Nat), sumList l = some m →
    ∀ d ∈ l, ∃ e, d = some e ∧ e ≤ m
  | [], _, _ => by simp
  | d :: ds, m, h => by
    cases d with
    | none => simp [sumList] at h
    | some a =>
      cases hr : sumList ds with
      | none => simp [sumList, hr] at h
      | some b =>
        simp only [sumList, hr, Option.some.injEq] at h
        subst h
        intro x hx
        rcases List.mem_cons.1 hx with rfl | hx
        · exact ⟨a, rfl, Nat.le_add_right _ _⟩
        · obtain ⟨e, he, hle⟩ := sumList_some ds b hr x hx
          exact ⟨e, he, by omega⟩

/-! ### the loop invariant -/

/-- a repetition with `min = 0` (`*`, `?`, `{0,m}`): in the exhausted-budget regime `Repetition.fuzz`
    stops before the first iteration, and `Star` / `Option` are born with the distance `0.0` -/
def Sink (kind : α → PKind α) (a : α) : Prop := ∃ k, kind a = .rep k 0

/-- `v` is an earlier look at the state `s`: every entry is the final one, or was still `inf`, or was
    the `0.0` a `Star` / `Option` is born with -/
def View (kind : α → PKind α) (v s : α → Dist) : Prop :=
  ∀ c, v c = s c ∨ v c = none ∨ (v c = some 0 ∧ Sink kind c)

/-- the node carries a finite value, and that value is the update rule applied to an earlier look at
    the state -/
def Fin (kind : α → PKind α) (s : α → Dist) (a : α) : Prop :=
  ∃ v d, View kind v s ∧ ruleVal kind v a = some d ∧ s a = some d

structure Inv (kind : α → PKind α) (s0 s : α → Dist) (wl : List α) : Prop where
  term : ∀ a, kind a = .term → s a = some 1
  fin : ∀ a, kind a ≠ .term → a ∉ wl → Fin kind s a
  pend : ∀ a ∈ wl, s a = none ∨ (s a = some 0 ∧ Sink kind a)
  nodup : wl.Nodup
  nterm : ∀ a ∈ wl, kind a ≠ .term
  mono : ∀ a, s0 a ≠ none → s a ≠ none

/-- the state the constructors leave behind: terminals 1, `Star`/`Option` 0 (they have `min = 0`),
    everything else `inf`; the worklist holds every non-terminal node once -/
structure Fresh (kind : α → PKind α) (s0 : α → Dist) (wl : List α) : Prop where
  term : ∀ a, kind a = .term → s0 a = some 1
  other : ∀ a, kind a ≠ .term → s0 a = none ∨ (s0 a = some 0 ∧ Sink kind a)
  nodup : wl.Nodup
  nterm : ∀ a ∈ wl, kind a ≠ .term
  all : ∀ a, kind a ≠ .term → a ∈ wl

theorem Fresh.inv {kind : α → PKind α} {s0 : α → Dist} {wl : List α} (h : Fresh kind s0 wl) :
    Inv kind s0 s0 wl :=
  { term := h.term
    fin := fun a ha hn => absurd (h.all a ha) hn
    pend := fun a ha => h.other a (h.nterm a ha)
    nodup := h.nodup
    nterm := h.nterm
    mono := fun _ h => h }

theorem View.refl (kind : α → PKind α) (s : α → Dist) : View kind s s := fun _ => Or.inl rfl

theorem View.step {kind : α → PKind α} {v s s' : α → Dist} {i : α} (hv : View kind v s)
    (hs : ∀ c, c ≠ i → s' c = s c) (hi : s i = none ∨ (s i = some 0 ∧ Sink kind i)) :
    View kind v s' := by
  intro c
  by_cases hc : c = i
  · subst hc
    rcases hv c with h | h | h
    · rcases hi with h0 | ⟨h0, hsk⟩
      · exact Or.inr (Or.inl (h.trans h0))
      · exact Or.inr (Or.inr ⟨h.trans h0, hsk⟩)
    · exact Or.inr (Or.inl h)
    · exact Or.inr (Or.inr h)
  · rw [hs c hc]; exact hv c

/-! ### what one iteration does -/

theorem upd_self (s : α → Dist) (i : α) (v : Dist) : upd s i v i = v := by simp [upd]
theorem upd_other (s : α → Dist) (i : α) (v : Dist) {c : α} (h : c ≠ i) : upd s i v c = s c := by
  simp [upd, h]

/-- a finished iteration: a terminal is skipped, any other node gets the rule's (finite) value -/
theorem primeStep_fin {kind : α → PKind α} {s s' : α → Dist} {i : α} (h : primeStep kind s i = .fin s') :
    (kind i = .term ∧ s' = s) ∨ (kind i ≠ .term ∧ ∃ d, ruleVal kind s i = some d ∧ s' = upd s i (some d)) := by
  unfold primeStep at h
  split at h
  · rename_i hk; left; simp only [StepRes.fin.injEq] at h; exact ⟨hk, h.symm⟩
  · simp at h
  · rename_i r hk
    split at h
    · simp at h
    · rename_i d hd
      simp only [StepRes.fin.injEq] at h
      right; exact ⟨by simp [hk], d + 1, by simp [ruleVal, hk, hd], h.symm⟩
  · simp at h
  · rename_i k ks hk
    split at h
    · simp at h
    · rename_i d hd
      simp only [StepRes.fin.injEq] at h
      right; exact ⟨by simp [hk], d + 1, by simp only [ruleVal, hk]; rw [hd]; rfl, h.symm⟩
  · rename_i ks hk
    split at h
    · simp at h
    · rename_i d hd
      simp only [StepRes.fin.injEq] at h
      right; exact ⟨by simp [hk], d + 1, by simp only [ruleVal, hk]; rw [hd]; rfl, h.symm⟩
  · rename_i k mn hk
    split at h
    · simp at h
    · rename_i d hd
      simp only [StepRes.fin.injEq] at h
      right; exact ⟨by simp [hk], d * mn + 1, by simp [ruleVal, hk, hd], h.symm⟩

/-- a node that is appended again: the rule has no finite value yet; the state is unchanged except
    that an `Alternative` is assigned `inf` -/
theorem primeStep_again {kind : α → PKind α} {s s' : α → Dist} {i : α} (h : primeStep kind s i = .again s') :
    kind i ≠ .term ∧ ruleVal kind s i = none ∧ (s' = s ∨ ((∃ ks, kind i = .alt ks) ∧ s' = upd s i none)) := by
  unfold primeStep at h
  split at h
  · simp at h
  · simp at h
  · rename_i r hk
    split at h
    · rename_i hd
      simp only [StepRes.again.injEq] at h
      exact ⟨by simp [hk], by simp [ruleVal, hk, hd], Or.inl h.symm⟩
    · simp at h
  · simp at h
  · rename_i k ks hk
    split at h
    · rename_i hd
      simp only [StepRes.again.injEq] at h
      exact ⟨by simp [hk], by simp only [ruleVal, hk]; rw [hd]; rfl, Or.inr ⟨⟨_, hk⟩, h.symm⟩⟩
    · simp at h
  · rename_i ks hk
    split at h
    · rename_i hd
      simp only [StepRes.again.injEq] at h
      exact ⟨by simp [hk], by simp [ruleVal, hk, hd], Or.inl h.symm⟩
    · simp at h
  · rename_i k mn hk
    split at h
    · rename_i hd
      simp only [StepRes.again.injEq] at h
      exact ⟨by simp [hk], by simp [ruleVal, hk, hd], Or.inl h.symm⟩
    · simp at h

/-- the code raises only for a symbol without a rule or an `Alternative` without alternatives -/
theorem primeStep_raised {kind : α → PKind α} {s : α → Dist} {i : α} (h : primeStep kind s i = .raised) :
    kind i = .nt none ∨ kind i = .alt [] := by
  unfold primeStep at h
  split at h
  · simp at h
  · rename_i hk; exact Or.inl hk
  · split at h <;> simp at h
  · rename_i hk; exact Or.inr hk
  · split at h <;> simp at h
  · split at h <;> simp at h
  · split at h <;> simp at h

theorem alt_not_sink {kind : α → PKind α} {i : α} (h : ∃ ks, kind i = .alt ks) : ¬ Sink kind i := by
  obtain ⟨ks, hk⟩ := h
  rintro ⟨k, hk'⟩
  rw [hk] at hk'
  cases hk'

/-- under the invariant an appended-again node leaves the state as it was -/
theorem again_same {kind : α → PKind α} {s0 s s' : α → Dist} {i : α} {wl : List α}
    (hinv : Inv kind s0 s (i :: wl)) (h : primeStep kind s i = .again s') : s' = s := by
  obtain ⟨_, _, h3⟩ := primeStep_again h
  rcases h3 with h3 | ⟨halt, h3⟩
  · exact h3
  · subst h3
    funext c
    by_cases hc : c = i
    · subst hc
      rw [upd_self]
      rcases hinv.pend c (List.mem_cons_self ..) with h0 | ⟨_, hsk⟩
      · exact h0.symm
      · exact absurd hsk (alt_not_sink halt)
    · exact upd_other _ _ _ hc

theorem inv_again {kind : α → PKind α} {s0 s s' : α → Dist} {i : α} {wl : List α}
    (hinv : Inv kind s0 s (i :: wl)) (h : primeStep kind s i = .again s') :
    Inv kind s0 s' (wl ++ [i]) := by
  have hs := again_same hinv h
  subst hs
  have hnd := List.nodup_cons.1 hinv.nodup
  exact
    { term := hinv.term
      fin := fun a ha hn => hinv.fin a ha (by
        intro hm
        apply hn
        rcases List.mem_cons.1 hm with rfl | hm
        · exact List.mem_append_right _ (List.mem_singleton.2 rfl)
        · exact List.mem_append_left _ hm)
      pend := fun a ha => hinv.pend a (by
        rcases List.mem_append.1 ha with ha | ha
        · exact List.mem_cons_of_mem _ ha
        · rw [List.mem_singleton.1 ha]; exact List.mem_cons_self ..)
      nodup := by
        rw [List.nodup_append]
        refine ⟨hnd.2, by simp, ?_⟩
        intro a ha b hb
        rw [List.mem_singleton.1 hb]
        rintro rfl
        exact hnd.1 ha
      nterm := fun a ha => hinv.nterm a (by
        rcases List.mem_append.1 ha with ha | ha
        · exact List.mem_cons_of_mem _ ha
        · rw [List.mem_singleton.1 ha]; exact List.mem_cons_self ..)
      mono := hinv.mono }

theorem inv_fin {kind : α → PKind α} {s0 s s' : α → Dist} {i : α} {wl : List α}
    (hinv : Inv kind s0 s (i :: wl)) (h : primeStep kind s i = .fin s') :
    Inv kind s0 s' wl := by
  have hnd := List.nodup_cons.1 hinv.nodup
  rcases primeStep_fin h with ⟨hk, _⟩ | ⟨hk, d, hd, hs⟩
  · exact absurd hk (hinv.nterm i (List.mem_cons_self ..))
  · subst hs
    have hpi := hinv.pend i (List.mem_cons_self ..)
    have hother : ∀ c, c ≠ i → upd s i (some d) c = s c := fun c hc => upd_other _ _ _ hc
    exact
      { term := fun a ha => by
          have : a ≠ i := by rintro rfl; exact hk ha
          rw [upd_other _ _ _ this]; exact hinv.term a ha
        fin := fun a ha hn => by
          by_cases hai : a = i
          · subst hai
            exact ⟨s, d, View.step (View.refl kind s) hother hpi, hd, upd_self _ _ _⟩
          · obtain ⟨v, e, hv, he, hse⟩ := hinv.fin a ha (by
              intro hm
              rcases List.mem_cons.1 hm with h1 | h1
              · exact hai h1
              · exact hn h1)
            exact ⟨v, e, View.step hv hother hpi, he, by rw [upd_other _ _ _ hai]; exact hse⟩
        pend := fun a ha => by
          have : a ≠ i := by rintro rfl; exact hnd.1 ha
          rw [upd_other _ _ _ this]
          exact hinv.pend a (List.mem_cons_of_mem _ ha)
        nodup := hnd.2
        nterm := fun a ha => hinv.nterm a (List.mem_cons_of_mem _ ha)
        mono := fun a ha => by
          by_cases hai : a = i
          · subst hai; rw [upd_self]; simp
          · rw [upd_other _ _ _ hai]; exact hinv.mono a ha }

/-- **when `prime()` returns, the invariant holds with an empty worklist** -/
theorem loop_inv {kind : α → PKind α} {s0 : α → Dist} : ∀ (fuel : Nat) (s : α → Dist) (wl : List α) (s' : α → Dist),
    Inv kind s0 s wl → primeLoop kind fuel s wl = .done s' → Inv kind s0 s' []
  | fuel, s, [], s', hinv, h => by
    cases fuel <;> (simp only [primeLoop, PRes.done.injEq] at h; subst h; exact hinv)
  | 0, s, i :: wl, s', _, h => by simp [primeLoop] at h
  | fuel + 1, s, i :: wl, s', hinv, h => by
    simp only [primeLoop] at h
    split at h
    · simp at h
    · rename_i s1 hs
      exact loop_inv fuel s1 _ s' (inv_again hinv hs) h
    · rename_i s1 hs
      exact loop_inv fuel s1 _ s' (inv_fin hinv hs) h

/-! ### which nodes the loop can finish -/

/-- the node can be given a finite value: a terminal; a symbol whose rule is available; an alternative
    with an available branch; a concatenation / repetition whose parts are available.  A node is
    *available* when it carries a finite value from the start (`z`: terminals, `Star`, `Option`) or
    can itself be completed.  NB a repetition with `min = 0` still waits for its body. -/
inductive Comp (kind : α → PKind α) (z : α → Prop) : α → Prop
  | term {a : α} : kind a = .term → Comp kind z a
  | nt {a r : α} : kind a = .nt (some r) → (¬ z r → Comp kind z r) → Comp kind z a
  | alt {a : α} {ks : List α} {k : α} : kind a = .alt ks → k ∈ ks → (¬ z k → Comp kind z k) → Comp kind z a
  | cat {a : α} {ks : List α} : kind a = .cat ks → (∀ k ∈ ks, ¬ z k → Comp kind z k) → Comp kind z a
  | rep {a k : α} {mn : Nat} : kind a = .rep k mn → (¬ z k → Comp kind z k) → Comp kind z a

/-- the rule has a finite value for the node -/
def Ready (kind : α → PKind α) (s : α → Dist) (a : α) : Prop := (ruleVal kind s a).isSome = true

theorem ready_mono {kind : α → PKind α} {s s' : α → Dist} {a : α} (hk : kind a ≠ .term)
    (hm : ∀ c, (s c).isSome = true → (s' c).isSome = true) (h : Ready kind s a) : Ready kind s' a := by
  unfold Ready ruleVal at h ⊢
  split
  · rename_i hkk; exact absurd hkk hk
  · rename_i hkk; simp [hkk] at h
  · rename_i r hkk
    simp only [hkk, Option.isSome_map] at h ⊢
    exact hm r h
  · rename_i ks hkk
    simp only [hkk, Option.isSome_map] at h ⊢
    obtain ⟨d, hd, hs⟩ := (minList_isSome _).1 h
    obtain ⟨c, hc, rfl⟩ := List.mem_map.1 hd
    exact (minList_isSome _).2 ⟨s' c, List.mem_map.2 ⟨c, hc, rfl⟩, hm c hs⟩
  · rename_i ks hkk
    simp only [hkk, Option.isSome_map] at h ⊢
    rw [sumList_isSome] at h ⊢
    intro d hd
    obtain ⟨c, hc, rfl⟩ := List.mem_map.1 hd
    exact hm c (h _ (List.mem_map.2 ⟨c, hc, rfl⟩))
  · rename_i k mn hkk
    simp only [hkk, Option.isSome_map] at h ⊢
    exact hm k h

/-- a ready node is finished by its iteration -/
theorem step_of_ready {kind : α → PKind α} {s : α → Dist} {i : α} (hk : kind i ≠ .term)
    (h : Ready kind s i) : ∃ s', primeStep kind s i = .fin s' := by
  cases hs : primeStep kind s i with
  | fin s' => exact ⟨s', rfl⟩
  | again s' =>
    obtain ⟨_, h2, _⟩ := primeStep_again hs
    simp [Ready, h2] at h
  | raised =>
    rcases primeStep_raised hs with hkk | hkk <;> simp [Ready, ruleVal, hkk, minList] at h

theorem finite_of_done {kind : α → PKind α} {s0 s : α → Dist} {wl : List α} (hinv : Inv kind s0 s wl)
    {a : α} (ha : a ∉ wl) : (s a).isSome = true := by
  by_cases hk : kind a = .term
  · rw [hinv.term a hk]; rfl
  · obtain ⟨_, d, _, _, hs⟩ := hinv.fin a hk ha
    rw [hs]; rfl

/-- as long as a completable node is pending, some pending node is ready -/
theorem exists_ready {kind : α → PKind α} {s0 s : α → Dist} {wl : List α} (hinv : Inv kind s0 s wl) :
    ∀ a, Comp kind (fun c => s0 c ≠ none) a → a ∈ wl → ∃ b ∈ wl, Ready kind s b := by
  -- an `inf` entry belongs to a pending node that was not available from the start
  have pending : ∀ c, s c = none → c ∈ wl ∧ ¬ (s0 c ≠ none) := by
    intro c hc
    refine ⟨?_, fun h0 => hinv.mono c h0 hc⟩
    apply Classical.byContradiction
    intro hn
    have := finite_of_done hinv hn
    simp [hc] at this
  intro a hcomp
  induction hcomp with
  | term hk => intro ha; exact absurd hk (hinv.nterm _ ha)
  | @nt a r hk _ ih =>
    intro ha
    cases hs : s r with
    | none =>
      obtain ⟨hm, hz⟩ := pending r hs
      exact ih hz hm
    | some d => exact ⟨a, ha, by simp [Ready, ruleVal, hk, hs]⟩
  | @alt a ks k hk hmem _ ih =>
    intro ha
    cases hs : s k with
    | none =>
      obtain ⟨hm, hz⟩ := pending k hs
      exact ih hz hm
    | some d =>
      refine ⟨a, ha, ?_⟩
      simp only [Ready, ruleVal, hk, Option.isSome_map]
      exact (minList_isSome _).2 ⟨s k, List.mem_map.2 ⟨k, hmem, rfl⟩, by simp [hs]⟩
  | @cat a ks hk _ ih =>
    intro ha
    by_cases hall : ∀ k ∈ ks, (s k).isSome = true
    · refine ⟨a, ha, ?_⟩
      simp only [Ready, ruleVal, hk, Option.isSome_map]
      rw [sumList_isSome]
      intro d hd
      obtain ⟨c, hc, rfl⟩ := List.mem_map.1 hd
      exact hall c hc
    · have : ∃ k, k ∈ ks ∧ s k = none := by
        apply Classical.byContradiction
        intro hne
        apply hall
        intro k hk'
        cases hsk : s k with
        | none => exact absurd ⟨k, hk', hsk⟩ hne
        | some d => rfl
      obtain ⟨k, hk', hs⟩ := this
      obtain ⟨hm, hz⟩ := pending k hs
      exact ih k hk' hz hm
  | @rep a k mn hk _ ih =>
    intro ha
    cases hs : s k with
    | none =>
      obtain ⟨hm, hz⟩ := pending k hs
      exact ih hz hm
    | some d => exact ⟨a, ha, by simp [Ready, ruleVal, hk, hs]⟩

/-! ### termination with an explicit bound -/

theorem primeLoop_mono {kind : α → PKind α} : ∀ (fuel : Nat) (s : α → Dist) (wl : List α) (s' : α → Dist),
    primeLoop kind fuel s wl = .done s' → ∀ k, primeLoop kind (fuel + k) s wl = .done s'
  | fuel, s, [], s', h, k => by
    cases fuel <;> cases k <;> simpa [primeLoop] using h
  | 0, s, i :: wl, s', h, _ => by simp [primeLoop] at h
  | fuel + 1, s, i :: wl, s', h, k => by
    have : fuel + 1 + k = (fuel + k) + 1 := by omega
    rw [this]
    simp only [primeLoop] at h ⊢
    split at h
    · simp at h
    · rename_i s1 hs; exact primeLoop_mono fuel s1 _ s' h k
    · rename_i s1 hs; exact primeLoop_mono fuel s1 _ s' h k

theorem steps_preserve_finite {kind : α → PKind α} {s0 s s' : α → Dist} {i : α} {wl : List α}
    (hinv : Inv kind s0 s (i :: wl)) (h : primeStep kind s i = .fin s') :
    ∀ c, (s c).isSome = true → (s' c).isSome = true := by
  intro c hc
  rcases primeStep_fin h with ⟨_, rfl⟩ | ⟨_, d, _, rfl⟩
  · exact hc
  · by_cases hci : c = i
    · subst hci; rw [upd_self]; rfl
    · rw [upd_other _ _ _ hci]; exact hc

def AllComp (kind : α → PKind α) (s0 : α → Dist) (wl : List α) : Prop :=
  ∀ a ∈ wl, Comp kind (fun c => s0 c ≠ none) a

theorem comp_no_raise {kind : α → PKind α} {z : α → Prop} {s : α → Dist} {i : α} (hc : Comp kind z i) :
    primeStep kind s i ≠ .raised := by
  intro h
  rcases primeStep_raised h with hk | hk
  · cases hc <;> simp_all
  · cases hc with
    | alt hk' hm _ => rw [hk] at hk'; cases hk'; simp at hm
    | _ => simp_all

/-- with a ready node at position `p` of a worklist of `n + 1` completable nodes, `p + 1` iterations
    shorten the worklist -/
theorem run_to_ready {kind : α → PKind α} {s0 : α → Dist} (n : Nat)
    (ihn : ∀ (wl : List α) (s : α → Dist), wl.length = n → Inv kind s0 s wl → AllComp kind s0 wl →
      ∃ s', primeLoop kind (primeBound n) s wl = .done s') :
    ∀ (p : Nat) (wl : List α) (s : α → Dist), wl.length = n + 1 → Inv kind s0 s wl → AllComp kind s0 wl →
      (∃ b, wl[p]? = some b ∧ Ready kind s b) →
      ∃ s', primeLoop kind (p + 1 + primeBound n) s wl = .done s'
  | p, [], s, hl, _, _, _ => by simp at hl
  | p, i :: wl, s, hl, hinv, hall, ⟨b, hb, hrb⟩ => by
    have hlen : wl.length = n := by simpa using hl
    have hrest : ∀ s1, primeStep kind s i = .fin s1 →
        ∃ s', primeLoop kind (p + 1 + primeBound n) s (i :: wl) = .done s' := by
      intro s1 hs
      obtain ⟨s', hs'⟩ := ihn wl s1 hlen (inv_fin hinv hs) (fun a ha => hall a (List.mem_cons_of_mem _ ha))
      refine ⟨s', ?_⟩
      have : p + 1 + primeBound n = (primeBound n + p) + 1 := by omega
      rw [this]
      simp only [primeLoop, hs]
      exact primeLoop_mono _ _ _ _ hs' p
    cases hs : primeStep kind s i with
    | raised => exact absurd hs (comp_no_raise (hall i (List.mem_cons_self ..)))
    | fin s1 => exact hrest s1 hs
    | again s1 =>
      cases p with
      | zero =>
        simp only [List.getElem?_cons_zero, Option.some.injEq] at hb
        subst hb
        obtain ⟨s2, hs2⟩ := step_of_ready (hinv.nterm _ (List.mem_cons_self ..)) hrb
        rw [hs] at hs2
        cases hs2
      | succ p =>
        have hsame := again_same hinv hs
        subst hsame
        have hinv' := inv_again hinv hs
        have hall' : AllComp kind s0 (wl ++ [i]) := by
          intro a ha
          rcases List.mem_append.1 ha with ha | ha
          · exact hall a (List.mem_cons_of_mem _ ha)
          · rw [List.mem_singleton.1 ha]; exact hall i (List.mem_cons_self ..)
        have hb' : (wl ++ [i])[p]? = some b := by
          simp only [List.getElem?_cons_succ] at hb
          have hp : p < wl.length := by
            apply Classical.byContradiction
            intro hn
            rw [List.getElem?_eq_none (by omega)] at hb
            cases hb
          rw [List.getElem?_append_left hp]
          exact hb
        obtain ⟨s', hs'⟩ := run_to_ready n ihn p (wl ++ [i]) s1 (by simp [hlen]) hinv' hall' ⟨b, hb', hrb⟩
        refine ⟨s', ?_⟩
        have : p + 1 + 1 + primeBound n = (p + 1 + primeBound n) + 1 := by omega
        rw [this]
        simp only [primeLoop, hs]
        exact hs'

/-- **`prime()` returns after at most `n (n+1) / 2` iterations** when every node is completable -/
theorem loop_terminates {kind : α → PKind α} {s0 : α → Dist} : ∀ (n : Nat) (wl : List α) (s : α → Dist),
    wl.length = n → Inv kind s0 s wl → AllComp kind s0 wl →
    ∃ s', primeLoop kind (primeBound n) s wl = .done s'
  | 0, wl, s, hl, _, _ => by
    have : wl = [] := List.length_eq_zero_iff.1 hl
    subst this
    exact ⟨s, by simp [primeLoop, primeBound]⟩
  | n + 1, wl, s, hl, hinv, hall => by
    have ihn := loop_terminates (kind := kind) (s0 := s0) n
    cases wl with
    | nil => simp at hl
    | cons i wl =>
      obtain ⟨b, hbm, hrb⟩ := exists_ready hinv i (hall i (List.mem_cons_self ..)) (List.mem_cons_self ..)
      obtain ⟨p, hp, hpb⟩ := List.getElem_of_mem hbm
      have hp' : (i :: wl)[p]? = some b := by rw [List.getElem?_eq_getElem hp, hpb]
      obtain ⟨s', hs'⟩ := run_to_ready n ihn p (i :: wl) s hl hinv hall ⟨b, hp', hrb⟩
      refine ⟨s', ?_⟩
      have hpn : p ≤ n := by simp at hl; simp at hp; omega
      have : primeBound (n + 1) = (p + 1 + primeBound n) + (n - p) := by simp only [primeBound]; omega
      rw [this]
      exact primeLoop_mono _ _ _ _ hs' _

/-! ### the loop never returns while a node cannot be completed -/

/-- every finite entry belongs to a node that was available from the start or is completable -/
def Sound (kind : α → PKind α) (s0 s : α → Dist) : Prop :=
  ∀ a, s a ≠ none → s0 a ≠ none ∨ Comp kind (fun c => s0 c ≠ none) a

theorem comp_of_fin {kind : α → PKind α} {s0 s s' : α → Dist} {i : α} (hs : Sound kind s0 s)
    (hk : kind i ≠ .term) (h : primeStep kind s i = .fin s') : Comp kind (fun c => s0 c ≠ none) i := by
  have avail : ∀ c, (s c).isSome = true → ¬ (s0 c ≠ none) → Comp kind (fun c => s0 c ≠ none) c := by
    intro c hc hz
    rcases hs c (by intro h0; simp [h0] at hc) with h1 | h1
    · exact absurd h1 hz
    · exact h1
  rcases primeStep_fin h with ⟨hk', _⟩ | ⟨_, d, hd, _⟩
  · exact absurd hk' hk
  · unfold ruleVal at hd
    split at hd
    · rename_i hkk; exact absurd hkk hk
    · simp at hd
    · rename_i r hkk
      refine Comp.nt hkk (avail r ?_)
      cases hr : s r <;> simp_all
    · rename_i ks hkk
      have : (minList (ks.map s)).isSome = true := by cases hm : minList (ks.map s) <;> simp_all
      obtain ⟨e, he, hes⟩ := (minList_isSome _).1 this
      obtain ⟨c, hc, rfl⟩ := List.mem_map.1 he
      exact Comp.alt hkk hc (avail c hes)
    · rename_i ks hkk
      have : (sumList (ks.map s)).isSome = true := by cases hm : sumList (ks.map s) <;> simp_all
      rw [sumList_isSome] at this
      exact Comp.cat hkk (fun c hc => avail c (this _ (List.mem_map.2 ⟨c, hc, rfl⟩)))
    · rename_i k mn hkk
      refine Comp.rep hkk (avail k ?_)
      cases hr : s k <;> simp_all

theorem sound_step {kind : α → PKind α} {s0 s s' : α → Dist} {i : α} (hs : Sound kind s0 s)
    (h : primeStep kind s i = .fin s') : Sound kind s0 s' := by
  intro a ha
  rcases primeStep_fin h with ⟨_, rfl⟩ | ⟨hk, d, _, rfl⟩
  · exact hs a ha
  · by_cases hai : a = i
    · subst hai; exact Or.inr (comp_of_fin hs hk h)
    · rw [upd_other _ _ _ hai] at ha; exact hs a ha

theorem sound_again {kind : α → PKind α} {s0 s s' : α → Dist} {i : α} (hs : Sound kind s0 s)
    (h : primeStep kind s i = .again s') : Sound kind s0 s' := by
  intro a ha
  obtain ⟨_, _, h3⟩ := primeStep_again h
  rcases h3 with rfl | ⟨_, rfl⟩
  · exact hs a ha
  · by_cases hai : a = i
    · subst hai; simp [upd_self] at ha
    · rw [upd_other _ _ _ hai] at ha; exact hs a ha

/-- **a pending node that cannot be completed keeps `prime()` in its loop for ever** -/
theorem loop_never_done {kind : α → PKind α} {s0 : α → Dist} {a : α} (hk : kind a ≠ .term)
    (hnc : ¬ Comp kind (fun c => s0 c ≠ none) a) :
    ∀ (fuel : Nat) (s : α → Dist) (wl : List α), Sound kind s0 s → a ∈ wl →
      ∀ s', primeLoop kind fuel s wl ≠ .done s'
  | _, _, [], _, ha, _ => by simp at ha
  | 0, _, _ :: _, _, _, _ => by simp [primeLoop]
  | fuel + 1, s, i :: wl, hs, ha, s' => by
    simp only [primeLoop]
    split
    · simp
    · rename_i s1 h1
      refine loop_never_done hk hnc fuel s1 _ (sound_again hs h1) ?_ s'
      rcases List.mem_cons.1 ha with rfl | ha
      · exact List.mem_append_right _ (List.mem_singleton.2 rfl)
      · exact List.mem_append_left _ ha
    · rename_i s1 h1
      rcases List.mem_cons.1 ha with rfl | ha
      · exact absurd (comp_of_fin hs hk h1) hnc
      · exact loop_never_done hk hnc fuel s1 _ (sound_step hs h1) ha s'

theorem sound_init (kind : α → PKind α) (s0 : α → Dist) : Sound kind s0 s0 := fun _ h => Or.inl h

/-! ### the values `prime()` leaves behind -/

/-- consequences of `Fin` that no longer mention the earlier look: the relations budgeted expansion
    relies on (`d` is the node's final value, `s` the final state) -/
def Rel (kind : α → PKind α) (s : α → Dist) (a : α) (d : Nat) : Prop :=
  1 ≤ d ∧
  match kind a with
  | .term => d = 1
  | .nt none => False
  | .nt (some r) => Sink kind r ∨ ∃ e, s r = some e ∧ e < d
  | .alt ks => ∃ k ∈ ks, Sink kind k ∨ ∃ e, s k = some e ∧ e < d
  | .cat ks => ∀ k ∈ ks, Sink kind k ∨ ∃ e, s k = some e ∧ e < d
  | .rep k mn => (mn = 0 ∧ d = 1) ∨ (1 ≤ mn ∧ (Sink kind k ∨ ∃ e, s k = some e ∧ e < d))

/-- a finite entry of an earlier look is final unless it belongs to a `min = 0` repetition -/
theorem view_some {kind : α → PKind α} {v s : α → Dist} (hv : View kind v s) {c : α} {e : Nat}
    (h : v c = some e) : Sink kind c ∨ s c = some e := by
  rcases hv c with h1 | h1 | ⟨_, h1⟩
  · exact Or.inr (h1 ▸ h)
  · rw [h1] at h; cases h
  · exact Or.inl h1

theorem rel_of_fin {kind : α → PKind α} {s : α → Dist} {a : α} (hk : kind a ≠ .term)
    (h : Fin kind s a) : ∃ d, s a = some d ∧ Rel kind s a d := by
  obtain ⟨v, d, hv, hd, hs⟩ := h
  refine ⟨d, hs, ?_⟩
  unfold ruleVal at hd
  unfold Rel
  split at hd
  · rename_i hkk; exact absurd hkk hk
  · simp at hd
  · rename_i r hkk
    cases hr : v r with
    | none => simp [hr] at hd
    | some e =>
      simp only [hr, Option.map_some, Option.some.injEq] at hd
      refine ⟨by omega, ?_⟩
      simp only [hkk]
      rcases view_some hv hr with h1 | h1
      · exact Or.inl h1
      · exact Or.inr ⟨e, h1, by omega⟩
  · rename_i ks hkk
    cases hm : minList (ks.map v) with
    | none => simp [hm] at hd
    | some m =>
      simp only [hm, Option.map_some, Option.some.injEq] at hd
      refine ⟨by omega, ?_⟩
      simp only [hkk]
      obtain ⟨⟨x, hx, hxe⟩, _⟩ := minList_some _ m hm
      obtain ⟨c, hc, rfl⟩ := List.mem_map.1 hx
      refine ⟨c, hc, ?_⟩
      rcases view_some hv hxe with h1 | h1
      · exact Or.inl h1
      · exact Or.inr ⟨m, h1, by omega⟩
  · rename_i ks hkk
    cases hm : sumList (ks.map v) with
    | none => simp [hm] at hd
    | some m =>
      simp only [hm, Option.map_some, Option.some.injEq] at hd
      refine ⟨by omega, ?_⟩
      simp only [hkk]
      intro c hc
      obtain ⟨e, he, hle⟩ := sumList_some _ m hm (v c) (List.mem_map.2 ⟨c, hc, rfl⟩)
      rcases view_some hv he with h1 | h1
      · exact Or.inl h1
      · exact Or.inr ⟨e, h1, by omega⟩
  · rename_i k mn hkk
    cases hr : v k with
    | none => simp [hr] at hd
    | some e =>
      simp only [hr, Option.map_some, Option.some.injEq] at hd
      refine ⟨by omega, ?_⟩
      simp only [hkk]
      cases mn with
      | zero => left; exact ⟨rfl, by omega⟩
      | succ m =>
        right
        refine ⟨by omega, ?_⟩
        rcases view_some hv hr with h1 | h1
        · exact Or.inl h1
        · refine Or.inr ⟨e, h1, ?_⟩
          have : e * (m + 1) = e * m + e := Nat.mul_succ e m
          omega

end Prime
end FV
