/-
`Grammar.prime()` on a grammar of `Model/IR.lean` (nodes = positions): the constructor state is `Fresh`,
hence the generic results of `Proofs/Prime.lean` apply; and an annotated grammar whose annotations are
what `prime()` computes (`primedB`) satisfies `WellDist` — the relations budgeted expansion relies on.
-/
import Proofs.Prime
namespace FV
namespace Prime

set_option linter.unusedSectionVars false

def isTerm : Node → Bool
  | .term _ => true
  | _ => false

/-! ### the worklist holds every non-terminal position exactly once -/

mutual
theorem mem_postOrder : ∀ (n : Node) (p q : List Nat),
    q ∈ postOrder n p ↔ ∃ r m, q = p ++ r ∧ n.sub r = some m ∧ isTerm m = false
  | .term t, p, q => by
    simp only [postOrder, List.not_mem_nil, false_iff]
    rintro ⟨r, m, _, hs, hm⟩
    cases r with
    | nil => simp only [Node.sub, Option.some.injEq] at hs; subst hs; simp [isTerm] at hm
    | cons i r => simp [Node.sub, Node.kids] at hs
  | .nt a b c, p, q => by
    simp only [postOrder, List.mem_singleton]
    constructor
    · rintro rfl; exact ⟨[], _, by simp, rfl, rfl⟩
    · rintro ⟨r, m, hq, hs, _⟩
      cases r with
      | nil => simpa using hq
      | cons i r => simp [Node.sub, Node.kids] at hs
  | .alt id ns, p, q => by
    simp only [postOrder, List.mem_append, List.mem_singleton, mem_postOrderL ns p 0 q]
    constructor
    · rintro (⟨j, c, r, m, hj, hq, hs, hm⟩ | rfl)
      · exact ⟨j :: r, m, by simpa using hq, by simp [Node.sub, Node.kids, hj, hs], hm⟩
      · exact ⟨[], _, by simp, rfl, rfl⟩
    · rintro ⟨r, m, hq, hs, hm⟩
      cases r with
      | nil => right; simpa using hq
      | cons j r =>
        left
        simp only [Node.sub, Node.kids] at hs
        split at hs
        · rename_i c hc
          exact ⟨j, c, r, m, hc, by simpa using hq, hs, hm⟩
        · simp at hs
  | .cat id ns, p, q => by
    simp only [postOrder, List.mem_append, List.mem_singleton, mem_postOrderL ns p 0 q]
    constructor
    · rintro (⟨j, c, r, m, hj, hq, hs, hm⟩ | rfl)
      · exact ⟨j :: r, m, by simpa using hq, by simp [Node.sub, Node.kids, hj, hs], hm⟩
      · exact ⟨[], _, by simp, rfl, rfl⟩
    · rintro ⟨r, m, hq, hs, hm⟩
      cases r with
      | nil => right; simpa using hq
      | cons j r =>
        left
        simp only [Node.sub, Node.kids] at hs
        split at hs
        · rename_i c hc
          exact ⟨j, c, r, m, hc, by simpa using hq, hs, hm⟩
        · simp at hs
  | .rep id k n mn mx, p, q => by
    simp only [postOrder, List.mem_append, List.mem_singleton, mem_postOrder n (p ++ [0]) q]
    constructor
    · rintro (⟨r, m, hq, hs, hm⟩ | rfl)
      · exact ⟨0 :: r, m, by simpa using hq, by simp [Node.sub, Node.kids, hs], hm⟩
      · exact ⟨[], _, by simp, rfl, rfl⟩
    · rintro ⟨r, m, hq, hs, hm⟩
      cases r with
      | nil => right; simpa using hq
      | cons j r =>
        left
        simp only [Node.sub, Node.kids] at hs
        split at hs
        · rename_i c hc
          cases j with
          | zero =>
            simp only [List.getElem?_cons_zero, Option.some.injEq] at hc
            subst hc
            exact ⟨r, m, by simpa using hq, hs, hm⟩
          | succ j => simp at hc
        · simp at hs
theorem mem_postOrderL : ∀ (ns : List Node) (p : List Nat) (i : Nat) (q : List Nat),
    q ∈ postOrderL ns p i ↔
      ∃ j c r m, ns[j]? = some c ∧ q = p ++ (i + j) :: r ∧ c.sub r = some m ∧ isTerm m = false
  | [], p, i, q => by simp [postOrderL]
  | n :: ns, p, i, q => by
    simp only [postOrderL, List.mem_append, mem_postOrder n (p ++ [i]) q, mem_postOrderL ns p (i + 1) q]
    constructor
    · rintro (⟨r, m, hq, hs, hm⟩ | ⟨j, c, r, m, hj, hq, hs, hm⟩)
      · exact ⟨0, n, r, m, rfl, by simpa using hq, hs, hm⟩
      · exact ⟨j + 1, c, r, m, by simpa using hj, by rw [hq]; congr 2; omega, hs, hm⟩
    · rintro ⟨j, c, r, m, hj, hq, hs, hm⟩
      cases j with
      | zero =>
        simp only [List.getElem?_cons_zero, Option.some.injEq] at hj
        subst hj
        left; exact ⟨r, m, by simpa using hq, hs, hm⟩
      | succ j =>
        right
        exact ⟨j, c, r, m, by simpa using hj, by rw [hq]; congr 2; omega, hs, hm⟩
end

theorem prefix_of_mem_postOrder {n : Node} {p q : List Nat} (h : q ∈ postOrder n p) : ∃ r, q = p ++ r := by
  obtain ⟨r, _, hq, _, _⟩ := (mem_postOrder n p q).1 h
  exact ⟨r, hq⟩

theorem ne_self_append_cons (p : List Nat) (j : Nat) (r : List Nat) : p ++ j :: r ≠ p := by
  intro h
  have := congrArg List.length h
  simp at this

mutual
theorem nodup_postOrder : ∀ (n : Node) (p : List Nat), (postOrder n p).Nodup
  | .term _, _ => by simp [postOrder]
  | .nt _ _ _, _ => by simp [postOrder]
  | .alt _ ns, p => by
    simp only [postOrder]
    rw [List.nodup_append]
    refine ⟨nodup_postOrderL ns p 0, by simp, ?_⟩
    intro a ha b hb
    rw [List.mem_singleton.1 hb]
    obtain ⟨j, _, r, _, _, hq, _, _⟩ := (mem_postOrderL ns p 0 a).1 ha
    rw [hq]; exact ne_self_append_cons _ _ _
  | .cat _ ns, p => by
    simp only [postOrder]
    rw [List.nodup_append]
    refine ⟨nodup_postOrderL ns p 0, by simp, ?_⟩
    intro a ha b hb
    rw [List.mem_singleton.1 hb]
    obtain ⟨j, _, r, _, _, hq, _, _⟩ := (mem_postOrderL ns p 0 a).1 ha
    rw [hq]; exact ne_self_append_cons _ _ _
  | .rep _ _ n _ _, p => by
    simp only [postOrder]
    rw [List.nodup_append]
    refine ⟨nodup_postOrder n (p ++ [0]), by simp, ?_⟩
    intro a ha b hb
    rw [List.mem_singleton.1 hb]
    obtain ⟨r, hq⟩ := prefix_of_mem_postOrder ha
    rw [hq, List.append_assoc]; exact ne_self_append_cons _ _ _
theorem nodup_postOrderL : ∀ (ns : List Node) (p : List Nat) (i : Nat), (postOrderL ns p i).Nodup
  | [], _, _ => by simp [postOrderL]
  | n :: ns, p, i => by
    simp only [postOrderL]
    rw [List.nodup_append]
    refine ⟨nodup_postOrder n (p ++ [i]), nodup_postOrderL ns p (i + 1), ?_⟩
    intro a ha b hb
    obtain ⟨r, hq⟩ := prefix_of_mem_postOrder ha
    obtain ⟨j, _, r', _, _, hq', _, _⟩ := (mem_postOrderL ns p (i + 1) b).1 hb
    rw [hq, hq', List.append_assoc]
    intro h
    have := List.append_cancel_left h
    simp only [List.cons_append, List.nil_append, List.cons.injEq] at this
    omega
end

theorem mem_worklistFrom : ∀ (rs : List (String × Node)) (k : Nat) (a : Pos),
    a ∈ worklistFrom rs k ↔ ∃ j r, rs[j]? = some r ∧ a.1 = k + j ∧ a.2 ∈ postOrder r.2 []
  | [], k, a => by simp [worklistFrom]
  | r :: rs, k, a => by
    simp only [worklistFrom, List.mem_append, List.mem_map, mem_worklistFrom rs (k + 1) a]
    constructor
    · rintro (⟨q, hq, rfl⟩ | ⟨j, r', hj, h1, h2⟩)
      · exact ⟨0, r, rfl, rfl, hq⟩
      · exact ⟨j + 1, r', by simpa using hj, by omega, h2⟩
    · rintro ⟨j, r', hj, h1, h2⟩
      cases j with
      | zero =>
        simp only [List.getElem?_cons_zero, Option.some.injEq] at hj
        subst hj
        left; exact ⟨a.2, h2, by cases a; simp_all⟩
      | succ j => right; exact ⟨j, r', by simpa using hj, by omega, h2⟩

theorem nodup_map_pair (k : Nat) : ∀ (l : List (List Nat)), l.Nodup → (l.map (fun p => ((k, p) : Pos))).Nodup
  | [], _ => by simp
  | x :: l, h => by
    have h' := List.nodup_cons.1 h
    simp only [List.map_cons, List.nodup_cons, List.mem_map, not_exists, not_and]
    refine ⟨?_, nodup_map_pair k l h'.2⟩
    intro y hy heq
    simp only [Prod.mk.injEq, true_and] at heq
    subst heq
    exact h'.1 hy

theorem nodup_worklistFrom : ∀ (rs : List (String × Node)) (k : Nat), (worklistFrom rs k).Nodup
  | [], _ => by simp [worklistFrom]
  | r :: rs, k => by
    simp only [worklistFrom]
    rw [List.nodup_append]
    refine ⟨nodup_map_pair k _ (nodup_postOrder r.2 []), nodup_worklistFrom rs (k + 1), ?_⟩
    intro a ha b hb
    obtain ⟨q, _, rfl⟩ := List.mem_map.1 ha
    obtain ⟨j, _, _, h1, _⟩ := (mem_worklistFrom rs (k + 1) b).1 hb
    intro h
    rw [← h] at h1
    simp at h1
    omega

theorem kindAt_nonterm {G : Grammar} {p : Pos} :
    kindAt G p ≠ .term ↔ ∃ n, G.nodeAt p = some n ∧ isTerm n = false := by
  unfold kindAt
  split
  · rename_i h; simp [h]
  · rename_i t h; simp [h, isTerm]
  · rename_i a b c h; simp [h, isTerm]
  · rename_i a ns h; simp [h, isTerm]
  · rename_i a ns h; simp [h, isTerm]
  · rename_i a k n mn mx h; simp [h, isTerm]

theorem mem_worklist {G : Grammar} {p : Pos} : p ∈ worklist G ↔ kindAt G p ≠ .term := by
  rw [kindAt_nonterm]
  unfold worklist
  rw [mem_worklistFrom]
  unfold Grammar.nodeAt
  constructor
  · rintro ⟨j, r, hj, h1, h2⟩
    obtain ⟨q, m, hq, hs, hm⟩ := (mem_postOrder r.2 [] p.2).1 h2
    have : p.1 = j := by omega
    rw [this, hj]
    simp only [List.nil_append] at hq
    subst hq
    exact ⟨m, hs, hm⟩
  · rintro ⟨n, hn, hm⟩
    split at hn
    · rename_i r hr
      exact ⟨p.1, r, hr, by omega, (mem_postOrder r.2 [] p.2).2 ⟨p.2, n, by simp, hn, hm⟩⟩
    · simp at hn

/-! ### `Star` / `Option` have `min = 0` -/

mutual
theorem repWF_sub : ∀ (n : Node) (r : List Nat) (m : Node), n.repWF = true → n.sub r = some m → m.repWF = true
  | n, [], m, h, hs => by simp only [Node.sub, Option.some.injEq] at hs; subst hs; exact h
  | .term _, _ :: _, m, _, hs => by simp [Node.sub, Node.kids] at hs
  | .nt _ _ _, _ :: _, m, _, hs => by simp [Node.sub, Node.kids] at hs
  | .alt _ ns, i :: r, m, h, hs => by
    simp only [Node.sub, Node.kids] at hs
    split at hs
    · rename_i c hc
      simp only [Node.repWF] at h
      exact repWFL_sub ns i c r m h hc hs
    · simp at hs
  | .cat _ ns, i :: r, m, h, hs => by
    simp only [Node.sub, Node.kids] at hs
    split at hs
    · rename_i c hc
      simp only [Node.repWF] at h
      exact repWFL_sub ns i c r m h hc hs
    · simp at hs
  | .rep _ _ n _ _, i :: r, m, h, hs => by
    simp only [Node.sub, Node.kids] at hs
    split at hs
    · rename_i c hc
      cases i with
      | zero =>
        simp only [List.getElem?_cons_zero, Option.some.injEq] at hc
        subst hc
        simp only [Node.repWF, Bool.and_eq_true] at h
        exact repWF_sub _ r m h.2 hs
      | succ i => simp at hc
    · simp at hs
theorem repWFL_sub : ∀ (ns : List Node) (i : Nat) (c : Node) (r : List Nat) (m : Node),
    Node.repWFL ns = true → ns[i]? = some c → c.sub r = some m → m.repWF = true
  | [], _, _, _, _, _, hc, _ => by simp at hc
  | n :: ns, 0, c, r, m, h, hc, hs => by
    simp only [List.getElem?_cons_zero, Option.some.injEq] at hc
    subst hc
    simp only [Node.repWFL, Bool.and_eq_true] at h
    exact repWF_sub _ r m h.1 hs
  | n :: ns, i + 1, c, r, m, h, hc, hs => by
    simp only [Node.repWFL, Bool.and_eq_true] at h
    exact repWFL_sub ns i c r m h.2 (by simpa using hc) hs
end

theorem repWF_nodeAt {G : Grammar} (h : G.repWF = true) {p : Pos} {n : Node} (hn : G.nodeAt p = some n) :
    n.repWF = true := by
  unfold Grammar.nodeAt at hn
  split at hn
  · rename_i r hr
    have hm : r ∈ G.rules := List.mem_of_getElem? hr
    have := (List.all_eq_true.1 h) r hm
    exact repWF_sub _ _ _ this hn
  · simp at hn

/-- **the state the constructors leave behind is `Fresh`** -/
theorem fresh_grammar (G : Grammar) (h : G.repWF = true) : Fresh (kindAt G) (initAt G) (worklist G) :=
  { term := by
      intro p hp
      unfold kindAt at hp
      unfold initAt
      split at hp
      · rename_i hn; simp [hn]
      · rename_i t hn; simp [hn, initOf]
      all_goals simp at hp
    other := by
      intro p hp
      obtain ⟨n, hn, hm⟩ := kindAt_nonterm.1 hp
      have hwf := repWF_nodeAt h hn
      unfold initAt
      simp only [hn]
      cases n with
      | term t => simp [isTerm] at hm
      | nt a b c => left; rfl
      | alt a ns => left; rfl
      | cat a ns => left; rfl
      | rep a k n mn mx =>
        simp only [Node.repWF, Bool.and_eq_true, Bool.or_eq_true, beq_iff_eq] at hwf
        cases k with
        | braces => left; rfl
        | plus => left; rfl
        | star =>
          right
          refine ⟨rfl, ?_⟩
          have : mn = 0 := by
            rcases hwf.1 with (h1 | h1) | h1
            · cases h1
            · cases h1
            · exact h1
          subst this
          exact ⟨(p.1, p.2 ++ [0]), by simp [kindAt, hn]⟩
        | opt =>
          right
          refine ⟨rfl, ?_⟩
          have : mn = 0 := by
            rcases hwf.1 with (h1 | h1) | h1
            · cases h1
            · cases h1
            · exact h1
          subst this
          exact ⟨(p.1, p.2 ++ [0]), by simp [kindAt, hn]⟩
    nodup := nodup_worklistFrom _ _
    nterm := fun p hp => mem_worklist.1 hp
    all := fun p hp => mem_worklist.2 hp }

/-! ### annotated grammars -/

theorem eraseL_getElem? : ∀ (ns : List FNode) (i : Nat), (FNode.eraseL ns)[i]? = (ns[i]?).map FNode.erase
  | [], i => by simp [FNode.eraseL]
  | n :: ns, 0 => by simp [FNode.eraseL]
  | n :: ns, i + 1 => by simp [FNode.eraseL, eraseL_getElem? ns i]

theorem erase_kids (n : FNode) : n.erase.kids = FNode.eraseL n.kids := by
  cases n <;> simp [FNode.erase, Node.kids, FNode.kids, FNode.eraseL]

theorem erase_sub : ∀ (r : List Nat) (n : FNode), n.erase.sub r = (n.sub r).map FNode.erase
  | [], n => by simp [Node.sub, FNode.sub]
  | i :: r, n => by
    simp only [Node.sub, FNode.sub, erase_kids, eraseL_getElem?]
    cases h : n.kids[i]? with
    | none => simp
    | some c => simp [erase_sub r c]

theorem erase_nodeAt (G : FGrammar) (p : Pos) : G.erase.nodeAt p = (G.nodeAt p).map FNode.erase := by
  unfold Grammar.nodeAt FGrammar.nodeAt FGrammar.erase
  simp only [List.getElem?_map]
  cases h : G.rules[p.1]? with
  | none => simp
  | some r => simp [erase_sub]

theorem sub_snoc : ∀ (p : List Nat) (n m c : FNode) (j : Nat), n.sub p = some m → m.kids[j]? = some c →
    n.sub (p ++ [j]) = some c
  | [], n, m, c, j, h, hc => by
    simp only [FNode.sub, Option.some.injEq] at h
    subst h
    simp [FNode.sub, hc]
  | i :: p, n, m, c, j, h, hc => by
    simp only [FNode.sub, List.cons_append] at h ⊢
    split at h
    · rename_i x hx
      exact sub_snoc p x m c j h hc
    · simp at h

theorem nodeAt_kid {G : FGrammar} {k : Nat} {p : List Nat} {n c : FNode} {j : Nat}
    (h : G.nodeAt (k, p) = some n) (hc : n.kids[j]? = some c) : G.nodeAt (k, p ++ [j]) = some c := by
  unfold FGrammar.nodeAt at h ⊢
  simp only at h ⊢
  split at h
  · rename_i r hr
    exact sub_snoc p _ n c j h hc
  · simp at h

mutual
theorem agreesN_sub (s : Pos → Dist) (k : Nat) : ∀ (n : FNode) (p r : List Nat) (m : FNode),
    agreesN s k n p = true → n.sub r = some m → s (k, p ++ r) = some m.dist
  | .term t d key, p, r, m, h, hs => by
    cases r with
    | nil =>
      simp only [FNode.sub, Option.some.injEq] at hs; subst hs
      simpa [agreesN, FNode.dist] using h
    | cons i r => simp [FNode.sub, FNode.kids] at hs
  | .nt a b c d, p, r, m, h, hs => by
    cases r with
    | nil =>
      simp only [FNode.sub, Option.some.injEq] at hs; subst hs
      simpa [agreesN, FNode.dist] using h
    | cons i r => simp [FNode.sub, FNode.kids] at hs
  | .alt id d ns, p, r, m, h, hs => by
    simp only [agreesN, Bool.and_eq_true, beq_iff_eq] at h
    cases r with
    | nil =>
      simp only [FNode.sub, Option.some.injEq] at hs; subst hs
      simpa [FNode.dist] using h.1
    | cons i r =>
      simp only [FNode.sub, FNode.kids] at hs
      split at hs
      · rename_i c hc
        have := agreesL_sub s k ns p 0 i c r m h.2 hc hs
        simpa using this
      · simp at hs
  | .cat id d ns, p, r, m, h, hs => by
    simp only [agreesN, Bool.and_eq_true, beq_iff_eq] at h
    cases r with
    | nil =>
      simp only [FNode.sub, Option.some.injEq] at hs; subst hs
      simpa [FNode.dist] using h.1
    | cons i r =>
      simp only [FNode.sub, FNode.kids] at hs
      split at hs
      · rename_i c hc
        have := agreesL_sub s k ns p 0 i c r m h.2 hc hs
        simpa using this
      · simp at hs
  | .rep id kd d n mn mx, p, r, m, h, hs => by
    simp only [agreesN, Bool.and_eq_true, beq_iff_eq] at h
    cases r with
    | nil =>
      simp only [FNode.sub, Option.some.injEq] at hs; subst hs
      simpa [FNode.dist] using h.1
    | cons i r =>
      simp only [FNode.sub, FNode.kids] at hs
      split at hs
      · rename_i c hc
        cases i with
        | zero =>
          simp only [List.getElem?_cons_zero, Option.some.injEq] at hc
          subst hc
          have := agreesN_sub s k _ (p ++ [0]) r m h.2 hs
          simpa using this
        | succ i => simp at hc
      · simp at hs
theorem agreesL_sub (s : Pos → Dist) (k : Nat) : ∀ (ns : List FNode) (p : List Nat) (i j : Nat) (c : FNode)
    (r : List Nat) (m : FNode), agreesL s k ns p i = true → ns[j]? = some c → c.sub r = some m →
    s (k, p ++ (i + j) :: r) = some m.dist
  | [], _, _, _, _, _, _, _, hc, _ => by simp at hc
  | n :: ns, p, i, 0, c, r, m, h, hc, hs => by
    simp only [List.getElem?_cons_zero, Option.some.injEq] at hc
    subst hc
    simp only [agreesL, Bool.and_eq_true] at h
    have := agreesN_sub s k _ (p ++ [i]) r m h.1 hs
    simpa using this
  | n :: ns, p, i, j + 1, c, r, m, h, hc, hs => by
    simp only [agreesL, Bool.and_eq_true] at h
    have := agreesL_sub s k ns p (i + 1) j c r m h.2 (by simpa using hc) hs
    have e : i + (j + 1) = i + 1 + j := by omega
    rw [e]; exact this
end

theorem agreesFrom_nodeAt (s : Pos → Dist) : ∀ (rs : List (String × FNode)) (k0 j : Nat) (r : String × FNode)
    (q : List Nat) (m : FNode), agreesFrom s rs k0 = true → rs[j]? = some r → r.2.sub q = some m →
    s (k0 + j, q) = some m.dist
  | [], _, _, _, _, _, _, hr, _ => by simp at hr
  | x :: rs, k0, 0, r, q, m, h, hr, hs => by
    simp only [List.getElem?_cons_zero, Option.some.injEq] at hr
    subst hr
    simp only [agreesFrom, Bool.and_eq_true] at h
    have := agreesN_sub s k0 _ [] q m h.1 hs
    simpa using this
  | x :: rs, k0, j + 1, r, q, m, h, hr, hs => by
    simp only [agreesFrom, Bool.and_eq_true] at h
    have := agreesFrom_nodeAt s rs (k0 + 1) j r q m h.2 (by simpa using hr) hs
    have e : k0 + (j + 1) = k0 + 1 + j := by omega
    rw [e]; exact this

theorem agrees_nodeAt {G : FGrammar} {s : Pos → Dist} (h : agreesFrom s G.rules 0 = true) {p : Pos} {n : FNode}
    (hn : G.nodeAt p = some n) : s p = some n.dist := by
  unfold FGrammar.nodeAt at hn
  split at hn
  · rename_i r hr
    have := agreesFrom_nodeAt s G.rules 0 p.1 r p.2 n h hr hn
    simpa using this
  · simp at hn

/-! ### from the relations at positions to `WellDist` -/

theorem foldl_min_le (f : FNode → Nat) : ∀ (ns : List FNode) (a : Nat),
    ns.foldl (fun m x => Nat.min m (f x)) a ≤ a ∧ ∀ c ∈ ns, ns.foldl (fun m x => Nat.min m (f x)) a ≤ f c
  | [], a => ⟨Nat.le_refl _, by simp⟩
  | n :: ns, a => by
    obtain ⟨h1, h2⟩ := foldl_min_le f ns (Nat.min a (f n))
    simp only [List.foldl_cons]
    refine ⟨Nat.le_trans h1 (Nat.min_le_left _ _), ?_⟩
    intro c hc
    rcases List.mem_cons.1 hc with rfl | hc
    · exact Nat.le_trans h1 (Nat.min_le_right _ _)
    · exact h2 c hc

theorem minDist_le {ns : List FNode} {c : FNode} (h : c ∈ ns) : minDist ns ≤ c.dist := by
  cases ns with
  | nil => simp at h
  | cons n ns =>
    simp only [minDist]
    obtain ⟨h1, h2⟩ := foldl_min_le FNode.dist ns n.dist
    rcases List.mem_cons.1 h with rfl | h
    · exact h1
    · exact h2 c h

theorem findIdx_find {β : Type} (f : β → Bool) : ∀ (l : List β) (k : Nat), l.findIdx? f = some k →
    ∃ x, l[k]? = some x ∧ l.find? f = some x
  | [], _, h => by simp at h
  | x :: l, k, h => by
    simp only [List.findIdx?_cons] at h
    by_cases hx : f x = true
    · simp only [hx, if_true, Option.some.injEq] at h
      subst h
      exact ⟨x, rfl, by simp [hx]⟩
    · simp only [hx, Bool.false_eq_true, if_false, Option.map_eq_some_iff] at h
      obtain ⟨k', hk', rfl⟩ := h
      obtain ⟨y, hy1, hy2⟩ := findIdx_find f l k' hk'
      exact ⟨y, by simpa using hy1, by simp [hx, hy2]⟩

theorem ruleIdx_rule {G : FGrammar} {name : String} {k : Nat} (h : G.erase.ruleIdx name = some k) :
    ∃ r, G.rules[k]? = some r ∧ G.rule name = some r.2 := by
  unfold Grammar.ruleIdx FGrammar.erase at h
  simp only [List.findIdx?_map] at h
  obtain ⟨x, hx1, hx2⟩ := findIdx_find _ _ _ h
  refine ⟨x, hx1, ?_⟩
  unfold FGrammar.rule
  have : (fun (p : String × FNode) => p.1 == name) = ((fun (p : String × Node) => p.1 == name) ∘ fun p => (p.1, p.2.erase)) := by
    funext p; rfl
  rw [this, hx2]

theorem mem_kidPos {p kp : Pos} {n : Nat} : kp ∈ kidPos p n ↔ ∃ j, j < n ∧ kp = (p.1, p.2 ++ [j]) := by
  unfold kidPos
  simp only [List.mem_map, List.mem_range]
  constructor
  · rintro ⟨j, hj, rfl⟩; exact ⟨j, hj, rfl⟩
  · rintro ⟨j, hj, rfl⟩; exact ⟨j, hj, rfl⟩

theorem eraseL_length : ∀ (ns : List FNode), (FNode.eraseL ns).length = ns.length
  | [] => rfl
  | _ :: ns => by simp [FNode.eraseL, eraseL_length ns]

section
variable (G : FGrammar) (s : Pos → Dist)

/-- a node reached by an edge of `Rel`: its final value is at most the parent's -/
theorem child_le (hag : ∀ p n, G.nodeAt p = some n → s p = some n.dist)
    (hrel : ∀ p, kindAt G.erase p ≠ .term → ∃ d, s p = some d ∧ Rel (kindAt G.erase) s p d)
    {kp : Pos} {c : FNode} {d : Nat} (hc : G.nodeAt kp = some c) (hd : 1 ≤ d)
    (h : Sink (kindAt G.erase) kp ∨ ∃ e, s kp = some e ∧ e < d) : c.dist ≤ d := by
  rcases h with ⟨k, hk⟩ | ⟨e, he, hlt⟩
  · -- a `min = 0` repetition ends with the value 1
    have hnt : kindAt G.erase kp ≠ .term := by rw [hk]; simp
    obtain ⟨d', hd', _, hr⟩ := hrel kp hnt
    rw [hk] at hr
    simp only at hr
    rw [hag kp c hc, Option.some.injEq] at hd'
    rcases hr with ⟨_, h1⟩ | ⟨h1, _⟩
    · omega
    · omega
  · rw [hag kp c hc, Option.some.injEq] at he
    omega

theorem sink_isSink {kp : Pos} {c : FNode} (hc : G.nodeAt kp = some c) (h : Sink (kindAt G.erase) kp) :
    c.isSink = true := by
  obtain ⟨k, hk⟩ := h
  unfold kindAt at hk
  rw [erase_nodeAt, hc] at hk
  cases c <;> simp [FNode.erase] at hk
  rename_i id kd d n mn mx
  simp [FNode.isSink, hk.2]

mutual
theorem wd_node (hag : ∀ p n, G.nodeAt p = some n → s p = some n.dist)
    (hrel : ∀ p, kindAt G.erase p ≠ .term → ∃ d, s p = some d ∧ Rel (kindAt G.erase) s p d) :
    ∀ (n : FNode) (k : Nat) (p : List Nat), G.nodeAt (k, p) = some n → WD G n
  | .term t d key, _, _, _ => by simp [WD]
  | .nt name a b d, k, p, hn => by
    have hnt : kindAt G.erase (k, p) ≠ .term := by simp [kindAt, erase_nodeAt, hn, FNode.erase]
    obtain ⟨d', hd', h1, hr⟩ := hrel (k, p) hnt
    rw [hag _ _ hn, Option.some.injEq] at hd'
    simp only [FNode.dist] at hd'
    subst hd'
    have hk : kindAt G.erase (k, p) = .nt ((G.erase.ruleIdx name).map (fun k => (k, []))) := by
      simp [kindAt, erase_nodeAt, hn, FNode.erase]
    rw [hk] at hr
    cases hi : G.erase.ruleIdx name with
    | none => simp [hi] at hr
    | some k' =>
      simp only [hi, Option.map_some] at hr
      obtain ⟨r, hr1, hr2⟩ := ruleIdx_rule hi
      have hroot : G.nodeAt (k', []) = some r.2 := by simp [FGrammar.nodeAt, hr1, FNode.sub]
      simp only [WD]
      refine ⟨h1, r.2, hr2, ?_⟩
      rcases hr with hs | ⟨e, he, hlt⟩
      · exact Or.inl (sink_isSink G hroot hs)
      · rw [hag _ _ hroot, Option.some.injEq] at he
        right; omega
  | .alt id d ns, k, p, hn => by
    have hnt : kindAt G.erase (k, p) ≠ .term := by simp [kindAt, erase_nodeAt, hn, FNode.erase]
    obtain ⟨d', hd', h1, hr⟩ := hrel (k, p) hnt
    rw [hag _ _ hn, Option.some.injEq] at hd'
    simp only [FNode.dist] at hd'
    subst hd'
    have hk : kindAt G.erase (k, p) = .alt (kidPos (k, p) ns.length) := by
      simp [kindAt, erase_nodeAt, hn, FNode.erase, eraseL_length]
    rw [hk] at hr
    simp only at hr
    obtain ⟨kp, hkp, hrk⟩ := hr
    obtain ⟨j, hj, rfl⟩ := mem_kidPos.1 hkp
    have hcj : (FNode.alt id d ns).kids[j]? = some ns[j] := by simp [FNode.kids, hj]
    have hc := nodeAt_kid hn hcj
    have hle := child_le G s hag hrel hc h1 hrk
    simp only [WD]
    refine ⟨by intro h0; subst h0; simp at hj, Nat.le_trans (minDist_le (List.getElem_mem hj)) hle, ?_⟩
    exact wd_list hag hrel ns k p 0 (fun j c hjc => nodeAt_kid hn (by simpa [FNode.kids] using hjc))
  | .cat id d ns, k, p, hn => by
    have hnt : kindAt G.erase (k, p) ≠ .term := by simp [kindAt, erase_nodeAt, hn, FNode.erase]
    obtain ⟨d', hd', h1, hr⟩ := hrel (k, p) hnt
    rw [hag _ _ hn, Option.some.injEq] at hd'
    simp only [FNode.dist] at hd'
    subst hd'
    have hk : kindAt G.erase (k, p) = .cat (kidPos (k, p) ns.length) := by
      simp [kindAt, erase_nodeAt, hn, FNode.erase, eraseL_length]
    rw [hk] at hr
    simp only at hr
    simp only [WD]
    refine ⟨?_, wd_list hag hrel ns k p 0 (fun j c hjc => nodeAt_kid hn (by simpa [FNode.kids] using hjc))⟩
    intro c hc
    obtain ⟨j, hj, hjc⟩ := List.getElem_of_mem hc
    have hcj : (FNode.cat id d ns).kids[j]? = some c := by simp [FNode.kids, hj, hjc]
    exact child_le G s hag hrel (nodeAt_kid hn hcj) h1 (hr _ (mem_kidPos.2 ⟨j, hj, rfl⟩))
  | .rep id kd d n mn mx, k, p, hn => by
    have hnt : kindAt G.erase (k, p) ≠ .term := by simp [kindAt, erase_nodeAt, hn, FNode.erase]
    obtain ⟨d', hd', h1, hr⟩ := hrel (k, p) hnt
    rw [hag _ _ hn, Option.some.injEq] at hd'
    simp only [FNode.dist] at hd'
    subst hd'
    have hk : kindAt G.erase (k, p) = .rep (k, p ++ [0]) mn := by
      simp [kindAt, erase_nodeAt, hn, FNode.erase]
    rw [hk] at hr
    simp only at hr
    have hcj : (FNode.rep id kd d n mn mx).kids[0]? = some n := by simp [FNode.kids]
    have hc := nodeAt_kid hn hcj
    simp only [WD]
    refine ⟨?_, wd_node hag hrel n k (p ++ [0]) hc⟩
    intro hmn
    rcases hr with ⟨h0, _⟩ | ⟨_, h2⟩
    · omega
    · exact child_le G s hag hrel hc h1 h2
theorem wd_list (hag : ∀ p n, G.nodeAt p = some n → s p = some n.dist)
    (hrel : ∀ p, kindAt G.erase p ≠ .term → ∃ d, s p = some d ∧ Rel (kindAt G.erase) s p d) :
    ∀ (ns : List FNode) (k : Nat) (p : List Nat) (i : Nat),
    (∀ j c, ns[j]? = some c → G.nodeAt (k, p ++ [i + j]) = some c) → WDL G ns
  | [], _, _, _, _ => by simp [WDL]
  | n :: ns, k, p, i, h => by
    simp only [WDL]
    refine ⟨wd_node hag hrel n k (p ++ [i]) (by simpa using h 0 n rfl), wd_list hag hrel ns k p (i + 1) ?_⟩
    intro j c hjc
    have := h (j + 1) c (by simpa using hjc)
    have e : i + (j + 1) = i + 1 + j := by omega
    rw [e] at this; exact this
end

end

/-- **the distances `prime()` computes on fresh nodes satisfy `WellDist`** -/
theorem wellDist_of_primed (G : FGrammar) (h : primedB G = true) : WellDist G := by
  unfold primedB at h
  simp only [Bool.and_eq_true] at h
  obtain ⟨hwf, h⟩ := h
  split at h
  · rename_i s hs
    have hfresh := fresh_grammar G.erase hwf
    have hinv := loop_inv _ _ _ _ hfresh.inv hs
    have hrel : ∀ p, kindAt G.erase p ≠ .term → ∃ d, s p = some d ∧ Rel (kindAt G.erase) s p d :=
      fun p hp => rel_of_fin hp (hinv.fin p hp (by simp))
    have hag : ∀ p n, G.nodeAt p = some n → s p = some n.dist := fun p n hn => agrees_nodeAt h hn
    intro r hr
    obtain ⟨k, hk, hkr⟩ := List.getElem_of_mem hr
    have hroot : G.nodeAt (k, []) = some r.2 := by
      simp [FGrammar.nodeAt, List.getElem?_eq_getElem hk, hkr, FNode.sub]
    exact wd_node G s hag hrel r.2 k [] hroot
  · simp at h

end Prime
end FV
