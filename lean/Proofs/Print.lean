/-
Lemmas for `Model/Print.lean`: the reader run over the printed tokens (`run_print`), the language
of the normal form (`norm_matches`), the postfix discipline (`postfixOk_print`).
-/
import Model.Print
import Proofs.IR
import Proofs.PrintSearch
namespace FV

/-! ### expressions: `readE ∘ printE = normE` -/

theorem readEAux_sel (ts : List PS.STok) : ∀ (cur : List PS.STok) (rest : List ETok),
    readEAux cur (ts.map .s ++ rest) = readEAux (cur ++ ts) rest := by
  induction ts with
  | nil => intro cur rest; simp
  | cons t ts ih =>
    intro cur rest
    simp only [List.map_cons, List.cons_append, readEAux]
    rw [ih]; simp

theorem printTop_ne_nil (t : PS.Top) : PS.printTop true t ≠ [] := by
  cases t with
  | plain s =>
    have := PS.printSel_starts true s
    intro e; simp only [PS.printTop] at e; rw [e] at this; simp [PS.startsSel] at this
  | star s => simp [PS.printTop]
  | lenBar s => simp [PS.printTop]
  | lenStar s => simp [PS.printTop]

theorem flushE_printTop (t : PS.Top) (h : PS.wfTop t = true) :
    flushE (PS.printTop true t) = some [.sel (PS.normTop t)] := by
  have hne := printTop_ne_nil t
  simp [flushE, hne, PS.readTop_printTop t h]

theorem readE_printE : ∀ e : Expr, wfE e = true → readE (printE true e) = some (normE e)
  | [], _ => by simp [readE, printE, readEAux, flushE, normE]
  | .code c :: r, h => by
    have ih := readE_printE r (by simpa [wfE] using h)
    simp only [readE] at ih
    simp [readE, printE, readEAux, flushE, ih, normE]
  | [.sel t], h => by
    have ht : PS.wfTop t = true := by simpa [wfE] using h
    simp only [readE, printE, List.append_nil]
    have := readEAux_sel (PS.printTop true t) [] []
    simp only [List.append_nil, List.nil_append] at this
    rw [this]
    simp [readEAux, flushE_printTop t ht, normE]
  | .sel t :: .code c :: r, h => by
    simp only [wfE, Bool.and_eq_true] at h
    have ih := readE_printE (.code c :: r) h.2
    simp only [readE] at ih
    simp only [readE, printE]
    rw [readEAux_sel]
    simp only [List.nil_append]
    simp only [printE] at ih
    simp only [readEAux, flushE_printTop t h.1]
    simp only [readEAux, flushE, List.isEmpty_nil, if_true] at ih
    cases hr : readEAux [] (printE true r) with
    | none => rw [hr] at ih; simp at ih
    | some b =>
      rw [hr] at ih
      simp only [List.nil_append, Option.some.injEq] at ih
      have hb : b = normE r := by simpa [normE] using ih
      simp [normE, hb]
  | .sel _ :: .sel _ :: _, h => by simp [wfE] at h

theorem printE_normE : ∀ e : Expr, printE true (normE e) = printE true e
  | [] => rfl
  | .code c :: r => by simp [normE, printE, printE_normE r]
  | .sel t :: r => by
    have ht : PS.printTop true (PS.normTop t) = PS.printTop true t := by
      cases t <;> simp [PS.normTop, PS.printTop, PS.printSel_normSel]
    simp [normE, printE, printE_normE r, ht]

theorem readB_printB (b : Bound) (h : wfB b = true) : readB (printB true b) = some (normB b) := by
  cases b with
  | num n => rfl
  | expr e => simp [printB, readB, readE_printE e (by simpa [wfB] using h), normB]

theorem isExpr_normB (b : Bound) : (normB b).isExpr = b.isExpr := by cases b <;> rfl

theorem cbMin_normCB (b : CB) : cbMin (normCB b) = cbMin b := by
  cases b with
  | single e => rfl
  | range lo hi => cases lo <;> rfl

theorem cbMax_normCB (b : CB) : cbMax (normCB b) = cbMax b := by
  cases b with
  | single e => rfl
  | range lo hi =>
    cases hi with
    | none => cases lo <;> rfl
    | some h => cases h <;> cases lo <;> rfl

theorem printCB_normCB (b : CB) : printCB true (normCB b) = printCB true b := by
  cases b with
  | single e => simp [normCB, printCB, printE_normE]
  | range lo hi =>
    have hb : ∀ x : Bound, printB true (normB x) = printB true x := by
      intro x; cases x <;> simp [normB, printB, printE_normE]
    cases hi with
    | none => simp [normCB, printCB, hb]
    | some h => simp [normCB, printCB, hb]

/-- the brace group of a computed repetition, read back -/
theorem mkRep_repC (cap : Nat) (b : CB) (x : ENode) (h : wfCB cap b = true) :
    mkRep cap (.repC (printCB true b)) x = some (.crep "" x (normCB b)) := by
  simp only [wfCB, Bool.and_eq_true] at h
  obtain ⟨hb, hk⟩ := h
  cases b with
  | single e =>
    have hk' : kindOk cap .braces 1 none = true := by simpa [cbMin, cbMax] using hk
    simp [printCB, mkRep, readE_printE e hb, hk', normCB]
  | range lo hi =>
    cases hi with
    | none =>
      simp only [Bool.and_eq_true] at hb
      have hl := readB_printB lo hb.2
      have he : (normB lo).isExpr = true := by rw [isExpr_normB]; exact hb.1
      have hk' : kindOk cap .braces (cbMin (.range (normB lo) none)) (cbMax (.range (normB lo) none)) = true := by
        have := cbMin_normCB (.range lo none)
        have := cbMax_normCB (.range lo none)
        simp only [normCB, Option.map_none] at *
        simp_all
      simp [printCB, mkRep, readOptB, hl, mkRange, he, hk', normCB]
    | some hi =>
      simp only [Bool.and_eq_true] at hb
      obtain ⟨⟨he, hwl⟩, hwh⟩ := hb
      have hl := readB_printB lo hwl
      have hh := readB_printB hi hwh
      have he' : ((normB lo).isExpr || (normB hi).isExpr) = true := by
        rw [isExpr_normB, isExpr_normB]; exact he
      have hk' : kindOk cap .braces (cbMin (.range (normB lo) (some (normB hi))))
          (cbMax (.range (normB lo) (some (normB hi)))) = true := by
        have := cbMin_normCB (.range lo (some hi))
        have := cbMax_normCB (.range lo (some hi))
        simp only [normCB, Option.map_some] at *
        simp_all
      simp [printCB, mkRep, readOptB, hl, hh, mkRange, he', hk', normCB]

/-! ### the reader as a fold -/

theorem run_append (cap : Nat) : ∀ (a b : List PTok) (st : RState),
    run cap st (a ++ b) = (run cap st a).bind (fun st' => run cap st' b)
  | [], b, st => by simp [run]
  | t :: a, b, st => by
    simp only [List.cons_append, run]
    cases step cap st t with
    | none => simp
    | some st' => simpa using run_append cap a b st'

theorem run_append_of (cap : Nat) {a b : List PTok} {st st' : RState}
    (h : run cap st a = some st') : run cap st (a ++ b) = run cap st' b := by
  rw [run_append, h]; rfl

/-! ### normal form: basic facts -/

theorem mkCat_items : ∀ n : ENode, mkCat (items n) = norm n
  | .term _ => rfl
  | .nt _ _ _ => rfl
  | .alt _ _ => rfl
  | .cat _ _ => rfl
  | .rep _ _ _ _ _ => rfl
  | .crep _ _ _ => rfl

theorem items_of_noncat {n : ENode} (h : ∀ id ns, n ≠ .cat id ns) : items n = [norm n] := by
  cases n with
  | term _ => rfl
  | nt _ _ _ => rfl
  | alt _ _ => rfl
  | cat id ns => exact absurd rfl (h id ns)
  | rep _ _ _ _ _ => rfl
  | crep _ _ _ => rfl

mutual
theorem items_ne_nil (cap : Nat) : ∀ n : ENode, wf cap n = true → items n ≠ []
  | .term _, _ => by simp [items]
  | .nt _ _ _, _ => by simp [items]
  | .alt _ _, _ => by simp [items]
  | .rep _ _ _ _ _, _ => by simp [items]
  | .crep _ _ _, _ => by simp [items]
  | .cat _ ns, h => by
    simp only [wf, Bool.and_eq_true, Bool.not_eq_true', List.isEmpty_eq_false_iff] at h
    simp only [items]
    exact itemsL_ne_nil cap ns h.1 h.2
theorem itemsL_ne_nil (cap : Nat) : ∀ ns : List ENode, ns ≠ [] → wfL cap ns = true → itemsL ns ≠ []
  | [], h, _ => absurd rfl h
  | n :: ns, _, h => by
    simp only [wfL, Bool.and_eq_true] at h
    simp only [itemsL]
    intro he
    exact items_ne_nil cap n h.1 (List.append_eq_nil_iff.1 he).1
end

/-! ### is the latest operator a bare symbol after a node has been read? -/

mutual
def symOf (b : Bool) : ENode → Bool
  | .term _ => true
  | .nt _ _ _ => true
  | .alt _ _ => true
  | .rep _ _ _ _ _ => false
  | .crep _ _ _ => false
  | .cat _ ns => symOfL b ns
def symOfL (b : Bool) : List ENode → Bool
  | [] => b
  | n :: ns => symOfL (symOf b n) ns
end

def Frame.add (f : Frame) (is : List ENode) (b : Bool) : Frame := ⟨f.alts, is.reverse ++ f.items, b⟩

theorem closeFrame_single {is : List ENode} (h : is ≠ []) (b : Bool) :
    closeFrame (Frame.empty.add is b) = some (mkCat is) := by
  simp only [Frame.add, Frame.empty, List.append_nil, closeFrame]
  cases hr : is.reverse with
  | nil => exact absurd (List.reverse_eq_nil_iff.1 hr) h
  | cons x xs =>
    simp only [Frame.branches]
    rw [← hr, List.reverse_reverse]
    rfl

theorem mkRep_suffix (c : PrintCfg) (hc : c.openBound = true) (hS : c.starTok = .star)
    (hP : c.plusTok = .plus) (hQ : c.optTok = .quest) (cap : Nat) (k : RepKind) (mn : Nat)
    (mx : Option Nat) (x : ENode) (h : kindOk cap k mn mx = true) :
    mkRep cap (suffixTok c k mn mx) x = some (.rep "" k x mn mx) := by
  cases k <;> cases mx <;> simp [kindOk] at h
  · -- braces, open
    simp [suffixTok, hc, mkRep, h]
  · -- braces, closed
    rename_i m
    simp only [suffixTok]
    by_cases hm : mn = m
    · subst hm; simp [mkRep, h]
    · simp [hm, mkRep, h]
  · simp [suffixTok, mkRep, h, hS]
  · simp [suffixTok, mkRep, h, hP]
  · simp [suffixTok, mkRep, h, hQ]

theorem suffix_isPostfix (c : PrintCfg) (hS : c.starTok = .star) (hP : c.plusTok = .plus)
    (hQ : c.optTok = .quest) (k : RepKind) (mn : Nat) (mx : Option Nat) :
    (suffixTok c k mn mx).isPostfix = true := by
  cases k <;> cases mx <;> simp only [suffixTok, hS, hP, hQ] <;> (try split) <;> (try split) <;> rfl

/-- a postfix token applied when the latest operator is a bare symbol -/
theorem step_postfix (cap : Nat) (t : PTok) (ht : t.isPostfix = true) (f : Frame) (st : List Frame)
    (x r : ENode) (xs : List ENode) (hi : f.items = x :: xs) (hs : f.sym = true)
    (hr : mkRep cap t x = some r) :
    step cap (f, st) t = some ({ f with items := r :: xs, sym := false }, st) := by
  cases t <;> (try (simp [PTok.isPostfix] at ht; done)) <;> simp [step, hi, hs, hr]

/-! ### the reader on printed tokens -/

mutual
theorem run_print (c : PrintCfg) (hc : c.Sound) (cap : Nat) : ∀ n : ENode, wf cap n = true →
    ∀ (f : Frame) (st : List Frame),
      run cap (f, st) (print c n) = some (f.add (items n) (symOf f.sym n), st)
  | .term (.lit l), _, f, st => by simp [print, run, step, Frame.add, Frame.push, items, symOf]
  | .term (.regex i), _, f, st => by simp [print, run, step, Frame.add, Frame.push, items, symOf]
  | .nt n s r, h, f, st => by
    have : (s.isSome || (printedRecipient s r).isNone) = true := by
      cases s <;> simp [printedRecipient]
    simp [print, run, step, Frame.add, Frame.push, items, symOf, this]
  | .alt id ns, h, f, st => by
    have hc' := hc
    obtain ⟨hA, _⟩ := hc
    simp only [wf, Bool.and_eq_true, Bool.not_eq_true', List.isEmpty_eq_false_iff] at h
    obtain ⟨hne, hw⟩ := h
    cases ns with
    | nil => exact absurd rfl hne
    | cons n ns =>
      simp only [wfL, Bool.and_eq_true] at hw
      simp only [print, hA, if_true, printAlts, run, step]
      -- first branch
      have h1 := run_print c hc' cap n hw.1 Frame.empty (f :: st)
      rw [List.append_assoc, run_append_of cap h1]
      have hne1 : (Frame.empty.add (items n) (symOf Frame.empty.sym n)).items ≠ [] := by
        simp only [Frame.add, Frame.empty, List.append_nil]
        intro he
        exact items_ne_nil cap n hw.1 (List.reverse_eq_nil_iff.1 he)
      obtain ⟨g, hg, hgne, hgb⟩ := run_printAltsTail c hc' cap ns hw.2 _ (f :: st) hne1
      rw [run_append_of cap hg]
      have hcl : closeFrame g = some (mkAlt (normL (n :: ns))) := by
        simp only [closeFrame]
        cases hgi : g.items with
        | nil => exact absurd hgi hgne
        | cons y ys =>
          simp only [hgb, normL]
          congr 2
          simp only [Frame.branches, Frame.add, Frame.empty, List.append_nil, List.reverse_reverse,
            List.reverse_cons, List.reverse_nil, List.nil_append, List.cons_append, mkCat_items]
      simp only [run, step, hcl, Frame.push, Frame.add, items, symOf, List.reverse_cons,
        List.reverse_nil, List.nil_append, List.cons_append]
  | .cat id ns, h, f, st => by
    simp only [wf, Bool.and_eq_true] at h
    simp only [print, items, symOf]
    exact run_printCat c hc cap ns h.2 f st
  | .rep id k n mn mx, h, f, st => by
    have hc' := hc
    obtain ⟨hA, hC, hR, hAl, hO, hS, hP, hQ, hB⟩ := hc
    simp only [wf, Bool.and_eq_true] at h
    obtain ⟨hw, hk⟩ := h
    have hsuf := mkRep_suffix c hO hS hP hQ cap k mn mx (norm n) hk
    have hpost := suffix_isPostfix c hS hP hQ k mn mx
    simp only [print, items, symOf]
    -- the operand leaves `norm n` as the latest operator, as a bare symbol
    have hop : run cap (f, st) (if needsParen c n then .lp :: (print c n ++ [.rp]) else print c n)
        = some (f.push (norm n), st) := by
      by_cases hp : needsParen c n = true
      · simp only [hp, if_true, run, step]
        have h1 := run_print c hc' cap n hw Frame.empty (f :: st)
        rw [run_append_of cap h1]
        have := closeFrame_single (items_ne_nil cap n hw) (symOf Frame.empty.sym n)
        simp only [run, step, this, mkCat_items]
      · simp only [hp]
        have h1 := run_print c hc' cap n hw f st
        cases n with
        | term t => simpa [items, symOf, norm, Frame.add, Frame.push] using h1
        | nt a b d => simpa [items, symOf, norm, Frame.add, Frame.push] using h1
        | alt a b => simpa [items, symOf, norm, Frame.add, Frame.push] using h1
        | cat a b => simp [needsParen, hC] at hp
        | rep a b d e g => simp [needsParen, hR] at hp
        | crep a b d => simp [needsParen, hR] at hp
    rw [run_append_of cap hop]
    have := step_postfix cap _ hpost (f.push (norm n)) st (norm n) _ f.items rfl rfl hsuf
    simp only [run, this]
    simp [Frame.push, Frame.add]
  | .crep id n b, h, f, st => by
    have hc' := hc
    obtain ⟨hA, hC, hR, hAl, hO, hS, hP, hQ, hB⟩ := hc
    simp only [wf, Bool.and_eq_true] at h
    obtain ⟨hw, hk⟩ := h
    have hsuf := mkRep_repC cap b (norm n) hk
    simp only [print, items, symOf, hB]
    have hop : run cap (f, st) (if needsParen c n then .lp :: (print c n ++ [.rp]) else print c n)
        = some (f.push (norm n), st) := by
      by_cases hp : needsParen c n = true
      · simp only [hp, if_true, run, step]
        have h1 := run_print c hc' cap n hw Frame.empty (f :: st)
        rw [run_append_of cap h1]
        have := closeFrame_single (items_ne_nil cap n hw) (symOf Frame.empty.sym n)
        simp only [run, step, this, mkCat_items]
      · simp only [hp]
        have h1 := run_print c hc' cap n hw f st
        cases n with
        | term t => simpa [items, symOf, norm, Frame.add, Frame.push] using h1
        | nt a b d => simpa [items, symOf, norm, Frame.add, Frame.push] using h1
        | alt a b => simpa [items, symOf, norm, Frame.add, Frame.push] using h1
        | cat a b => simp [needsParen, hC] at hp
        | rep a b d e g => simp [needsParen, hR] at hp
        | crep a b d => simp [needsParen, hR] at hp
    rw [run_append_of cap hop]
    have := step_postfix cap _ rfl (f.push (norm n)) st (norm n) _ f.items rfl rfl hsuf
    simp only [run, this]
    simp [Frame.push, Frame.add]
theorem run_printCat (c : PrintCfg) (hc : c.Sound) (cap : Nat) : ∀ ns : List ENode,
    wfL cap ns = true → ∀ (f : Frame) (st : List Frame),
      run cap (f, st) (printCat c ns) = some (f.add (itemsL ns) (symOfL f.sym ns), st)
  | [], _, f, st => by simp [printCat, run, Frame.add, itemsL, symOfL]
  | n :: ns, h, f, st => by
    simp only [wfL, Bool.and_eq_true] at h
    have h1 := run_print c hc cap n h.1 f st
    have h2 := run_printCat c hc cap ns h.2 (f.add (items n) (symOf f.sym n)) st
    simp only [printCat]
    rw [run_append_of cap h1, h2]
    simp [Frame.add, itemsL, symOfL, List.reverse_append, List.append_assoc]
theorem run_printAltsTail (c : PrintCfg) (hc : c.Sound) (cap : Nat) : ∀ ns : List ENode,
    wfL cap ns = true → ∀ (f : Frame) (st : List Frame), f.items ≠ [] →
      ∃ g, run cap (f, st) (printAltsTail c ns) = some (g, st) ∧ g.items ≠ [] ∧
        g.branches = f.branches ++ normL ns
  | [], _, f, st, hne => ⟨f, by simp [printAltsTail, run], hne, by simp [normL]⟩
  | n :: ns, h, f, st, hne => by
    simp only [wfL, Bool.and_eq_true] at h
    cases hi : f.items with
    | nil => exact absurd hi hne
    | cons y ys =>
      let f1 : Frame := ⟨mkCat f.items.reverse :: f.alts, [], false⟩
      have hs : step cap (f, st) .bar = some (f1, st) := by simp [step, hi, f1]
      have h1 := run_print c hc cap n h.1 f1 st
      have hne2 : (f1.add (items n) (symOf f1.sym n)).items ≠ [] := by
        simp only [Frame.add, f1, List.append_nil]
        intro he
        exact items_ne_nil cap n h.1 (List.reverse_eq_nil_iff.1 he)
      obtain ⟨g, hg, hgne, hgb⟩ := run_printAltsTail c hc cap ns h.2 _ st hne2
      refine ⟨g, ?_, hgne, ?_⟩
      · simp only [printAltsTail, run, hs]
        rw [run_append_of cap h1, hg]
      · rw [hgb]
        simp only [Frame.branches, Frame.add, f1, List.append_nil, List.reverse_reverse,
          List.reverse_cons, mkCat_items, normL, List.append_assoc, List.cons_append,
          List.nil_append]
end

/-- **reading the printed form back**: the reader accepts and returns the normal form -/
theorem read_print (c : PrintCfg) (hc : c.Sound) (cap : Nat) (n : ENode) (h : wf cap n = true) :
    read cap (print c n) = some (norm n) := by
  have h1 := run_print c hc cap n h Frame.empty []
  simp only [read, h1]
  rw [closeFrame_single (items_ne_nil cap n h), mkCat_items]

/-! ### the normal form has the same language (of the grammar node: `erase`) -/

theorem eraseL_append : ∀ a b : List ENode, eraseL (a ++ b) = eraseL a ++ eraseL b
  | [], b => rfl
  | x :: a, b => by simp [eraseL, eraseL_append a b]

theorem matches_mkAlt (R : RegexOracle) (xs : List ENode) (w : List Tok) :
    Matches R (erase (mkAlt xs)) w ↔ MatchesAny R (eraseL xs) w := by
  cases xs with
  | nil => simp [mkAlt, erase, eraseL, Matches]
  | cons x xs =>
    cases xs with
    | nil => simp [mkAlt, eraseL, MatchesAny]
    | cons y ys => simp [mkAlt, erase, Matches]

theorem matchesCat_single (R : RegexOracle) (x : Node) (w : List Tok) :
    MatchesCat R [x] w ↔ Matches R x w := by
  simp only [MatchesCat]
  constructor
  · rintro ⟨w1, w2, rfl, h, rfl⟩; simpa using h
  · intro h; exact ⟨w, [], by simp, h, rfl⟩

theorem matches_mkCat (R : RegexOracle) (xs : List ENode) (w : List Tok) :
    Matches R (erase (mkCat xs)) w ↔ MatchesCat R (eraseL xs) w := by
  cases xs with
  | nil => simp [mkCat, erase, eraseL, Matches]
  | cons x xs =>
    cases xs with
    | nil => simp only [mkCat, eraseL]; exact (matchesCat_single R (erase x) w).symm
    | cons y ys => simp [mkCat, erase, Matches]

theorem matchesCat_append (R : RegexOracle) : ∀ (xs ys : List Node) (w : List Tok),
    MatchesCat R (xs ++ ys) w ↔ ∃ w1 w2, w = w1 ++ w2 ∧ MatchesCat R xs w1 ∧ MatchesCat R ys w2
  | [], ys, w => by
    simp only [List.nil_append, MatchesCat]
    constructor
    · intro h; exact ⟨[], w, rfl, rfl, h⟩
    · rintro ⟨w1, w2, rfl, rfl, h⟩; simpa using h
  | x :: xs, ys, w => by
    simp only [List.cons_append, MatchesCat]
    constructor
    · rintro ⟨u1, u2, rfl, hx, h⟩
      obtain ⟨v1, v2, rfl, h1, h2⟩ := (matchesCat_append R xs ys u2).1 h
      exact ⟨u1 ++ v1, v2, by simp, ⟨u1, v1, rfl, hx, h1⟩, h2⟩
    · rintro ⟨w1, w2, rfl, ⟨u1, v1, rfl, hx, h1⟩, h2⟩
      exact ⟨u1, v1 ++ w2, by simp, hx, (matchesCat_append R xs ys (v1 ++ w2)).2 ⟨v1, w2, rfl, h1, h2⟩⟩

theorem matches_rep_congr (R : RegexOracle) (a b : Node) (id1 id2 : String) (k1 k2 : RepKind)
    (mn : Nat) (mx : Option Nat) (h : ∀ v, Matches R a v ↔ Matches R b v) (w : List Tok) :
    Matches R (.rep id1 k1 a mn mx) w ↔ Matches R (.rep id2 k2 b mn mx) w := by
  simp only [Matches]
  constructor
  · rintro ⟨k, hk, hr⟩; exact ⟨k, hk, (repOf_congr h k w).1 hr⟩
  · rintro ⟨k, hk, hr⟩; exact ⟨k, hk, (repOf_congr h k w).2 hr⟩

mutual
theorem norm_matches (R : RegexOracle) : ∀ (n : ENode) (w : List Tok),
    Matches R (erase (norm n)) w ↔ Matches R (erase n) w
  | .term _, _ => Iff.rfl
  | .nt _ _ _, _ => by simp [norm, erase, Matches]
  | .alt _ ns, w => by
    simp only [norm, matches_mkAlt, erase, Matches]; exact normL_matches R ns w
  | .cat _ ns, w => by
    simp only [norm, matches_mkCat, erase, Matches]; exact itemsL_matches R ns w
  | .rep _ _ n mn mx, w => by
    simp only [norm, erase]
    exact matches_rep_congr R _ _ _ _ _ _ mn mx (fun v => norm_matches R n v) w
  | .crep _ n b, w => by
    simp only [norm, erase, cbMin_normCB, cbMax_normCB]
    exact matches_rep_congr R _ _ _ _ _ _ _ _ (fun v => norm_matches R n v) w
theorem normL_matches (R : RegexOracle) : ∀ (ns : List ENode) (w : List Tok),
    MatchesAny R (eraseL (normL ns)) w ↔ MatchesAny R (eraseL ns) w
  | [], _ => Iff.rfl
  | n :: ns, w => by
    simp only [normL, eraseL, MatchesAny, norm_matches R n w, normL_matches R ns w]
theorem items_matches (R : RegexOracle) : ∀ (n : ENode) (w : List Tok),
    MatchesCat R (eraseL (items n)) w ↔ Matches R (erase n) w
  | .term _, w => by simp only [items, eraseL]; exact matchesCat_single R _ w
  | .nt _ _ _, w => by
    simp only [items, eraseL]; rw [matchesCat_single]; simp [erase, Matches]
  | .alt id ns, w => by
    simp only [items, eraseL]; rw [matchesCat_single, matches_mkAlt]
    simp only [erase, Matches]; exact normL_matches R ns w
  | .cat _ ns, w => by
    simp only [items, erase, Matches]; exact itemsL_matches R ns w
  | .rep id k n mn mx, w => by
    simp only [items, eraseL]; rw [matchesCat_single]
    exact norm_matches R (.rep id k n mn mx) w
  | .crep id n b, w => by
    simp only [items, eraseL]; rw [matchesCat_single]
    exact norm_matches R (.crep id n b) w
theorem itemsL_matches (R : RegexOracle) : ∀ (ns : List ENode) (w : List Tok),
    MatchesCat R (eraseL (itemsL ns)) w ↔ MatchesCat R (eraseL ns) w
  | [], _ => Iff.rfl
  | n :: ns, w => by
    simp only [itemsL, eraseL_append, matchesCat_append, eraseL, MatchesCat]
    constructor
    · rintro ⟨w1, w2, rfl, h1, h2⟩
      exact ⟨w1, w2, rfl, (items_matches R n w1).1 h1, (itemsL_matches R ns w2).1 h2⟩
    · rintro ⟨w1, w2, rfl, h1, h2⟩
      exact ⟨w1, w2, rfl, (items_matches R n w1).2 h1, (itemsL_matches R ns w2).2 h2⟩
end

/-- a plain IR node embedded and erased is itself -/
theorem erase_embed : ∀ n : Node, erase (embed n) = n := by
  intro n
  induction n using Node.rec (motive_2 := fun ns => eraseL (embedL ns) = ns) with
  | term t => rfl
  | nt a b c => rfl
  | alt id ns ih => simp [embed, erase, ih]
  | cat id ns ih => simp [embed, erase, ih]
  | rep id k n mn mx ih => simp [embed, erase, ih]
  | nil => rfl
  | cons x xs ih1 ih2 => simp [embedL, eraseL, ih1, ih2]

/-! ### postfix operators follow an atom or a closing parenthesis -/

theorem getLast?_paren (l : List PTok) : (PTok.lp :: (l ++ [PTok.rp])).getLast? = some .rp := by
  rw [← List.cons_append, List.getLast?_append]; simp

theorem postfixOk_append : ∀ (a b : List PTok) (p : Option PTok), postfixOk p a = true →
    (∀ q, postfixOk q b = true) → postfixOk p (a ++ b) = true
  | [], b, p, _, hb => by simpa using hb p
  | t :: a, b, p, ha, hb => by
    simp only [postfixOk, Bool.and_eq_true] at ha
    simp only [List.cons_append, postfixOk, Bool.and_eq_true]
    exact ⟨ha.1, postfixOk_append a b (some t) ha.2 hb⟩

theorem postfixOk_snoc : ∀ (a : List PTok) (p : Option PTok) (t s : PTok), postfixOk p a = true →
    a.getLast? = some t → t.endsSymbol = true → postfixOk p (a ++ [s]) = true
  | [], _, _, _, _, hl, _ => by simp at hl
  | [x], p, t, s, ha, hl, ht => by
    simp only [List.getLast?_singleton, Option.some.injEq] at hl
    subst hl
    simp only [postfixOk, Bool.and_true] at ha
    simp [postfixOk, ha, ht]
  | x :: y :: a, p, t, s, ha, hl, ht => by
    simp only [postfixOk, Bool.and_eq_true] at ha
    have hl' : (y :: a).getLast? = some t := by simpa [List.getLast?_cons_cons] using hl
    have := postfixOk_snoc (y :: a) (some x) t s (by simp [postfixOk, ha.2]) hl' ht
    simp only [List.cons_append, postfixOk, Bool.and_eq_true] at this ⊢
    exact ⟨ha.1, this⟩

/-- a postfix token behind an operand printed by `_format_operand` -/
theorem postfixOk_operand (c : PrintCfg) (hc : c.Sound) (n : ENode) (s : PTok)
    (ih : ∀ p, postfixOk p (print c n) = true) (p : Option PTok) :
    postfixOk p ((if needsParen c n then .lp :: (print c n ++ [.rp]) else print c n) ++ [s]) = true := by
  obtain ⟨hA, hC, hR, hAl, hO, hS, hP, hQ, hB⟩ := hc
  by_cases hp : needsParen c n = true
  · simp only [hp, if_true]
    refine postfixOk_snoc _ p .rp _ ?_ (getLast?_paren _) rfl
    simp only [postfixOk, PTok.isPostfix]
    exact postfixOk_append _ _ _ (ih _) (fun q => by simp [postfixOk, PTok.isPostfix])
  · simp only [hp]
    cases n with
    | term t =>
      cases t with
      | lit l => exact postfixOk_snoc _ p (.lit l) _ (ih p) (by simp [print]) rfl
      | regex i => exact postfixOk_snoc _ p (.re i) _ (ih p) (by simp [print]) rfl
    | nt a b d =>
      exact postfixOk_snoc _ p (.nt a b (printedRecipient b d)) _ (ih p) (by simp [print]) rfl
    | alt a b =>
      refine postfixOk_snoc _ p .rp _ (ih p) ?_ rfl
      simp only [print, hA, if_true]
      exact getLast?_paren _
    | cat a b => simp [needsParen, hC] at hp
    | rep a b d e g => simp [needsParen, hR] at hp
    | crep a b d => simp [needsParen, hR] at hp

mutual
theorem postfixOk_print (c : PrintCfg) (hc : c.Sound) : ∀ (n : ENode) (p : Option PTok),
    postfixOk p (print c n) = true
  | .term (.lit _), p => by simp [print, postfixOk, PTok.isPostfix]
  | .term (.regex _), p => by simp [print, postfixOk, PTok.isPostfix]
  | .nt _ _ _, p => by simp [print, postfixOk, PTok.isPostfix]
  | .alt _ ns, p => by
    simp only [print, hc.1, if_true, postfixOk, PTok.isPostfix]
    exact postfixOk_append _ _ _ (postfixOk_printAlts c hc ns _)
      (fun q => by simp [postfixOk, PTok.isPostfix])
  | .cat _ ns, p => by
    simp only [print]; exact postfixOk_printCat c hc ns p
  | .rep _ k n mn mx, p => by
    simp only [print]; exact postfixOk_operand c hc n _ (postfixOk_print c hc n) p
  | .crep _ n b, p => by
    simp only [print]; exact postfixOk_operand c hc n _ (postfixOk_print c hc n) p
theorem postfixOk_printAlts (c : PrintCfg) (hc : c.Sound) : ∀ (ns : List ENode) (p : Option PTok),
    postfixOk p (printAlts c ns) = true
  | [], p => by simp [printAlts, postfixOk]
  | n :: ns, p => by
    simp only [printAlts]
    exact postfixOk_append _ _ _ (postfixOk_print c hc n p) (postfixOk_printAltsTail c hc ns)
theorem postfixOk_printAltsTail (c : PrintCfg) (hc : c.Sound) : ∀ (ns : List ENode) (p : Option PTok),
    postfixOk p (printAltsTail c ns) = true
  | [], p => by simp [printAltsTail, postfixOk]
  | n :: ns, p => by
    simp only [printAltsTail, postfixOk, PTok.isPostfix]
    exact postfixOk_append _ _ _ (postfixOk_print c hc n _) (postfixOk_printAltsTail c hc ns)
theorem postfixOk_printCat (c : PrintCfg) (hc : c.Sound) : ∀ (ns : List ENode) (p : Option PTok),
    postfixOk p (printCat c ns) = true
  | [], p => by simp [printCat, postfixOk]
  | n :: ns, p => by
    simp only [printCat]
    exact postfixOk_append _ _ _ (postfixOk_print c hc n p) (postfixOk_printCat c hc ns)
end

/-! ### printing is stable: the node read back prints as the same text -/

theorem mkCat_two (xs : List ENode) (h : 2 ≤ xs.length) : mkCat xs = .cat "" xs := by
  match xs, h with
  | _ :: _ :: _, _ => rfl

theorem mkAlt_two (xs : List ENode) (h : 2 ≤ xs.length) : mkAlt xs = .alt "" xs := by
  match xs, h with
  | _ :: _ :: _, _ => rfl

theorem normL_length : ∀ ns : List ENode, (normL ns).length = ns.length
  | [] => rfl
  | _ :: ns => by simp [normL, normL_length ns]

theorem printCat_append (c : PrintCfg) : ∀ a b : List ENode,
    printCat c (a ++ b) = printCat c a ++ printCat c b
  | [], b => by simp [printCat]
  | n :: a, b => by simp [printCat, printCat_append c a b]

mutual
theorem items_length_pos : ∀ n : ENode, shaped n = true → 1 ≤ (items n).length
  | .term _, _ => by simp [items]
  | .nt _ _ _, _ => by simp [items]
  | .alt _ _, _ => by simp [items]
  | .rep _ _ _ _ _, _ => by simp [items]
  | .crep _ _ _, _ => by simp [items]
  | .cat _ ns, h => by
    simp only [shaped, Bool.and_eq_true, decide_eq_true_eq] at h
    have := itemsL_length ns h.2
    simp only [items]; omega
theorem itemsL_length : ∀ ns : List ENode, shapedL ns = true → ns.length ≤ (itemsL ns).length
  | [], _ => by simp [itemsL]
  | n :: ns, h => by
    simp only [shapedL, Bool.and_eq_true] at h
    have h1 := items_length_pos n h.1
    have h2 := itemsL_length ns h.2
    simp only [itemsL, List.length_append, List.length_cons]; omega
end

theorem needsParen_norm (c : PrintCfg) : ∀ n : ENode, shaped n = true →
    needsParen c (norm n) = needsParen c n
  | .term _, _ => rfl
  | .nt _ _ _, _ => rfl
  | .rep _ _ _ _ _, _ => rfl
  | .crep _ _ _, _ => rfl
  | .alt _ ns, h => by
    simp only [shaped, Bool.and_eq_true, decide_eq_true_eq] at h
    simp only [norm]; rw [mkAlt_two _ (by rw [normL_length]; exact h.1)]; rfl
  | .cat _ ns, h => by
    simp only [shaped, Bool.and_eq_true, decide_eq_true_eq] at h
    have := itemsL_length ns h.2
    simp only [norm]; rw [mkCat_two _ (by omega)]; rfl

mutual
theorem print_norm (c : PrintCfg) (hB : c.parenSelBase = true) : ∀ n : ENode, shaped n = true → print c (norm n) = print c n
  | .term (.lit _), _ => rfl
  | .term (.regex _), _ => rfl
  | .nt _ s r, _ => by cases s <;> simp [norm, print, printedRecipient]
  | .alt _ ns, h => by
    simp only [shaped, Bool.and_eq_true, decide_eq_true_eq] at h
    simp only [norm]; rw [mkAlt_two _ (by rw [normL_length]; exact h.1)]
    simp only [print, printAlts_normL c hB ns h.2]
  | .cat _ ns, h => by
    simp only [shaped, Bool.and_eq_true, decide_eq_true_eq] at h
    have := itemsL_length ns h.2
    simp only [norm]; rw [mkCat_two _ (by omega)]
    simp only [print, printCat_itemsL c hB ns h.2]
  | .rep id k n mn mx, h => by
    simp only [shaped] at h
    simp only [norm, print, needsParen_norm c n h, print_norm c hB n h]
  | .crep id n b, h => by
    simp only [shaped] at h
    simp only [norm, print, needsParen_norm c n h, print_norm c hB n h, hB, printCB_normCB]
theorem printCat_items (c : PrintCfg) (hB : c.parenSelBase = true) : ∀ n : ENode, shaped n = true →
    printCat c (items n) = print c n
  | .term (.lit _), _ => by simp [items, printCat, print]
  | .term (.regex _), _ => by simp [items, printCat, print]
  | .nt _ s r, _ => by cases s <;> simp [items, printCat, print, printedRecipient]
  | .alt id ns, h => by
    have := print_norm c hB (.alt id ns) h
    simp only [norm] at this
    simp only [items, printCat, List.append_nil, this]
  | .cat _ ns, h => by
    simp only [shaped, Bool.and_eq_true] at h
    simp only [items, print, printCat_itemsL c hB ns h.2]
  | .rep id k n mn mx, h => by
    have := print_norm c hB (.rep id k n mn mx) h
    simp only [norm] at this
    simp only [items, printCat, List.append_nil, this]
  | .crep id n b, h => by
    have := print_norm c hB (.crep id n b) h
    simp only [norm] at this
    simp only [items, printCat, List.append_nil, this]
theorem printCat_itemsL (c : PrintCfg) (hB : c.parenSelBase = true) : ∀ ns : List ENode, shapedL ns = true →
    printCat c (itemsL ns) = printCat c ns
  | [], _ => rfl
  | n :: ns, h => by
    simp only [shapedL, Bool.and_eq_true] at h
    simp only [itemsL, printCat_append, printCat, printCat_items c hB n h.1, printCat_itemsL c hB ns h.2]
theorem printAlts_normL (c : PrintCfg) (hB : c.parenSelBase = true) : ∀ ns : List ENode, shapedL ns = true →
    printAlts c (normL ns) = printAlts c ns
  | [], _ => rfl
  | n :: ns, h => by
    simp only [shapedL, Bool.and_eq_true] at h
    simp only [normL, printAlts, print_norm c hB n h.1, printAltsTail_normL c hB ns h.2]
theorem printAltsTail_normL (c : PrintCfg) (hB : c.parenSelBase = true) : ∀ ns : List ENode, shapedL ns = true →
    printAltsTail c (normL ns) = printAltsTail c ns
  | [], _ => rfl
  | n :: ns, h => by
    simp only [shapedL, Bool.and_eq_true] at h
    simp only [normL, printAltsTail, print_norm c hB n h.1, printAltsTail_normL c hB ns h.2]
end

/-! ### productions and grammars -/

theorem readRule_printRule (c : PrintCfg) (hc : c.Sound) (cap : Nat) (r : Rule)
    (h : wfRule cap r = true) : readRule cap (printRule c r) = some (normRule r) := by
  obtain ⟨name, rhs, gen⟩ := r
  have hB : c.parenSelBase = true := hc.2.2.2.2.2.2.2.2
  simp only [wfRule, Bool.and_eq_true] at h
  cases gen with
  | none => simp [readRule, printRule, read_print c hc cap rhs h.1, normRule]
  | some g =>
    simp [readRule, printRule, read_print c hc cap rhs h.1, hB, readE_printE g h.2, normRule]

theorem setRule_fresh (r : Rule) : ∀ acc : List Rule, (∀ x ∈ acc, x.name ≠ r.name) →
    setRule r acc = acc ++ [r]
  | [], _ => rfl
  | x :: xs, h => by
    have hx : x.name ≠ r.name := h x (by simp)
    simp [setRule, hx, setRule_fresh r xs (fun y hy => h y (by simp [hy]))]

theorem readGAux_printG (c : PrintCfg) (hc : c.Sound) (cap : Nat) : ∀ (rs acc : List Rule),
    wfG cap rs = true → (∀ x ∈ acc, ∀ r ∈ rs, x.name ≠ r.name) →
    readGAux cap acc (printG c rs) = some (acc ++ normG rs)
  | [], acc, _, _ => by simp [printG, readGAux, normG]
  | r :: rs, acc, h, hd => by
    simp only [wfG, Bool.and_eq_true, List.all_eq_true, bne_iff_ne, ne_eq] at h
    obtain ⟨⟨hr, hn⟩, hrs⟩ := h
    simp only [printG, readGAux, readRule_printRule c hc cap r hr]
    have hf : setRule (normRule r) acc = acc ++ [normRule r] :=
      setRule_fresh _ acc (fun x hx => by simpa [normRule] using hd x hx r (by simp))
    rw [hf, readGAux_printG c hc cap rs (acc ++ [normRule r]) hrs]
    · simp [normG]
    · intro x hx y hy
      rcases List.mem_append.1 hx with hx | hx
      · exact hd x hx y (by simp [hy])
      · simp only [List.mem_singleton] at hx; subst hx
        simpa [normRule] using fun e => hn y hy e.symm

theorem readG_printG (c : PrintCfg) (hc : c.Sound) (cap : Nat) (rs : List Rule)
    (h : wfG cap rs = true) : readG cap (printG c rs) = some (normG rs) := by
  have := readGAux_printG c hc cap rs [] h (by simp)
  simpa [readG] using this

end FV
