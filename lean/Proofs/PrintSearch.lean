/-
Lemmas for `Model/PrintSearch.lean`: the selector reader run over the printed tokens
(`runS_printSel`), `readSel ∘ printSel = normSel`, `readTop ∘ printTop = normTop`, and the normal
form (`flat`, fixed points).
-/
import Model.PrintSearch
namespace FV.PS

/-! ### the reader as a fold -/

theorem runS_append : ∀ (a b : List STok) (st : SState),
    runS st (a ++ b) = (runS st a).bind (fun st' => runS st' b)
  | [], b, st => by simp [runS]
  | t :: a, b, st => by
    simp only [List.cons_append, runS]
    cases stepS st t with
    | none => simp
    | some st' => simpa using runS_append a b st'

theorem runS_append_of {a b : List STok} {st st' : SState}
    (h : runS st a = some st') : runS st (a ++ b) = runS st' b := by
  rw [runS_append, h]; rfl

theorem runS_cons {st st' : SState} {t : STok} {ts : List STok} (h : stepS st t = some st') :
    runS st (t :: ts) = runS st' ts := by
  simp [runS, h]

/-! ### one `rs_slice` -/

/-- the numbers and colons of a slice, folded -/
def accRun : SliceAcc → List STok → Option SliceAcc
  | acc, [] => some acc
  | acc, t :: ts =>
    match accStep acc t with
    | some acc' => accRun acc' ts
    | none => none

/-- only `NUMBER` and `:` tokens -/
def isNC : List STok → Bool
  | [] => true
  | .num _ :: ts => isNC ts
  | .colon :: ts => isNC ts
  | _ :: _ => false

/-- the accumulator after the printed form of a slice -/
def accOf : Slice → SliceAcc
  | .idx n => ⟨some n, none, none, 0, true⟩
  | .rng a b c => ⟨a, b, c, if c.isSome then 2 else 1, true⟩

theorem isNC_printSlice (sl : Slice) : isNC (printSlice sl) = true := by
  cases sl with
  | idx n => rfl
  | rng a b c => cases a <;> cases b <;> cases c <;> rfl

theorem accRun_printSlice (sl : Slice) : accRun SliceAcc.fresh (printSlice sl) = some (accOf sl) := by
  cases sl with
  | idx n => rfl
  | rng a b c => cases a <;> cases b <;> cases c <;> rfl

theorem finish_accOf (sl : Slice) : (accOf sl).finish = some sl := by
  cases sl with
  | idx n => rfl
  | rng a b c => cases c <;> rfl

theorem any_accOf (sl : Slice) : (accOf sl).any = true := by
  cases sl <;> rfl

/-- numbers and colons inside `[…]` only move the accumulator -/
theorem runS_slices_acc (l c : Option (Sel × Bool)) (done : List Slice) (stk : List SFrame) :
    ∀ (ts : List STok) (acc acc' : SliceAcc), isNC ts = true → accRun acc ts = some acc' →
      runS (⟨l, c, .slices done acc⟩, stk) ts = some (⟨l, c, .slices done acc'⟩, stk)
  | [], acc, acc', _, h => by
    simp only [accRun, Option.some.injEq] at h; subst h; rfl
  | t :: ts, acc, acc', hn, h => by
    simp only [accRun] at h
    cases ha : accStep acc t with
    | none => rw [ha] at h; exact absurd h (by simp)
    | some a1 =>
      rw [ha] at h
      have hs : stepS (⟨l, c, .slices done acc⟩, stk) t = some (⟨l, c, .slices done a1⟩, stk) := by
        cases t <;> simp_all [isNC, stepS]
      have hn' : isNC ts = true := by cases t <;> simp_all [isNC]
      rw [runS_cons hs]
      exact runS_slices_acc l c done stk ts a1 acc' hn' h

/-- … and inside the slice of a `{…}` entry -/
theorem runS_pairs_acc (l c : Option (Sel × Bool)) (done : List Pair) (n : String)
    (stk : List SFrame) :
    ∀ (ts : List STok) (acc acc' : SliceAcc), isNC ts = true → accRun acc ts = some acc' →
      runS (⟨l, c, .pairs done (.inSlice n acc)⟩, stk) ts
        = some (⟨l, c, .pairs done (.inSlice n acc')⟩, stk)
  | [], acc, acc', _, h => by
    simp only [accRun, Option.some.injEq] at h; subst h; rfl
  | t :: ts, acc, acc', hn, h => by
    simp only [accRun] at h
    cases ha : accStep acc t with
    | none => rw [ha] at h; exact absurd h (by simp)
    | some a1 =>
      rw [ha] at h
      have hs : stepS (⟨l, c, .pairs done (.inSlice n acc)⟩, stk) t
          = some (⟨l, c, .pairs done (.inSlice n a1)⟩, stk) := by
        cases t <;> simp_all [isNC, stepS]
      have hn' : isNC ts = true := by cases t <;> simp_all [isNC]
      rw [runS_cons hs]
      exact runS_pairs_acc l c done n stk ts a1 acc' hn' h

/-! ### `[ rs_slices ]` -/

theorem closeSlices_accOf (done : List Slice) (sl : Slice) :
    closeSlices done (accOf sl) = some (done ++ [sl]) := by
  simp [closeSlices, any_accOf, finish_accOf]

/-- the printed slices and the closing bracket, read inside `[…]` -/
theorem runS_printSlices (l : Option (Sel × Bool)) (x : Sel) (b : Bool) (stk : List SFrame) :
    ∀ (ss : List Slice) (s : Slice) (done : List Slice),
      runS (⟨l, some (x, b), .slices done SliceAcc.fresh⟩, stk) (printSlices (s :: ss) ++ [.rbr])
        = some (⟨l, some (.item x (done ++ s :: ss), false), .chain⟩, stk)
  | [], s, done => by
    simp only [printSlices]
    rw [runS_append_of (runS_slices_acc l _ done stk _ _ _ (isNC_printSlice s) (accRun_printSlice s))]
    have : stepS (⟨l, some (x, b), .slices done (accOf s)⟩, stk) .rbr
        = some (⟨l, some (.item x (done ++ [s]), false), .chain⟩, stk) := by
      simp [stepS, closeSlices_accOf]
    rw [runS_cons this]; rfl
  | s' :: ss, s, done => by
    simp only [printSlices, List.append_assoc, List.cons_append]
    rw [runS_append_of (runS_slices_acc l _ done stk _ _ _ (isNC_printSlice s) (accRun_printSlice s))]
    have : stepS (⟨l, some (x, b), .slices done (accOf s)⟩, stk) .comma
        = some (⟨l, some (x, b), .slices (done ++ [s]) SliceAcc.fresh⟩, stk) := by
      simp [stepS, finish_accOf]
    rw [runS_cons this]
    have ih := runS_printSlices l x b stk ss s' (done ++ [s])
    simp only [List.append_assoc, List.singleton_append] at ih ⊢
    exact ih

/-! ### `{ rs_pairs }` -/

/-- one printed entry, up to (not including) the `,` / `}` behind it -/
def stageOf (p : Pair) : PStage :=
  match p.items with
  | none => .after p.sym
  | some sl => .inSlice p.sym (accOf sl)

theorem runS_printPair (l c : Option (Sel × Bool)) (done : List Pair) (stk : List SFrame)
    (p : Pair) (hp : p.direct = false) :
    runS (⟨l, c, .pairs done .star⟩, stk) (printPair p)
      = some (⟨l, c, .pairs done (stageOf p)⟩, stk) := by
  obtain ⟨sym, direct, items⟩ := p
  simp only at hp; subst hp
  have h1 : stepS (⟨l, c, .pairs done .star⟩, stk) .star = some (⟨l, c, .pairs done .nt⟩, stk) := by
    simp [stepS]
  have h2 : stepS (⟨l, c, .pairs done .nt⟩, stk) (.nt sym)
      = some (⟨l, c, .pairs done (.after sym)⟩, stk) := by simp [stepS]
  cases items with
  | none =>
    simp only [printPair, Bool.false_eq_true, if_false, List.cons_append, List.nil_append, stageOf]
    rw [runS_cons h1, runS_cons h2]; rfl
  | some sl =>
    simp only [printPair, Bool.false_eq_true, if_false, List.cons_append, List.nil_append, stageOf]
    have h3 : stepS (⟨l, c, .pairs done (.after sym)⟩, stk) .colon
        = some (⟨l, c, .pairs done (.inSlice sym SliceAcc.fresh)⟩, stk) := by simp [stepS]
    rw [runS_cons h1, runS_cons h2, runS_cons h3]
    exact runS_pairs_acc l c done sym stk _ _ _ (isNC_printSlice sl) (accRun_printSlice sl)

theorem pair_eta (p : Pair) (hp : p.direct = false) : (⟨p.sym, false, p.items⟩ : Pair) = p := by
  obtain ⟨sym, direct, items⟩ := p
  simp only at hp; subst hp; rfl

/-- `,` behind an entry -/
theorem step_pair_comma (l c : Option (Sel × Bool)) (done : List Pair) (stk : List SFrame)
    (p : Pair) (hp : p.direct = false) :
    stepS (⟨l, c, .pairs done (stageOf p)⟩, stk) .comma
      = some (⟨l, c, .pairs (done ++ [p]) .star⟩, stk) := by
  have he := pair_eta p hp
  cases hi : p.items with
  | none => simp [stepS, stageOf, hi] ; rw [← he, hi]
  | some sl => simp [stepS, stageOf, hi, finish_accOf]; rw [← he, hi]

/-- `}` behind the last entry -/
theorem step_pair_close (l : Option (Sel × Bool)) (x : Sel) (b : Bool) (done : List Pair)
    (stk : List SFrame) (p : Pair) (hp : p.direct = false) :
    stepS (⟨l, some (x, b), .pairs done (stageOf p)⟩, stk) .rbrace
      = some (⟨l, some (.sel x (done ++ [p]), false), .chain⟩, stk) := by
  have he := pair_eta p hp
  cases hi : p.items with
  | none => simp [stepS, stageOf, hi]; rw [← he, hi]
  | some sl => simp [stepS, stageOf, hi, finish_accOf]; rw [← he, hi]

theorem runS_printPairs (l : Option (Sel × Bool)) (x : Sel) (b : Bool) (stk : List SFrame) :
    ∀ (ps : List Pair) (p : Pair) (done : List Pair), pairsOk (p :: ps) = true →
      runS (⟨l, some (x, b), .pairs done .star⟩, stk) (printPairs (p :: ps) ++ [.rbrace])
        = some (⟨l, some (.sel x (done ++ p :: ps), false), .chain⟩, stk)
  | [], p, done, h => by
    simp only [pairsOk, Bool.and_true, Bool.not_eq_true'] at h
    simp only [printPairs]
    rw [runS_append_of (runS_printPair l _ done stk p h), runS_cons (step_pair_close l x b done stk p h)]
    rfl
  | p' :: ps, p, done, h => by
    simp only [pairsOk, Bool.and_eq_true, Bool.not_eq_true'] at h
    have h' : pairsOk (p' :: ps) = true := by simp [pairsOk, h.2]
    simp only [printPairs, List.append_assoc, List.cons_append]
    rw [runS_append_of (runS_printPair l _ done stk p h.1), runS_cons (step_pair_comma l _ done stk p h.1)]
    have ih := runS_printPairs l x b stk ps p' (done ++ [p]) h'
    simp only [List.append_assoc, List.singleton_append] at ih ⊢
    exact ih

/-! ### the chain -/

/-- the base of a group, printed by `format_as_base`, read from a state that expects a selection:
    the selection in progress is the base's reading, and it may take the group -/
theorem runS_printBase (b : Sel) (left : Option (Sel × Bool)) (stk : List SFrame)
    (ih : ∀ (l : Option (Sel × Bool)) (k : List SFrame),
      runS (⟨l, none, .chain⟩, k) (printSel true b) = some (⟨(feed b l).1, some (feed b l).2, .chain⟩, k)) :
    runS (⟨left, none, .chain⟩, stk) (printBase true b (printSel true b))
      = some (⟨left, some (normSel b, true), .chain⟩, stk) := by
  have paren : runS (⟨left, none, .chain⟩, stk) (.lp :: (printSel true b ++ [.rp]))
      = some (⟨left, some (normSel b, true), .chain⟩, stk) := by
    have h1 : stepS (⟨left, none, .chain⟩, stk) .lp = some (SFrame.empty, ⟨left, none, .chain⟩ :: stk) := by
      simp [stepS]
    rw [runS_cons h1]
    have h2 := ih none (⟨left, none, .chain⟩ :: stk)
    simp only [SFrame.empty]
    rw [runS_append_of h2]
    have h3 : stepS (⟨(feed b none).1, some (feed b none).2, .chain⟩, ⟨left, none, .chain⟩ :: stk) .rp
        = some (⟨left, some (comb (feed b none).1 (feed b none).2.1, true), .chain⟩, stk) := by
      simp [stepS]
    rw [runS_cons h3]; rfl
  cases b with
  | rule n => simp [printBase, printSel, runS, stepS, normSel, feed, comb]
  | attr x y => simpa [printBase] using paren
  | desc x y => simpa [printBase] using paren
  | item x y => simpa [printBase] using paren
  | sel x y => simpa [printBase] using paren

/-- **the reader over a printed search** -/
theorem runS_printSel : ∀ (s : Sel), wfSel s = true → ∀ (left : Option (Sel × Bool))
    (stk : List SFrame),
    runS (⟨left, none, .chain⟩, stk) (printSel true s)
      = some (⟨(feed s left).1, some (feed s left).2, .chain⟩, stk)
  | .rule n, _, left, stk => by simp [printSel, runS, stepS, feed]
  | .attr b a, h, left, stk => by
    simp only [wfSel, Bool.and_eq_true] at h
    simp only [printSel, feed]
    rw [runS_append_of (runS_printSel b h.1 left stk)]
    have : stepS (⟨(feed b left).1, some (feed b left).2, .chain⟩, stk) .dot
        = some (⟨some (comb (feed b left).1 (feed b left).2.1, false), none, .chain⟩, stk) := by
      simp [stepS]
    rw [runS_cons this]
    exact runS_printSel a h.2 _ stk
  | .desc b a, h, left, stk => by
    simp only [wfSel, Bool.and_eq_true] at h
    simp only [printSel, feed]
    rw [runS_append_of (runS_printSel b h.1 left stk)]
    have : stepS (⟨(feed b left).1, some (feed b left).2, .chain⟩, stk) .dotdot
        = some (⟨some (comb (feed b left).1 (feed b left).2.1, true), none, .chain⟩, stk) := by
      simp [stepS]
    rw [runS_cons this]
    exact runS_printSel a h.2 _ stk
  | .item b sl, h, left, stk => by
    simp only [wfSel, Bool.and_eq_true, Bool.not_eq_true', List.isEmpty_eq_false_iff] at h
    obtain ⟨hb, hne⟩ := h
    simp only [printSel, feed]
    rw [runS_append_of (runS_printBase b left stk (fun l k => runS_printSel b hb l k))]
    have : stepS (⟨left, some (normSel b, true), .chain⟩, stk) .lbr
        = some (⟨left, some (normSel b, true), .slices [] SliceAcc.fresh⟩, stk) := by
      simp [stepS]
    rw [runS_cons this]
    cases sl with
    | nil => exact absurd rfl hne
    | cons s ss =>
      rw [runS_printSlices left (normSel b) true stk ss s []]
      rfl
  | .sel b ps, h, left, stk => by
    simp only [wfSel, Bool.and_eq_true, Bool.not_eq_true', List.isEmpty_eq_false_iff] at h
    obtain ⟨⟨hb, hne⟩, hok⟩ := h
    simp only [printSel, feed]
    rw [runS_append_of (runS_printBase b left stk (fun l k => runS_printSel b hb l k))]
    have : stepS (⟨left, some (normSel b, true), .chain⟩, stk) .lbrace
        = some (⟨left, some (normSel b, true), .pairs [] .star⟩, stk) := by
      simp [stepS]
    rw [runS_cons this]
    cases ps with
    | nil => exact absurd rfl hne
    | cons p ps =>
      rw [runS_printPairs left (normSel b) true stk ps p [] hok]
      rfl

/-- **reading the printed search back** yields its normal form -/
theorem readSel_printSel (s : Sel) (h : wfSel s = true) :
    readSel (printSel true s) = some (normSel s) := by
  simp only [readSel, SFrame.empty, runS_printSel s h none [], normSel]

/-- a printed search starts with a non-terminal or an opening parenthesis -/
def startsSel : List STok → Bool
  | .nt _ :: _ => true
  | .lp :: _ => true
  | _ => false

theorem startsSel_append (a b : List STok) (h : startsSel a = true) : startsSel (a ++ b) = true := by
  match a, h with
  | .nt _ :: _, _ => rfl
  | .lp :: _, _ => rfl

theorem printBase_starts (pb : Bool) (b : Sel) (inner : List STok) (h : startsSel inner = true) :
    startsSel (printBase pb b inner) = true := by
  cases b <;> cases pb <;> first | exact h | rfl

theorem printSel_starts (pb : Bool) : ∀ s : Sel, startsSel (printSel pb s) = true
  | .rule n => rfl
  | .attr b a => by simp only [printSel]; exact startsSel_append _ _ (printSel_starts pb b)
  | .desc b a => by simp only [printSel]; exact startsSel_append _ _ (printSel_starts pb b)
  | .item b sl => by
    simp only [printSel]
    exact startsSel_append _ _ (printBase_starts pb b _ (printSel_starts pb b))
  | .sel b ps => by
    simp only [printSel]
    exact startsSel_append _ _ (printBase_starts pb b _ (printSel_starts pb b))

/-- a token list that starts like a search is read by the `dot_selection` branch of `readTop` -/
theorem readTop_plain (ts : List STok) (h : startsSel ts = true) : readTop ts = (readSel ts).map .plain := by
  match ts, h with
  | .nt _ :: _, _ => rfl
  | .lp :: _, _ => rfl

theorem readTop_printTop (t : Top) (h : wfTop t = true) :
    readTop (printTop true t) = some (normTop t) := by
  cases t with
  | plain s =>
    simp only [printTop]
    rw [readTop_plain _ (printSel_starts true s), readSel_printSel s h]; rfl
  | star s =>
    simp [printTop, readTop, readSel_printSel s h, normTop]
  | lenBar s =>
    simp [printTop, readTop, readSel_printSel s h, normTop, List.getLast?_append]
  | lenStar s =>
    simp [printTop, readTop, readSel_printSel s h, normTop, List.getLast?_append]

/-! ### the normal form -/

/-- a selection read behind `left` leaves `left` alone -/
theorem feed_selection_left : ∀ (a : Sel) (left : Option (Sel × Bool)), isSelection a = true →
    (feed a left).1 = left
  | .rule _, _, _ => rfl
  | .item _ _, _, _ => rfl
  | .sel _ _, _, _ => rfl
  | .attr _ _, _, h => by simp [isSelection] at h
  | .desc _ _, _, h => by simp [isSelection] at h

mutual
/-- a search in normal form is its own reading -/
theorem normSel_isNorm : ∀ s : Sel, isNorm s = true → normSel s = s
  | .rule _, _ => rfl
  | .item b sl, h => by
    have ih := normSel_isNorm b (by simpa [isNorm] using h)
    simp only [normSel] at ih
    simp only [normSel, feed, ih]; rfl
  | .sel b ps, h => by
    have ih := normSel_isNorm b (by simpa [isNorm] using h)
    simp only [normSel] at ih
    simp only [normSel, feed, ih]; rfl
  | .attr b a, h => by
    simp only [isNorm, Bool.and_eq_true] at h
    have ih := normSel_isNorm b h.1
    simp only [normSel] at ih
    have ha := feed_selection_cur a (some (b, false)) h.2
    have hl := feed_selection_left a (some (b, false)) h.2
    simp only [normSel, feed, ih]
    rw [hl, ha]; rfl
  | .desc b a, h => by
    simp only [isNorm, Bool.and_eq_true] at h
    have ih := normSel_isNorm b h.1
    simp only [normSel] at ih
    have ha := feed_selection_cur a (some (b, true)) h.2
    have hl := feed_selection_left a (some (b, true)) h.2
    simp only [normSel, feed, ih]
    rw [hl, ha]; rfl
/-- a selection in normal form is read as itself -/
theorem feed_selection_cur : ∀ (a : Sel) (left : Option (Sel × Bool)), isSelection a = true →
    (feed a left).2.1 = a
  | .rule _, _, _ => rfl
  | .item b sl, _, h => by
    have ih := normSel_isNorm b (by simpa [isSelection] using h)
    simp only [normSel] at ih
    simp [feed, ih]
  | .sel b ps, _, h => by
    have ih := normSel_isNorm b (by simpa [isSelection] using h)
    simp only [normSel] at ih
    simp [feed, ih]
  | .attr _ _, _, h => by simp [isSelection] at h
  | .desc _ _, _, h => by simp [isSelection] at h
end

/-- the left part is absent or in normal form -/
def leftNorm : Option (Sel × Bool) → Bool
  | none => true
  | some (l, _) => isNorm l

theorem isNorm_of_isSelection : ∀ s : Sel, isSelection s = true → isNorm s = true
  | .rule _, _ => rfl
  | .item _ _, h => by simpa [isSelection, isNorm] using h
  | .sel _ _, h => by simpa [isSelection, isNorm] using h
  | .attr _ _, h => by simp [isSelection] at h
  | .desc _ _, h => by simp [isSelection] at h

theorem isNorm_comb (left : Option (Sel × Bool)) (s : Sel) (hl : leftNorm left = true)
    (hs : isSelection s = true) : isNorm (comb left s) = true := by
  match left with
  | none => exact isNorm_of_isSelection s hs
  | some (l, false) => simp only [leftNorm] at hl; simp [comb, isNorm, hl, hs]
  | some (l, true) => simp only [leftNorm] at hl; simp [comb, isNorm, hl, hs]

/-- what has been read is in normal form: the left part, and the selection in progress is a selection -/
theorem feed_norm : ∀ (s : Sel) (left : Option (Sel × Bool)), leftNorm left = true →
    leftNorm (feed s left).1 = true ∧ isSelection (feed s left).2.1 = true
  | .rule n, left, hl => ⟨hl, rfl⟩
  | .attr b a, left, hl => by
    obtain ⟨h1, h2⟩ := feed_norm b left hl
    simp only [feed]
    exact feed_norm a _ (by simpa [leftNorm] using isNorm_comb _ _ h1 h2)
  | .desc b a, left, hl => by
    obtain ⟨h1, h2⟩ := feed_norm b left hl
    simp only [feed]
    exact feed_norm a _ (by simpa [leftNorm] using isNorm_comb _ _ h1 h2)
  | .item b sl, left, hl => by
    obtain ⟨h1, h2⟩ := feed_norm b none rfl
    simp only [feed]
    exact ⟨hl, by simpa [isSelection] using isNorm_comb _ _ h1 h2⟩
  | .sel b ps, left, hl => by
    obtain ⟨h1, h2⟩ := feed_norm b none rfl
    simp only [feed]
    exact ⟨hl, by simpa [isSelection] using isNorm_comb _ _ h1 h2⟩

/-- the reading of a printed search is in normal form -/
theorem isNorm_normSel (s : Sel) : isNorm (normSel s) = true := by
  obtain ⟨h1, h2⟩ := feed_norm s none rfl
  exact isNorm_comb _ _ h1 h2

/-- printing forgets redundant parentheses only: the normal form prints as the same tokens -/
def printLeft : Option (Sel × Bool) → List STok
  | none => []
  | some (l, false) => printSel true l ++ [.dot]
  | some (l, true) => printSel true l ++ [.dotdot]

theorem printLeft_dot (l : Sel) : printLeft (some (l, false)) = printSel true l ++ [.dot] := rfl
theorem printLeft_dotdot (l : Sel) : printLeft (some (l, true)) = printSel true l ++ [.dotdot] := rfl

theorem printSel_comb (left : Option (Sel × Bool)) (s : Sel) :
    printSel true (comb left s) = printLeft left ++ printSel true s := by
  match left with
  | none => rfl
  | some (l, false) => simp [comb, printSel, printLeft]
  | some (l, true) => simp [comb, printSel, printLeft]

def isRule : Sel → Bool
  | .rule _ => true
  | _ => false

theorem printBase_eq (pb : Bool) (b : Sel) (inner : List STok) :
    printBase pb b inner = if isRule b then inner else if pb then .lp :: (inner ++ [.rp]) else inner := by
  cases b <;> simp [printBase, isRule]

/-- behind a left part there is still a left part -/
theorem feed_left_isSome : ∀ (s : Sel) (l : Sel × Bool), ((feed s (some l)).1).isSome = true
  | .rule _, _ => rfl
  | .attr b a, l => by simp only [feed]; exact feed_left_isSome a _
  | .desc b a, l => by simp only [feed]; exact feed_left_isSome a _
  | .item _ _, _ => rfl
  | .sel _ _, _ => rfl

theorem isRule_comb_of_isSome (left : Option (Sel × Bool)) (s : Sel) (h : left.isSome = true) :
    isRule (comb left s) = false := by
  match left, h with
  | some (l, false), _ => rfl
  | some (l, true), _ => rfl

/-- the reading of a search is a plain non-terminal exactly when the search is -/
theorem isRule_normSel : ∀ b : Sel, isRule (normSel b) = isRule b
  | .rule _ => rfl
  | .attr x y => by
    simp only [normSel, feed, isRule]
    exact isRule_comb_of_isSome _ _ (feed_left_isSome y _)
  | .desc x y => by
    simp only [normSel, feed, isRule]
    exact isRule_comb_of_isSome _ _ (feed_left_isSome y _)
  | .item _ _ => rfl
  | .sel _ _ => rfl

theorem printSel_feed : ∀ (s : Sel) (left : Option (Sel × Bool)),
    printLeft (feed s left).1 ++ printSel true (feed s left).2.1 = printLeft left ++ printSel true s
  | .rule _, _ => rfl
  | .attr b a, left => by
    simp only [feed]
    rw [printSel_feed a]
    simp only [printLeft_dot, printSel, printSel_comb]
    rw [printSel_feed b left]; simp
  | .desc b a, left => by
    simp only [feed]
    rw [printSel_feed a]
    simp only [printLeft_dotdot, printSel, printSel_comb]
    rw [printSel_feed b left]; simp
  | .item b sl, left => by
    have ih := printSel_feed b none
    have hb : printSel true (comb (feed b none).1 (feed b none).2.1) = printSel true b := by
      rw [printSel_comb]; simpa [printLeft] using ih
    have hr : isRule (comb (feed b none).1 (feed b none).2.1) = isRule b := isRule_normSel b
    simp only [feed, printSel, printBase_eq, hb, hr]
  | .sel b ps, left => by
    have ih := printSel_feed b none
    have hb : printSel true (comb (feed b none).1 (feed b none).2.1) = printSel true b := by
      rw [printSel_comb]; simpa [printLeft] using ih
    have hr : isRule (comb (feed b none).1 (feed b none).2.1) = isRule b := isRule_normSel b
    simp only [feed, printSel, printBase_eq, hb, hr]

theorem printSel_normSel (s : Sel) : printSel true (normSel s) = printSel true s := by
  have := printSel_feed s none
  simp only [normSel]
  rw [printSel_comb]
  simpa [printLeft] using this

end FV.PS
