/-
Lemmas for `Model/PrintSearch.lean`: the selector reader run over the printed tokens
(`runS_printSel`), `readSel ∘ printSel = normSel`, `readTop ∘ printTop = normTop`, and the normal
form (`flat`, fixed points).
-/
import Model.PrintSearch
namespace FV.PS

/-! ### the reader as a fold -/

theorem runS_append : ∀ (a b : List STok) (st : SState),
    runS st (a ++ b) = (runS st a).bind (fun st' => runS st' b)
  | [], b, st => by simp [runS]
  | t :: a, b, st => by
    simp only [List.cons_append, runS]
    cases stepS st t with
    | none => simp
    | some st' => simpa using runS_append a b st'

theorem runS_append_of {a b : List STok} {st st' : SState}
    (h : runS st a = some st') : runS st (a ++ b) = runS st' b := by
  rw [runS_append, h]; rfl

theorem runS_cons {st st' : SState} {t : STok} {ts : List STok} (h : stepS st t = some st') :
    runS st (t :: ts) = runS st' ts := by
  simp [runS, h]

/-! ### one `rs_slice` -/

/-- the numbers and colons of a slice, folded -/
def accRun : SliceAcc → List STok → Option SliceAcc
  | acc, [] => some acc
  | acc, t :: ts =>
    match accStep acc t with
    | some acc' => accRun acc' ts
    | none => none

/-- only `NUMBER` and `:` tokens -/
def isNC : List STok → Bool
  | [] => true
  | .num _ :: ts => isNC ts
  | .colon :: ts => isNC ts
  | _ :: _ => false

/-- the accumulator after the printed form of a slice -/
def accOf : Slice → SliceAcc
  | .idx n => ⟨some n, none, none, 0, true⟩
  | .rng a b c => ⟨a, b, c, if c.isSome then 2 else 1, true⟩

theorem isNC_printSlice (sl : Slice) : isNC (printSlice sl) = true := by
  cases sl with
  | idx n => rfl
  | rng a b c => cases a <;> cases b <;> cases c <;> rfl

theorem accRun_printSlice (sl : Slice) : accRun SliceAcc.fresh (printSlice sl) = some (accOf sl) := by
  cases sl with
  | idx n => rfl
  | rng a b c => cases a <;> cases b <;> cases c <;> rfl

theorem finish_accOf (sl : Slice) : (accOf sl).finish = some sl := by
  cases sl with
  | idx n => rfl
  | rng a b c => cases c <;> rfl

theorem any_accOf (sl : Slice) : (accOf sl).any = true := by
  cases sl <;> rfl

/-- numbers and colons inside `[…]` only move the accumulator -/
theorem runS_slices_acc (l c : Option (Sel × Bool)) (done : List Slice) (stk : List SFrame) :
    ∀ (ts : List STok) (acc acc' : SliceAcc), isNC ts = true → accRun acc ts = some acc' →
      runS (⟨l, c, .slices done acc⟩, stk) ts = some (⟨l, c, .slices done acc'⟩, stk)
  | [], acc, acc', _, h => by
    simp only [accRun, Option.some.injEq] at h; subst h; rfl
  | t :: ts, acc, acc', hn, h => by
    simp only [accRun] at h
    cases ha : accStep acc t with
    | none => rw [ha] at h; exact absurd h (by simp)
    | some a1 =>
      rw [ha] at h
      have hs : stepS (⟨l, c, .slices done acc⟩, stk) t = some (⟨l, c, .slices done a1⟩, stk) := by
        cases t <;> simp_all [isNC, stepS]
      have hn' : isNC ts = true := by cases t <;> simp_all [isNC]
      rw [runS_cons hs]
      exact runS_slices_acc l c done stk ts a1 acc' hn' h

/-- … and inside the slice of a `{…}` entry -/
theorem runS_pairs_acc (l c : Option (Sel × Bool)) (done : List Pair) (n : String)
    (stk : List SFrame) :
    ∀ (ts : List STok) (acc acc' : SliceAcc), isNC ts = true → accRun acc ts = some acc' →
      runS (⟨l, c, .pairs done (.inSlice n acc)⟩, stk) ts
        = some (⟨l, c, .pairs done (.inSlice n acc')⟩, stk)
  | [], acc, acc', _, h => by
    simp only [accRun, Option.some.injEq] at h; subst h; rfl
  | t :: ts, acc, acc', hn, h => by
    simp only [accRun] at h
    cases ha : accStep acc t with
    | none => rw [ha] at h; exact absurd h (by simp)
    | some a1 =>
      rw [ha] at h
      have hs : stepS (⟨l, c, .pairs done (.inSlice n acc)⟩, stk) t
          = some (⟨l, c, .pairs done (.inSlice n a1)⟩, stk) := by
        cases t <;> simp_all [isNC, stepS]
      have hn' : isNC ts = true := by cases t <;> simp_all [isNC]
      rw [runS_cons hs]
      exact runS_pairs_acc l c done n stk ts a1 acc' hn' h

/-! ### `[ rs_slices ]` -/

theorem closeSlices_accOf (done : List Slice) (sl : Slice) :
    closeSlices done (accOf sl) = some (done ++ [sl]) := by
  simp [closeSlices, any_accOf, finish_accOf]

/-- the printed slices and the closing bracket, read inside `[…]` -/
theorem runS_printSlices (l : Option (Sel × Bool)) (x : Sel) (b : Bool) (stk : List SFrame) :
    ∀ (ss : List Slice) (s : Slice) (done : List Slice),
      runS (⟨l, some (x, b), .slices done SliceAcc.fresh⟩, stk) (printSlices (s :: ss) ++ [.rbr])
        = some (⟨l, some (.item x (done ++ s :: ss), false), .chain⟩, stk)
  | [], s, done => by
    simp only [printSlices]
    rw [runS_append_of (runS_slices_acc l _ done stk _ _ _ (isNC_printSlice s) (accRun_printSlice s))]
    have : stepS (⟨l, some (x, b), .slices done (accOf s)⟩, stk) .rbr
        = some (⟨l, some (.item x (done ++ [s]), false), .chain⟩, stk) := by
      simp [stepS, closeSlices_accOf]
    rw [runS_cons this]; rfl
  | s' :: ss, s, done => by
    simp only [printSlices, List.append_assoc, List.cons_append]
    rw [runS_append_of (runS_slices_acc l _ done stk _ _ _ (isNC_printSlice s) (accRun_printSlice s))]
    have : stepS (⟨l, some (x, b), .slices done (accOf s)⟩, stk) .comma
        = some (⟨l, some (x, b), .slices (done ++ [s]) SliceAcc.fresh⟩, stk) := by
      simp [stepS, finish_accOf]
    rw [runS_cons this]
    have ih := runS_printSlices l x b stk ss s' (done ++ [s])
    simp only [List.append_assoc, List.singleton_append] at ih ⊢
    exact ih

/-! ### `{ rs_pairs }` -/

/-- one printed entry, up to (not including) the `,` / `}` behind it -/
def stageOf (p : Pair) : PStage :=
  match p.items with
  | none => .after p.sym
  | some sl => .inSlice p.sym (accOf sl)

theorem runS_printPair (l c : Option (Sel × Bool)) (done : List Pair) (stk : List SFrame)
    (p : Pair) (hp : p.direct = false) :
    runS (⟨l, c, .pairs done .star⟩, stk) (printPair p)
      = some (⟨l, c, .pairs done (stageOf p)⟩, stk) := by
  obtain ⟨sym, direct, items⟩ := p
  simp only at hp; subst hp
  have h1 : stepS (⟨l, c, .pairs done .star⟩, stk) .star = some (⟨l, c, .pairs done .nt⟩, stk) := by
    simp [stepS]
  have h2 : stepS (⟨l, c, .pairs done .nt⟩, stk) (.nt sym)
      = some (⟨l, c, .pairs done (.after sym)⟩, stk) := by simp [stepS]
  cases items with
  | none =>
    simp only [printPair, Bool.false_eq_true, if_false, List.cons_append, List.nil_append, stageOf]
    rw [runS_cons h1, runS_cons h2]; rfl
  | some sl =>
    simp only [printPair, Bool.false_eq_true, if_false, List.cons_append, List.nil_append, stageOf]
    have h3 : stepS (⟨l, c, .pairs done (.after sym)⟩, stk) .colon
        = some (⟨l, c, .pairs done (.inSlice sym SliceAcc.fresh)⟩, stk) := by simp [stepS]
    rw [runS_cons h1, runS_cons h2, runS_cons h3]
    exact runS_pairs_acc l c done sym stk _ _ _ (isNC_printSlice sl) (accRun_printSlice sl)

theorem pair_eta (p : Pair) (hp : p.direct = false) : (⟨p.sym, false, p.items⟩ : Pair) = p := by
  obtain ⟨sym, direct, items⟩ := p
  simp only at hp; subst hp; rfl

/-- `,` behind an entry -/
theorem step_pair_comma (l c : Option (Sel × Bool)) (done : List Pair) (stk : List SFrame)
    (p : Pair) (hp : p.direct = false) :
    stepS (⟨l, c, .pairs done (stageOf p)⟩, stk) .comma
      = some (⟨l, c, .pairs (done ++ [p]) .star⟩, stk) := by
  have he := pair_eta p hp
  cases hi : p.items with
  | none => simp [stepS, stageOf, hi] ; rw [← he, hi]
  | some sl => simp [stepS, stageOf, hi, finish_accOf]; rw [← he, hi]

/-- `}` behind the last entry -/
theorem step_pair_close (l : Option (Sel × Bool)) (x : Sel) (b : Bool) (done : List Pair)
    (stk : List SFrame) (p : Pair) (hp : p.direct = false) :
    stepS (⟨l, some (x, b), .pairs done (stageOf p)⟩, stk) .rbrace
      = some (⟨l, some (.sel x (done ++ [p]), false), .chain⟩, stk) := by
  have he := pair_eta p hp
  cases hi : p.items with
  | none => simp [stepS, stageOf, hi]; rw [← he, hi]
  | some sl => simp [stepS, stageOf, hi, finish_accOf]; rw [← he, hi]

theorem runS_printPairs (l : Option (Sel × Bool)) (x : Sel) (b : Bool) (stk : List SFrame) :
    ∀ (ps : List Pair) (p : Pair) (done : List Pair), pairsOk (p :: ps) = true →
      runS (⟨l, some (x, b), .pairs done .star⟩, stk) (printPairs (p :: ps) ++ [.rbrace])
        = some (⟨l, some (.sel x (done ++ p :: ps), false), .chain⟩, stk)
  | [], p, done, h => by
    simp only [pairsOk, Bool.and_true, Bool.not_eq_true'] at h
    simp only [printPairs]
    rw [runS_append_of (runS_printPair l _ done stk p h), runS_cons (step_pair_close l x b done stk p h)]
    rfl
  | p' :: ps, p, done, h => by
    simp only [pairsOk, Bool.and_eq_true, Bool.not_eq_true'] at h
    have h' : pairsOk (p' :: ps) = true := by simp [pairsOk, h.2]
    simp only [printPairs, List.append_assoc, List.cons_append]
    rw [runS_append_of (runS_printPair l _ done stk p h.1), runS_cons (step_pair_comma l _ done stk p h.1)]
    have ih := runS_printPairs l x b stk ps p' (done ++ [p]) h'
    simp only [List.append_assoc, List.singleton_append] at ih ⊢
    exact ih

/-! ### the chain -/

/-- the "may take a group" flag after a search has been read is `lastBare` -/
theorem feed_flag : ∀ (s : Sel) (left : Option (Sel × Bool)), (feed s left).2.2 = lastBare s
  | .rule _, _ => rfl
  | .attr b a, left => by simp only [feed, lastBare]; exact feed_flag a _
  | .desc b a, left => by simp only [feed, lastBare]; exact feed_flag a _
  | .item _ _, _ => rfl
  | .sel _ _, _ => rfl

/-- **the reader over a printed search** -/
theorem runS_printSel : ∀ (s : Sel), wfSel s = true → ∀ (left : Option (Sel × Bool))
    (stk : List SFrame),
    runS (⟨left, none, .chain⟩, stk) (printSel s)
      = some (⟨(feed s left).1, some (feed s left).2, .chain⟩, stk)
  | .rule n, _, left, stk => by simp [printSel, runS, stepS, feed]
  | .attr b a, h, left, stk => by
    simp only [wfSel, Bool.and_eq_true] at h
    simp only [printSel, feed]
    rw [runS_append_of (runS_printSel b h.1 left stk)]
    have : stepS (⟨(feed b left).1, some (feed b left).2, .chain⟩, stk) .dot
        = some (⟨some (comb (feed b left).1 (feed b left).2.1, false), none, .chain⟩, stk) := by
      simp [stepS]
    rw [runS_cons this]
    exact runS_printSel a h.2 _ stk
  | .desc b a, h, left, stk => by
    simp only [wfSel, Bool.and_eq_true] at h
    simp only [printSel, feed]
    rw [runS_append_of (runS_printSel b h.1 left stk)]
    have : stepS (⟨(feed b left).1, some (feed b left).2, .chain⟩, stk) .dotdot
        = some (⟨some (comb (feed b left).1 (feed b left).2.1, true), none, .chain⟩, stk) := by
      simp [stepS]
    rw [runS_cons this]
    exact runS_printSel a h.2 _ stk
  | .item b sl, h, left, stk => by
    simp only [wfSel, Bool.and_eq_true, Bool.not_eq_true', List.isEmpty_eq_false_iff] at h
    obtain ⟨⟨hb, hl⟩, hne⟩ := h
    simp only [printSel, feed]
    rw [runS_append_of (runS_printSel b hb left stk)]
    have hf := feed_flag b left
    rw [hl] at hf
    have e : (feed b left).2 = ((feed b left).2.1, true) := by rw [← hf]
    have : stepS (⟨(feed b left).1, some (feed b left).2, .chain⟩, stk) .lbr
        = some (⟨(feed b left).1, some ((feed b left).2.1, true), .slices [] SliceAcc.fresh⟩, stk) := by
      rw [e]; simp [stepS]
    rw [runS_cons this]
    cases sl with
    | nil => exact absurd rfl hne
    | cons s ss =>
      rw [runS_printSlices (feed b left).1 (feed b left).2.1 true stk ss s []]
      rfl
  | .sel b ps, h, left, stk => by
    simp only [wfSel, Bool.and_eq_true, Bool.not_eq_true', List.isEmpty_eq_false_iff] at h
    obtain ⟨⟨⟨hb, hl⟩, hne⟩, hok⟩ := h
    simp only [printSel, feed]
    rw [runS_append_of (runS_printSel b hb left stk)]
    have hf := feed_flag b left
    rw [hl] at hf
    have e : (feed b left).2 = ((feed b left).2.1, true) := by rw [← hf]
    have : stepS (⟨(feed b left).1, some (feed b left).2, .chain⟩, stk) .lbrace
        = some (⟨(feed b left).1, some ((feed b left).2.1, true), .pairs [] .star⟩, stk) := by
      rw [e]; simp [stepS]
    rw [runS_cons this]
    cases ps with
    | nil => exact absurd rfl hne
    | cons p ps =>
      rw [runS_printPairs (feed b left).1 (feed b left).2.1 true stk ps p [] hok]
      rfl

/-- **reading the printed search back** yields its paren-free reading -/
theorem readSel_printSel (s : Sel) (h : wfSel s = true) : readSel (printSel s) = some (normSel s) := by
  simp only [readSel, SFrame.empty, runS_printSel s h none [], normSel]

theorem printSel_head : ∀ s : Sel, ∃ n rest, printSel s = .nt n :: rest
  | .rule n => ⟨n, [], rfl⟩
  | .attr b a => by
    obtain ⟨n, r, e⟩ := printSel_head b
    exact ⟨n, r ++ .dot :: printSel a, by simp [printSel, e]⟩
  | .desc b a => by
    obtain ⟨n, r, e⟩ := printSel_head b
    exact ⟨n, r ++ .dotdot :: printSel a, by simp [printSel, e]⟩
  | .item b sl => by
    obtain ⟨n, r, e⟩ := printSel_head b
    exact ⟨n, r ++ .lbr :: (printSlices sl ++ [.rbr]), by simp [printSel, e]⟩
  | .sel b ps => by
    obtain ⟨n, r, e⟩ := printSel_head b
    exact ⟨n, r ++ .lbrace :: (printPairs ps ++ [.rbrace]), by simp [printSel, e]⟩

theorem readTop_printTop (t : Top) (h : wfTop t = true) : readTop (printTop t) = some (normTop t) := by
  cases t with
  | plain s =>
    obtain ⟨n, r, e⟩ := printSel_head s
    have hr := readSel_printSel s h
    simp only [printTop]
    rw [e] at hr ⊢
    simp [readTop, hr, normTop]
  | star s =>
    simp [printTop, readTop, readSel_printSel s h, normTop]
  | lenBar s =>
    simp [printTop, readTop, readSel_printSel s h, normTop, List.getLast?_append]
  | lenStar s =>
    simp [printTop, readTop, readSel_printSel s h, normTop, List.getLast?_append]

/-! ### the normal form -/

/-- a selection read behind `left` leaves `left` alone -/
theorem feed_selection : ∀ (a : Sel), isSelection a = true → ∀ left, feed a left = (left, (a, lastBare a))
  | .rule _, _, _ => rfl
  | .item (.rule _) _, _, _ => rfl
  | .sel (.rule _) _, _, _ => rfl
  | .item (.attr _ _) _, h, _ => by simp [isSelection] at h
  | .item (.desc _ _) _, h, _ => by simp [isSelection] at h
  | .item (.item _ _) _, h, _ => by simp [isSelection] at h
  | .item (.sel _ _) _, h, _ => by simp [isSelection] at h
  | .sel (.attr _ _) _, h, _ => by simp [isSelection] at h
  | .sel (.desc _ _) _, h, _ => by simp [isSelection] at h
  | .sel (.item _ _) _, h, _ => by simp [isSelection] at h
  | .sel (.sel _ _) _, h, _ => by simp [isSelection] at h
  | .attr _ _, h, _ => by simp [isSelection] at h
  | .desc _ _, h, _ => by simp [isSelection] at h

/-- a search of the shape the front end builds from a paren-free text is its own normal form -/
theorem normSel_flat : ∀ s : Sel, flat s = true → normSel s = s
  | .rule _, _ => rfl
  | .item b sl, h => by
    have hs : isSelection (.item b sl) = true := by simpa [flat] using h
    simp [normSel, feed_selection _ hs, comb]
  | .sel b ps, h => by
    have hs : isSelection (.sel b ps) = true := by simpa [flat] using h
    simp [normSel, feed_selection _ hs, comb]
  | .attr b a, h => by
    simp only [flat, Bool.and_eq_true] at h
    have ih := normSel_flat b h.1
    simp only [normSel] at ih
    have e : feed (.attr b a) none
        = (some (comb (feed b none).1 (feed b none).2.1, false), (a, lastBare a)) := by
      simp only [feed, feed_selection a h.2]
    simp only [normSel, e, ih]; rfl
  | .desc b a, h => by
    simp only [flat, Bool.and_eq_true] at h
    have ih := normSel_flat b h.1
    simp only [normSel] at ih
    have e : feed (.desc b a) none
        = (some (comb (feed b none).1 (feed b none).2.1, true), (a, lastBare a)) := by
      simp only [feed, feed_selection a h.2]
    simp only [normSel, e, ih]; rfl

/-- the left part is absent or flat -/
def leftFlat : Option (Sel × Bool) → Bool
  | none => true
  | some (l, _) => flat l

theorem flat_comb (left : Option (Sel × Bool)) (s : Sel) (hl : leftFlat left = true)
    (hs : isSelection s = true) : flat (comb left s) = true := by
  match left with
  | none =>
    cases s with
    | attr _ _ => simp [isSelection] at hs
    | desc _ _ => simp [isSelection] at hs
    | rule _ => simpa [comb, flat] using hs
    | item _ _ => simpa [comb, flat] using hs
    | sel _ _ => simpa [comb, flat] using hs
  | some (l, false) => simp only [leftFlat] at hl; simp [comb, flat, hl, hs]
  | some (l, true) => simp only [leftFlat] at hl; simp [comb, flat, hl, hs]

/-- what has been read is flat: the left part, and the selection in progress is a selection — a bare
    non-terminal while it may still take a group -/
theorem feed_flat : ∀ (s : Sel), wfSel s = true → ∀ left, leftFlat left = true →
    leftFlat (feed s left).1 = true ∧ isSelection (feed s left).2.1 = true ∧
    ((feed s left).2.2 = true → ∃ n, (feed s left).2.1 = .rule n)
  | .rule n, _, left, hl => ⟨hl, rfl, fun _ => ⟨n, rfl⟩⟩
  | .attr b a, h, left, hl => by
    simp only [wfSel, Bool.and_eq_true] at h
    obtain ⟨h1, h2, _⟩ := feed_flat b h.1 left hl
    simp only [feed]
    exact feed_flat a h.2 _ (by simpa [leftFlat] using flat_comb _ _ h1 h2)
  | .desc b a, h, left, hl => by
    simp only [wfSel, Bool.and_eq_true] at h
    obtain ⟨h1, h2, _⟩ := feed_flat b h.1 left hl
    simp only [feed]
    exact feed_flat a h.2 _ (by simpa [leftFlat] using flat_comb _ _ h1 h2)
  | .item b sl, h, left, hl => by
    simp only [wfSel, Bool.and_eq_true] at h
    obtain ⟨h1, _, h3⟩ := feed_flat b h.1.1 left hl
    obtain ⟨n, e⟩ := h3 (by rw [feed_flag]; exact h.1.2)
    simp only [feed]
    exact ⟨h1, by rw [e]; rfl, fun hf => by simp at hf⟩
  | .sel b ps, h, left, hl => by
    simp only [wfSel, Bool.and_eq_true] at h
    obtain ⟨h1, _, h3⟩ := feed_flat b h.1.1.1 left hl
    obtain ⟨n, e⟩ := h3 (by rw [feed_flag]; exact h.1.1.2)
    simp only [feed]
    exact ⟨h1, by rw [e]; rfl, fun hf => by simp at hf⟩

/-- the normal form is of the shape the front end builds -/
theorem flat_normSel (s : Sel) (h : wfSel s = true) : flat (normSel s) = true := by
  obtain ⟨h1, h2, _⟩ := feed_flat s h none rfl
  exact flat_comb _ _ h1 h2

/-- printing forgets the parentheses only: the normal form prints as the same tokens -/
def printLeft : Option (Sel × Bool) → List STok
  | none => []
  | some (l, false) => printSel l ++ [.dot]
  | some (l, true) => printSel l ++ [.dotdot]

theorem printLeft_dot (l : Sel) : printLeft (some (l, false)) = printSel l ++ [.dot] := rfl
theorem printLeft_dotdot (l : Sel) : printLeft (some (l, true)) = printSel l ++ [.dotdot] := rfl

theorem printSel_comb (left : Option (Sel × Bool)) (s : Sel) :
    printSel (comb left s) = printLeft left ++ printSel s := by
  match left with
  | none => rfl
  | some (l, false) => simp [comb, printSel, printLeft]
  | some (l, true) => simp [comb, printSel, printLeft]

theorem printSel_feed : ∀ (s : Sel) (left : Option (Sel × Bool)),
    printLeft (feed s left).1 ++ printSel (feed s left).2.1 = printLeft left ++ printSel s
  | .rule _, _ => rfl
  | .attr b a, left => by
    simp only [feed]
    rw [printSel_feed a]
    simp only [printLeft_dot, printSel, printSel_comb]
    rw [printSel_feed b left]; simp
  | .desc b a, left => by
    simp only [feed]
    rw [printSel_feed a]
    simp only [printLeft_dotdot, printSel, printSel_comb]
    rw [printSel_feed b left]; simp
  | .item b sl, left => by
    simp only [feed, printSel]
    rw [← List.append_assoc, printSel_feed b left]; simp
  | .sel b ps, left => by
    simp only [feed, printSel]
    rw [← List.append_assoc, printSel_feed b left]; simp

theorem printSel_normSel (s : Sel) : printSel (normSel s) = printSel s := by
  have := printSel_feed s none
  simp only [normSel]
  rw [printSel_comb]
  simpa [printLeft] using this

end FV.PS
