/-
What a printed-and-re-read search FINDS: the selector terms of `Model/PrintSearch.lean` as searches of the
shared model `Model/Search.lean` (E4: `find` / `find_direct` of `language/search.py`, tied to /repo by the
C07 correspondence), and the theorem that the normal form `normSel s` — what reading the printed form of
`s` back yields — finds what `s` finds: the same containers with the same trees in the same order, and
it raises exactly when `s` raises (`sem`: the result with the identity of the exception forgotten — a
search over several base trees may meet another tree's exception first after re-association).
-/
import Model.Search
import Model.PrintSearch
namespace FV.PS

def toSlc : Slice → Slc
  | .idx n => .idx n
  | .rng a b c => .slice (a.map Int.ofNat) (b.map Int.ofNat) c

def toPair (p : Pair) : SelPair := ⟨p.sym, p.direct, p.items.map toSlc⟩

def toSearch : Sel → Search
  | .rule n => .rule n
  | .attr b a => .attr (toSearch b) (toSearch a)
  | .desc b a => .desc (toSearch b) (toSearch a)
  | .item b sl => .item (toSearch b) (sl.map toSlc)
  | .sel b ps => .sel (toSearch b) (ps.map toPair)

def topSearch : Top → Search
  | .plain s => toSearch s
  | .star s => .star (toSearch s)
  | .lenBar s => .len (toSearch s)
  | .lenStar s => .len (.star (toSearch s))

/-- the leaves below each found tree, in the order found (`none`: the search raises) -/
def foundLeaves (s : Sel) (t : Tree) : Option (List (List Leaf)) :=
  match (toSearch s).find t [] with
  | .ok cs => some ((allTrees cs).map Tree.leaves)
  | .error _ => none

/-! ### results with the identity of the exception forgotten -/

def okOf {ε α : Type} : Except ε α → Option α
  | .ok a => some a
  | .error _ => none

/-- what `find` (`direct = false`) / `find_direct` (`direct = true`) of the search returns; `none`: raises -/
def sem (direct : Bool) (s : Search) (t : Tree) (σ : Scope) : Option (List Cont) :=
  okOf (Search.findG direct s t σ)

/-- `extend` over a list, failing when any element fails -/
def oFlat {α β : Type} (f : α → Option (List β)) : List α → Option (List β)
  | [] => some []
  | x :: xs =>
    match f x, oFlat f xs with
    | some a, some b => some (a ++ b)
    | _, _ => none

theorem okOf_flatMapE {α β ε : Type} (f : α → Except ε (List β)) : ∀ l : List α,
    okOf (flatMapE f l) = oFlat (fun x => okOf (f x)) l
  | [] => rfl
  | x :: xs => by
    have ih := okOf_flatMapE f xs
    simp only [flatMapE, oFlat]
    cases hx : f x with
    | error e => simp [okOf]
    | ok ys =>
      cases hr : flatMapE f xs with
      | error e => rw [hr] at ih; simp [okOf] at ih ⊢; rw [← ih]
      | ok zs => rw [hr] at ih; simp [okOf] at ih ⊢; rw [← ih]

theorem oFlat_append {α β : Type} (f : α → Option (List β)) : ∀ a b : List α,
    oFlat f (a ++ b) = (match oFlat f a, oFlat f b with
      | some x, some y => some (x ++ y)
      | _, _ => none)
  | [], b => by cases h : oFlat f b <;> simp [oFlat, h]
  | x :: a, b => by
    simp only [List.cons_append, oFlat, oFlat_append f a b]
    cases f x <;> cases oFlat f a <;> cases oFlat f b <;> simp

/-- one stage of a search: over every tree found so far -/
def thenO (x : Option (List Cont)) (g : Tree → Option (List Cont)) : Option (List Cont) :=
  x.bind (fun cs => oFlat g (allTrees cs))

theorem allTrees_append (a b : List Cont) : allTrees (a ++ b) = allTrees a ++ allTrees b := by
  simp [allTrees]

theorem thenO_assoc (x : Option (List Cont)) (f g : Tree → Option (List Cont)) :
    thenO (thenO x f) g = thenO x (fun u => thenO (f u) g) := by
  cases x with
  | none => rfl
  | some cs =>
    simp only [thenO, Option.bind]
    generalize allTrees cs = l
    induction l with
    | nil => rfl
    | cons u us ih =>
      simp only [oFlat]
      cases hu : f u with
      | none => rfl
      | some a =>
        cases hr : oFlat f us with
        | none =>
          rw [hr] at ih
          simp only [] at ih ⊢
          rw [← ih]
          cases oFlat g (allTrees a) <;> rfl
        | some b =>
          rw [hr] at ih
          simp only [] at ih ⊢
          rw [← ih, allTrees_append, oFlat_append]

theorem sem_attr (d : Bool) (b a : Search) (t : Tree) (σ : Scope) :
    sem d (.attr b a) t σ = thenO (sem d b t σ) (fun u => sem true a u σ) := by
  simp only [sem, Search.findG]
  cases h : Search.findG d b t σ with
  | error e => rfl
  | ok bs =>
    show okOf (flatMapE (fun u => Search.findG true a u σ) (allTrees bs)) = _
    rw [okOf_flatMapE]; rfl

theorem sem_desc (d : Bool) (b a : Search) (t : Tree) (σ : Scope) :
    sem d (.desc b a) t σ = thenO (sem d b t σ) (fun u => sem false a u σ) := by
  simp only [sem, Search.findG]
  cases h : Search.findG d b t σ with
  | error e => rfl
  | ok bs =>
    show okOf (flatMapE (fun u => Search.findG false a u σ) (allTrees bs)) = _
    rw [okOf_flatMapE]; rfl

/-- `[…]` / `{…}` / `*` / `|…|` use their base only through what it finds -/
theorem sem_item_congr (d : Bool) (b b' : Search) (sl : List Slc) (t : Tree) (σ : Scope)
    (h : Search.findG d b t σ = Search.findG d b' t σ ∨ sem d b t σ = sem d b' t σ) :
    sem d (.item b sl) t σ = sem d (.item b' sl) t σ := by
  have h' : sem d b t σ = sem d b' t σ := by
    cases h with
    | inl h => simp [sem, h]
    | inr h => exact h
  simp only [sem, Search.findG] at h' ⊢
  cases h1 : Search.findG d b t σ <;> cases h2 : Search.findG d b' t σ <;> simp_all [okOf]

theorem sem_sel_congr (d : Bool) (b b' : Search) (ps : List SelPair) (t : Tree) (σ : Scope)
    (h' : sem d b t σ = sem d b' t σ) : sem d (.sel b ps) t σ = sem d (.sel b' ps) t σ := by
  simp only [sem, Search.findG] at h' ⊢
  cases h1 : Search.findG d b t σ <;> cases h2 : Search.findG d b' t σ <;> simp_all [okOf]

theorem sem_star_congr (d : Bool) (b b' : Search) (t : Tree) (σ : Scope)
    (h' : sem d b t σ = sem d b' t σ) : sem d (.star b) t σ = sem d (.star b') t σ := by
  simp only [sem, Search.findG] at h' ⊢
  cases h1 : Search.findG d b t σ <;> cases h2 : Search.findG d b' t σ <;> simp_all [okOf]

theorem sem_len_congr (d : Bool) (b b' : Search) (t : Tree) (σ : Scope)
    (h' : sem d b t σ = sem d b' t σ) : sem d (.len b) t σ = sem d (.len b') t σ := by
  simp only [sem, Search.findG] at h' ⊢
  cases h1 : Search.findG d b t σ <;> cases h2 : Search.findG d b' t σ <;> simp_all [okOf]

/-! ### the normal form finds the same -/

/-- the two searches find the same, whatever the tree, the scope and the mode -/
def Eqv (s s' : Sel) : Prop :=
  ∀ (d : Bool) (t : Tree) (σ : Scope), sem d (toSearch s) t σ = sem d (toSearch s') t σ

theorem Eqv.rfl' (s : Sel) : Eqv s s := fun _ _ _ => rfl
theorem Eqv.trans' {a b c : Sel} (h1 : Eqv a b) (h2 : Eqv b c) : Eqv a c :=
  fun d t σ => (h1 d t σ).trans (h2 d t σ)

theorem eqv_attr {b b' a a' : Sel} (hb : Eqv b b') (ha : Eqv a a') : Eqv (.attr b a) (.attr b' a') := by
  intro d t σ
  simp only [toSearch, sem_attr, hb d t σ]
  congr 1; funext u; exact ha true u σ

theorem eqv_desc {b b' a a' : Sel} (hb : Eqv b b') (ha : Eqv a a') : Eqv (.desc b a) (.desc b' a') := by
  intro d t σ
  simp only [toSearch, sem_desc, hb d t σ]
  congr 1; funext u; exact ha false u σ

theorem eqv_item {b b' : Sel} (sl : List Slice) (hb : Eqv b b') : Eqv (.item b sl) (.item b' sl) :=
  fun d t σ => sem_item_congr d _ _ _ t σ (Or.inr (hb d t σ))

theorem eqv_sel {b b' : Sel} (ps : List Pair) (hb : Eqv b b') : Eqv (.sel b ps) (.sel b' ps) :=
  fun d t σ => sem_sel_congr d _ _ _ t σ (hb d t σ)

theorem eqv_comb {s s' : Sel} (left : Option (Sel × Bool)) (h : Eqv s s') : Eqv (comb left s) (comb left s') := by
  match left with
  | none => exact h
  | some (l, false) => exact eqv_attr (Eqv.rfl' l) h
  | some (l, true) => exact eqv_desc (Eqv.rfl' l) h

/-- `.` and `..` are associative: `(l ∘ b) ∘ a` finds what `l ∘ (b ∘ a)` finds -/
theorem eqv_assoc_attr (left : Option (Sel × Bool)) (b a : Sel) :
    Eqv (.attr (comb left b) a) (comb left (.attr b a)) := by
  match left with
  | none => exact Eqv.rfl' _
  | some (l, false) =>
    intro d t σ
    simp only [comb, toSearch, sem_attr, thenO_assoc]
  | some (l, true) =>
    intro d t σ
    simp only [comb, toSearch, sem_attr, sem_desc, thenO_assoc]

theorem eqv_assoc_desc (left : Option (Sel × Bool)) (b a : Sel) :
    Eqv (.desc (comb left b) a) (comb left (.desc b a)) := by
  match left with
  | none => exact Eqv.rfl' _
  | some (l, false) =>
    intro d t σ
    simp only [comb, toSearch, sem_attr, sem_desc, thenO_assoc]
  | some (l, true) =>
    intro d t σ
    simp only [comb, toSearch, sem_desc, thenO_assoc]

/-- what has been read behind `left` finds what `left` followed by the search finds -/
theorem eqv_feed : ∀ (s : Sel) (left : Option (Sel × Bool)),
    Eqv (comb (feed s left).1 (feed s left).2.1) (comb left s)
  | .rule _, _ => Eqv.rfl' _
  | .attr b a, left => by
    simp only [feed]
    refine Eqv.trans' (eqv_feed a _) ?_
    simp only [comb]
    exact Eqv.trans' (eqv_attr (eqv_feed b left) (Eqv.rfl' a)) (eqv_assoc_attr left b a)
  | .desc b a, left => by
    simp only [feed]
    refine Eqv.trans' (eqv_feed a _) ?_
    simp only [comb]
    exact Eqv.trans' (eqv_desc (eqv_feed b left) (Eqv.rfl' a)) (eqv_assoc_desc left b a)
  | .item b sl, left => by
    simp only [feed]
    exact eqv_comb left (eqv_item sl (eqv_feed b none))
  | .sel b ps, left => by
    simp only [feed]
    exact eqv_comb left (eqv_sel ps (eqv_feed b none))

/-- **the normal form finds what the search finds** -/
theorem eqv_normSel (s : Sel) : Eqv (normSel s) s := eqv_feed s none

theorem sem_normTop (t : Top) (d : Bool) (tr : Tree) (σ : Scope) :
    sem d (topSearch (normTop t)) tr σ = sem d (topSearch t) tr σ := by
  cases t with
  | plain s => exact eqv_normSel s d tr σ
  | star s => exact sem_star_congr d _ _ tr σ (eqv_normSel s d tr σ)
  | lenBar s => exact sem_len_congr d _ _ tr σ (eqv_normSel s d tr σ)
  | lenStar s =>
    refine sem_len_congr d _ _ tr σ ?_
    -- the star search inside is evaluated in the same mode
    exact sem_star_congr d _ _ tr σ (eqv_normSel s d tr σ)

end FV.PS
