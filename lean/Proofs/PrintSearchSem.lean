/-
What a printed-and-re-read search FINDS: the selector terms of `Model/PrintSearch.lean` as searches of the
shared model `Model/Search.lean` (E4: `find` / `find_direct` of `language/search.py`, tied to /repo by the
C07 correspondence), so that `normSel` — what reading the printed form back yields — can be compared with
the original on a tree.
-/
import Model.Search
import Model.PrintSearch
namespace FV.PS

def toSlc : Slice → Slc
  | .idx n => .idx n
  | .rng a b c => .slice (a.map Int.ofNat) (b.map Int.ofNat) c

def toPair (p : Pair) : SelPair := ⟨p.sym, p.direct, p.items.map toSlc⟩

def toSearch : Sel → Search
  | .rule n => .rule n
  | .attr b a => .attr (toSearch b) (toSearch a)
  | .desc b a => .desc (toSearch b) (toSearch a)
  | .item b sl => .item (toSearch b) (sl.map toSlc)
  | .sel b ps => .sel (toSearch b) (ps.map toPair)

/-- the leaves below each found tree, in the order found (`none`: the search raises) -/
def foundLeaves (s : Sel) (t : Tree) : Option (List (List Leaf)) :=
  match (toSearch s).find t [] with
  | .ok cs => some ((allTrees cs).map Tree.leaves)
  | .error _ => none

end FV.PS
