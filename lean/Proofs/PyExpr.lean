/-
Helper lemmas for C08 (`Model/PyExpr.lean`): the visitor commutes with evaluation.
-/
import Model.PyExpr
namespace FV.Py

/-- the tables of CPython's own grammar → `ast` mapping (Python language reference §6, `ast` docs):
    the reference the generated tables are compared with -/
def cpythonTables (commaAware : Bool) : Tables :=
  { disjOp := .Or, conjOp := .And, notOp := .Not,
    cmp := [(.eq, .Eq), (.noteq, .NotEq), (.lte, .LtE), (.lt, .Lt), (.gte, .GtE), (.gt, .Gt),
            (.notin, .NotIn), (.in_, .In), (.isnot, .IsNot), (.is_, .Is)],
    borOp := .BitOr, bxorOp := .BitXor, bandOp := .BitAnd,
    shift := [(.LEFT_SHIFT, .LShift), (.RIGHT_SHIFT, .RShift)],
    sum := [(.ADD, .Add), (.MINUS, .Sub)],
    term := [(.STAR, .Mult), (.DIV, .Div), (.IDIV, .FloorDiv), (.MOD, .Mod), (.AT, .MatMult)],
    factor := [(.ADD, .UAdd), (.MINUS, .USub), (.NOT_OP, .Invert)],
    powOp := .Pow,
    binLeft := 0, binRight := 1, unOperand := 0,
    ifTest := .d1, ifBody := .d0, ifOrelse := .e,
    slicesCommaAware := commaAware }

mutual
theorem cf_true : (pt : PT) → cf true pt = true
  | .ternary d0 d1 e => by simp [cf, cf_true d0, cf_true d1, cf_true e]
  | .exprD d => by simp [cf, cf_true d]
  | .disj cs => by simp [cf, cfL_true cs]
  | .conj cs => by simp [cf, cfL_true cs]
  | .invNot i => by simp [cf, cf_true i]
  | .invC c => by simp [cf, cf_true c]
  | .cmp f _ xs => by simp [cf, cf_true f, cfL_true xs]
  | .bor l r => by simp [cf, cf_true l, cf_true r]
  | .borT x => by simp [cf, cf_true x]
  | .bxor l r => by simp [cf, cf_true l, cf_true r]
  | .bxorT x => by simp [cf, cf_true x]
  | .band l r => by simp [cf, cf_true l, cf_true r]
  | .bandT x => by simp [cf, cf_true x]
  | .shift l _ r => by simp [cf, cf_true l, cf_true r]
  | .shiftT x => by simp [cf, cf_true x]
  | .sum l _ r => by simp [cf, cf_true l, cf_true r]
  | .sumT x => by simp [cf, cf_true x]
  | .term l _ r => by simp [cf, cf_true l, cf_true r]
  | .termT x => by simp [cf, cf_true x]
  | .factor _ x => by simp [cf, cf_true x]
  | .factorT x => by simp [cf, cf_true x]
  | .power x e => by simp [cf, cf_true x, cf_true e]
  | .powerT x => by simp [cf, cf_true x]
  | .awaitP p => by simp [cf, cf_true p]
  | .awaitT p => by simp [cf, cf_true p]
  | .attr p _ => by simp [cf, cf_true p]
  | .call p _ args => by simp [cf, cf_true p, cfL_true args]
  | .subscr p ss _ => by simp [cf, cf_true p, cfL_true ss]
  | .primA a => by simp [cf, cf_true a]
  | .slice lo hi st => by simp [cf, cf_true lo, cf_true hi, cf_true st]
  | .sliceE e => by simp [cf, cf_true e]
  | .absent => by simp [cf]
  | .name _ => by simp [cf]
  | .true_ => by simp [cf]
  | .false_ => by simp [cf]
  | .none_ => by simp [cf]
  | .ellipsis => by simp [cf]
  | .num _ => by simp [cf]
  | .str _ => by simp [cf]
  | .group e => by simp [cf, cf_true e]
  | .tuple xs => by simp [cf, cfL_true xs]
  | .list xs => by simp [cf, cfL_true xs]
theorem cfL_true : (xs : List PT) → cfL true xs = true
  | [] => by simp [cfL]
  | x :: xs => by simp [cfL, cf_true x, cfL_true xs]
end

/-! ### table lookups for CPython's tables -/

theorem lookup_shift (b : Bool) (t : ShiftTok) : lookup t (cpythonTables b).shift = some (shiftTok t) := by
  cases t <;> rfl
theorem lookup_sum (b : Bool) (t : SumTok) : lookup t (cpythonTables b).sum = some (sumTok t) := by
  cases t <;> rfl
theorem lookup_term (b : Bool) (t : TermTok) : lookup t (cpythonTables b).term = some (termTok t) := by
  cases t <;> rfl
theorem lookup_factor (b : Bool) (t : FactorTok) : lookup t (cpythonTables b).factor = some (factorTok t) := by
  cases t <;> rfl
theorem lookup_cmp (b : Bool) (r : CmpRule) : lookup r (cpythonTables b).cmp = some (ruleCmp r) := by
  cases r <;> rfl

theorem cmpOps_cpython (b : Bool) : ∀ rs : List CmpRule, cmpOps (cpythonTables b) rs = some (rs.map ruleCmp)
  | [] => rfl
  | r :: rs => by simp [cmpOps, lookup_cmp, cmpOps_cpython b rs]

theorem mkBin_cpython (b : Bool) (l r : Ast) (op : BinOpK) : mkBin (cpythonTables b) l op r = .binOp l op r := rfl
theorem mkUn_cpython (b : Bool) (x : Ast) (op : UnOpK) : mkUn (cpythonTables b) op x = .unaryOp op x := rfl

/-! ### the visitor never returns a bare `keyword` / `Starred` (those are made by `mkArg` only) -/

theorem boolOf_mem (op : BoolOpK) (as : List Ast)
    (h : ∀ a ∈ as, isKeyword a = false ∧ isStarred a = false) :
    isKeyword (boolOf op as) = false ∧ isStarred (boolOf op as) = false := by
  match as with
  | [] => simp [boolOf, isKeyword, isStarred]
  | [a] => simpa [boolOf] using h a (by simp)
  | _ :: _ :: _ => simp [boolOf, isKeyword, isStarred]

theorem slicesOf_mem (c t : Bool) (as : List Ast)
    (h : ∀ a ∈ as, isKeyword a = false ∧ isStarred a = false) :
    isKeyword (slicesOf c t as) = false ∧ isStarred (slicesOf c t as) = false := by
  match as with
  | [] => simp [slicesOf, isKeyword, isStarred]
  | [a] =>
    simp only [slicesOf]
    split
    · simp [isKeyword, isStarred]
    · exact h a (by simp)
  | _ :: _ :: _ => simp [slicesOf, isKeyword, isStarred]

theorem getD2 (l r : Ast) (i : Nat)
    (hl : isKeyword l = false ∧ isStarred l = false) (hr : isKeyword r = false ∧ isStarred r = false) :
    isKeyword ([l, r].getD i .invalid) = false ∧ isStarred ([l, r].getD i .invalid) = false := by
  match i with
  | 0 => simpa using hl
  | 1 => simpa using hr
  | _ + 2 => simp [isKeyword, isStarred]

theorem pickSlot_plain (s : Slot) (a b c : Ast)
    (ha : isKeyword a = false ∧ isStarred a = false) (hb : isKeyword b = false ∧ isStarred b = false)
    (hc : isKeyword c = false ∧ isStarred c = false) :
    isKeyword (pickSlot s a b c) = false ∧ isStarred (pickSlot s a b c) = false := by
  cases s <;> simpa [pickSlot]

mutual
theorem visit_plain (T : Tables) : (pt : PT) → isKeyword (visit T pt) = false ∧ isStarred (visit T pt) = false
  | .ternary _ _ _ => by simp [visit, isKeyword, isStarred]
  | .exprD d => by simpa [visit] using visit_plain T d
  | .disj cs => by simpa [visit] using boolOf_mem _ _ (visitL_plain T cs)
  | .conj cs => by simpa [visit] using boolOf_mem _ _ (visitL_plain T cs)
  | .invNot _ => by simp [visit, mkUn, isKeyword, isStarred]
  | .invC c => by simpa [visit] using visit_plain T c
  | .cmp f rules xs => by
    cases rules with
    | nil => simpa [visit] using visit_plain T f
    | cons r rs =>
      simp only [visit]
      split <;> simp [isKeyword, isStarred]
  | .bor _ _ => by simp [visit, mkBin, isKeyword, isStarred]
  | .borT x => by simpa [visit] using visit_plain T x
  | .bxor _ _ => by simp [visit, mkBin, isKeyword, isStarred]
  | .bxorT x => by simpa [visit] using visit_plain T x
  | .band _ _ => by simp [visit, mkBin, isKeyword, isStarred]
  | .bandT x => by simpa [visit] using visit_plain T x
  | .shift _ _ r => by
    simp only [visit]
    split
    · simp [mkBin, isKeyword, isStarred]
    · exact visit_plain T r
  | .shiftT x => by simpa [visit] using visit_plain T x
  | .sum _ _ r => by
    simp only [visit]
    split
    · simp [mkBin, isKeyword, isStarred]
    · exact visit_plain T r
  | .sumT x => by simpa [visit] using visit_plain T x
  | .term _ _ r => by
    simp only [visit]
    split
    · simp [mkBin, isKeyword, isStarred]
    · exact visit_plain T r
  | .termT x => by simpa [visit] using visit_plain T x
  | .factor _ _ => by
    simp only [visit]
    split <;> simp [mkUn, isKeyword, isStarred]
  | .factorT x => by simpa [visit] using visit_plain T x
  | .power _ _ => by simp [visit, mkBin, isKeyword, isStarred]
  | .powerT x => by simpa [visit] using visit_plain T x
  | .awaitP _ => by simp [visit, isKeyword, isStarred]
  | .awaitT x => by simpa [visit] using visit_plain T x
  | .attr _ _ => by simp [visit, isKeyword, isStarred]
  | .call _ _ _ => by simp [visit, isKeyword, isStarred]
  | .subscr _ _ _ => by simp [visit, isKeyword, isStarred]
  | .primA x => by simpa [visit] using visit_plain T x
  | .slice _ _ _ => by simp [visit, isKeyword, isStarred]
  | .sliceE x => by simpa [visit] using visit_plain T x
  | .absent => by simp [visit, isKeyword, isStarred]
  | .name _ => by simp [visit, isKeyword, isStarred]
  | .true_ => by simp [visit, isKeyword, isStarred]
  | .false_ => by simp [visit, isKeyword, isStarred]
  | .none_ => by simp [visit, isKeyword, isStarred]
  | .ellipsis => by simp [visit, isKeyword, isStarred]
  | .num _ => by simp [visit, isKeyword, isStarred]
  | .str _ => by simp [visit, isKeyword, isStarred]
  | .group x => by simpa [visit] using visit_plain T x
  | .tuple _ => by simp [visit, isKeyword, isStarred]
  | .list _ => by simp [visit, isKeyword, isStarred]
theorem visitL_plain (T : Tables) : (xs : List PT) →
    ∀ a ∈ visitL T xs, isKeyword a = false ∧ isStarred a = false
  | [] => by simp [visitL]
  | x :: xs => by
    intro a ha
    simp only [visitL, List.mem_cons] at ha
    cases ha with
    | inl h => subst h; exact visit_plain T x
    | inr h => exact visitL_plain T xs a h
end

/-! ### list-level commutation lemmas (given commutation for the elements) -/

section
variable (T : Tables) (ρ : Env)

/-- hypothesis shape used throughout: the elements already commute -/
def Comm (xs : List PT) : Prop := ∀ x ∈ xs, evalAst ρ (visit T x) = evalPT ρ x

theorem Comm.head {x : PT} {xs : List PT} (h : Comm T ρ (x :: xs)) : evalAst ρ (visit T x) = evalPT ρ x :=
  h x (by simp)
theorem Comm.tail {x : PT} {xs : List PT} (h : Comm T ρ (x :: xs)) : Comm T ρ xs :=
  fun y hy => h y (by simp [hy])

theorem evalArgs_plain (a : Ast) (r : List Ast) (acc : List Val) (h : isStarred a = false) :
    evalArgs ρ (a :: r) acc = (do let v ← evalAst ρ a; evalArgs ρ r (acc ++ [v])) := by
  cases a <;> first | rfl | simp [isStarred] at h

/-- BoolOp(Or): flat iteration = left-nested binary `or` -/
theorem orTail (x : PT) (r : List PT) (h : Comm T ρ (x :: r)) :
    evalBoolOp ρ .Or (visitL T (x :: r)) = (do let w ← evalPT ρ x; evalOrs ρ w r) := by
  induction r generalizing x with
  | nil =>
    simp only [visitL, evalBoolOp, evalOrs, h.head]
    simp
  | cons y r ih =>
    have hy := ih y h.tail
    simp only [visitL] at hy ⊢
    simp only [evalBoolOp, h.head, evalOrs]
    congr 1
    funext w
    split
    · rfl
    · exact hy

theorem andTail (x : PT) (r : List PT) (h : Comm T ρ (x :: r)) :
    evalBoolOp ρ .And (visitL T (x :: r)) = (do let w ← evalPT ρ x; evalAnds ρ w r) := by
  induction r generalizing x with
  | nil =>
    simp only [visitL, evalBoolOp, evalAnds, h.head]
    simp
  | cons y r ih =>
    have hy := ih y h.tail
    simp only [visitL] at hy ⊢
    simp only [evalBoolOp, h.head, evalAnds]
    congr 1
    funext w
    split
    · exact hy
    · rfl

theorem disj_comm (cs : List PT) (h : Comm T ρ cs) :
    evalAst ρ (boolOf .Or (visitL T cs)) = evalDisj ρ cs := by
  match cs with
  | [] => simp [visitL, boolOf, evalAst, evalDisj]
  | [a] =>
    simp only [visitL, boolOf, evalDisj, evalOrs, h.head]
    simp
  | a :: b :: r =>
    have := orTail T ρ a (b :: r) h
    simp only [visitL] at this
    simp only [visitL, boolOf, evalAst, evalDisj]
    exact this

theorem conj_comm (cs : List PT) (h : Comm T ρ cs) :
    evalAst ρ (boolOf .And (visitL T cs)) = evalConj ρ cs := by
  match cs with
  | [] => simp [visitL, boolOf, evalAst, evalConj]
  | [a] =>
    simp only [visitL, boolOf, evalConj, evalAnds, h.head]
    simp
  | a :: b :: r =>
    have := andTail T ρ a (b :: r) h
    simp only [visitL] at this
    simp only [visitL, boolOf, evalAst, evalConj]
    exact this

/-- Compare(ops, comparators) = the chain read pair by pair -/
theorem chain_comm (rules : List CmpRule) (xs : List PT) (a : Val) (h : Comm T ρ xs) :
    evalCompare ρ a (rules.map ruleCmp) (visitL T xs) = evalChain ρ a rules xs := by
  induction rules generalizing xs a with
  | nil => cases xs <;> simp [evalCompare, evalChain, visitL]
  | cons r rs ih =>
    cases xs with
    | nil => cases rs <;> simp [evalCompare, evalChain, visitL]
    | cons x xs =>
      cases rs with
      | nil => simp only [List.map, visitL, evalCompare, evalChain, h.head]
      | cons r2 rs2 =>
        simp only [List.map, visitL, evalCompare, evalChain, h.head]
        congr 1
        funext b
        congr 1
        funext res
        split
        · have := ih xs b h.tail
          simpa [List.map] using this
        · rfl

/-- display elements / slices -/
theorem elems_comm (xs : List PT) (acc : List Val) (h : Comm T ρ xs) :
    evalArgs ρ (visitL T xs) acc = evalElems ρ xs acc := by
  induction xs generalizing acc with
  | nil => simp [visitL, evalArgs, evalElems]
  | cons x xs ih =>
    simp only [visitL, evalElems]
    rw [evalArgs_plain ρ _ _ _ (visit_plain T x).2, h.head]
    congr 1
    funext v
    exact ih _ h.tail

theorem posArgs_comm (ks : List ArgKind) (xs : List PT) (acc : List Val) (h : Comm T ρ xs) :
    evalArgs ρ ((zipArgs ks (visitL T xs)).filter (fun a => !isKeyword a)) acc = evalPosArgs ρ ks xs acc := by
  induction ks generalizing xs acc with
  | nil => simp [zipArgs, evalArgs, evalPosArgs]
  | cons k ks ih =>
    cases xs with
    | nil => cases k <;> simp [zipArgs, visitL, evalArgs, evalPosArgs]
    | cons x xs =>
      have hp := visit_plain T x
      cases k with
      | pos =>
        simp only [visitL, zipArgs, mkArg, evalPosArgs]
        rw [List.filter_cons_of_pos (by simp [hp.1])]
        rw [evalArgs_plain ρ _ _ _ hp.2, h.head]
        congr 1
        funext v
        exact ih xs _ h.tail
      | star =>
        simp only [visitL, zipArgs, mkArg, evalPosArgs]
        rw [List.filter_cons_of_pos (by simp [isKeyword])]
        simp only [evalArgs, h.head]
        congr 1
        funext v
        congr 1
        funext ys
        exact ih xs _ h.tail
      | kw n =>
        simp only [visitL, zipArgs, mkArg, evalPosArgs]
        rw [List.filter_cons_of_neg (by simp [isKeyword])]
        exact ih xs _ h.tail
      | dstar =>
        simp only [visitL, zipArgs, mkArg, evalPosArgs]
        rw [List.filter_cons_of_neg (by simp [isKeyword])]
        exact ih xs _ h.tail

theorem kwArgs_comm (ks : List ArgKind) (xs : List PT) (acc : List (String × Val)) (h : Comm T ρ xs) :
    evalKws ρ ((zipArgs ks (visitL T xs)).filter isKeyword) acc = evalKwArgs ρ ks xs acc := by
  induction ks generalizing xs acc with
  | nil => simp [zipArgs, evalKws, evalKwArgs]
  | cons k ks ih =>
    cases xs with
    | nil => cases k <;> simp [zipArgs, visitL, evalKws, evalKwArgs]
    | cons x xs =>
      have hp := visit_plain T x
      cases k with
      | pos =>
        simp only [visitL, zipArgs, mkArg, evalKwArgs]
        rw [List.filter_cons_of_neg (by simp [hp.1])]
        exact ih xs _ h.tail
      | star =>
        simp only [visitL, zipArgs, mkArg, evalKwArgs]
        rw [List.filter_cons_of_neg (by simp [isKeyword])]
        exact ih xs _ h.tail
      | kw n =>
        simp only [visitL, zipArgs, mkArg, evalKwArgs]
        rw [List.filter_cons_of_pos (by simp [isKeyword])]
        simp only [evalKws, h.head]
        congr 1
        funext v
        exact ih xs _ h.tail
      | dstar =>
        simp only [visitL, zipArgs, mkArg, evalKwArgs]
        rw [List.filter_cons_of_pos (by simp [isKeyword])]
        simp only [evalKws, h.head]

end

/-- evaluating `slicesOf …` = the reference reading of `slices` -/
theorem slices_comm (T : Tables) (ρ : Env) (ss : List PT) (tc : Bool) (h : Comm T ρ ss)
    (hok : T.slicesCommaAware = true ∨ (tc && ss.length == 1) = false) :
    evalAst ρ (slicesOf T.slicesCommaAware tc (visitL T ss)) =
      (do let vs ← evalElems ρ ss []; pure (slicesVal (ss.length == 1 && !tc) vs)) := by
  match ss with
  | [] =>
    simp [visitL, slicesOf, evalAst, evalArgs, evalElems, slicesVal]
  | [s] =>
    simp only [visitL, slicesOf, evalElems]
    by_cases htc : tc = true
    · have hc : T.slicesCommaAware = true := by
        cases hok with
        | inl h => exact h
        | inr h => simp [htc] at h
      simp only [hc, htc, Bool.and_self, if_true, evalAst]
      rw [evalArgs_plain ρ _ _ _ (visit_plain T s).2, h.head]
      simp [evalArgs, slicesVal]
    · have htc' : tc = false := by simpa using htc
      simp only [htc', Bool.and_false, Bool.false_eq_true, if_false, h.head]
      simp [slicesVal]
  | a :: b :: r =>
    have := elems_comm T ρ (a :: b :: r) [] h
    simp only [visitL] at this
    simp only [visitL, slicesOf, evalAst, this]
    simp [slicesVal]

/-! ### the main induction -/

section
variable (b : Bool) (ρ : Env)

local notation "T" => cpythonTables b

mutual
theorem visit_eval_core : (pt : PT) → cf b pt = true → evalAst ρ (visit T pt) = evalPT ρ pt
  | .ternary d0 d1 e, h => by
    simp only [cf, Bool.and_eq_true] at h
    simp only [visit, evalPT]
    show evalAst ρ (.ifExp (visit T d1) (visit T d0) (visit T e)) = _
    simp only [evalAst, visit_eval_core d0 h.1.1, visit_eval_core d1 h.1.2, visit_eval_core e h.2]
  | .exprD d, h => by
    simp only [cf] at h
    simp only [visit, evalPT, visit_eval_core d h]
  | .disj cs, h => by
    simp only [cf] at h
    simp only [visit, evalPT]
    exact disj_comm T ρ cs (visitL_eval_core cs h)
  | .conj cs, h => by
    simp only [cf] at h
    simp only [visit, evalPT]
    exact conj_comm T ρ cs (visitL_eval_core cs h)
  | .invNot i, h => by
    simp only [cf] at h
    simp only [visit, evalPT, mkUn_cpython]
    show evalAst ρ (.unaryOp .Not (visit T i)) = _
    simp only [evalAst, visit_eval_core i h, unSem]
    rfl
  | .invC c, h => by
    simp only [cf] at h
    simp only [visit, evalPT, visit_eval_core c h]
  | .cmp f rules xs, h => by
    simp only [cf, Bool.and_eq_true] at h
    cases rules with
    | nil => simp only [visit, evalPT, visit_eval_core f h.1]
    | cons r rs =>
      simp only [visit, evalPT, cmpOps_cpython, evalAst, visit_eval_core f h.1]
      congr 1
      funext a
      exact chain_comm T ρ (r :: rs) xs a (visitL_eval_core xs h.2)
  | .bor l r, h => by
    simp only [cf, Bool.and_eq_true] at h
    simp only [visit, evalPT, mkBin_cpython]
    show evalAst ρ (.binOp (visit T l) .BitOr (visit T r)) = _
    simp only [evalAst, visit_eval_core l h.1, visit_eval_core r h.2]
  | .borT x, h => by
    simp only [cf] at h
    simp only [visit, evalPT, visit_eval_core x h]
  | .bxor l r, h => by
    simp only [cf, Bool.and_eq_true] at h
    simp only [visit, evalPT, mkBin_cpython]
    show evalAst ρ (.binOp (visit T l) .BitXor (visit T r)) = _
    simp only [evalAst, visit_eval_core l h.1, visit_eval_core r h.2]
  | .bxorT x, h => by
    simp only [cf] at h
    simp only [visit, evalPT, visit_eval_core x h]
  | .band l r, h => by
    simp only [cf, Bool.and_eq_true] at h
    simp only [visit, evalPT, mkBin_cpython]
    show evalAst ρ (.binOp (visit T l) .BitAnd (visit T r)) = _
    simp only [evalAst, visit_eval_core l h.1, visit_eval_core r h.2]
  | .bandT x, h => by
    simp only [cf] at h
    simp only [visit, evalPT, visit_eval_core x h]
  | .shift l t r, h => by
    simp only [cf, Bool.and_eq_true] at h
    simp only [visit, evalPT, lookup_shift, mkBin_cpython, evalAst,
      visit_eval_core l h.1, visit_eval_core r h.2]
  | .shiftT x, h => by
    simp only [cf] at h
    simp only [visit, evalPT, visit_eval_core x h]
  | .sum l t r, h => by
    simp only [cf, Bool.and_eq_true] at h
    simp only [visit, evalPT, lookup_sum, mkBin_cpython, evalAst,
      visit_eval_core l h.1, visit_eval_core r h.2]
  | .sumT x, h => by
    simp only [cf] at h
    simp only [visit, evalPT, visit_eval_core x h]
  | .term l t r, h => by
    simp only [cf, Bool.and_eq_true] at h
    simp only [visit, evalPT, lookup_term, mkBin_cpython, evalAst,
      visit_eval_core l h.1, visit_eval_core r h.2]
  | .termT x, h => by
    simp only [cf] at h
    simp only [visit, evalPT, visit_eval_core x h]
  | .factor t x, h => by
    simp only [cf] at h
    simp only [visit, evalPT, lookup_factor, mkUn_cpython, evalAst, visit_eval_core x h]
  | .factorT x, h => by
    simp only [cf] at h
    simp only [visit, evalPT, visit_eval_core x h]
  | .power x e, h => by
    simp only [cf, Bool.and_eq_true] at h
    simp only [visit, evalPT, mkBin_cpython]
    show evalAst ρ (.binOp (visit T x) .Pow (visit T e)) = _
    simp only [evalAst, visit_eval_core x h.1, visit_eval_core e h.2]
  | .powerT x, h => by
    simp only [cf] at h
    simp only [visit, evalPT, visit_eval_core x h]
  | .awaitP p, _ => by
    simp only [visit, evalPT, evalAst]
  | .awaitT p, h => by
    simp only [cf] at h
    simp only [visit, evalPT, visit_eval_core p h]
  | .attr p n, h => by
    simp only [cf] at h
    simp only [visit, evalPT, evalAst, visit_eval_core p h]
  | .call p ks args, h => by
    simp only [cf, Bool.and_eq_true] at h
    have hl := visitL_eval_core args h.2
    simp only [visit, evalPT, evalAst, visit_eval_core p h.1,
      posArgs_comm T ρ ks args [] hl, kwArgs_comm T ρ ks args [] hl]
  | .subscr p ss tc, h => by
    simp only [cf, Bool.and_eq_true, Bool.or_eq_true] at h
    have hl := visitL_eval_core ss h.1.2
    have hok : (T).slicesCommaAware = true ∨ (tc && ss.length == 1) = false := by
      cases h.2 with
      | inl hb => exact Or.inl hb
      | inr hn =>
        refine Or.inr ?_
        cases hx : (tc && ss.length == 1) with
        | false => rfl
        | true => simp [hx] at hn
    simp only [visit, evalPT, evalAst, visit_eval_core p h.1.1, slices_comm T ρ ss tc hl hok]
    simp
  | .primA a, h => by
    simp only [cf] at h
    simp only [visit, evalPT, visit_eval_core a h]
  | .slice lo hi st, h => by
    simp only [cf, Bool.and_eq_true] at h
    simp only [visit, evalPT, evalAst, visit_eval_core lo h.1.1, visit_eval_core hi h.1.2,
      visit_eval_core st h.2]
  | .sliceE e, h => by
    simp only [cf] at h
    simp only [visit, evalPT, visit_eval_core e h]
  | .absent, _ => by simp only [visit, evalPT, evalAst]
  | .name s, _ => by simp only [visit, evalPT, evalAst]
  | .true_, _ => by simp only [visit, evalPT, evalAst]
  | .false_, _ => by simp only [visit, evalPT, evalAst]
  | .none_, _ => by simp only [visit, evalPT, evalAst]
  | .ellipsis, _ => by simp only [visit, evalPT, evalAst]
  | .num n, _ => by simp only [visit, evalPT, evalAst]
  | .str s, _ => by simp only [visit, evalPT, evalAst]
  | .group e, h => by
    simp only [cf] at h
    simp only [visit, evalPT, visit_eval_core e h]
  | .tuple xs, h => by
    simp only [cf] at h
    simp only [visit, evalPT, evalAst, elems_comm T ρ xs [] (visitL_eval_core xs h)]
  | .list xs, h => by
    simp only [cf] at h
    simp only [visit, evalPT, evalAst, elems_comm T ρ xs [] (visitL_eval_core xs h)]
theorem visitL_eval_core : (xs : List PT) → cfL b xs = true → Comm T ρ xs
  | [], _ => by intro x hx; simp at hx
  | x :: xs, h => by
    simp only [cfL, Bool.and_eq_true] at h
    intro y hy
    simp only [List.mem_cons] at hy
    cases hy with
    | inl e => subst e; exact visit_eval_core y h.1
    | inr m => exact visitL_eval_core xs h.2 y m
end

end

end FV.Py
