/-
`eval(repr(x)) = x` for the model of `Model/PyLit.lean` (str: all code-point lists below 0x110000,
any printability oracle; bytes: all byte lists).
-/
import Model.PyLit
namespace FV.PyLit

theorem hexVal_hexDigit (d : Nat) (h : d < 16) : hexVal (hexDigit d) = some d := by
  unfold hexDigit hexVal
  by_cases h10 : d < 10
  · simp only [h10, if_true]
    have : 48 ≤ 48 + d ∧ 48 + d ≤ 57 := by omega
    simp only [this, and_self, if_true]
    congr 1; omega
  · simp only [h10, if_false]
    have h1 : ¬ (48 ≤ 87 + d ∧ 87 + d ≤ 57) := by omega
    have h2 : 97 ≤ 87 + d ∧ 87 + d ≤ 102 := by omega
    simp only [h1, if_false, h2, and_self, if_true]
    congr 1; omega

theorem runE_cons (b : Bool) (q : Nat) (st st' : St) (c : Nat) (cs : List Nat)
    (h : stepE b q st c = some st') : runE b q st (c :: cs) = runE b q st' cs := by
  simp [runE, h]

/-- a hex digit that is not the last one -/
theorem step_hex_more (b : Bool) (q k acc d : Nat) (out : List Nat) (hd : d < 16) :
    stepE b q ⟨.hex (k + 2) acc, out⟩ (hexDigit d) = some ⟨.hex (k + 1) (acc * 16 + d), out⟩ := by
  simp [stepE, hexVal_hexDigit d hd]

/-- the last hex digit -/
theorem step_hex_last (b : Bool) (q acc d : Nat) (out : List Nat) (hd : d < 16)
    (hv : acc * 16 + d < 1114112) :
    stepE b q ⟨.hex 1 acc, out⟩ (hexDigit d) = some ⟨.normal, (acc * 16 + d) :: out⟩ := by
  simp [stepE, hexVal_hexDigit d hd, hv]

theorem run_hex2 (b : Bool) (q c : Nat) (out rest : List Nat) (hc : c < 256) :
    runE b q ⟨.hex 2 0, out⟩ (hex2 c ++ rest) = runE b q ⟨.normal, c :: out⟩ rest := by
  simp only [hex2, List.cons_append, List.nil_append]
  rw [runE_cons _ _ _ _ _ _ (step_hex_more b q 0 0 _ out (by omega)),
      runE_cons _ _ _ _ _ _ (step_hex_last b q _ _ out (by omega) (by omega))]
  congr 3; omega

theorem run_hex4 (b : Bool) (q c : Nat) (out rest : List Nat) (hc : c < 65536) :
    runE b q ⟨.hex 4 0, out⟩ (hex4 c ++ rest) = runE b q ⟨.normal, c :: out⟩ rest := by
  simp only [hex4, List.cons_append, List.nil_append]
  rw [runE_cons _ _ _ _ _ _ (step_hex_more b q 2 0 _ out (by omega)),
      runE_cons _ _ _ _ _ _ (step_hex_more b q 1 _ _ out (by omega)),
      runE_cons _ _ _ _ _ _ (step_hex_more b q 0 _ _ out (by omega)),
      runE_cons _ _ _ _ _ _ (step_hex_last b q _ _ out (by omega) (by omega))]
  congr 3; omega

theorem run_hex8 (b : Bool) (q c : Nat) (out rest : List Nat) (hc : c < 1114112) :
    runE b q ⟨.hex 8 0, out⟩ (hex8 c ++ rest) = runE b q ⟨.normal, c :: out⟩ rest := by
  simp only [hex8, List.cons_append, List.nil_append]
  rw [runE_cons _ _ _ _ _ _ (step_hex_more b q 6 0 _ out (by omega)),
      runE_cons _ _ _ _ _ _ (step_hex_more b q 5 _ _ out (by omega)),
      runE_cons _ _ _ _ _ _ (step_hex_more b q 4 _ _ out (by omega)),
      runE_cons _ _ _ _ _ _ (step_hex_more b q 3 _ _ out (by omega)),
      runE_cons _ _ _ _ _ _ (step_hex_more b q 2 _ _ out (by omega)),
      runE_cons _ _ _ _ _ _ (step_hex_more b q 1 _ _ out (by omega)),
      runE_cons _ _ _ _ _ _ (step_hex_more b q 0 _ _ out (by omega)),
      runE_cons _ _ _ _ _ _ (step_hex_last b q _ _ out (by omega) (by omega))]
  congr 3; omega

theorem quoteFor_cases (s : List Nat) : quoteFor s = 39 ∨ quoteFor s = 34 := by
  unfold quoteFor; split <;> simp

/-- `\` followed by a simple escape letter -/
theorem run_esc2 (b : Bool) (q e v : Nat) (out rest : List Nat) (hq : 92 ≠ q)
    (he : stepE b q ⟨.esc, out⟩ e = some ⟨.normal, v :: out⟩) :
    runE b q ⟨.normal, out⟩ (92 :: e :: rest) = runE b q ⟨.normal, v :: out⟩ rest := by
  have h1 : stepE b q ⟨.normal, out⟩ 92 = some ⟨.esc, out⟩ := by simp [stepE, hq]
  rw [runE_cons _ _ _ _ _ _ h1, runE_cons _ _ _ _ _ _ he]

theorem run_escx (b : Bool) (q c : Nat) (out rest : List Nat) (hq : 92 ≠ q) (hc : c < 256) :
    runE b q ⟨.normal, out⟩ (92 :: 120 :: hex2 c ++ rest) = runE b q ⟨.normal, c :: out⟩ rest := by
  have h1 : stepE b q ⟨.normal, out⟩ 92 = some ⟨.esc, out⟩ := by simp [stepE, hq]
  have h2 : stepE b q ⟨.esc, out⟩ 120 = some ⟨.hex 2 0, out⟩ := by simp [stepE]
  simp only [List.cons_append]
  rw [runE_cons _ _ _ _ _ _ h1, runE_cons _ _ _ _ _ _ h2, run_hex2 b q c out rest hc]

/-- one character of `repr(str)` evaluates to that character -/
theorem run_escStr (P : Nat → Bool) (q c : Nat) (out rest : List Nat) (hq : q = 39 ∨ q = 34)
    (hc : c < 1114112) :
    runE false q ⟨.normal, out⟩ (escStr P q c ++ rest) = runE false q ⟨.normal, c :: out⟩ rest := by
  have hq92 : 92 ≠ q := by omega
  unfold escStr
  by_cases h1 : c = q ∨ c = 92
  · simp only [h1, if_true, List.cons_append, List.nil_append]
    exact run_esc2 false q c c out rest hq92 (by
      have : c = 92 ∨ c = 39 ∨ c = 34 := by omega
      simp [stepE, this])
  simp only [h1, if_false]
  by_cases h2 : c = 9
  · subst h2; exact run_esc2 false q 116 9 out rest hq92 (by simp [stepE])
  simp only [h2, if_false]
  by_cases h3 : c = 10
  · subst h3; exact run_esc2 false q 110 10 out rest hq92 (by simp [stepE])
  simp only [h3, if_false]
  by_cases h4 : c = 13
  · subst h4; exact run_esc2 false q 114 13 out rest hq92 (by simp [stepE])
  simp only [h4, if_false]
  by_cases h5 : c < 32 ∨ c = 127
  · simp only [h5, if_true]; exact run_escx false q c out rest hq92 (by omega)
  simp only [h5, if_false]
  have raw : runE false q ⟨.normal, out⟩ ([c] ++ rest) = runE false q ⟨.normal, c :: out⟩ rest := by
    have : stepE false q ⟨.normal, out⟩ c = some ⟨.normal, c :: out⟩ := by
      have a : ¬ c = q := fun h => h1 (Or.inl h)
      have b : ¬ c = 92 := fun h => h1 (Or.inr h)
      simp [stepE, a, b, h3]
    exact runE_cons _ _ _ _ _ _ this
  by_cases h6 : c < 127
  · simp only [h6, if_true]; exact raw
  simp only [h6, if_false]
  by_cases h7 : P c = true
  · simp only [h7, if_true]; exact raw
  simp only [h7, Bool.false_eq_true, if_false]
  by_cases h8 : c < 256
  · simp only [h8, if_true]; exact run_escx false q c out rest hq92 h8
  simp only [h8, if_false]
  have e1 : stepE false q ⟨.normal, out⟩ 92 = some ⟨.esc, out⟩ := by simp [stepE, hq92]
  by_cases h9 : c < 65536
  · simp only [h9, if_true, List.cons_append]
    have e2 : stepE false q ⟨.esc, out⟩ 117 = some ⟨.hex 4 0, out⟩ := by simp [stepE]
    rw [runE_cons _ _ _ _ _ _ e1, runE_cons _ _ _ _ _ _ e2, run_hex4 false q c out rest h9]
  · simp only [h9, if_false, List.cons_append]
    have e2 : stepE false q ⟨.esc, out⟩ 85 = some ⟨.hex 8 0, out⟩ := by simp [stepE]
    rw [runE_cons _ _ _ _ _ _ e1, runE_cons _ _ _ _ _ _ e2, run_hex8 false q c out rest hc]

/-- one byte of `repr(bytes)` evaluates to that byte -/
theorem run_escBytes (q c : Nat) (out rest : List Nat) (hq : q = 39 ∨ q = 34) (hc : c < 256) :
    runE true q ⟨.normal, out⟩ (escBytes q c ++ rest) = runE true q ⟨.normal, c :: out⟩ rest := by
  have hq92 : 92 ≠ q := by omega
  unfold escBytes
  by_cases h1 : c = q ∨ c = 92
  · simp only [h1, if_true, List.cons_append, List.nil_append]
    exact run_esc2 true q c c out rest hq92 (by
      have : c = 92 ∨ c = 39 ∨ c = 34 := by omega
      simp [stepE, this])
  simp only [h1, if_false]
  by_cases h2 : c = 9
  · subst h2; exact run_esc2 true q 116 9 out rest hq92 (by simp [stepE])
  simp only [h2, if_false]
  by_cases h3 : c = 10
  · subst h3; exact run_esc2 true q 110 10 out rest hq92 (by simp [stepE])
  simp only [h3, if_false]
  by_cases h4 : c = 13
  · subst h4; exact run_esc2 true q 114 13 out rest hq92 (by simp [stepE])
  simp only [h4, if_false]
  by_cases h5 : c < 32 ∨ 127 ≤ c
  · simp only [h5, if_true]; exact run_escx true q c out rest hq92 hc
  simp only [h5, if_false]
  have : stepE true q ⟨.normal, out⟩ c = some ⟨.normal, c :: out⟩ := by
    have a : ¬ c = q := fun h => h1 (Or.inl h)
    have b : ¬ c = 92 := fun h => h1 (Or.inr h)
    have d : ¬ 128 ≤ c := by omega
    simp [stepE, a, b, h3, d]
  exact runE_cons _ _ _ _ _ _ this

theorem run_escAll (isB : Bool) (f : Nat → List Nat) (q : Nat) (ok : Nat → Prop)
    (hf : ∀ c out rest, ok c →
      runE isB q ⟨.normal, out⟩ (f c ++ rest) = runE isB q ⟨.normal, c :: out⟩ rest) :
    ∀ (s : List Nat) (out rest : List Nat), (∀ c ∈ s, ok c) →
      runE isB q ⟨.normal, out⟩ (escAll f s ++ rest) = runE isB q ⟨.normal, s.reverse ++ out⟩ rest
  | [], out, rest, _ => by simp [escAll]
  | c :: cs, out, rest, h => by
    simp only [escAll, List.append_assoc]
    rw [hf c out _ (h c (by simp)), run_escAll isB f q ok hf cs (c :: out) rest
      (fun x hx => h x (by simp [hx]))]
    simp

theorem run_close (isB : Bool) (q : Nat) (out : List Nat) :
    runE isB q ⟨.normal, out⟩ [q] = some ⟨.closed, out⟩ := by
  simp [runE, stepE]

theorem evalStr_reprStr (P : Nat → Bool) (s : List Nat) (h : ∀ c ∈ s, c < 1114112) :
    evalStr (reprStr P s) = some s := by
  have hq := quoteFor_cases s
  simp only [reprStr, evalStr, hq, if_true]
  rw [run_escAll false (escStr P (quoteFor s)) (quoteFor s) (fun c => c < 1114112)
    (fun c out rest hc => run_escStr P _ c out rest hq hc) s [] [quoteFor s] h]
  simp [run_close, finish]

theorem evalBytes_reprBytes (b : List Nat) (h : ∀ c ∈ b, c < 256) :
    evalBytes (reprBytes b) = some b := by
  have hq := quoteFor_cases b
  simp only [reprBytes, evalBytes, hq, if_true]
  rw [run_escAll true (escBytes (quoteFor b)) (quoteFor b) (fun c => c < 256)
    (fun c out rest hc => run_escBytes _ c out rest hq hc) b [] [quoteFor b] h]
  simp [run_close, finish]

end FV.PyLit
