/-
`eval(repr(x)) = x` for the model of `Model/PyLit.lean` (str: all code-point lists below 0x110000,
any printability oracle; bytes: all byte lists).
-/
import Model.PyLit
namespace FV.PyLit

theorem hexVal_hexDigit (d : Nat) (h : d < 16) : hexVal (hexDigit d) = some d := by
  unfold hexDigit hexVal
  by_cases h10 : d < 10
  · simp only [h10, if_true]
    have : 48 ≤ 48 + d ∧ 48 + d ≤ 57 := by omega
    simp only [this, and_self, if_true]
    congr 1; omega
  · simp only [h10, if_false]
    have h1 : ¬ (48 ≤ 87 + d ∧ 87 + d ≤ 57) := by omega
    have h2 : 97 ≤ 87 + d ∧ 87 + d ≤ 102 := by omega
    simp only [h1, if_false, h2, and_self, if_true]
    congr 1; omega

theorem runE_cons (b : Bool) (q : Nat) (st st' : St) (c : Nat) (cs : List Nat)
    (h : stepE b q st c = some st') : runE b q st (c :: cs) = runE b q st' cs := by
  simp [runE, h]

/-- a hex digit that is not the last one -/
theorem step_hex_more (b : Bool) (q k acc d : Nat) (out : List Nat) (hd : d < 16) :
    stepE b q ⟨.hex (k + 2) acc, out⟩ (hexDigit d) = some ⟨.hex (k + 1) (acc * 16 + d), out⟩ := by
  simp [stepE, hexVal_hexDigit d hd]

/-- the last hex digit -/
theorem step_hex_last (b : Bool) (q acc d : Nat) (out : List Nat) (hd : d < 16)
    (hv : acc * 16 + d < 1114112) :
    stepE b q ⟨.hex 1 acc, out⟩ (hexDigit d) = some ⟨.normal, (acc * 16 + d) :: out⟩ := by
  simp [stepE, hexVal_hexDigit d hd, hv]

theorem run_hex2 (b : Bool) (q c : Nat) (out rest : List Nat) (hc : c < 256) :
    runE b q ⟨.hex 2 0, out⟩ (hex2 c ++ rest) = runE b q ⟨.normal, c :: out⟩ rest := by
  simp only [hex2, List.cons_append, List.nil_append]
  rw [runE_cons _ _ _ _ _ _ (step_hex_more b q 0 0 _ out (by omega)),
      runE_cons _ _ _ _ _ _ (step_hex_last b q _ _ out (by omega) (by omega))]
  congr 3; omega

theorem run_hex4 (b : Bool) (q c : Nat) (out rest : List Nat) (hc : c < 65536) :
    runE b q ⟨.hex 4 0, out⟩ (hex4 c ++ rest) = runE b q ⟨.normal, c :: out⟩ rest := by
  simp only [hex4, List.cons_append, List.nil_append]
  rw [runE_cons _ _ _ _ _ _ (step_hex_more b q 2 0 _ out (by omega)),
      runE_cons _ _ _ _ _ _ (step_hex_more b q 1 _ _ out (by omega)),
      runE_cons _ _ _ _ _ _ (step_hex_more b q 0 _ _ out (by omega)),
      runE_cons _ _ _ _ _ _ (step_hex_last b q _ _ out (by omega) (by omega))]
  congr 3; omega

theorem run_hex8 (b : Bool) (q c : Nat) (out rest : List Nat) (hc : c < 1114112) :
    runE b q ⟨.hex 8 0, out⟩ (hex8 c ++ rest) = runE b q ⟨.normal, c :: out⟩ rest := by
  simp only [hex8, List.cons_append, List.nil_append]
  rw [runE_cons _ _ _ _ _ _ (step_hex_more b q 6 0 _ out (by omega)),
      runE_cons _ _ _ _ _ _ (step_hex_more b q 5 _ _ out (by omega)),
      runE_cons _ _ _ _ _ _ (step_hex_more b q 4 _ _ out (by omega)),
      runE_cons _ _ _ _ _ _ (step_hex_more b q 3 _ _ out (by omega)),
      runE_cons _ _ _ _ _ _ (step_hex_more b q 2 _ _ out (by omega)),
      runE_cons _ _ _ _ _ _ (step_hex_more b q 1 _ _ out (by omega)),
      runE_cons _ _ _ _ _ _ (step_hex_more b q 0 _ _ out (by omega)),
      runE_cons _ _ _ _ _ _ (step_hex_last b q _ _ out (by omega) (by omega))]
  congr 3; omega

theorem quoteFor_cases (s : List Nat) : quoteFor s = 39 ∨ quoteFor s = 34 := by
  unfold quoteFor; split <;> simp

/-- `\` followed by a simple escape letter -/
theorem run_esc2 (b : Bool) (q e v : Nat) (out rest : List Nat) (hq : 92 ≠ q)
    (he : stepE b q ⟨.esc, out⟩ e = some ⟨.normal, v :: out⟩) :
    runE b q ⟨.normal, out⟩ (92 :: e :: rest) = runE b q ⟨.normal, v :: out⟩ rest := by
  have h1 : stepE b q ⟨.normal, out⟩ 92 = some ⟨.esc, out⟩ := by simp [stepE, hq]
  rw [runE_cons _ _ _ _ _ _ h1, runE_cons _ _ _ _ _ _ he]

theorem run_escx (b : Bool) (q c : Nat) (out rest : List Nat) (hq : 92 ≠ q) (hc : c < 256) :
    runE b q ⟨.normal, out⟩ (92 :: 120 :: hex2 c ++ rest) = runE b q ⟨.normal, c :: out⟩ rest := by
  have h1 : stepE b q ⟨.normal, out⟩ 92 = some ⟨.esc, out⟩ := by simp [stepE, hq]
  have h2 : stepE b q ⟨.esc, out⟩ 120 = some ⟨.hex 2 0, out⟩ := by simp [stepE]
  simp only [List.cons_append]
  rw [runE_cons _ _ _ _ _ _ h1, runE_cons _ _ _ _ _ _ h2, run_hex2 b q c out rest hc]

/-- one character of `repr(str)` evaluates to that character -/
theorem run_escStr (P : Nat → Bool) (q c : Nat) (out rest : List Nat) (hq : q = 39 ∨ q = 34)
    (hc : c < 1114112) :
    runE false q ⟨.normal, out⟩ (escStr P q c ++ rest) = runE false q ⟨.normal, c :: out⟩ rest := by
  have hq92 : 92 ≠ q := by omega
  unfold escStr
  by_cases h1 : c = q ∨ c = 92
  · simp only [h1, if_true, List.cons_append, List.nil_append]
    exact run_esc2 false q c c out rest hq92 (by
      have : c = 92 ∨ c = 39 ∨ c = 34 := by omega
      simp [stepE, this])
  simp only [h1, if_false]
  by_cases h2 : c = 9
  · subst h2; exact run_esc2 false q 116 9 out rest hq92 (by simp [stepE])
  simp only [h2, if_false]
  by_cases h3 : c = 10
  · subst h3; exact run_esc2 false q 110 10 out rest hq92 (by simp [stepE])
  simp only [h3, if_false]
  by_cases h4 : c = 13
  · subst h4; exact run_esc2 false q 114 13 out rest hq92 (by simp [stepE])
  simp only [h4, if_false]
  by_cases h5 : c < 32 ∨ c = 127
  · simp only [h5, if_true]; exact run_escx false q c out rest hq92 (by omega)
  simp only [h5, if_false]
  have raw : runE false q ⟨.normal, out⟩ ([c] ++ rest) = runE false q ⟨.normal, c :: out⟩ rest := by
    have : stepE false q ⟨.normal, out⟩ c = some ⟨.normal, c :: out⟩ := by
      have a : ¬ c = q := fun h => h1 (Or.inl h)
      have b : ¬ c = 92 := fun h => h1 (Or.inr h)
      simp [stepE, a, b, h3]
    exact runE_cons _ _ _ _ _ _ this
  by_cases h6 : c < 127
  · simp only [h6, if_true]; exact raw
  simp only [h6, if_false]
  by_cases h7 : P c = true
  · simp only [h7, if_true]; exact raw
  simp only [h7, Bool.false_eq_true, if_false]
  by_cases h8 : c < 256
  · simp only [h8, if_true]; exact run_escx false q c out rest hq92 h8
  simp only [h8, if_false]
  have e1 : stepE false q ⟨.normal, out⟩ 92 = some ⟨.esc, out⟩ := by simp [stepE, hq92]
  by_cases h9 : c < 65536
  · simp only [h9, if_true, List.cons_append]
    have e2 : stepE false q ⟨.esc, out⟩ 117 = some ⟨.hex 4 0, out⟩ := by simp [stepE]
    rw [runE_cons _ _ _ _ _ _ e1, runE_cons _ _ _ _ _ _ e2, run_hex4 false q c out rest h9]
  · simp only [h9, if_false, List.cons_append]
    have e2 : stepE false q ⟨.esc, out⟩ 85 = some ⟨.hex 8 0, out⟩ := by simp [stepE]
    rw [runE_cons _ _ _ _ _ _ e1, runE_cons _ _ _ _ _ _ e2, run_hex8 false q c out rest hc]

/-- one byte of `repr(bytes)` evaluates to that byte -/
theorem run_escBytes (q c : Nat) (out rest : List Nat) (hq : q = 39 ∨ q = 34) (hc : c < 256) :
    runE true q ⟨.normal, out⟩ (escBytes q c ++ rest) = runE true q ⟨.normal, c :: out⟩ rest := by
  have hq92 : 92 ≠ q := by omega
  unfold escBytes
  by_cases h1 : c = q ∨ c = 92
  · simp only [h1, if_true, List.cons_append, List.nil_append]
    exact run_esc2 true q c c out rest hq92 (by
      have : c = 92 ∨ c = 39 ∨ c = 34 := by omega
      simp [stepE, this])
  simp only [h1, if_false]
  by_cases h2 : c = 9
  · subst h2; exact run_esc2 true q 116 9 out rest hq92 (by simp [stepE])
  simp only [h2, if_false]
  by_cases h3 : c = 10
  · subst h3; exact run_esc2 true q 110 10 out rest hq92 (by simp [stepE])
  simp only [h3, if_false]
  by_cases h4 : c = 13
  · subst h4; exact run_esc2 true q 114 13 out rest hq92 (by simp [stepE])
  simp only [h4, if_false]
  by_cases h5 : c < 32 ∨ 127 ≤ c
  · simp only [h5, if_true]; exact run_escx true q c out rest hq92 hc
  simp only [h5, if_false]
  have : stepE true q ⟨.normal, out⟩ c = some ⟨.normal, c :: out⟩ := by
    have a : ¬ c = q := fun h => h1 (Or.inl h)
    have b : ¬ c = 92 := fun h => h1 (Or.inr h)
    have d : ¬ 128 ≤ c := by omega
    simp [stepE, a, b, h3, d]
  exact runE_cons _ _ _ _ _ _ this

theorem run_escAll (isB : Bool) (f : Nat → List Nat) (q : Nat) (ok : Nat → Prop)
    (hf : ∀ c out rest, ok c →
      runE isB q ⟨.normal, out⟩ (f c ++ rest) = runE isB q ⟨.normal, c :: out⟩ rest) :
    ∀ (s : List Nat) (out rest : List Nat), (∀ c ∈ s, ok c) →
      runE isB q ⟨.normal, out⟩ (escAll f s ++ rest) = runE isB q ⟨.normal, s.reverse ++ out⟩ rest
  | [], out, rest, _ => by simp [escAll]
  | c :: cs, out, rest, h => by
    simp only [escAll, List.append_assoc]
    rw [hf c out _ (h c (by simp)), run_escAll isB f q ok hf cs (c :: out) rest
      (fun x hx => h x (by simp [hx]))]
    simp

theorem run_close (isB : Bool) (q : Nat) (out : List Nat) :
    runE isB q ⟨.normal, out⟩ [q] = some ⟨.closed, out⟩ := by
  simp [runE, stepE]

theorem evalStr_reprStr (P : Nat → Bool) (s : List Nat) (h : ∀ c ∈ s, c < 1114112) :
    evalStr (reprStr P s) = some s := by
  have hq := quoteFor_cases s
  simp only [reprStr, evalStr, hq, if_true]
  rw [run_escAll false (escStr P (quoteFor s)) (quoteFor s) (fun c => c < 1114112)
    (fun c out rest hc => run_escStr P _ c out rest hq hc) s [] [quoteFor s] h]
  simp [run_close, finish]

theorem evalBytes_reprBytes (b : List Nat) (h : ∀ c ∈ b, c < 256) :
    evalBytes (reprBytes b) = some b := by
  have hq := quoteFor_cases b
  simp only [reprBytes, evalBytes, hq, if_true]
  rw [run_escAll true (escBytes (quoteFor b)) (quoteFor b) (fun c => c < 256)
    (fun c out rest hc => run_escBytes _ c out rest hq hc) b [] [quoteFor b] h]
  simp [run_close, finish]

/-! ### regex terminals: the raw literal `Terminal.format_as_spec` prints is read back as the
spelled pattern, and the spelled pattern is the pattern up to `\xNN` escapes -/

theorem runR_cons (b : Bool) (q : Nat) (st st' : RSt) (c : Nat) (cs : List Nat)
    (h : stepR b q st c = some st') : runR b q st (c :: cs) = runR b q st' cs := by
  simp [runR, h]

theorem hexDigit_range (d : Nat) (h : d < 16) :
    (48 ≤ hexDigit d ∧ hexDigit d ≤ 57) ∨ (97 ≤ hexDigit d ∧ hexDigit d ≤ 102) := by
  unfold hexDigit; split <;> omega

/-- a character that stands for itself -/
theorem runR_plain (b : Bool) (q c : Nat) (out rest : List Nat) (h1 : c ≠ q) (h2 : c ≠ 92)
    (h3 : rawCharOk b c = true) :
    runR b q ⟨.normal, out⟩ (c :: rest) = runR b q ⟨.normal, c :: out⟩ rest :=
  runR_cons _ _ _ _ _ _ (by simp [stepR, h1, h2, h3])

/-- a backslash and the character after it -/
theorem runR_pair (b : Bool) (q c : Nat) (out rest : List Nat) (hq : q ≠ 92)
    (h : rawEscOk b c = true) :
    runR b q ⟨.normal, out⟩ (92 :: c :: rest) = runR b q ⟨.normal, c :: 92 :: out⟩ rest := by
  have h1 : stepR b q ⟨.normal, out⟩ 92 = some ⟨.esc, out⟩ := by
    have : ¬ (92 = q) := fun e => hq e.symm
    simp [stepR, this]
  have h2 : stepR b q ⟨.esc, out⟩ c = some ⟨.normal, c :: 92 :: out⟩ := by simp [stepR, h]
  rw [runR_cons _ _ _ _ _ _ h1, runR_cons _ _ _ _ _ _ h2]

theorem rawCharOk_hexDigit (b : Bool) (d : Nat) (h : d < 16) : rawCharOk b (hexDigit d) = true := by
  have := hexDigit_range d h
  have h0 : hexDigit d ≠ 0 := by omega
  have h10 : hexDigit d ≠ 10 := by omega
  have h13 : hexDigit d ≠ 13 := by omega
  have h12 : hexDigit d ≠ 12 := by omega
  have hs : isSurrogate (hexDigit d) = false := by
    simp only [isSurrogate, Bool.and_eq_false_iff, decide_eq_false_iff_not]; omega
  cases b
  · have : hexDigit d < 1114112 := by omega
    simp [rawCharOk, h0, h10, h13, h12, hs, this]
  · have : hexDigit d < 128 := by omega
    simp [rawCharOk, h0, h10, h13, this]

/-- `\xNN` is read as its four characters -/
theorem runR_hexEsc (b : Bool) (q c : Nat) (out rest : List Nat) (hq : q = 39 ∨ q = 34) :
    runR b q ⟨.normal, out⟩ (hexEsc c ++ rest)
      = runR b q ⟨.normal, (hexEsc c).reverse ++ out⟩ rest := by
  have hq92 : q ≠ 92 := by omega
  have hx : rawEscOk b 120 = true := by cases b <;> decide
  have d1 : c / 16 % 16 < 16 := Nat.mod_lt _ (by omega)
  have d2 : c % 16 < 16 := Nat.mod_lt _ (by omega)
  have r1 := hexDigit_range _ d1
  have r2 := hexDigit_range _ d2
  simp only [hexEsc, hex2, List.cons_append, List.nil_append]
  rw [runR_pair b q 120 out _ hq92 hx,
      runR_plain b q _ _ _ (by omega) (by omega) (rawCharOk_hexDigit b _ d1),
      runR_plain b q _ _ _ (by omega) (by omega) (rawCharOk_hexDigit b _ d2)]
  simp

theorem needsSpell_false {quote : Option Nat} {a : Bool} {c : Nat} (h : needsSpell quote a c = false) :
    quote ≠ some c ∧ c ≠ 10 ∧ c ≠ 13 ∧ (a = true → 32 ≤ c ∧ c ≤ 126) := by
  simp only [needsSpell, Bool.or_eq_false_iff, beq_eq_false_iff_ne, ne_eq, Bool.and_eq_false_iff,
    Bool.not_eq_false', Bool.and_eq_true, decide_eq_true_eq] at h
  obtain ⟨⟨⟨h1, h2⟩, h3⟩, h4⟩ := h
  refine ⟨h1, h2, h3, fun ha => ?_⟩
  cases h4 with
  | inl h => exact absurd ha (by simp [h])
  | inr h => exact h

/-- an unspelled character of an expressible pattern may stand for itself in the literal -/
theorem rawCharOk_of (b : Bool) (quote : Option Nat) (c : Nat) (hp : patCharOk b c = true)
    (hn : needsSpell quote b c = false) (hff : b = false → c ≠ 12) : rawCharOk b c = true := by
  obtain ⟨_, h10, h13, hpr⟩ := needsSpell_false hn
  cases b
  · simp only [patCharOk, Bool.false_eq_true, if_false, Bool.and_eq_true, bne_iff_ne, ne_eq,
      decide_eq_true_eq, Bool.not_eq_true'] at hp
    obtain ⟨⟨⟨h0, _⟩, hlt⟩, hs⟩ := hp
    simp [rawCharOk, h0, h10, h13, hff rfl, hlt, hs]
  · have := hpr rfl
    have h0 : c ≠ 0 := by omega
    have hlt : c < 128 := by omega
    simp [rawCharOk, h0, h10, h13, hlt]

theorem rawEscOk_of (b : Bool) (quote : Option Nat) (c : Nat) (hp : patCharOk b c = true)
    (hn : needsSpell quote b c = false) : rawEscOk b c = true := by
  obtain ⟨_, h10, h13, hpr⟩ := needsSpell_false hn
  cases b
  · simp only [patCharOk, Bool.false_eq_true, if_false, Bool.and_eq_true, bne_iff_ne, ne_eq,
      decide_eq_true_eq, Bool.not_eq_true'] at hp
    obtain ⟨⟨⟨h0, _⟩, hlt⟩, hs⟩ := hp
    simp [rawEscOk, h0, h10, h13, hlt, hs]
  · have := hpr rfl
    have h0 : c ≠ 0 := by omega
    have hlt : c < 128 := by omega
    simp [rawEscOk, h0, h10, h13, hlt]

/-- the unspelled character is not the delimiter: either the delimiter is spelled, or the pattern
    does not hold it -/
theorem ne_quote_of (quote : Option Nat) (b : Bool) (q c : Nat)
    (hq : quote = some q ∨ c ≠ q) (hn : needsSpell quote b c = false) : c ≠ q := by
  cases hq with
  | inr h => exact h
  | inl h =>
    obtain ⟨h1, _⟩ := needsSpell_false hn
    intro e; subst e; exact h1 h

/-- the reader over the spelled pattern: every character of it becomes part of the value -/
theorem runR_spellRegex (b : Bool) (quote : Option Nat) (q : Nat) (hq : q = 39 ∨ q = 34) :
    ∀ (pat : List Nat), regexWf b pat = true → (b = false → noBareFF pat = true) →
      (quote = some q ∨ ∀ x ∈ pat, x ≠ q) → ∀ (out rest : List Nat),
      runR b q ⟨.normal, out⟩ (spellRegex quote b pat ++ rest)
        = runR b q ⟨.normal, (spellRegex quote b pat).reverse ++ out⟩ rest := by
  have hq92 : q ≠ 92 := by omega
  intro pat
  fun_induction spellRegex quote b pat with
  | case1 => intro _ _ _ out rest; simp
  | case2 c hn =>
    intro _ _ _ out rest; exact runR_hexEsc b q c out rest hq
  | case3 c hn =>
    intro hw hff hqq out rest
    simp only [regexWf, Bool.and_eq_true, bne_iff_ne, ne_eq] at hw
    have hn' : needsSpell quote b c = false := by simpa using hn
    have hc : c ≠ q := ne_quote_of quote b q c (hqq.imp id (fun h => h c (by simp))) hn'
    have hf : b = false → c ≠ 12 := fun hb => by
      have := hff hb; simpa [noBareFF] using this
    simpa using runR_plain b q c out rest hc hw.1 (rawCharOk_of b quote c hw.2 hn' hf)
  | case4 c rest' ih =>
    intro hw hff hqq out rest
    simp only [regexWf, if_true, Bool.and_eq_true] at hw
    have hff' : b = false → noBareFF rest' = true := fun hb => by
      have := hff hb; simpa [noBareFF] using this
    have hqq' : quote = some q ∨ ∀ x ∈ rest', x ≠ q :=
      hqq.imp id (fun h x hx => h x (by simp [hx]))
    rw [List.append_assoc]
    by_cases hn : needsSpell quote b c = true
    · simp only [hn, if_true]
      rw [runR_hexEsc b q c out _ hq, ih hw.2 hff' hqq']
      simp [List.reverse_append]
    · have hn' : needsSpell quote b c = false := by simpa using hn
      simp only [hn', Bool.false_eq_true, if_false, List.cons_append, List.nil_append]
      rw [runR_pair b q c out _ hq92 (rawEscOk_of b quote c hw.1 hn'), ih hw.2 hff' hqq']
      simp
  | case5 x c rest' hx ih =>
    intro hw hff hqq out rest
    simp only [regexWf, hx, if_false, Bool.and_eq_true] at hw
    have hff' : b = false → noBareFF (c :: rest') = true := fun hb => by
      have := hff hb; simp only [noBareFF, hx, if_false, Bool.and_eq_true] at this; exact this.2
    have hqq' : quote = some q ∨ ∀ y ∈ c :: rest', y ≠ q :=
      hqq.imp id (fun h y hy => h y (List.mem_cons_of_mem _ hy))
    rw [List.append_assoc]
    by_cases hn : needsSpell quote b x = true
    · simp only [hn, if_true]
      rw [runR_hexEsc b q x out _ hq, ih hw.2 hff' hqq']
      simp [List.reverse_append]
    · have hn' : needsSpell quote b x = false := by simpa using hn
      have hf : b = false → x ≠ 12 := fun hb => by
        have := hff hb; simp only [noBareFF, hx, if_false, Bool.and_eq_true, bne_iff_ne] at this
        exact this.1
      have hxq : x ≠ q := ne_quote_of quote b q x (hqq.imp id (fun h => h x (by simp))) hn'
      simp only [hn', Bool.false_eq_true, if_false, List.cons_append, List.nil_append]
      rw [runR_plain b q x out _ hxq hx (rawCharOk_of b quote x hw.1 hn' hf), ih hw.2 hff' hqq']
      simp

theorem runR_close (b : Bool) (q : Nat) (out : List Nat) :
    runR b q ⟨.normal, out⟩ [q] = some ⟨.closed, out⟩ := by
  simp [runR, stepR]

/-- the delimiter is a quote, and it is spelled or absent from the pattern -/
theorem regexQuote_spec (pat : List Nat) :
    ((regexQuote pat).1 = 39 ∨ (regexQuote pat).1 = 34) ∧
    ((regexQuote pat).2 = some (regexQuote pat).1 ∨ ∀ x ∈ pat, x ≠ (regexQuote pat).1) := by
  cases h1 : pat.contains 39 with
  | false =>
    have e : regexQuote pat = (39, none) := by
      simp only [regexQuote, h1, Bool.not_false, if_true]
    rw [e]
    refine ⟨Or.inl rfl, Or.inr fun x hx e => ?_⟩
    subst e
    have : pat.contains 39 = true := by simpa using hx
    rw [h1] at this; exact Bool.false_ne_true this
  | true =>
    cases h2 : pat.contains 34 with
    | false =>
      have e : regexQuote pat = (34, none) := by
        simp only [regexQuote, h1, h2, Bool.not_true, Bool.false_eq_true, if_false, Bool.not_false, if_true]
      rw [e]
      refine ⟨Or.inr rfl, Or.inr fun x hx e => ?_⟩
      subst e
      have : pat.contains 34 = true := by simpa using hx
      rw [h2] at this; exact Bool.false_ne_true this
    | true =>
      have e : regexQuote pat = (39, some 39) := by
        simp only [regexQuote, h1, h2, Bool.not_true, Bool.false_eq_true, if_false]
      rw [e]
      exact ⟨Or.inl rfl, Or.inl rfl⟩

/-- **the printed raw literal is read back as the spelled pattern**, of the same type (str / bytes) -/
theorem evalRaw_printRegex (b : Bool) (pat : List Nat) (hw : regexWf b pat = true)
    (hff : b = false → noBareFF pat = true) :
    evalRaw (printRegex b pat) = some (b, spelled b pat) := by
  obtain ⟨hq, hqq⟩ := regexQuote_spec pat
  have hrun := runR_spellRegex b (regexQuote pat).2 (regexQuote pat).1 hq pat hw hff hqq []
    [(regexQuote pat).1]
  have hQ : isQuote (regexQuote pat).1 = true := by
    cases hq with
    | inl h => rw [h]; decide
    | inr h => rw [h]; decide
  have hnotB : isB (regexQuote pat).1 = false := by
    cases hq with
    | inl h => rw [h]; decide
    | inr h => rw [h]; decide
  cases b
  · simp only [printRegex, Bool.false_eq_true, if_false, List.cons_append, List.nil_append, evalRaw]
    have : isR 114 = true := by decide
    simp only [this, hQ, Bool.and_self, if_true, spelled]
    rw [hrun, runR_close]
    simp [finishR]
  · simp only [printRegex, if_true, List.cons_append, List.nil_append, evalRaw]
    have h1 : isR 114 = true := by decide
    have h2 : isQuote 98 = false := by decide
    have h3 : isB 98 = true := by decide
    simp only [h1, h2, h3, hQ, Bool.and_false, Bool.false_eq_true, if_false, Bool.and_self,
      Bool.true_or, if_true, spelled]
    rw [hrun, runR_close]
    simp [finishR]

/-- nothing to spell: the text between the quotes is the pattern itself -/
theorem spellRegex_id (quote : Option Nat) (a : Bool) : ∀ pat : List Nat,
    (∀ c ∈ pat, needsSpell quote a c = false) → spellRegex quote a pat = pat := by
  intro pat
  fun_induction spellRegex quote a pat with
  | case1 => intro _; rfl
  | case2 c hn => intro h; have := h c (by simp); simp [hn] at this
  | case3 c hn => intro _; rfl
  | case4 c rest ih =>
    intro h
    have hc := h c (by simp)
    rw [ih (fun x hx => h x (by simp [hx]))]; simp [hc]
  | case5 x c rest hx ih =>
    intro h
    have hc := h x (by simp)
    rw [ih (fun y hy => h y (List.mem_cons_of_mem _ hy))]; simp [hc]

/-! #### "the same regex": the spelled pattern under the oracle assumption -/

theorem atBoundary_append : ∀ (pre t : List Nat), atBoundary pre = true →
    atBoundary (pre ++ t) = atBoundary t := by
  intro pre
  fun_induction atBoundary pre with
  | case1 => intro t _; rfl
  | case2 c =>
    intro t h
    have hc : c ≠ 92 := by simpa using h
    cases t with
    | nil => simpa [atBoundary] using hc
    | cons x xs => simp [atBoundary, hc]
  | case3 c rest ih =>
    intro t h
    have := ih t h
    simpa [atBoundary] using this
  | case4 b c rest hb ih =>
    intro t h
    have := ih t h
    simpa [atBoundary, hb] using this

theorem atBoundary_hexEsc (c : Nat) : atBoundary (hexEsc c) = true := by
  have d1 : c / 16 % 16 < 16 := Nat.mod_lt _ (by omega)
  have d2 : c % 16 < 16 := Nat.mod_lt _ (by omega)
  have r1 := hexDigit_range _ d1
  have r2 := hexDigit_range _ d2
  have e1 : hexDigit (c / 16 % 16) ≠ 92 := by omega
  have e2 : hexDigit (c % 16) ≠ 92 := by omega
  simp [hexEsc, hex2, atBoundary, e1, e2]

/-- under the oracle assumption the spelled pattern denotes what the pattern denotes -/
theorem spellRegex_denotes {α : Type} (D : List Nat → α) (quote : Option Nat) (a : Bool)
    (H : HexEscapeSound D (needsSpell quote a)) : ∀ (pat pre : List Nat),
    (∀ c ∈ pat, needsSpell quote a c = true → c < 256) → atBoundary pre = true →
    D (pre ++ spellRegex quote a pat) = D (pre ++ pat) := by
  intro pat
  fun_induction spellRegex quote a pat with
  | case1 => intro pre _ _; rfl
  | case2 c hn =>
    intro pre hlt hp
    have := (H pre [] c hp (hlt c (by simp) hn) hn).1
    simpa using this.symm
  | case3 c hn => intro pre _ _; rfl
  | case4 c rest ih =>
    intro pre hlt hp
    have hlt' : ∀ x ∈ rest, needsSpell quote a x = true → x < 256 :=
      fun x hx => hlt x (by simp [hx])
    by_cases hn : needsSpell quote a c = true
    · have h1 := (H pre rest c hp (hlt c (by simp) hn) hn).2
      have hb : atBoundary (pre ++ hexEsc c) = true := by
        rw [atBoundary_append pre _ hp]; exact atBoundary_hexEsc c
      have h2 := ih (pre ++ hexEsc c) hlt' hb
      simp only [hn, if_true]
      rw [h1]; simpa [List.append_assoc] using h2
    · have hb : atBoundary (pre ++ [92, c]) = true := by
        rw [atBoundary_append pre _ hp]; simp [atBoundary]
      have h2 := ih (pre ++ [92, c]) hlt' hb
      simp only [hn]
      simpa [List.append_assoc] using h2
  | case5 x c rest hx ih =>
    intro pre hlt hp
    have hlt' : ∀ y ∈ c :: rest, needsSpell quote a y = true → y < 256 :=
      fun y hy => hlt y (List.mem_cons_of_mem _ hy)
    by_cases hn : needsSpell quote a x = true
    · have h1 := (H pre (c :: rest) x hp (hlt x (by simp) hn) hn).1
      have hb : atBoundary (pre ++ hexEsc x) = true := by
        rw [atBoundary_append pre _ hp]; exact atBoundary_hexEsc x
      have h2 := ih (pre ++ hexEsc x) hlt' hb
      simp only [hn, if_true]
      rw [h1]; simpa [List.append_assoc] using h2
    · have hb : atBoundary (pre ++ [x]) = true := by
        rw [atBoundary_append pre _ hp]; simpa [atBoundary] using hx
      have h2 := ih (pre ++ [x]) hlt' hb
      simp only [hn]
      simpa [List.append_assoc] using h2

/-- every character of an expressible pattern is a backslash or a legal pattern character -/
theorem regexWf_mem (b : Bool) : ∀ pat : List Nat, regexWf b pat = true →
    ∀ c ∈ pat, c = 92 ∨ patCharOk b c = true := by
  intro pat
  fun_induction regexWf b pat with
  | case1 => intro _ c hc; simp at hc
  | case2 c =>
    intro h x hx
    simp only [Bool.and_eq_true] at h
    simp only [List.mem_singleton] at hx; subst hx; exact Or.inr h.2
  | case3 c rest ih =>
    intro h x hx
    simp only [Bool.and_eq_true] at h
    simp only [List.mem_cons] at hx
    rcases hx with rfl | rfl | hx
    · exact Or.inl rfl
    · exact Or.inr h.1
    · exact ih h.2 x hx
  | case4 y c rest hy ih =>
    intro h x hx
    simp only [Bool.and_eq_true] at h
    simp only [List.mem_cons] at hx
    rcases hx with rfl | hx
    · exact Or.inr h.1
    · exact ih h.2 x (by simpa using hx)

/-- what the printer spells in an expressible pattern is below 256 -/
theorem spelled_lt_256 (b : Bool) (pat : List Nat) (hw : regexWf b pat = true) :
    ∀ c ∈ pat, needsSpell (regexQuote pat).2 b c = true → c < 256 := by
  intro c hc hn
  obtain ⟨_, _⟩ := regexQuote_spec pat
  have hq : (regexQuote pat).2 = none ∨ (regexQuote pat).2 = some 39 := by
    unfold regexQuote; split
    · exact Or.inl rfl
    · split
      · exact Or.inl rfl
      · exact Or.inr rfl
  cases b
  · -- str: only the quote, `\n`, `\r`
    simp only [needsSpell, Bool.false_and, Bool.or_false, Bool.or_eq_true, beq_iff_eq] at hn
    rcases hq with h | h <;> rw [h] at hn <;> simp at hn <;> omega
  · rcases regexWf_mem true pat hw c hc with rfl | h
    · omega
    · simpa [patCharOk] using h

/-! #### the spelling is itself a model of the oracle assumption, and it is idempotent -/

def quoteOk (quote : Option Nat) : Prop := quote = none ∨ quote = some 39 ∨ quote = some 34

theorem spellRegex_cons_ne (quote : Option Nat) (a : Bool) (x : Nat) (hx : x ≠ 92) (t : List Nat) :
    spellRegex quote a (x :: t)
      = (if needsSpell quote a x then hexEsc x else [x]) ++ spellRegex quote a t := by
  cases t with
  | nil => simp [spellRegex]
  | cons y ys => simp [spellRegex, hx]

theorem spellRegex_pair (quote : Option Nat) (a : Bool) (c : Nat) (t : List Nat) :
    spellRegex quote a (92 :: c :: t)
      = (if needsSpell quote a c then hexEsc c else [92, c]) ++ spellRegex quote a t := by
  simp [spellRegex]

theorem spellRegex_append (quote : Option Nat) (a : Bool) : ∀ (pre t : List Nat),
    atBoundary pre = true →
    spellRegex quote a (pre ++ t) = spellRegex quote a pre ++ spellRegex quote a t := by
  intro pre
  fun_induction atBoundary pre with
  | case1 => intro t _; simp [spellRegex]
  | case2 c =>
    intro t h
    have hc : c ≠ 92 := by simpa using h
    rw [List.singleton_append, spellRegex_cons_ne quote a c hc t]
    simp [spellRegex]
  | case3 c rest ih =>
    intro t h
    rw [List.cons_append, List.cons_append, spellRegex_pair, spellRegex_pair, ih t h,
      List.append_assoc]
  | case4 b c rest hb ih =>
    intro t h
    have := ih t h
    rw [List.cons_append, spellRegex_cons_ne quote a b hb, spellRegex_cons_ne quote a b hb,
      this, List.append_assoc]

theorem needsSpell_hexDigit (quote : Option Nat) (a : Bool) (hq : quoteOk quote) (d : Nat)
    (h : d < 16) : needsSpell quote a (hexDigit d) = false := by
  have := hexDigit_range d h
  have h1 : quote ≠ some (hexDigit d) := by
    rcases hq with h | h | h <;> rw [h] <;> simp <;> omega
  have h2 : hexDigit d ≠ 10 := by omega
  have h3 : hexDigit d ≠ 13 := by omega
  have h4 : 32 ≤ hexDigit d := by omega
  have h5 : hexDigit d ≤ 126 := by omega
  simp [needsSpell, h1, h2, h3, h4, h5]

theorem needsSpell_x (quote : Option Nat) (a : Bool) (hq : quoteOk quote) :
    needsSpell quote a 120 = false := by
  rcases hq with h | h | h <;> rw [h] <;> cases a <;> decide

/-- an escape `\xNN` is left alone -/
theorem spellRegex_hexEsc (quote : Option Nat) (a : Bool) (hq : quoteOk quote) (c : Nat)
    (post : List Nat) :
    spellRegex quote a (hexEsc c ++ post) = hexEsc c ++ spellRegex quote a post := by
  have d1 : c / 16 % 16 < 16 := Nat.mod_lt _ (by omega)
  have d2 : c % 16 < 16 := Nat.mod_lt _ (by omega)
  have r1 := hexDigit_range _ d1
  have r2 := hexDigit_range _ d2
  simp only [hexEsc, hex2, List.cons_append, List.nil_append]
  rw [spellRegex_pair, spellRegex_cons_ne quote a _ (by omega), spellRegex_cons_ne quote a _ (by omega)]
  simp [needsSpell_x quote a hq, needsSpell_hexDigit quote a hq _ d1, needsSpell_hexDigit quote a hq _ d2]

theorem needsSpell_ne_92 (quote : Option Nat) (a : Bool) (hq : quoteOk quote) :
    needsSpell quote a 92 = false := by
  rcases hq with h | h | h <;> rw [h] <;> cases a <;> decide

theorem hexEscapeSound_spell' (quote : Option Nat) (a : Bool) (hq : quoteOk quote) :
    HexEscapeSound (spellRegex quote a) (needsSpell quote a) := by
  intro pre post c hp _ hn
  have hc : c ≠ 92 := by
    intro e; subst e; rw [needsSpell_ne_92 quote a hq] at hn; exact Bool.false_ne_true hn
  rw [spellRegex_append quote a pre _ hp, spellRegex_append quote a pre _ hp,
    spellRegex_append quote a pre _ hp, spellRegex_hexEsc quote a hq, spellRegex_pair,
    spellRegex_cons_ne quote a c hc]
  simp [hn]

/-- spelling is idempotent -/
theorem spellRegex_idem' (quote : Option Nat) (a : Bool) (hq : quoteOk quote) : ∀ pat : List Nat,
    spellRegex quote a (spellRegex quote a pat) = spellRegex quote a pat := by
  intro pat
  fun_induction spellRegex quote a pat with
  | case1 => rfl
  | case2 c hn => simpa [spellRegex] using spellRegex_hexEsc quote a hq c []
  | case3 c hn => simp [spellRegex, hn]
  | case4 c rest ih =>
    by_cases hn : needsSpell quote a c = true
    · simp only [hn, if_true]
      rw [spellRegex_hexEsc quote a hq, ih]
    · have hn' : needsSpell quote a c = false := by simpa using hn
      simp only [hn', Bool.false_eq_true, if_false, List.cons_append, List.nil_append]
      rw [spellRegex_pair, ih]; simp [hn']
  | case5 x c rest hx ih =>
    by_cases hn : needsSpell quote a x = true
    · simp only [hn, if_true]
      rw [spellRegex_hexEsc quote a hq, ih]
    · have hn' : needsSpell quote a x = false := by simpa using hn
      simp only [hn', Bool.false_eq_true, if_false, List.cons_append, List.nil_append]
      rw [spellRegex_cons_ne quote a x hx, ih]; simp [hn']

theorem quoteOk_regexQuote (pat : List Nat) : quoteOk (regexQuote pat).2 := by
  unfold regexQuote quoteOk; split
  · exact Or.inl rfl
  · split
    · exact Or.inl rfl
    · exact Or.inr (Or.inl rfl)

end FV.PyLit
