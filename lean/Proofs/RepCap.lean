/-
Capping open-ended repetitions only shrinks the language, monotonically in the cap and in the set of capped
kinds (`Model/RepCap.lean`).  Used by `Props/C05.lean`.
-/
import Model.RepCap
import Proofs.IR
namespace FV
namespace RepCap

theorem repOf_mono {P Q : List Tok → Prop} (h : ∀ w, P w → Q w) : ∀ k w, RepOf P k w → RepOf Q k w
  | 0, _, hr => hr
  | k + 1, _, ⟨w1, w2, he, hp, hr⟩ => ⟨w1, w2, he, h w1 hp, repOf_mono h k w2 hr⟩

/-- `(sel, c)` caps at least as tightly as `(sel', c')` -/
def Tighter (sel : Sel) (c : Nat) (sel' : Sel) (c' : Nat) : Prop :=
  ∀ k, sel' k = true → sel k = true ∧ c ≤ c'

theorem inBounds_capMax {sel sel' : Sel} {c c' : Nat} (h : Tighter sel c sel' c') (kind : RepKind)
    (min : Nat) (max : Option Nat) (k : Nat) (hb : inBounds min (capMax sel c kind max) k) :
    inBounds min (capMax sel' c' kind max) k := by
  cases max with
  | some m => exact hb
  | none =>
    refine ⟨hb.1, ?_⟩
    intro mx hmx
    simp only [capMax] at hmx hb
    by_cases hs' : sel' kind = true
    · obtain ⟨hs, hc⟩ := h kind hs'
      simp only [hs', if_true, Option.some.injEq] at hmx
      subst hmx
      have := hb.2 c (by simp [hs])
      omega
    · simp [hs'] at hmx

mutual
theorem capNode_mono (R : RegexOracle) {sel sel' : Sel} {c c' : Nat} (h : Tighter sel c sel' c') :
    ∀ (n : Node) (w : List Tok), Matches R (capNode sel c n) w → Matches R (capNode sel' c' n) w
  | .term _, _, hm => by simpa [capNode] using hm
  | .nt _ _ _, _, hm => by simpa [capNode] using hm
  | .alt _ ns, w, hm => by
    simp only [capNode, Matches] at hm ⊢
    exact capAny_mono R h ns w hm
  | .cat _ ns, w, hm => by
    simp only [capNode, Matches] at hm ⊢
    exact capCat_mono R h ns w hm
  | .rep _ kind n min max, w, hm => by
    simp only [capNode, Matches] at hm ⊢
    obtain ⟨k, hb, hr⟩ := hm
    exact ⟨k, inBounds_capMax h kind min max k hb, repOf_mono (fun v hv => capNode_mono R h n v hv) k w hr⟩
theorem capAny_mono (R : RegexOracle) {sel sel' : Sel} {c c' : Nat} (h : Tighter sel c sel' c') :
    ∀ (ns : List Node) (w : List Tok), MatchesAny R (capList sel c ns) w → MatchesAny R (capList sel' c' ns) w
  | [], _, hm => by simp [capList, MatchesAny] at hm
  | n :: ns, w, hm => by
    simp only [capList, MatchesAny] at hm ⊢
    rcases hm with hm | hm
    · exact Or.inl (capNode_mono R h n w hm)
    · exact Or.inr (capAny_mono R h ns w hm)
theorem capCat_mono (R : RegexOracle) {sel sel' : Sel} {c c' : Nat} (h : Tighter sel c sel' c') :
    ∀ (ns : List Node) (w : List Tok), MatchesCat R (capList sel c ns) w → MatchesCat R (capList sel' c' ns) w
  | [], _, hm => by simpa [capList, MatchesCat] using hm
  | n :: ns, w, hm => by
    simp only [capList, MatchesCat] at hm ⊢
    obtain ⟨w1, w2, he, h1, h2⟩ := hm
    exact ⟨w1, w2, he, capNode_mono R h n w1 h1, capCat_mono R h ns w2 h2⟩
end

/-- capping nothing changes nothing -/
theorem capMax_none (c : Nat) (kind : RepKind) (max : Option Nat) : capMax selNone c kind max = max := by
  cases max <;> simp [capMax, selNone]

mutual
theorem capNode_none (c : Nat) : ∀ n : Node, capNode selNone c n = n
  | .term _ => by simp [capNode]
  | .nt _ _ _ => by simp [capNode]
  | .alt _ ns => by simp [capNode, capList_none c ns]
  | .cat _ ns => by simp [capNode, capList_none c ns]
  | .rep _ kind n min max => by simp [capNode, capNode_none c n, capMax_none]
theorem capList_none (c : Nat) : ∀ ns : List Node, capList selNone c ns = ns
  | [] => by simp [capList]
  | n :: ns => by simp [capList, capNode_none c n, capList_none c ns]
end

theorem capRules_none (c : Nat) : ∀ rs : List (String × Node), capRules selNone c rs = rs
  | [] => rfl
  | p :: ps => by simp [capRules, capNode_none, capRules_none c ps]

theorem capGrammar_none (c : Nat) (G : Grammar) : capGrammar selNone c G = G := by
  cases G; simp [capGrammar, capRules_none]

theorem find_capRules (sel : Sel) (c : Nat) (s : String) : ∀ rs : List (String × Node),
    (capRules sel c rs).find? (fun p => p.1 == s) =
      (rs.find? (fun p => p.1 == s)).map (fun p => (p.1, capNode sel c p.2))
  | [] => rfl
  | p :: ps => by
    simp only [capRules, List.find?_cons]
    cases hp : (p.1 == s) with
    | true => simp
    | false => simpa using find_capRules sel c s ps

theorem rule_capGrammar (sel : Sel) (c : Nat) (G : Grammar) (s : String) :
    (capGrammar sel c G).rule s = (G.rule s).map (capNode sel c) := by
  simp only [Grammar.rule, capGrammar, find_capRules]
  cases G.rules.find? (fun p => p.1 == s) <;> rfl

mutual
theorem valid_mono (G : Grammar) (R : RegexOracle) {sel sel' : Sel} {c c' : Nat} (h : Tighter sel c sel' c') :
    ∀ t : Tree, Valid (capGrammar sel c G) R t → Valid (capGrammar sel' c' G) R t
  | .mk (.term _) _ _ _, hv => by simpa [Valid] using hv
  | .mk (.nt s) _ _ kids, hv => by
    simp only [Valid] at hv ⊢
    obtain ⟨⟨body, toks, hb, ht, hm⟩, hl⟩ := hv
    refine ⟨?_, validL_mono G R h kids hl⟩
    rw [rule_capGrammar] at hb
    cases hr : G.rule s with
    | none => simp [hr] at hb
    | some b0 =>
      simp only [hr, Option.map_some, Option.some.injEq] at hb
      subst hb
      exact ⟨capNode sel' c' b0, toks, by rw [rule_capGrammar, hr]; rfl, ht, capNode_mono R h b0 toks hm⟩
  | .mk .slice _ _ _, hv => by simp [Valid] at hv
theorem validL_mono (G : Grammar) (R : RegexOracle) {sel sel' : Sel} {c c' : Nat} (h : Tighter sel c sel' c') :
    ∀ ts : List Tree, ValidL (capGrammar sel c G) R ts → ValidL (capGrammar sel' c' G) R ts
  | [], _ => by simp [ValidL]
  | t :: ts, hv => by
    simp only [ValidL] at hv ⊢
    exact ⟨valid_mono G R h t hv.1, validL_mono G R h ts hv.2⟩
end

end RepCap
end FV
