/-
The recogniser of `Model/Scan.lean` computes exactly the expansions of the grammar that the scanners read:

  `endsNT_sound`     q ∈ endsNT G inp c d s p → ∃ w, ExpNT G c d s w ∧ scanAll inp w p = some q
  `endsNT_complete`  ExpNT G c d s w → scanAll inp w p = some q → q ∈ endsNT G inp c d s p

and the bridges from the witnesses of the enumerator (`Model/Enum.lean`) to terminal sequences:

  `enumNT_der`       everything the enumerator lists is a bounded derivation `DerNT` (with any truncation)
  `derNT_exp`        a bounded derivation expands to the terminal sequence `termsOf leaves tags` (for every
                     larger bound on depth and repetition counts)
  `firstFail_scanAll` a witness that passes the leaf-by-leaf walk is read by `scanAll`
  `firstFailU_firstFail` the walk without tags is conservative for every tagging consistent with `re.fullmatch`
-/
import Model.Scan
import Proofs.Enum
namespace FV
namespace Scan
open Enum

/-! ### lists as sets -/

theorem mem_dedup : ∀ (l : List Nat) (x : Nat), x ∈ dedup l ↔ x ∈ l
  | [], x => by simp [dedup]
  | y :: ys, x => by
    simp only [dedup]
    split
    · rename_i h
      rw [mem_dedup ys x, List.mem_cons]
      constructor
      · exact Or.inr
      · rintro (rfl | h')
        · exact (mem_dedup ys x).mp h
        · exact h'
    · rw [List.mem_cons, List.mem_cons, mem_dedup ys x]

theorem mem_stepAll (f : Nat → List Nat) (cur : List Nat) (q : Nat) :
    q ∈ stepAll f cur ↔ ∃ m, m ∈ cur ∧ q ∈ f m := by
  simp only [stepAll, mem_dedup, List.mem_flatMap]

/-! ### scanning sequences -/

theorem scanAll_append (inp : Inp) : ∀ (a b : List Term) (p q : Nat),
    scanAll inp (a ++ b) p = some q ↔ ∃ m, scanAll inp a p = some m ∧ scanAll inp b m = some q
  | [], b, p, q => by simp [scanAll]
  | t :: ts, b, p, q => by
    simp only [List.cons_append, scanAll]
    cases scanT inp t p with
    | none => simp
    | some m => exact scanAll_append inp ts b m q

/-! ### repetition -/

section iter
variable {inp : Inp} {P : List Term → Prop} {f : Nat → List Nat}

theorem iter_complete (hP : ∀ a p m, P a → scanAll inp a p = some m → m ∈ f p) :
    ∀ (k : Nat) (w : List Term) (cur : List Nat) (p q : Nat),
      PowE P k w → p ∈ cur → scanAll inp w p = some q → q ∈ iter f k cur
  | 0, w, cur, p, q, hw, hp, hs => by
    simp only [PowE] at hw
    subst hw
    simp only [scanAll, Option.some.injEq] at hs
    subst hs
    simpa [iter] using hp
  | k + 1, w, cur, p, q, hw, hp, hs => by
    simp only [PowE] at hw
    obtain ⟨a, b, ha, hb, rfl⟩ := hw
    obtain ⟨m, h1, h2⟩ := (scanAll_append inp a b p q).mp hs
    simp only [iter]
    exact iter_complete hP k b (stepAll f cur) m q hb
      ((mem_stepAll f cur m).mpr ⟨p, hp, hP a p m ha h1⟩) h2

theorem iter_sound (hf : ∀ p m, m ∈ f p → ∃ a, P a ∧ scanAll inp a p = some m) :
    ∀ (k : Nat) (cur : List Nat) (q : Nat), q ∈ iter f k cur →
      ∃ p, p ∈ cur ∧ ∃ w, PowE P k w ∧ scanAll inp w p = some q
  | 0, cur, q, h => by
    simp only [iter] at h
    exact ⟨q, h, [], rfl, rfl⟩
  | k + 1, cur, q, h => by
    simp only [iter] at h
    obtain ⟨m, hm, w, hw, hs⟩ := iter_sound hf k (stepAll f cur) q h
    obtain ⟨p, hp, hmp⟩ := (mem_stepAll f cur m).mp hm
    obtain ⟨a, ha, hsa⟩ := hf p m hmp
    exact ⟨p, hp, a ++ w, ⟨a, w, ha, hw, rfl⟩, (scanAll_append inp a w p q).mpr ⟨m, hsa, hs⟩⟩

theorem mem_repFrom (f : Nat → List Nat) (min : Nat) (max : Option Nat) :
    ∀ (r k : Nat) (cur : List Nat) (q : Nat),
      q ∈ repFrom f min max r k cur ↔ ∃ j, j ≤ r ∧ inBounds min max (k + j) ∧ q ∈ iter f j cur
  | 0, k, cur, q => by
    simp only [repFrom]
    constructor
    · intro h
      split at h
      · rename_i hb
        exact ⟨0, Nat.le_refl 0, by simpa using hb, by simpa [iter] using h⟩
      · simp at h
    · rintro ⟨j, hj, hb, hq⟩
      have : j = 0 := by omega
      subst this
      simp only [Nat.add_zero] at hb
      simp only [iter] at hq
      simp [hb, hq]
  | r + 1, k, cur, q => by
    simp only [repFrom, List.mem_append]
    rw [mem_repFrom f min max r (k + 1) (stepAll f cur) q]
    constructor
    · rintro (h | ⟨j, hj, hb, hq⟩)
      · split at h
        · rename_i hb
          exact ⟨0, by omega, by simpa using hb, by simpa [iter] using h⟩
        · simp at h
      · exact ⟨j + 1, by omega, by rw [← Nat.add_assoc, Nat.add_right_comm]; exact hb, by simpa [iter] using hq⟩
    · rintro ⟨j, hj, hb, hq⟩
      cases j with
      | zero =>
        left
        simp only [Nat.add_zero] at hb
        simp only [iter] at hq
        simp [hb, hq]
      | succ j =>
        right
        refine ⟨j, by omega, ?_, by simpa [iter] using hq⟩
        rw [Nat.add_assoc, Nat.add_comm 1 j]
        exact hb

end iter

/-! ### the recogniser is sound and complete for `ExpWith` + `scanAll` -/

section recog
variable {inp : Inp} {c : Nat} {ntP : String → List Term → Prop} {ntf : String → Nat → List Nat}

mutual
theorem endsWith_complete (hnt : ∀ s w p q, ntP s w → scanAll inp w p = some q → q ∈ ntf s p) :
    ∀ (n : Node) (w : List Term) (p q : Nat),
      ExpWith c ntP n w → scanAll inp w p = some q → q ∈ endsWith inp c ntf n p
  | .term t, w, p, q, hw, hs => by
    simp only [ExpWith] at hw
    subst hw
    simp only [scanAll] at hs
    simp only [endsWith]
    cases h : scanT inp t p with
    | none => simp [h] at hs
    | some m =>
      simp only [h, Option.some.injEq] at hs
      subst hs
      simp
  | .nt name _ _, w, p, q, hw, hs => by
    simp only [ExpWith] at hw
    simp only [endsWith]
    exact hnt name w p q hw hs
  | .alt _ ns, w, p, q, hw, hs => by
    simp only [ExpWith] at hw
    simp only [endsWith, mem_dedup]
    exact endsAny_complete hnt ns w p q hw hs
  | .cat _ ns, w, p, q, hw, hs => by
    simp only [ExpWith] at hw
    simp only [endsWith]
    exact endsCat_complete hnt ns w p q hw hs
  | .rep _ _ n min max, w, p, q, hw, hs => by
    simp only [ExpWith] at hw
    obtain ⟨k, hk, hb, hp⟩ := hw
    simp only [endsWith, mem_dedup]
    rw [mem_repFrom]
    refine ⟨k, hk, by simpa using hb, ?_⟩
    exact iter_complete (fun a p' m ha hsa => endsWith_complete hnt n a p' m ha hsa) k w [p] p q hp
      (by simp) hs
theorem endsAny_complete (hnt : ∀ s w p q, ntP s w → scanAll inp w p = some q → q ∈ ntf s p) :
    ∀ (ns : List Node) (w : List Term) (p q : Nat),
      ExpAny c ntP ns w → scanAll inp w p = some q → q ∈ endsAny inp c ntf ns p
  | [], w, p, q, hw, _ => by simp [ExpAny] at hw
  | n :: ns, w, p, q, hw, hs => by
    simp only [ExpAny] at hw
    simp only [endsAny, List.mem_append]
    rcases hw with hw | hw
    · exact Or.inl (endsWith_complete hnt n w p q hw hs)
    · exact Or.inr (endsAny_complete hnt ns w p q hw hs)
theorem endsCat_complete (hnt : ∀ s w p q, ntP s w → scanAll inp w p = some q → q ∈ ntf s p) :
    ∀ (ns : List Node) (w : List Term) (p q : Nat),
      ExpCat c ntP ns w → scanAll inp w p = some q → q ∈ endsCat inp c ntf ns p
  | [], w, p, q, hw, hs => by
    simp only [ExpCat] at hw
    subst hw
    simp only [scanAll, Option.some.injEq] at hs
    subst hs
    simp [endsCat]
  | n :: ns, w, p, q, hw, hs => by
    simp only [ExpCat] at hw
    obtain ⟨a, b, ha, hb, rfl⟩ := hw
    obtain ⟨m, h1, h2⟩ := (scanAll_append inp a b p q).mp hs
    simp only [endsCat, mem_dedup, List.mem_flatMap]
    exact ⟨m, endsWith_complete hnt n a p m ha h1, endsCat_complete hnt ns b m q hb h2⟩
end

mutual
theorem endsWith_sound (hnt : ∀ s p q, q ∈ ntf s p → ∃ w, ntP s w ∧ scanAll inp w p = some q) :
    ∀ (n : Node) (p q : Nat), q ∈ endsWith inp c ntf n p →
      ∃ w, ExpWith c ntP n w ∧ scanAll inp w p = some q
  | .term t, p, q, h => by
    simp only [endsWith] at h
    cases hs : scanT inp t p with
    | none => simp [hs] at h
    | some m =>
      simp only [hs, Option.toList, List.mem_singleton] at h
      subst h
      exact ⟨[t], by simp [ExpWith], by simp [scanAll, hs]⟩
  | .nt name _ _, p, q, h => by
    simp only [endsWith] at h
    obtain ⟨w, hw, hs⟩ := hnt name p q h
    exact ⟨w, by simpa [ExpWith] using hw, hs⟩
  | .alt _ ns, p, q, h => by
    simp only [endsWith, mem_dedup] at h
    obtain ⟨w, hw, hs⟩ := endsAny_sound hnt ns p q h
    exact ⟨w, by simpa [ExpWith] using hw, hs⟩
  | .cat _ ns, p, q, h => by
    simp only [endsWith] at h
    obtain ⟨w, hw, hs⟩ := endsCat_sound hnt ns p q h
    exact ⟨w, by simpa [ExpWith] using hw, hs⟩
  | .rep _ _ n min max, p, q, h => by
    simp only [endsWith, mem_dedup] at h
    rw [mem_repFrom] at h
    obtain ⟨k, hk, hb, hq⟩ := h
    obtain ⟨p', hp', w, hw, hs⟩ :=
      iter_sound (P := fun v => ExpWith c ntP n v) (fun p' m hm => endsWith_sound hnt n p' m hm) k [p] q hq
    simp only [List.mem_singleton] at hp'
    subst hp'
    refine ⟨w, ?_, hs⟩
    simp only [ExpWith]
    exact ⟨k, hk, by simpa using hb, hw⟩
theorem endsAny_sound (hnt : ∀ s p q, q ∈ ntf s p → ∃ w, ntP s w ∧ scanAll inp w p = some q) :
    ∀ (ns : List Node) (p q : Nat), q ∈ endsAny inp c ntf ns p →
      ∃ w, ExpAny c ntP ns w ∧ scanAll inp w p = some q
  | [], p, q, h => by simp [endsAny] at h
  | n :: ns, p, q, h => by
    simp only [endsAny, List.mem_append] at h
    rcases h with h | h
    · obtain ⟨w, hw, hs⟩ := endsWith_sound hnt n p q h
      exact ⟨w, by simp only [ExpAny]; exact Or.inl hw, hs⟩
    · obtain ⟨w, hw, hs⟩ := endsAny_sound hnt ns p q h
      exact ⟨w, by simp only [ExpAny]; exact Or.inr hw, hs⟩
theorem endsCat_sound (hnt : ∀ s p q, q ∈ ntf s p → ∃ w, ntP s w ∧ scanAll inp w p = some q) :
    ∀ (ns : List Node) (p q : Nat), q ∈ endsCat inp c ntf ns p →
      ∃ w, ExpCat c ntP ns w ∧ scanAll inp w p = some q
  | [], p, q, h => by
    simp only [endsCat, List.mem_singleton] at h
    subst h
    exact ⟨[], by simp [ExpCat], rfl⟩
  | n :: ns, p, q, h => by
    simp only [endsCat, mem_dedup, List.mem_flatMap] at h
    obtain ⟨m, hm, hq⟩ := h
    obtain ⟨a, ha, hsa⟩ := endsWith_sound hnt n p m hm
    obtain ⟨b, hb, hsb⟩ := endsCat_sound hnt ns m q hq
    exact ⟨a ++ b, by simp only [ExpCat]; exact ⟨a, b, ha, hb, rfl⟩,
      (scanAll_append inp a b p q).mpr ⟨m, hsa, hsb⟩⟩
end

end recog

theorem endsNT_complete (G : Grammar) (inp : Inp) (c : Nat) : ∀ (d : Nat) (s : String) (w : List Term) (p q : Nat),
    ExpNT G c d s w → scanAll inp w p = some q → q ∈ endsNT G inp c d s p
  | 0, s, w, p, q, h, _ => by simp [ExpNT] at h
  | d + 1, s, w, p, q, h, hs => by
    simp only [ExpNT] at h
    obtain ⟨body, hr, hw⟩ := h
    simp only [endsNT, hr]
    exact endsWith_complete (fun s' w' p' q' h' hs' => endsNT_complete G inp c d s' w' p' q' h' hs') body w p q hw hs

theorem endsNT_sound (G : Grammar) (inp : Inp) (c : Nat) : ∀ (d : Nat) (s : String) (p q : Nat),
    q ∈ endsNT G inp c d s p → ∃ w, ExpNT G c d s w ∧ scanAll inp w p = some q
  | 0, s, p, q, h => by simp [endsNT] at h
  | d + 1, s, p, q, h => by
    simp only [endsNT] at h
    cases hr : G.rule s with
    | none => simp [hr] at h
    | some body =>
      simp only [hr] at h
      obtain ⟨w, hw, hs⟩ :=
        endsWith_sound (ntP := ExpNT G c d) (fun s' p' q' h' => endsNT_sound G inp c d s' p' q' h') body p q h
      exact ⟨w, by simp only [ExpNT]; exact ⟨body, hr, hw⟩, hs⟩

theorem accepts_iff (G : Grammar) (inp : Inp) (c d : Nat) (s : String) :
    accepts G inp c d s = true ↔ ∃ w, ExpNT G c d s w ∧ scanAll inp w 0 = some inp.ncols := by
  simp only [accepts, List.contains_iff_mem]
  constructor
  · exact endsNT_sound G inp c d s 0 inp.ncols
  · rintro ⟨w, hw, hs⟩
    exact endsNT_complete G inp c d s w 0 inp.ncols hw hs

end Scan
end FV

/-! ### bridges from the enumerator's witnesses -/

namespace FV
namespace Scan
open Enum

/-! #### everything the enumerator lists is a bounded derivation -/

theorem powT_der {P : Tagged → Prop} {lim : Option Nat} {xs : List Tagged} (hxs : ∀ g, g ∈ xs → P g) :
    ∀ (k : Nat) (f : Tagged), f ∈ powT lim xs k → PowR P k f
  | 0, f, h => by
    simp only [powT, List.mem_singleton] at h
    simpa [PowR] using h
  | k + 1, f, h => by
    simp only [powT] at h
    obtain ⟨a, ha, b, hb, rfl⟩ := mem_prodT h
    exact ⟨a, b, hxs a ha, powT_der hxs k b hb, rfl⟩

section
variable {inst : Inst} {c : Nat} {lim : Option Nat} {rot : Nat}
  {ntP : String → Option String → Option String → Tagged → Prop}
  {ntf : String → Option String → Option String → List Tagged}

mutual
theorem enumWith_der (hnt : ∀ s a r f, f ∈ ntf s a r → ntP s a r f) : ∀ (n : Node) (f : Tagged),
    f ∈ enumWith inst c lim rot ntf n → DerWith inst c ntP n f
  | .term (.lit l), f, h => by
    simp only [enumWith, List.mem_singleton] at h
    simpa [DerWith] using h
  | .term (.regex id), f, h => by
    simp only [enumWith] at h
    have := mem_of_mem_takeO h
    rw [List.mem_map] at this
    obtain ⟨l, hl, rfl⟩ := this
    simp only [DerWith]
    exact ⟨l, hl, rfl⟩
  | .nt name a r, f, h => by
    simp only [enumWith] at h
    simp only [DerWith]
    exact hnt name a r f h
  | .alt _ ns, f, h => by
    simp only [enumWith] at h
    simp only [DerWith]
    exact enumAny_der hnt ns f (mem_rotate (mem_of_mem_takeO h))
  | .cat _ ns, f, h => by
    simp only [enumWith] at h
    simp only [DerWith]
    exact enumCat_der hnt ns f h
  | .rep _ _ n min max, f, h => by
    simp only [enumWith] at h
    have := mem_of_mem_takeO h
    rw [List.mem_flatMap] at this
    obtain ⟨k, hk, hf⟩ := this
    rw [List.mem_filter, List.mem_range] at hk
    simp only [DerWith]
    exact ⟨k, by omega, by simpa using hk.2, powT_der (fun g hg => enumWith_der hnt n g hg) k f hf⟩
theorem enumAny_der (hnt : ∀ s a r f, f ∈ ntf s a r → ntP s a r f) : ∀ (ns : List Node) (f : Tagged),
    f ∈ enumAny inst c lim rot ntf ns → DerAny inst c ntP ns f
  | [], f, h => by simp [enumAny] at h
  | n :: ns, f, h => by
    simp only [enumAny, List.mem_append] at h
    simp only [DerAny]
    rcases h with h | h
    · exact Or.inl (enumWith_der hnt n f h)
    · exact Or.inr (enumAny_der hnt ns f h)
theorem enumCat_der (hnt : ∀ s a r f, f ∈ ntf s a r → ntP s a r f) : ∀ (ns : List Node) (f : Tagged),
    f ∈ enumCat inst c lim rot ntf ns → DerCat inst c ntP ns f
  | [], f, h => by
    simp only [enumCat, List.mem_singleton] at h
    simpa [DerCat] using h
  | n :: ns, f, h => by
    simp only [enumCat] at h
    obtain ⟨a, ha, b, hb, rfl⟩ := mem_prodT h
    simp only [DerCat]
    exact ⟨a, b, enumWith_der hnt n a ha, enumCat_der hnt ns b hb, rfl⟩
end

theorem enumNT_der (G : Grammar) : ∀ (d : Nat) (s : String) (a r : Option String) (f : Tagged),
    f ∈ enumNT G inst c lim rot d s a r → DerNT G inst c d s a r f
  | 0, s, a, r, f, h => by simp [enumNT] at h
  | d + 1, s, a, r, f, h => by
    simp only [enumNT] at h
    cases hr : G.rule s with
    | none => simp [hr] at h
    | some body =>
      simp only [hr, List.mem_map] at h
      obtain ⟨g, hg, rfl⟩ := h
      simp only [DerNT]
      exact ⟨body, g, hr, enumWith_der (fun s' a' r' f' hf' => enumNT_der G d s' a' r' f' hf') body g hg, rfl⟩

end

/-! #### a bounded derivation expands to the terminal sequence of its leaves and tags -/

theorem termsOf_append : ∀ (a : List Leaf) (ta : List (Option Nat)) (b : List Leaf) (tb : List (Option Nat)),
    ta.length = a.length → termsOf (a ++ b) (ta ++ tb) = termsOf a ta ++ termsOf b tb
  | [], [], b, tb, _ => by simp [termsOf]
  | [], _ :: _, _, _, h => by simp at h
  | _ :: _, [], _, _, h => by simp at h
  | l :: ls, t :: ts, b, tb, h => by
    simp only [List.length_cons, Nat.add_right_cancel_iff] at h
    simp only [List.cons_append, termsOf, List.head?_cons, List.tail_cons, List.cons.injEq, true_and]
    exact termsOf_append ls ts b tb h

/-- the terminal sequence of a forest, and "tags and leaves line up" -/
def fterms (f : Tagged) : List Term := termsOf (Tree.leavesL f.1) f.2
def Lined (f : Tagged) : Prop := f.2.length = (Tree.leavesL f.1).length

theorem fterms_cat {a b : Tagged} (ha : Lined a) : fterms (catT a b) = fterms a ++ fterms b := by
  simp only [fterms, catT, leavesL_append]
  exact termsOf_append _ _ _ _ ha

theorem lined_cat {a b : Tagged} (ha : Lined a) (hb : Lined b) : Lined (catT a b) := by
  simp only [Lined, catT, leavesL_append, List.length_append] at *
  omega

section
variable {inst : Inst} {c c' : Nat} {ntP : String → Option String → Option String → Tagged → Prop}
  {ntE : String → List Term → Prop}

theorem powR_exp {P : Tagged → Prop} {Q : List Term → Prop} (h : ∀ g, P g → Q (fterms g) ∧ Lined g) :
    ∀ (k : Nat) (f : Tagged), PowR P k f → PowE Q k (fterms f) ∧ Lined f
  | 0, f, hf => by
    simp only [PowR] at hf
    subst hf
    exact ⟨by simp [PowE, fterms, Tree.leavesL, termsOf], by simp [Lined, Tree.leavesL]⟩
  | k + 1, f, hf => by
    simp only [PowR] at hf
    obtain ⟨a, b, ha, hb, rfl⟩ := hf
    obtain ⟨qa, la⟩ := h a ha
    obtain ⟨qb, lb⟩ := powR_exp h k b hb
    exact ⟨⟨fterms a, fterms b, qa, qb, fterms_cat la⟩, lined_cat la lb⟩

mutual
theorem derWith_exp (hc : c ≤ c') (hnt : ∀ s a r f, ntP s a r f → ntE s (fterms f) ∧ Lined f) :
    ∀ (n : Node) (f : Tagged), DerWith inst c ntP n f → ExpWith c' ntE n (fterms f) ∧ Lined f
  | .term (.lit l), f, h => by
    simp only [DerWith] at h
    subst h
    exact ⟨by simp [ExpWith, fterms, Tree.leavesL, Tree.leaves, Tree.leaf, termsOf, termOfLeaf],
      by simp [Lined, Tree.leavesL, Tree.leaves, Tree.leaf]⟩
  | .term (.regex id), f, h => by
    simp only [DerWith] at h
    obtain ⟨l, _, rfl⟩ := h
    exact ⟨by simp [ExpWith, fterms, Tree.leavesL, Tree.leaves, Tree.leaf, termsOf, termOfLeaf],
      by simp [Lined, Tree.leavesL, Tree.leaves, Tree.leaf]⟩
  | .nt name a r, f, h => by
    simp only [DerWith] at h
    obtain ⟨h1, h2⟩ := hnt name a r f h
    exact ⟨by simpa [ExpWith] using h1, h2⟩
  | .alt _ ns, f, h => by
    simp only [DerWith] at h
    obtain ⟨h1, h2⟩ := derAny_exp hc hnt ns f h
    exact ⟨by simpa [ExpWith] using h1, h2⟩
  | .cat _ ns, f, h => by
    simp only [DerWith] at h
    obtain ⟨h1, h2⟩ := derCat_exp hc hnt ns f h
    exact ⟨by simpa [ExpWith] using h1, h2⟩
  | .rep _ _ n min max, f, h => by
    simp only [DerWith] at h
    obtain ⟨k, hk, hb, hp⟩ := h
    obtain ⟨h1, h2⟩ := powR_exp (Q := fun v => ExpWith c' ntE n v) (fun g hg => derWith_exp hc hnt n g hg) k f hp
    refine ⟨?_, h2⟩
    simp only [ExpWith]
    exact ⟨k, by omega, hb, h1⟩
theorem derAny_exp (hc : c ≤ c') (hnt : ∀ s a r f, ntP s a r f → ntE s (fterms f) ∧ Lined f) :
    ∀ (ns : List Node) (f : Tagged), DerAny inst c ntP ns f → ExpAny c' ntE ns (fterms f) ∧ Lined f
  | [], f, h => by simp [DerAny] at h
  | n :: ns, f, h => by
    simp only [DerAny] at h
    rcases h with h | h
    · obtain ⟨h1, h2⟩ := derWith_exp hc hnt n f h
      exact ⟨by simp only [ExpAny]; exact Or.inl h1, h2⟩
    · obtain ⟨h1, h2⟩ := derAny_exp hc hnt ns f h
      exact ⟨by simp only [ExpAny]; exact Or.inr h1, h2⟩
theorem derCat_exp (hc : c ≤ c') (hnt : ∀ s a r f, ntP s a r f → ntE s (fterms f) ∧ Lined f) :
    ∀ (ns : List Node) (f : Tagged), DerCat inst c ntP ns f → ExpCat c' ntE ns (fterms f) ∧ Lined f
  | [], f, h => by
    simp only [DerCat] at h
    subst h
    exact ⟨by simp [ExpCat, fterms, Tree.leavesL, termsOf], by simp [Lined, Tree.leavesL]⟩
  | n :: ns, f, h => by
    simp only [DerCat] at h
    obtain ⟨a, b, ha, hb, rfl⟩ := h
    obtain ⟨qa, la⟩ := derWith_exp hc hnt n a ha
    obtain ⟨qb, lb⟩ := derCat_exp hc hnt ns b hb
    exact ⟨by simp only [ExpCat]; exact ⟨fterms a, fterms b, qa, qb, fterms_cat la⟩, lined_cat la lb⟩
end

end

theorem derNT_exp (G : Grammar) {inst : Inst} {c c' : Nat} (hc : c ≤ c') :
    ∀ (d d' : Nat), d ≤ d' → ∀ (s : String) (a r : Option String) (f : Tagged),
      DerNT G inst c d s a r f → ExpNT G c' d' s (fterms f) ∧ Lined f
  | 0, _, _, s, a, r, f, h => by simp [DerNT] at h
  | d + 1, 0, hd, _, _, _, _, _ => by omega
  | d + 1, d' + 1, hd, s, a, r, f, h => by
    simp only [DerNT] at h
    obtain ⟨body, g, hr, hg, rfl⟩ := h
    obtain ⟨h1, h2⟩ := derWith_exp hc
      (fun s' a' r' f' hf' => derNT_exp G hc d d' (by omega) s' a' r' f' hf') body g hg
    have e : fterms ([Tree.mk (.nt s) a r g.1], g.2) = fterms g := by
      simp [fterms, Tree.leavesL, Tree.leaves]
    have l : Lined ([Tree.mk (.nt s) a r g.1], g.2) := by
      simpa [Lined, Tree.leavesL, Tree.leaves] using h2
    refine ⟨?_, l⟩
    rw [e]
    simp only [ExpNT]
    exact ⟨body, hr, h1⟩

/-! #### the leaf-by-leaf walk -/

theorem firstFail_scanAll (inp : Inp) (binary : Bool) : ∀ (leaves : List Leaf) (tags : List (Option Nat)) (p i : Nat),
    firstFail inp binary leaves tags p i = none →
      ∃ n, lenSum binary leaves = some n ∧ scanAll inp (termsOf leaves tags) p = some (p + n)
  | [], tags, p, i, _ => ⟨0, rfl, by simp [termsOf, scanAll]⟩
  | l :: ls, tags, p, i, h => by
    simp only [firstFail] at h
    cases hl : leafLen8 binary l with
    | none => simp [hl] at h
    | some n8 =>
      simp only [hl] at h
      split at h
      · rename_i hs
        obtain ⟨n, hn, hsa⟩ := firstFail_scanAll inp binary ls tags.tail (p + n8) (i + 1) h
        refine ⟨n8 + n, by simp [lenSum, hl, hn], ?_⟩
        have hs' : scanT inp (termOfLeaf l tags.head?) p = some (p + n8) := by simpa using hs
        simp only [termsOf, scanAll, hs']
        rw [hsa, Nat.add_assoc]
      · simp at h

/-- tags only name regexes of the table that match their leaf as a whole -/
def TagsIn (full : Nat → Leaf → Bool) (ids : List Nat) : List Leaf → List (Option Nat) → Prop
  | [], _ => True
  | l :: ls, tags => (∀ r, tags.head? = some (some r) → r ∈ ids ∧ full r l = true) ∧ TagsIn full ids ls tags.tail

theorem firstFailU_firstFail (inp : Inp) (binary : Bool) (full : Nat → Leaf → Bool) (ids : List Nat) :
    ∀ (leaves : List Leaf) (tags : List (Option Nat)) (p i : Nat),
      firstFailU inp binary full ids leaves p i = none → TagsIn full ids leaves tags →
        firstFail inp binary leaves tags p i = none
  | [], _, _, _, _, _ => by simp [firstFail]
  | l :: ls, tags, p, i, h, ht => by
    simp only [firstFailU] at h
    simp only [TagsIn] at ht
    simp only [firstFail]
    cases hl : leafLen8 binary l with
    | none => simp [hl] at h
    | some n8 =>
      simp only [hl] at h ⊢
      split at h
      · rename_i hc
        simp only [Bool.and_eq_true, List.all_eq_true, List.mem_filter] at hc
        have hterm : (scanT inp (termOfLeaf l tags.head?) p == some (p + n8)) = true := by
          cases hh : tags.head? with
          | none => simpa [termOfLeaf] using hc.2
          | some t =>
            cases t with
            | none => simpa [termOfLeaf] using hc.2
            | some r =>
              have := ht.1 r hh
              simpa [termOfLeaf] using hc.1 r ⟨this.1, this.2⟩
        simp only [hterm, if_true]
        exact firstFailU_firstFail inp binary full ids ls tags.tail (p + n8) (i + 1) h ht.2
      · simp at h

end Scan
end FV
