/-
Helper lemmas about the selector model (`Model/Search.lean`), used by `Props/C07.lean`.
-/
import Model.Search
namespace FV
namespace Tree

/-- `u` is `t` itself or lies below `t` on a path that passes only through non-terminal nodes
    (what `find_all_trees` can reach) -/
inductive Within : Tree → Tree → Prop where
  | refl (t : Tree) : Within t t
  | step {u k t : Tree} : k ∈ t.kids → k.isNT = true → Within u k → Within u t

theorem within_mk_iff (u : Tree) (sym : Sym) (a r : Option String) (kids : List Tree) :
    Within u (mk sym a r kids) ↔ u = mk sym a r kids ∨ ∃ k ∈ kids, k.isNT = true ∧ Within u k := by
  constructor
  · intro h
    cases h with
    | refl => exact .inl rfl
    | step hk hnt hw => exact .inr ⟨_, hk, hnt, hw⟩
  · rintro (h | ⟨k, hk, hnt, hw⟩)
    · subst h; exact .refl _
    · exact .step (t := mk sym a r kids) hk hnt hw

theorem within_sym_of_findAll_self (s : String) (sym : Sym) (a r : Option String) (kids : List Tree) (u : Tree) :
    u ∈ (if sym = Sym.nt s then [mk sym a r kids] else []) ↔ (u = mk sym a r kids ∧ sym = .nt s) := by
  by_cases h : sym = .nt s <;> simp [h]

mutual
theorem mem_findAll : ∀ (s : String) (t u : Tree), u ∈ t.findAll s ↔ (Within u t ∧ u.sym = .nt s)
  | s, mk sym a r kids, u => by
    simp only [findAll, List.mem_append, within_sym_of_findAll_self, within_mk_iff]
    rw [mem_findAllL s kids u]
    constructor
    · rintro (⟨k, hk, hnt, hw, hs⟩ | ⟨rfl, hs⟩)
      · exact ⟨.inr ⟨k, hk, hnt, hw⟩, hs⟩
      · exact ⟨.inl rfl, by simpa [Tree.sym] using hs⟩
    · rintro ⟨(rfl | ⟨k, hk, hnt, hw⟩), hs⟩
      · exact .inr ⟨rfl, by simpa [Tree.sym] using hs⟩
      · exact .inl ⟨k, hk, hnt, hw, hs⟩
theorem mem_findAllL : ∀ (s : String) (ks : List Tree) (u : Tree),
    u ∈ findAllL s ks ↔ ∃ k ∈ ks, k.isNT = true ∧ Within u k ∧ u.sym = .nt s
  | s, [], u => by simp [findAllL]
  | s, k :: ks, u => by
    simp only [findAllL, List.mem_append, List.mem_cons]
    rw [mem_findAllL s ks u]
    constructor
    · rintro (h | ⟨k', hk', rest⟩)
      · by_cases hnt : k.isNT = true
        · simp only [hnt, if_true] at h
          exact ⟨k, .inl rfl, hnt, (mem_findAll s k u).1 h⟩
        · simp [hnt] at h
      · exact ⟨k', .inr hk', rest⟩
    · rintro ⟨k', (rfl | hk'), hnt, hw⟩
      · left; simp only [hnt, if_true]; exact (mem_findAll s k' u).2 hw
      · exact .inr ⟨k', hk', hnt, hw⟩
end

theorem mem_findDirect (s : String) (t u : Tree) : u ∈ t.findDirect s ↔ (u ∈ t.kids ∧ u.sym = .nt s) := by
  simp [findDirect]

/-- a direct non-terminal child is also a descendant: `<foo>..<bar>` includes `<foo>.<bar>` -/
theorem findDirect_subset_findAll (s : String) (t u : Tree) (h : u ∈ t.findDirect s) : u ∈ t.findAll s := by
  rw [mem_findDirect] at h
  rw [mem_findAll]
  refine ⟨?_, h.2⟩
  have hnt : u.isNT = true := by
    cases u with
    | mk sym a r ks =>
      have : sym = .nt s := by simpa [Tree.sym] using h.2
      subst this; rfl
  exact .step h.1 hnt (.refl u)

/-! ### indexing -/

theorem pyIndex_nonneg (l : List Tree) (i : Nat) (h : i < l.length) : pyIndex l (i : Int) = .ok l[i] := by
  unfold pyIndex
  have h1 : ¬ ((i : Int) < 0) := by omega
  simp [h1, h]

theorem pyIndex_neg (l : List Tree) (k : Nat) (h : k < l.length) :
    pyIndex l (-((k : Int) + 1)) = .ok (l[l.length - 1 - k]'(by omega)) := by
  unfold pyIndex
  have h1 : (-((k : Int) + 1)) < 0 := by omega
  have h2 : ¬ (-((k : Int) + 1) + (l.length : Int) < 0) := by omega
  have h3 : (-((k : Int) + 1) + (l.length : Int)).toNat = l.length - 1 - k := by omega
  simp only [h1, if_true, h2, if_false, h3]
  have h4 : l.length - 1 - k < l.length := by omega
  simp [h4]

theorem pyIndex_out_of_range (l : List Tree) (i : Int)
    (h : (l.length : Int) ≤ i ∨ i < -(l.length : Int)) : pyIndex l i = .error .index := by
  unfold pyIndex
  rcases h with h | h
  · have h1 : ¬ (i < 0) := by omega
    have h2 : l.length ≤ i.toNat := by omega
    simp [h1, h2]
  · have h1 : i < 0 := by omega
    have h2 : i + (l.length : Int) < 0 := by omega
    simp [h1, h2]

/-! ### slices -/

theorem clampIdx_nat (n d a : Nat) : clampIdx n d (some (a : Int)) = min a n := by
  unfold clampIdx
  have : ¬ ((a : Int) < 0) := by omega
  simp [this]

theorem pySlice_nat (l : List Tree) (a b : Nat) :
    pySlice l (some (a : Int)) (some (b : Int)) none
      = .ok ((l.drop (min a l.length)).take (min b l.length - min a l.length)) := by
  simp [pySlice, clampIdx_nat]

theorem pySlice_prefix (l : List Tree) (i : Nat) : pySlice l none (some (i : Int)) none = .ok (l.take i) := by
  have h1 : clampIdx l.length 0 none = 0 := rfl
  have h2 : clampIdx l.length l.length (some (i : Int)) = min i l.length := clampIdx_nat _ _ _
  simp only [pySlice, h1, h2, List.drop_zero, Nat.sub_zero]
  congr 1
  by_cases h : i ≤ l.length
  · rw [Nat.min_eq_left h]
  · have h' : l.length ≤ i := by omega
    rw [Nat.min_eq_right h', List.take_of_length_le (Nat.le_refl _), List.take_of_length_le h']

theorem pySlice_suffix (l : List Tree) (i : Nat) : pySlice l (some (i : Int)) none none = .ok (l.drop i) := by
  have h1 : clampIdx l.length l.length none = l.length := rfl
  have h2 : clampIdx l.length 0 (some (i : Int)) = min i l.length := clampIdx_nat _ _ _
  simp only [pySlice, h1, h2]
  congr 1
  by_cases h : i ≤ l.length
  · rw [Nat.min_eq_left h]
    exact List.take_of_length_le (by simp)
  · have h' : l.length ≤ i := by omega
    rw [Nat.min_eq_right h']
    simp [List.drop_eq_nil_of_le h']

theorem pySlice_all (l : List Tree) : pySlice l none none none = .ok l := by
  simp [pySlice, clampIdx]

end Tree
end FV
