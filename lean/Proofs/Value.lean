/-
Helper lemmas about `Model/Value.lean` (E1).  Property theorems live in `Props/C09.lean`.
-/
import Model.Value
import Model.Tree
namespace FV

/-! ### encode -/

theorem encode_append (e : Enc) (s t : Str) :
    encode e (s ++ t) =
      match encode e s with
      | .error x => .error x
      | .ok a =>
        match encode e t with
        | .error x => .error x
        | .ok b => .ok (a ++ b) := by
  induction s with
  | nil =>
    simp only [List.nil_append, encode]
    cases encode e t <;> simp
  | cons c cs ih =>
    simp only [List.cons_append, encode]
    cases hc : encChar e c with
    | error x => simp
    | ok a =>
      simp only [ih]
      cases encode e cs with
      | error x => simp
      | ok b =>
        cases encode e t with
        | error x => simp
        | ok d => simp [List.append_assoc]

/-! ### pack / unpack -/

theorem byteBits_mkByte (b0 b1 b2 b3 b4 b5 b6 b7 : Bool) :
    byteBits (mkByte (bitsToNat [b0, b1, b2, b3, b4, b5, b6, b7])) =
      [b0, b1, b2, b3, b4, b5, b6, b7] := by
  cases b0 <;> cases b1 <;> cases b2 <;> cases b3 <;>
  cases b4 <;> cases b5 <;> cases b6 <;> cases b7 <;> decide

theorem mkByte_byteBits : ∀ b : Byte, mkByte (bitsToNat (byteBits b)) = b := by
  decide +kernel

theorem exists_eight {α} (l : List α) (h : 8 ≤ l.length) :
    ∃ b0 b1 b2 b3 b4 b5 b6 b7 rest, l = b0 :: b1 :: b2 :: b3 :: b4 :: b5 :: b6 :: b7 :: rest := by
  rcases l with _ | ⟨b0, _ | ⟨b1, _ | ⟨b2, _ | ⟨b3, _ | ⟨b4, _ | ⟨b5, _ | ⟨b6, _ | ⟨b7, rest⟩⟩⟩⟩⟩⟩⟩⟩ <;>
    simp at h
  exact ⟨b0, b1, b2, b3, b4, b5, b6, b7, rest, rfl⟩

theorem unpack_cons (b : Byte) (bs : Bytes) : unpack (b :: bs) = byteBits b ++ unpack bs := by
  simp [unpack]

theorem unpack_append (a b : Bytes) : unpack (a ++ b) = unpack a ++ unpack b := by
  simp [unpack]

theorem unpack_pack_aux : ∀ (n : Nat) (bs : Bits), bs.length = 8 * n → unpack (pack bs) = bs := by
  intro n
  induction n with
  | zero =>
    intro bs h
    have : bs = [] := List.eq_nil_of_length_eq_zero (by omega)
    subst this; rfl
  | succ n ih =>
    intro bs h
    obtain ⟨b0, b1, b2, b3, b4, b5, b6, b7, rest, rfl⟩ := exists_eight bs (by omega)
    have hr : rest.length = 8 * n := by simp at h; omega
    simp only [pack, unpack_cons, byteBits_mkByte, ih rest hr]
    rfl

theorem unpack_pack (bs : Bits) (h : bs.length % 8 = 0) : unpack (pack bs) = bs :=
  unpack_pack_aux (bs.length / 8) bs (by omega)

theorem pack_unpack (bs : Bytes) : pack (unpack bs) = bs := by
  induction bs with
  | nil => rfl
  | cons b bs ih =>
    rw [unpack_cons]
    show pack ([_, _, _, _, _, _, _, _] ++ unpack bs) = _
    simp only [List.cons_append, List.nil_append, pack, ih]
    congr 1
    exact mkByte_byteBits b

theorem length_unpack (bs : Bytes) : (unpack bs).length = 8 * bs.length := by
  induction bs with
  | nil => rfl
  | cons b bs ih => rw [unpack_cons, List.length_append, ih]; simp [byteBits]; omega

theorem pack_append_aux : ∀ (n : Nat) (a b : Bits), a.length = 8 * n →
    pack (a ++ b) = pack a ++ pack b := by
  intro n
  induction n with
  | zero =>
    intro a b h
    have : a = [] := List.eq_nil_of_length_eq_zero (by omega)
    subst this; simp [pack]
  | succ n ih =>
    intro a b h
    obtain ⟨b0, b1, b2, b3, b4, b5, b6, b7, rest, rfl⟩ := exists_eight a (by omega)
    have hr : rest.length = 8 * n := by simp at h; omega
    simp only [List.cons_append, pack, ih rest b hr]

theorem pack_append (a b : Bits) (h : a.length % 8 = 0) : pack (a ++ b) = pack a ++ pack b :=
  pack_append_aux (a.length / 8) a b (by omega)

/-! ### reduce -/

namespace TV

theorem reduce_bits_nil {e : Enc} {v v' : TV} (h : reduce e v = .ok v') : v'.bits = [] := by
  unfold reduce at h
  split at h
  · cases h; simp_all
  · split at h
    · cases h
    · cases hv : v.val with
      | none => simp [hv] at h; cases h; rfl
      | bytes b => simp [hv] at h; cases h; rfl
      | text s =>
        simp only [hv] at h
        cases he : encode e s with
        | error x => simp [he] at h
        | ok b => simp [he] at h; cases h; rfl

/-- flushing with the same encoding the bit view uses does not change the bit view -/
theorem reduce_toBits {v v' : TV} (h : reduce .utf8 v = .ok v') : toBits v' = toBits v := by
  unfold reduce at h
  split at h
  · cases h; rfl
  · split at h
    · cases h
    · rename_i hne hlen
      have hlen' : v.bits.length % 8 = 0 := by simpa using hlen
      cases hv : v.val with
      | none =>
        simp [hv] at h; cases h
        simp [toBits, hv, unpack_pack _ hlen']
      | bytes b =>
        simp [hv] at h; cases h
        simp [toBits, hv, unpack_append, unpack_pack _ hlen']
      | text s =>
        simp only [hv] at h
        cases he : encode .utf8 s with
        | error x => simp [he] at h
        | ok b =>
          simp [he] at h; cases h
          simp [toBits, hv, he, unpack_append, unpack_pack _ hlen']

theorem type_empty_iff (v : TV) : v.type = .empty ↔ v = TV.empty := by
  cases v with
  | mk val bits =>
    cases val <;> cases bits <;> simp [type, TV.empty]

/-- the bit view of `a.append b` is the bit view of `a` followed by the bit view of `b` -/
theorem append_toBits {a b c : TV} (h : a.append b = .ok c) :
    toBits c =
      match toBits a with
      | .error x => .error x
      | .ok x =>
        match toBits b with
        | .error y => .error y
        | .ok y => .ok (x ++ y) := by
  unfold append at h
  by_cases he : a.type = .empty
  · have ha : a = TV.empty := (type_empty_iff a).1 he
    simp only [he, if_true] at h
    cases h
    subst ha
    have h0 : toBits TV.empty = .ok [] := rfl
    rw [h0]
    generalize toBits b = r
    cases r <;> rfl
  · simp only [he, if_false] at h
    cases hb : b.val with
    | none =>
      simp only [hb] at h
      cases h
      cases ha : a.val with
      | none => simp [toBits, ha, hb]
      | bytes s => simp [toBits, ha, hb, List.append_assoc]
      | text s =>
        simp only [toBits, ha, hb]
        cases encode .utf8 s <;> simp [List.append_assoc]
    | text t =>
      simp only [hb] at h
      cases hr : reduce .utf8 a with
      | error x => simp [hr] at h
      | ok a' =>
        have hn := reduce_bits_nil hr
        have ht := reduce_toBits hr
        simp only [hr] at h
        rw [← ht]
        cases ha' : a'.val with
        | none => simp [ha'] at h
        | text s =>
          simp only [ha'] at h
          cases h
          simp only [toBits, ha', hb, hn, encode_append]
          cases encode .utf8 s with
          | error x => simp
          | ok sb =>
            cases encode .utf8 t with
            | error x => simp
            | ok tb => simp [unpack_append, List.append_assoc]
        | bytes s =>
          simp only [ha'] at h
          cases het : encode .utf8 t with
          | error x => simp [het] at h
          | ok tb =>
            simp only [het] at h
            cases h
            simp [toBits, ha', hb, hn, het, unpack_append, List.append_assoc]
    | bytes t =>
      simp only [hb] at h
      cases hr : reduce .utf8 a with
      | error x => simp [hr] at h
      | ok a' =>
        have hn := reduce_bits_nil hr
        have ht := reduce_toBits hr
        simp only [hr] at h
        rw [← ht]
        cases ha' : a'.val with
        | none => simp [ha'] at h
        | text s =>
          simp only [ha'] at h
          cases hes : encode .utf8 s with
          | error x => simp [hes] at h
          | ok sb =>
            simp only [hes] at h
            cases h
            simp [toBits, ha', hb, hn, hes, unpack_append, List.append_assoc]
        | bytes s =>
          simp only [ha'] at h
          cases h
          simp [toBits, ha', hb, hn, unpack_append, List.append_assoc]

end TV

/-! ### the fold -/

theorem foldAppend_append (acc : TV) (xs ys : List TV) :
    foldAppend acc (xs ++ ys) =
      match foldAppend acc xs with
      | .error x => .error x
      | .ok a => foldAppend a ys := by
  induction xs generalizing acc with
  | nil => simp [foldAppend]
  | cons x xs ih =>
    simp only [List.cons_append, foldAppend]
    cases acc.append x with
    | error e => simp
    | ok a => simp [ih]

mutual
theorem valueInto_eq_fold (acc : TV) : ∀ t : Tree,
    Tree.valueInto acc t = foldAppend acc (t.leaves.map Leaf.tv)
  | .mk (.term l) _ _ _ => by
    simp only [Tree.valueInto, Tree.leaves, List.map, foldAppend]
    cases acc.append l.tv <;> rfl
  | .mk (.nt _) _ _ kids => by
    simp only [Tree.valueInto, Tree.leaves]; exact valueIntoL_eq_fold acc kids
  | .mk .slice _ _ kids => by
    simp only [Tree.valueInto, Tree.leaves]; exact valueIntoL_eq_fold acc kids
theorem valueIntoL_eq_fold (acc : TV) : ∀ ts : List Tree,
    Tree.valueIntoL acc ts = foldAppend acc ((Tree.leavesL ts).map Leaf.tv)
  | [] => by simp [Tree.valueIntoL, Tree.leavesL, foldAppend]
  | t :: ts => by
    simp only [Tree.valueIntoL, Tree.leavesL, List.map_append, foldAppend_append,
      valueInto_eq_fold acc t]
    cases foldAppend acc (t.leaves.map Leaf.tv) with
    | error e => rfl
    | ok a => exact valueIntoL_eq_fold a ts
end

end FV

namespace FV
namespace TV

/-- the three ways `_reduce_trailing_bits` can go -/
theorem reduce_cases (e : Enc) (v : TV) :
    (v.bits = [] ∧ reduce e v = .ok v) ∨
    (v.bits ≠ [] ∧ v.bits.length % 8 ≠ 0 ∧ reduce e v = .error .conv) ∨
    (v.bits ≠ [] ∧ v.bits.length % 8 = 0 ∧
      match v.val with
      | .none => reduce e v = .ok ⟨.bytes (pack v.bits), []⟩
      | .bytes b => reduce e v = .ok ⟨.bytes (b ++ pack v.bits), []⟩
      | .text s =>
        match encode e s with
        | .error x => reduce e v = .error x
        | .ok b => reduce e v = .ok ⟨.bytes (b ++ pack v.bits), []⟩) := by
  by_cases hb : v.bits = []
  · left
    exact ⟨hb, by simp [reduce, hb]⟩
  · right
    have hne : v.bits.isEmpty = false := by
      cases hbb : v.bits with
      | nil => exact absurd hbb hb
      | cons x xs => rfl
    by_cases hl : v.bits.length % 8 = 0
    · right
      refine ⟨hb, hl, ?_⟩
      cases hv : v.val with
      | none => simp [reduce, hne, hl, hv]
      | bytes b => simp [reduce, hne, hl, hv]
      | text s =>
        simp only []
        cases hes : encode e s with
        | error x => simp [reduce, hne, hl, hv, hes]
        | ok b => simp [reduce, hne, hl, hv, hes]
    · left
      exact ⟨hb, hl, by simp [reduce, hne, hl]⟩

/-- a flushed non-empty value always has a payload -/
theorem reduce_val_ne_none {e : Enc} {v v' : TV} (h : reduce e v = .ok v') (hne : v.type ≠ .empty) :
    v'.val ≠ .none := by
  rcases reduce_cases e v with ⟨hb, hr⟩ | ⟨_, _, hr⟩ | ⟨_, _, hr⟩
  · rw [hr] at h; cases h
    intro hv
    apply hne
    simp [type, hv, hb]
  · rw [hr] at h; cases h
  · cases hv : v.val with
    | none => simp only [hv] at hr; rw [hr] at h; cases h; simp
    | bytes b => simp only [hv] at hr; rw [hr] at h; cases h; simp
    | text s =>
      simp only [hv] at hr
      cases hes : encode e s with
      | error x => simp only [hes] at hr; rw [hr] at h; cases h
      | ok b => simp only [hes] at hr; rw [hr] at h; cases h; simp

end TV
end FV
