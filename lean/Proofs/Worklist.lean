/-
Helper lemmas for E7 / `Model/Worklist.lean` (C17).
-/
import Model.Worklist
namespace FV.Wl

section closure
variable {α : Type} [DecidableEq α]

/-- what the inner loop does to (work, seen) -/
theorem foldl_addNew (l : List α) : ∀ (w s : List α),
    (∀ x, x ∈ s → x ∈ (l.foldl addNew (w, s)).2) ∧
    (∀ x, x ∈ w → x ∈ (l.foldl addNew (w, s)).1) ∧
    (∀ x, x ∈ (l.foldl addNew (w, s)).2 → x ∈ s ∨ (x ∈ l ∧ x ∈ (l.foldl addNew (w, s)).1)) ∧
    (∀ x, x ∈ (l.foldl addNew (w, s)).1 → x ∈ w ∨ (x ∈ l ∧ x ∈ (l.foldl addNew (w, s)).2)) ∧
    (∀ n, n ∈ l → n ∈ (l.foldl addNew (w, s)).2) := by
  induction l with
  | nil =>
    intro w s
    refine ⟨fun _ h => h, fun _ h => h, fun _ h => Or.inl h, fun _ h => Or.inl h, ?_⟩
    intro n hn; cases hn
  | cons n l ih =>
    intro w s
    simp only [List.foldl_cons]
    by_cases hn : n ∈ s
    · have e : addNew (w, s) n = (w, s) := by simp [addNew, hn]
      rw [e]
      obtain ⟨h1, h2, h3, h4, h5⟩ := ih w s
      refine ⟨h1, h2, ?_, ?_, ?_⟩
      · intro x hx
        rcases h3 x hx with h | ⟨ha, hb⟩
        · exact Or.inl h
        · exact Or.inr ⟨List.mem_cons_of_mem _ ha, hb⟩
      · intro x hx
        rcases h4 x hx with h | ⟨ha, hb⟩
        · exact Or.inl h
        · exact Or.inr ⟨List.mem_cons_of_mem _ ha, hb⟩
      · intro m hm
        rcases List.mem_cons.mp hm with rfl | hm
        · exact h1 _ hn
        · exact h5 m hm
    · have e : addNew (w, s) n = (n :: w, n :: s) := by simp [addNew, hn]
      rw [e]
      obtain ⟨h1, h2, h3, h4, h5⟩ := ih (n :: w) (n :: s)
      refine ⟨fun x hx => h1 x (List.mem_cons_of_mem _ hx), fun x hx => h2 x (List.mem_cons_of_mem _ hx), ?_, ?_, ?_⟩
      · intro x hx
        rcases h3 x hx with h | ⟨ha, hb⟩
        · rcases List.mem_cons.mp h with rfl | h
          · exact Or.inr ⟨List.mem_cons_self, h2 _ List.mem_cons_self⟩
          · exact Or.inl h
        · exact Or.inr ⟨List.mem_cons_of_mem _ ha, hb⟩
      · intro x hx
        rcases h4 x hx with h | ⟨ha, hb⟩
        · rcases List.mem_cons.mp h with rfl | h
          · exact Or.inr ⟨List.mem_cons_self, h1 _ List.mem_cons_self⟩
          · exact Or.inl h
        · exact Or.inr ⟨List.mem_cons_of_mem _ ha, hb⟩
      · intro m hm
        rcases List.mem_cons.mp hm with rfl | hm
        · exact h1 _ List.mem_cons_self
        · exact h5 m hm

/-- the loop invariant of the worklist closure started at `start` -/
structure Inv (succ : α → List α) (start : α) (work seen : List α) : Prop where
  sound : ∀ x, x ∈ seen → ReachPlus succ start x
  workKnown : ∀ x, x ∈ work → x = start ∨ x ∈ seen
  closed : ∀ x, (x = start ∨ x ∈ seen) → x ∉ work → ∀ y, y ∈ succ x → y ∈ seen

theorem Inv.init (succ : α → List α) (start : α) : Inv succ start [start] [] where
  sound := by intro x h; cases h
  workKnown := by intro x h; exact Or.inl (List.mem_singleton.mp h)
  closed := by
    intro x hx hnw
    rcases hx with rfl | h
    · exact absurd List.mem_cons_self hnw
    · cases h

theorem Inv.pop (succ : α → List α) (start : α) (work seen rest : List α) (cur : α)
    (inv : Inv succ start work seen) (hc : cur ∈ work) (hr : ∀ x, x ∈ rest ↔ (x ∈ work ∧ x ≠ cur)) :
    Inv succ start (expand succ cur rest seen).1 (expand succ cur rest seen).2 := by
  obtain ⟨h1, h2, h3, h4, h5⟩ := foldl_addNew (succ cur) rest seen
  have hcur : ∀ y, y ∈ succ cur → ReachPlus succ start y := by
    intro y hy
    rcases inv.workKnown cur hc with rfl | hs
    · exact ReachPlus.base y hy
    · exact ReachPlus.step cur y (inv.sound cur hs) hy
  refine ⟨?_, ?_, ?_⟩
  · intro x hx
    rcases h3 x hx with h | ⟨ha, _⟩
    · exact inv.sound x h
    · exact hcur x ha
  · intro x hx
    rcases h4 x hx with h | ⟨_, hb⟩
    · rcases inv.workKnown x ((hr x).mp h).1 with e | hs
      · exact Or.inl e
      · exact Or.inr (h1 x hs)
    · exact Or.inr hb
  · intro x hx hnw y hy
    by_cases hxc : x = cur
    · subst hxc; exact h5 y hy
    · have hnrest : x ∉ rest := fun h => hnw (h2 x h)
      have hnwork : x ∉ work := fun h => hnrest ((hr x).mpr ⟨h, hxc⟩)
      have hold : x = start ∨ x ∈ seen := by
        rcases hx with e | hs
        · exact Or.inl e
        · rcases h3 x hs with h | ⟨_, hb⟩
          · exact Or.inr h
          · exact absurd hb hnw
      exact h1 y (inv.closed x hold hnwork y hy)

theorem Inv.final (succ : α → List α) (start : α) (seen : List α) (inv : Inv succ start [] seen) :
    ∀ x, x ∈ seen ↔ ReachPlus succ start x := by
  intro x
  constructor
  · exact inv.sound x
  · intro h
    induction h with
    | base y hy => exact inv.closed start (Or.inl rfl) (by simp) y hy
    | step x y _ hy ih => exact inv.closed x (Or.inr ih) (by simp) y hy

theorem Runs.inv (succ : α → List α) (start : α) (work seen result : List α)
    (r : Runs succ work seen result) (inv : Inv succ start work seen) : Inv succ start [] result := by
  induction r with
  | done seen => exact inv
  | pop work seen rest result cur hc hr _ ih => exact ih (Inv.pop succ start work seen rest cur inv hc hr)

end closure

section table
variable {α β : Type} [DecidableEq α] [DecidableEq β]

theorem findSlot_map (probe : Nat → Nat → Nat) (f : α → β) (hf : ∀ a b, f a = f b → a = b) (h : Nat) (x : α)
    (slots : List (Option α)) : ∀ (fuel k : Nat),
    findSlot probe h (f x) (slots.map (Option.map f)) fuel k = findSlot probe h x slots fuel k := by
  intro fuel
  induction fuel with
  | zero => intro k; rfl
  | succ fuel ih =>
    intro k
    simp only [findSlot, List.length_map, List.getElem?_map]
    cases hs : slots[probe h k % slots.length]? with
    | none => rfl
    | some o =>
      cases o with
      | none => rfl
      | some y =>
        simp only [Option.map_some]
        by_cases hy : y = x
        · simp [hy]
        · have : f y ≠ f x := fun e => hy (hf _ _ e)
          simp [hy, this, ih]

theorem insert1_map (probe : Nat → Nat → Nat) (f : α → β) (hf : ∀ a b, f a = f b → a = b)
    (hash : α → Nat) (hash' : β → Nat) (hh : ∀ a, hash' (f a) = hash a) (slots : List (Option α)) (x : α) :
    insert1 probe hash' (slots.map (Option.map f)) (f x) = (insert1 probe hash slots x).map (Option.map f) := by
  simp only [insert1, hh, List.length_map, findSlot_map probe f hf]
  cases findSlot probe (hash x) x slots slots.length 0 with
  | some i => simp [List.map_set]
  | none =>
    have hm : (some (f x) ∈ slots.map (Option.map f)) ↔ (some x ∈ slots) := by
      constructor
      · intro h
        obtain ⟨o, ho, he⟩ := List.mem_map.mp h
        cases o with
        | none => cases he
        | some y =>
          simp only [Option.map_some, Option.some.injEq] at he
          rw [← hf _ _ he]; exact ho
      · intro h
        exact List.mem_map.mpr ⟨some x, h, rfl⟩
    by_cases hx : some x ∈ slots
    · simp [hx, hm.mpr hx]
    · have : ¬ some (f x) ∈ slots.map (Option.map f) := fun h => hx (hm.mp h)
      simp [hx, this]

theorem foldl_insert1_map (probe : Nat → Nat → Nat) (f : α → β) (hf : ∀ a b, f a = f b → a = b)
    (hash : α → Nat) (hash' : β → Nat) (hh : ∀ a, hash' (f a) = hash a) (xs : List α) :
    ∀ slots : List (Option α),
      (xs.map f).foldl (insert1 probe hash') (slots.map (Option.map f))
        = (xs.foldl (insert1 probe hash) slots).map (Option.map f) := by
  induction xs with
  | nil => intro slots; rfl
  | cons x xs ih =>
    intro slots
    simp only [List.map_cons, List.foldl_cons]
    rw [insert1_map probe f hf hash hash' hh, ih]

theorem filterMap_id_map (f : α → β) (l : List (Option α)) :
    (l.map (Option.map f)).filterMap id = (l.filterMap id).map f := by
  induction l with
  | nil => rfl
  | cons o l ih => cases o <;> simp [List.filterMap_cons, ih]

end table

section names
variable {β : Type}

theorem Name.rename_inj (f : Nat → Nat) (hf : ∀ a b, f a = f b → a = b) (a b : Name)
    (h : a.rename f = b.rename f) : a = b := by
  cases a <;> cases b <;> simp only [Name.rename] at h
  · rw [hf _ _ (Name.ph.inj h)]
  · cases h
  · cases h
  · exact h

theorem lookup_rename (f : Nat → Nat) (hf : ∀ a b, f a = f b → a = b) (n : Name) (env : List (Name × β)) :
    lookup (n.rename f) (renameEnv f env) = lookup n env := by
  induction env with
  | nil => rfl
  | cons p rest ih =>
    obtain ⟨k, v⟩ := p
    simp only [renameEnv, List.map_cons, lookup] at ih ⊢
    by_cases hk : k = n
    · simp [hk]
    · have : k.rename f ≠ n.rename f := fun e => hk (Name.rename_inj f hf _ _ e)
      simp only [hk, this, if_false]
      exact ih

end names

end FV.Wl
