/-
C01 — every generated tree is a derivation of the spec's grammar.

Property theorems only; helper lemmas are in `Proofs/Fuzz.lean`, `Proofs/IR.lean`, `Proofs/Prime.lean`,
`Proofs/PrimeGrammar.lean`, `Proofs/FuzzTerm.lean`, `Proofs/FuzzTermNeg.lean`, `Proofs/Evo.lean`.  The models
(`Model/IR.lean`: `Matches`, `Valid`, the checker `validB`; `Model/Fuzz.lean`: `expand` = `Node.fuzz`,
`replM` = `replace_multiple`, …; `Model/Prime.lean`: `primeLoop` = `Grammar.prime()`; `Model/FuzzT.lean`:
`expandF` = `expand` with "out of fuel" told apart from "not a run"; `Model/Evo.lean`: `crossover`, `mutate`,
`fixIndividual`) are tied to /repo by `harness/props/c01.py` (tape replay of `Grammar.fuzz`, operator-level
correspondence incl. the evolution-level operators, node-by-node comparison of `distance_to_completion` after
every real `prime()`, and every real tree judged by `validFast`).
Every `theorem` in this file is an obligation that the check audits with `#print axioms`.

What is proved, section by section.
 1–6  (as before) partial correctness of `expand` for every recursion bound, budget and tape; `replace_multiple`,
      whole-iteration repair, all operator sequences (`Reachable`), words of the language, the checker.
 7    `Grammar.prime()`, modelled line by line (worklist, update rule per node class, loop until empty; the
      values the constructors leave: terminals 1, `Star`/`Option` 0, else inf):
      * `C01_prime_terminates` — it returns within n(n+1)/2 loop iterations when every node is completable;
      * `C01_prime_returns_iff_completable` — and ONLY then: one node that cannot be completed (an unproductive
        symbol, even below `*`/`?` or unused) keeps the real loop spinning for ever
        (`C01_prime_hangs_on_unproductive_symbol`; finding /var/tmp/fixes/C01-prime-hangs-on-unproductive);
      * `C01_prime_values_by_update_rule` — every value it leaves is the update rule applied to an earlier look
        at the final state.  The requested "`C01_prime_is_least_fixpoint`" is FALSE of the code: the result is
        not even a fixpoint of the update rule and depends on the worklist order (`C01_prime_not_fixpoint`);
      * `C01_prime_wellDist` — what budgeted expansion needs of the distances (`WellDist`) does hold.
 8    termination of budgeted expansion, for primed (`primedB`) generator-free grammars:
      * `C01_expand_terminates_exhausted` — once the budget is exhausted (`max_nodes ≤ 1`) `Node.fuzz` returns
        for ALL tapes within `G.depthBound` levels, a function of the grammar alone (minimum-distance
        alternatives, `min` iterations; each step decreases `Term.mu`);
      * `C01_expand_terminates_partial` — for every budget the depth is at most (draws + 1) · depthBound.
        GAP to the full statement (`C01_expand_terminates_statement`: a bound in terms of grammar, `max_nodes`
        and caps for all tapes): it is FALSE of the code, `C01_expand_terminates_false` /
        `C01_expand_no_budget_bound` — `Repetition.fuzz` hands iterations beyond `min` more budget than it has
        (finding /var/tmp/fixes/C01-fuzz-budget-inflation).  Generators (`G.gens ≠ []`) are not covered.
 9    `SimpleSubtreeCrossover.crossover`, `SimpleMutation.mutate`, `PopulationManager.fix_individual` (with
      `Nop/ApplyAll/ApplyFirst/RepetitionBoundsSuggestion`, parser-based suggestions as given pairs) line by
      line: `C01_crossover_valid`, `C01_mutate_valid`, `C01_fix_valid`.  `C01_fix_valid` assumes each leaf
      suggestion sound (`Evo.SuggOk`): that a repetition edit keeps the parent's rule matched is section 3's
      business (whole iterations, count within bounds) and is not re-derived from the origin tags.

Scope notes.
* The gmutator branches (`terminal_should_repeat`, `plus_should_return_nothing`,
  `option_should_return_multiple`, `alternatives_should_concatenate`, `invert_regex`,
  `non_terminal_use_other_rule`) are 0.0 by default, deliberately leave the grammar and are excluded.
* An open-ended repetition (`*`, `+`, `{n,}`) draws its goal from `[min, nodes.MAX_REPETITIONS]`
  (`G.cap`, the global at the moment of the call); `Valid` treats open-ended as unbounded, so any
  count `≥ min` is inside the declared bounds whatever the cap was.
* Regular expressions are an oracle `R`; a tape is admissible (`TapeOk`) when each regex instance on it
  is accepted by `R` and each generator result is a derivation (what `Grammar.generate` gets from the
  parser: parser soundness is C04).
* Computed repetition counts (`{expr}`) are constraints (C02); here only the static bounds.
* `prime()` is modelled from the constructor state (`primeFresh`) for the theorems; the driver also runs it
  from arbitrary states (a second `prime()` starts from whatever the objects carry) for the correspondence.
-/
import Proofs.Fuzz
import Proofs.IRFast
import Proofs.PrimeGrammar
import Proofs.FuzzTerm
import Proofs.Evo
import Proofs.FuzzTermNeg
namespace FV

/-! ## 1. budgeted expansion (`Node.fuzz`) only produces derivations -/

/-- **`Node.fuzz`, every node class, every budget, every tape, every recursion bound**: the children
    appended to the parent spell out one expansion of the node (`Matches`: one alternative, the
    concatenation in order, a repetition count within `[min, max]`, the rule's symbol, a literal or an
    instance of the regex) and every one of them is a derivation of the grammar. -/
theorem C01_expand_valid (G : FGrammar) (R : RegexOracle) (fuel : Nat) (n : FNode) (path : List String)
    (inMsg : Bool) (b : Int) (tape tape' : Tape) (f : List Tree)
    (htape : TapeOk G.erase R tape) (h : expand G fuel n path inMsg b tape = some (f, tape')) :
    (∃ toks, toksOf f = some toks ∧ Matches R n.erase toks) ∧ ValidL G.erase R f := by
  obtain ⟨⟨w, hw, hm, hv⟩, _⟩ := expand_spec G R fuel n path inMsg b tape f tape' htape h
  exact ⟨⟨w, hw, hm⟩, hv⟩

/-- the repetition count actually produced lies within the declared bounds — also when the loop stops
    early because the body no longer fits the budget (`rep >= self.min`) -/
theorem C01_repetition_count_within_bounds (G : FGrammar) (R : RegexOracle) (fuel : Nat) (id : String)
    (kind : RepKind) (d : Nat) (n : FNode) (mn : Nat) (mx : Option Nat) (path : List String)
    (inMsg : Bool) (b : Int) (tape tape' : Tape) (f : List Tree)
    (htape : TapeOk G.erase R tape)
    (h : expand G fuel (.rep id kind d n mn mx) path inMsg b tape = some (f, tape')) :
    ∃ k toks, toksOf f = some toks ∧ inBounds mn mx k ∧ RepOf (fun v => Matches R n.erase v) k toks := by
  obtain ⟨⟨w, hw, hm⟩, _⟩ := C01_expand_valid G R fuel _ path inMsg b tape tape' f htape h
  simp only [FNode.erase, Matches] at hm
  obtain ⟨k, hk, hr⟩ := hm
  exact ⟨k, w, hw, hk, hr⟩

/-- **`Grammar.fuzz(start, max_nodes, prefix_node)`** returns a derivation tree of `start` -/
theorem C01_fuzz_valid (G : FGrammar) (R : RegexOracle) (fuel : Nat) (start : String) (path : List String)
    (b : Int) (tape tape' : Tape) (t : Tree) (htape : TapeOk G.erase R tape)
    (h : fuzzStart G fuel start path b tape = some (t, tape')) :
    Valid G.erase R t ∧ tokOf t = some (.ntk start) := by
  unfold fuzzStart at h
  split at h
  · rename_i t0 tp h0
    simp only [Option.some.injEq, Prod.mk.injEq] at h
    obtain ⟨rfl, rfl⟩ := h
    obtain ⟨⟨w, hw, hm⟩, hv⟩ := C01_expand_valid G R fuel _ path false b tape _ _ htape h0
    refine ⟨hv.1, ?_⟩
    simp only [FNode.erase, Matches] at hm
    subst hm
    simp only [toksOf] at hw
    cases ht : tokOf t0 with
    | none => simp [ht] at hw
    | some x => simpa [ht] using hw
  · simp at h

/-! ## 2. subtree replacement (`replace_multiple`: crossover, mutation, repair) -/

/-- **`replace_multiple` keeps derivations**: if the individual and every replacement tree are
    derivations, so is the result — for every set of (path ↦ replacement) pairs, nested ones included.
    The symbol test is what the proof uses: a replaced node keeps its symbol, hence its parent's
    children still spell out the same expansion. -/
theorem C01_replace_valid (G : Grammar) (R : RegexOracle) (repl : List (List Nat × ATree)) (fuel : Nat)
    (cur : List Nat) (t t' : ATree) (hrepl : ∀ e ∈ repl, AValid G R e.2) (ht : AValid G R t)
    (h : replM repl fuel cur t = some t') : AValid G R t' ∧ t'.sym = t.sym := by
  obtain ⟨hs, hv⟩ := (replM_valid hrepl fuel).1 cur t t' ht h
  exact ⟨hv, hs⟩

/-- a key whose replacement carries a *different symbol* is not applied: the node keeps all its fields
    (only its children are walked) -/
theorem C01_replace_other_symbol_identity (repl : List (List Nat × ATree)) (fuel : Nat) (cur : List Nat)
    (s : Sym) (a r : Option String) (ro : Bool) (o : List Tag) (ks : List ATree) (t' : ATree)
    (hsym : ∀ x, lookupRepl repl cur = some x → x.sym ≠ s)
    (h : replM repl (fuel + 1) cur (.mk s a r ro o ks) = some t') :
    ∃ ks', replL repl fuel cur 0 ks = some ks' ∧ t' = .mk s a r ro o ks' :=
  replM_refuses (fun x hx hc => hsym x hx hc.1.symm) h

/-- a *read-only* node is never replaced -/
theorem C01_replace_refuses_read_only (repl : List (List Nat × ATree)) (fuel : Nat) (cur : List Nat)
    (s : Sym) (a r : Option String) (o : List Tag) (ks : List ATree) (t' : ATree)
    (h : replM repl (fuel + 1) cur (.mk s a r true o ks) = some t') :
    ∃ ks', replL repl fuel cur 0 ks = some ks' ∧ t' = .mk s a r true o ks' :=
  replM_refuses (fun _ _ hc => by simp at hc) h

/-- without replacements the walk returns the tree unchanged -/
theorem C01_replace_nothing_identity (fuel : Nat) (cur : List Nat) (t t' : ATree)
    (h : replM [] fuel cur t = some t') : t' = t :=
  (replM_nil fuel).1 cur t t' h

/-- selecting a subtree of a derivation (a crossover point, a mutation point) gives a derivation -/
theorem C01_subtree_valid (G : Grammar) (R : RegexOracle) (t u : ATree) (p : List Nat)
    (ht : AValid G R t) (h : t.subAt p = some u) : AValid G R u :=
  subAt_valid p t u ht h

/-! ## 3. repetition repair: whole iterations are removed / added -/

/-- **deleting whole iterations**: the children of a rule `… P{mn,mx} …` were `w1 ++ (u ++ x ++ v) ++ w2`
    with `u`, `x`, `v` being `a`, `d`, `b` iterations of the body; without the `d` iterations in `x`
    the children still spell out one expansion of the rule, provided the new count `a + b` stays
    within the bounds -/
theorem C01_delete_iterations_valid (R : RegexOracle) (cid id : String) (kind : RepKind) (n : Node)
    (mn : Nat) (mx : Option Nat) (ns1 ns2 : List Node) (w1 w2 u x v : List Tok) (a d b : Nat)
    (h1 : MatchesCat R ns1 w1) (h2 : MatchesCat R ns2 w2)
    (hu : RepOf (fun z => Matches R n z) a u) (_hx : RepOf (fun z => Matches R n z) d x)
    (hv : RepOf (fun z => Matches R n z) b v) (hb : inBounds mn mx (a + b)) :
    Matches R (.cat cid (ns1 ++ .rep id kind n mn mx :: ns2)) (w1 ++ (u ++ v) ++ w2) := by
  simp only [Matches]
  refine matchesCat_middle h1 ?_ h2
  simp only [Matches]
  exact ⟨a + b, hb, repOf_append hu hv⟩

/-- **inserting whole iterations** after the `a`-th one -/
theorem C01_insert_iterations_valid (R : RegexOracle) (cid id : String) (kind : RepKind) (n : Node)
    (mn : Nat) (mx : Option Nat) (ns1 ns2 : List Node) (w1 w2 u x v : List Tok) (a d b : Nat)
    (h1 : MatchesCat R ns1 w1) (h2 : MatchesCat R ns2 w2)
    (hu : RepOf (fun z => Matches R n z) a u) (hx : RepOf (fun z => Matches R n z) d x)
    (hv : RepOf (fun z => Matches R n z) b v) (hb : inBounds mn mx (a + d + b)) :
    Matches R (.cat cid (ns1 ++ .rep id kind n mn mx :: ns2)) (w1 ++ (u ++ x ++ v) ++ w2) := by
  simp only [Matches]
  refine matchesCat_middle h1 ?_ h2
  simp only [Matches]
  exact ⟨a + d + b, hb, repOf_append (repOf_append hu hx) hv⟩

/-- the iterations of a repetition can be told apart: `k = a + d + b` iterations split into blocks -/
theorem C01_iterations_split (P : List Tok → Prop) (a d b : Nat) (w : List Tok)
    (h : RepOf P (a + d + b) w) :
    ∃ u x v, w = u ++ x ++ v ∧ RepOf P a u ∧ RepOf P d x ∧ RepOf P b v := by
  obtain ⟨ux, v, rfl, hux, hv⟩ := repOf_split (a + d) b h
  obtain ⟨u, x, rfl, hu, hx⟩ := repOf_split a d hux
  exact ⟨u, x, v, rfl, hu, hx, hv⟩

/-- the new iterations `_insert_repetitions` fuzzes (`override_iterations_to_perform`: exactly `nr`
    iterations, no early stop) are `nr` iterations of the body, each a derivation -/
theorem C01_insert_fuzz_valid (G : FGrammar) (R : RegexOracle) (fuel : Nat) (n : FNode) (mn d : Nat)
    (path : List String) (startRep nr : Nat) (tape tape' : Tape) (f : List Tree)
    (htape : TapeOk G.erase R tape)
    (h : insertFuzz G fuel n mn d path startRep nr tape = some (f, tape')) :
    (∃ toks, toksOf f = some toks ∧ RepOf (fun v => Matches R n.erase v) nr toks) ∧ ValidL G.erase R f := by
  unfold insertFuzz at h
  split at h
  · obtain ⟨⟨k, w, hw, hr, _, _, hovr, hv⟩, _⟩ :=
      expandRep_spec (expand_spec G R fuel) n mn true path false nr startRep _ _ _ _ _ (tapeOk_tail htape) h
    -- with the override flag the early stop is off: the count is exactly `nr`
    have hk' : k = nr := hovr rfl
    subst hk'
    exact ⟨⟨w, hw, hr⟩, hv⟩
  · simp at h

/-! ## 4. hence every emitted string / byte string / bit string is a word of the language -/

/-- the value of a derivation tree of `s` is in the language of `s` -/
theorem C01_valid_word_in_lang (G : Grammar) (R : RegexOracle) (s : String) (a r : Option String)
    (kids : List Tree) (v : TV) (hv : Valid G R (.mk (.nt s) a r kids))
    (hval : (Tree.mk (.nt s) a r kids).value = .ok v) : Lang G R s v :=
  ⟨a, r, kids, hv, hval⟩

/-- what `Grammar.fuzz` emits is a word of the language of the start symbol -/
theorem C01_fuzz_word_in_lang (G : FGrammar) (R : RegexOracle) (fuel : Nat) (start : String)
    (path : List String) (b : Int) (tape tape' : Tape) (t : Tree) (v : TV)
    (htape : TapeOk G.erase R tape) (h : fuzzStart G fuel start path b tape = some (t, tape'))
    (hval : t.value = .ok v) : Lang G.erase R start v := by
  obtain ⟨hv, htok⟩ := C01_fuzz_valid G R fuel start path b tape tape' t htape h
  cases t with
  | mk s a r kids =>
    cases s with
    | nt n =>
      simp only [tokOf, Option.some.injEq, Tok.ntk.injEq] at htok
      subst htok
      exact ⟨a, r, kids, hv, hval⟩
    | term l => simp [tokOf] at htok
    | slice => simp [tokOf] at htok

/-- **the checker the harness runs on every real tree decides `Valid`** (`validFast`: derivatives kept
    in normal form so that nested repetitions over long child sequences stay cheap) -/
theorem C01_checker_decides_valid (G : Grammar) (R : RegexOracle) (t : Tree) :
    validFast G R t = true ↔ Valid G R t :=
  validFast_iff G R t

/-- … and agrees with the shared checker `validB` of the E2 core -/
theorem C01_checker_agrees_with_validB (G : Grammar) (R : RegexOracle) (t : Tree) :
    validFast G R t = validB G R t := by
  have h1 := validFast_iff G R t
  have h2 := validB_iff G R t
  cases ha : validFast G R t <;> cases hb : validB G R t <;> simp_all

/-! ## 5. all sequences of search operators -/

/-- populations reachable by the search: every constructor is one operator application.
    `fuzz` = initial population / refill / the new subtree of a mutation (`Grammar.fuzz`);
    `parsed` = a tree the parser delivered (initial population strings, equality repair
    `grammar.parse(value, start=symbol)`; its soundness is C04);
    `subtree` = picking a crossover / mutation / repair point;
    `replace` = `replace_multiple` with replacement trees taken from the population (crossover: a subtree
    of the other parent; mutation: the fuzzed subtree; repair: the parsed / re-counted subtree);
    `dropIters` / `addIters` = `_delete_repetitions` / `_insert_repetitions` building the copy of the
    parent whose child sequence still spells out the rule (section 3 gives this for counts within bounds);
    `relabel` = bookkeeping that leaves the structure alone (`set_all_read_only`, origin tags, deepcopy);
    `select` = selection, truncation, deduplication, destruction. -/
inductive Reachable (G : FGrammar) (R : RegexOracle) : List ATree → Prop
  | init : Reachable G R []
  | fuzz {pop : List ATree} {fuel : Nat} {start : String} {path : List String} {b : Int}
      {tape tape' : Tape} {t : Tree} :
      Reachable G R pop → TapeOk G.erase R tape → fuzzStart G fuel start path b tape = some (t, tape') →
      Reachable G R (ATree.ofTree t :: pop)
  | parsed {pop : List ATree} {t : ATree} :
      Reachable G R pop → AValid G.erase R t → Reachable G R (t :: pop)
  | subtree {pop : List ATree} {t u : ATree} {p : List Nat} :
      Reachable G R pop → t ∈ pop → t.subAt p = some u → Reachable G R (u :: pop)
  | replace {pop : List ATree} {t t' : ATree} {repl : List (List Nat × ATree)} {fuel : Nat} {cur : List Nat} :
      Reachable G R pop → t ∈ pop → (∀ e ∈ repl, e.2 ∈ pop) → replM repl fuel cur t = some t' →
      Reachable G R (t' :: pop)
  | dropIters {pop : List ATree} {s : String} {a r : Option String} {ro : Bool} {o : List Tag}
      {u x v : List ATree} {body : Node} {toks : List Tok} :
      Reachable G R pop → ATree.mk (.nt s) a r ro o (u ++ x ++ v) ∈ pop → G.erase.rule s = some body →
      toksOf (ATree.eraseL (u ++ v)) = some toks → Matches R body toks →
      Reachable G R (ATree.mk (.nt s) a r ro o (u ++ v) :: pop)
  | addIters {pop : List ATree} {s : String} {a r : Option String} {ro : Bool} {o : List Tag}
      {u v : List ATree} {body : Node} {toks : List Tok} {fuel : Nat} {n : FNode} {mn d : Nat}
      {path : List String} {startRep nr : Nat} {tape tape' : Tape} {f : List Tree} :
      Reachable G R pop → ATree.mk (.nt s) a r ro o (u ++ v) ∈ pop → G.erase.rule s = some body →
      TapeOk G.erase R tape → insertFuzz G fuel n mn d path startRep nr tape = some (f, tape') →
      toksOf (ATree.eraseL (u ++ ATree.ofTreeL f ++ v)) = some toks → Matches R body toks →
      Reachable G R (ATree.mk (.nt s) a r ro o (u ++ ATree.ofTreeL f ++ v) :: pop)
  | relabel {pop : List ATree} {t t' : ATree} :
      Reachable G R pop → t ∈ pop → t'.erase = t.erase → Reachable G R (t' :: pop)
  | select {pop pop' : List ATree} :
      Reachable G R pop → (∀ t ∈ pop', t ∈ pop) → Reachable G R pop'

/-- **every tree of every reachable population is a derivation** (induction over operator sequences) -/
theorem C01_reachable_valid (G : FGrammar) (R : RegexOracle) (pop : List ATree)
    (h : Reachable G R pop) : ∀ t ∈ pop, AValid G.erase R t := by
  induction h with
  | init => intro t ht; simp at ht
  | fuzz _ htape hf ih =>
    intro t ht
    rcases List.mem_cons.1 ht with rfl | ht
    · unfold AValid
      rw [erase_ofTree]
      exact (C01_fuzz_valid G R _ _ _ _ _ _ _ htape hf).1
    · exact ih t ht
  | parsed _ hv ih =>
    intro t ht
    rcases List.mem_cons.1 ht with rfl | ht
    · exact hv
    · exact ih t ht
  | subtree _ hm hs ih =>
    intro t ht
    rcases List.mem_cons.1 ht with rfl | ht
    · exact subAt_valid _ _ _ (ih _ hm) hs
    · exact ih t ht
  | replace _ hm hr hrep ih =>
    intro t ht
    rcases List.mem_cons.1 ht with rfl | ht
    · exact (C01_replace_valid G.erase R _ _ _ _ _ (fun e he => ih _ (hr e he)) (ih _ hm) hrep).1
    · exact ih t ht
  | dropIters _ hm hb htk hmatch ih =>
    intro t ht
    rcases List.mem_cons.1 ht with rfl | ht
    · have hold := ih _ hm
      unfold AValid at hold ⊢
      simp only [ATree.erase, Valid] at hold ⊢
      refine ⟨⟨_, _, hb, htk, hmatch⟩, ?_⟩
      have hl := hold.2
      rw [eraseL_append, eraseL_append] at hl
      rw [eraseL_append]
      have h1 := validL_append_inv hl
      have h2 := validL_append_inv h1.1
      exact validL_append h2.1 h1.2
    · exact ih t ht
  | addIters _ hm hb htape hins htk hmatch ih =>
    intro t ht
    rcases List.mem_cons.1 ht with rfl | ht
    · have hold := ih _ hm
      have hnew := (C01_insert_fuzz_valid G R _ _ _ _ _ _ _ _ _ _ htape hins).2
      unfold AValid at hold ⊢
      simp only [ATree.erase, Valid] at hold ⊢
      refine ⟨⟨_, _, hb, htk, hmatch⟩, ?_⟩
      have hl := hold.2
      rw [eraseL_append] at hl
      rw [eraseL_append, eraseL_append, erase_ofTree.eraseL_ofTreeL]
      have h1 := validL_append_inv hl
      exact validL_append (validL_append h1.1 hnew) h1.2
    · exact ih t ht
  | relabel _ hm he ih =>
    intro t ht
    rcases List.mem_cons.1 ht with rfl | ht
    · unfold AValid; rw [he]; exact ih _ hm
    · exact ih t ht
  | select _ hsub ih =>
    intro t ht
    exact ih t (hsub t ht)

/-! ## 6. non-vacuity: concrete states meeting the hypotheses above -/

/-- `<start> ::= <a>{1,3} "x"?` ; `<a> ::= "a" | r"[0-9]"` (regex #0), with the distances `prime()` computes -/
def exG : FGrammar :=
  { rules := [
      ("<start>", .cat "c1" 6 [.rep "r1" .braces 4 (.nt "<a>" none none 3) 1 (some 3),
                               .rep "o1" .opt 1 (.term (.lit (.text [120])) 1 0) 0 (some 1)]),
      ("<a>", .alt "a1" 2 [.term (.lit (.text [97])) 1 1, .term (.regex 0) 1 2])],
    gens := [], cap := 20 }

def exR : RegexOracle := fun id l => id == 0 && decide (l = .text [55])

def exTape : Tape := [.rep 2, .alt 0, .alt 1, .regex 0 (.text [55]), .rep 1]

/-- `<start>(<a>("a"), <a>("7"), "x")` -/
def exTree : Tree :=
  .node "<start>" [.node "<a>" [.leaf (.text [97])], .node "<a>" [.leaf (.text [55])], .leaf (.text [120])]

theorem C01_exTape_ok : TapeOk exG.erase exR exTape := by
  intro c hc
  simp only [exTape, List.mem_cons, List.not_mem_nil, or_false] at hc
  rcases hc with rfl | rfl | rfl | rfl | rfl <;> simp [ChoiceOk, exR]

/-- `C01_expand_valid` / `C01_fuzz_valid` are not vacuous: budget 20, two iterations, both alternatives,
    a regex instance, the option taken -/
example : fuzzStart exG 6 "<start>" ["<start>"] 20 exTape = some (exTree, []) := by rfl
example : Valid exG.erase exR exTree :=
  (C01_fuzz_valid exG exR 6 "<start>" ["<start>"] 20 exTape [] exTree C01_exTape_ok (by rfl)).1
example : validB exG.erase exR exTree = true := by decide

/-- early stop: budget 4, goal 3 — the loop stops after one iteration (`rep >= self.min`), the option
    (goal 1) produces nothing; the count 1 is within `{1,3}` -/
example : fuzzStart exG 6 "<start>" ["<start>"] 4 [.rep 3, .alt 0, .rep 1]
    = some (.node "<start>" [.node "<a>" [.leaf (.text [97])]], []) := by rfl

/-- a goal outside `[min, max]` is not a run of the code (`randint` cannot return it) -/
example : fuzzStart exG 6 "<start>" ["<start>"] 20 [.rep 4, .alt 0] = none := by rfl

def exA : ATree := ATree.ofTree exTree
def exNewA : ATree := .mk (.nt "<a>") none none false [] [.mk (.term (.text [97])) none none false [] []]
def exNewStart : ATree := .mk (.nt "<start>") none none false [] []

/-- `C01_replace_valid`: replacing the second `<a>` by another `<a>` -/
example : (replM [([1], exNewA)] 10 [] exA).map ATree.erase
    = some (.node "<start>" [.node "<a>" [.leaf (.text [97])], .node "<a>" [.leaf (.text [97])], .leaf (.text [120])]) := by
  rfl
example : AValid exG.erase exR exA ∧ AValid exG.erase exR exNewA :=
  ⟨(validB_iff _ _ _).1 (by decide), (validB_iff _ _ _).1 (by decide)⟩

/-- `C01_replace_other_symbol_identity`: a `<start>` tree offered for an `<a>` node is not applied -/
example : (replM [([1], exNewStart)] 10 [] exA).map ATree.erase = some exTree := by rfl

/-- `C01_replace_refuses_read_only`: the same replacement on a read-only copy of the tree -/
def exRO : ATree :=
  .mk (.nt "<start>") none none true []
    [.mk (.nt "<a>") none none true [] [.mk (.term (.text [97])) none none true [] []],
     .mk (.nt "<a>") none none true [] [.mk (.term (.text [55])) none none true [] []],
     .mk (.term (.text [120])) none none true [] []]
example : (replM [([1], exNewA)] 10 [] exRO).map ATree.erase = some exTree := by rfl

/-- `C01_delete_iterations_valid`: `<a> <a> <a> "x"` → `<a> "x"` (3 → 1 iterations, bounds {1,3}) -/
example : Matches exR (.cat "c1" ([] ++ .rep "r1" .braces (.nt "<a>" none none) 1 (some 3) ::
      [.rep "o1" .opt (.term (.lit (.text [120]))) 0 (some 1)]))
    ([] ++ ([.ntk "<a>"] ++ []) ++ [.leaf (.text [120])]) :=
  C01_delete_iterations_valid exR "c1" "r1" .braces (.nt "<a>" none none) 1 (some 3) []
    [.rep "o1" .opt (.term (.lit (.text [120]))) 0 (some 1)] [] [.leaf (.text [120])]
    [.ntk "<a>"] [.ntk "<a>", .ntk "<a>"] [] 1 2 0
    rfl ((matchIR_iff exR _ (.cat "" [.rep "o1" .opt (.term (.lit (.text [120]))) 0 (some 1)])).1 (by decide))
    (repOf_one rfl) ⟨[.ntk "<a>"], [.ntk "<a>"], rfl, rfl, repOf_one rfl⟩ rfl
    ⟨by decide, fun m hm => by cases hm; decide⟩

/-- `C01_reachable_valid`: fuzz, pick a subtree, replace -/
example : Reachable exG exR [ATree.ofTree exTree] :=
  .fuzz (fuel := 6) (start := "<start>") (path := ["<start>"]) (b := 20) (tape' := []) .init C01_exTape_ok (by rfl)

/-! ## 7. `Grammar.prime()`: the distances budgeted expansion steers by -/

/-- the statement asked for: "the computed values are the least fixpoint of the update rule".
    `ruleVal (kindAt G) s p = s p` at every non-terminal node would be the fixpoint part; it fails on `exP`
    (`C01_prime_not_fixpoint`), so what is proved instead is `C01_prime_values_by_update_rule`. -/
def C01_prime_is_fixpoint_statement : Prop :=
  ∀ (G : Grammar) (fuel : Nat) (s : Pos → Dist), G.repWF = true → primeFresh G fuel = .done s →
    ∀ p, kindAt G p ≠ .term → ruleVal (kindAt G) s p = s p

/-- **`prime()` returns, after at most `n (n+1) / 2` iterations of its `while` loop** (`n` = number of
    non-terminal grammar nodes), when every node is completable (`Prime.Comp`: a terminal; a symbol whose
    rule is available; an alternative with an available branch; a concatenation / repetition whose parts
    are available — where `Star` / `Option` nodes count as available from the start, because they are
    born with the distance 0.0) -/
theorem C01_prime_terminates (G : Grammar) (hwf : G.repWF = true)
    (hall : ∀ p ∈ worklist G, Prime.Comp (kindAt G) (fun c => initAt G c ≠ none) p) :
    ∃ s, primeFresh G (primeBound (worklist G).length) = .done s :=
  Prime.loop_terminates _ _ _ rfl (Prime.fresh_grammar G hwf).inv hall

/-- **… and only then**: while one node cannot be completed the loop never ends (it re-appends the node
    for ever) — whatever the iteration bound, `prime()` has not returned.  NB this includes nodes the
    start symbol does not need: an unproductive symbol below `*` / `?`, an unused rule. -/
theorem C01_prime_returns_iff_completable (G : Grammar) (hwf : G.repWF = true) :
    (∃ fuel s, primeFresh G fuel = .done s) ↔
      ∀ p ∈ worklist G, Prime.Comp (kindAt G) (fun c => initAt G c ≠ none) p := by
  constructor
  · rintro ⟨fuel, s, h⟩ p hp
    apply Classical.byContradiction
    intro hnc
    exact Prime.loop_never_done ((Prime.fresh_grammar G hwf).nterm p hp) hnc fuel _ _
      (Prime.sound_init _ _) hp s h
  · intro hall
    obtain ⟨s, hs⟩ := C01_prime_terminates G hwf hall
    exact ⟨_, s, hs⟩

/-- **the values `prime()` leaves behind**: terminals 1; every other node carries a finite value `d`,
    and `d` is the update rule of its class (`ruleVal`: rule + 1, min + 1, sum + 1, body · min + 1) applied
    to an *earlier look* `v` at the final state `s` — each entry of `v` is the final one, or still `inf`,
    or the 0.0 a `Star` / `Option` is born with.  (It is NOT a fixpoint of the rule in general:
    `C01_prime_not_fixpoint`.) -/
theorem C01_prime_values_by_update_rule (G : Grammar) (hwf : G.repWF = true) (fuel : Nat) (s : Pos → Dist)
    (h : primeFresh G fuel = .done s) :
    (∀ p, kindAt G p = .term → s p = some 1) ∧
    ∀ p, kindAt G p ≠ .term →
      ∃ v d, Prime.View (kindAt G) v s ∧ ruleVal (kindAt G) v p = some d ∧ s p = some d := by
  have hinv := Prime.loop_inv _ _ _ _ (Prime.fresh_grammar G hwf).inv h
  exact ⟨hinv.term, fun p hp => hinv.fin p hp (by simp)⟩

/-- **what budgeted expansion needs of the distances holds of `prime()`'s output** (`WellDist`: from a
    symbol to its rule the distance drops strictly — unless the rule is a `min = 0` repetition —, from a
    concatenation / repetition to its parts and from an alternative to its minimum-distance branches it
    does not grow).  `primedB G`: the annotations of `G` are exactly what `prime()` computes on freshly
    constructed nodes — evaluated by the harness on every real grammar. -/
theorem C01_prime_wellDist (G : FGrammar) (h : primedB G = true) : WellDist G :=
  Prime.wellDist_of_primed G h

/-- `<start> ::= <a>` ; `<a> ::= <b>*` ; `<b> ::= <a> "x"` -/
def exP : Grammar :=
  { rules := [("<start>", .nt "<a>" none none),
              ("<a>", .rep "s" .star (.nt "<b>" none none) 0 none),
              ("<b>", .cat "c" [.nt "<a>" none none, .term (.lit (.text [120]))])] }

def doneState : PRes Pos → Pos → Dist
  | .done s => s
  | _ => fun _ => none

/-- **the result is not a fixpoint of the update rule and depends on the worklist order**: the symbol
    node `<a>` in `<start>`'s rule is evaluated while the `Star` it refers to still carries its initial
    0.0, and is never looked at again: it ends with 1, its rule with 1 (the rule says rule + 1 = 2).
    The real `prime()` leaves exactly these values (correspondence case `prime:corpus`). -/
theorem C01_prime_not_fixpoint :
    primeFresh exP 10 = .done (doneState (primeFresh exP 10)) ∧
    doneState (primeFresh exP 10) (0, []) = some 1 ∧ doneState (primeFresh exP 10) (1, []) = some 1 ∧
    ruleVal (kindAt exP) (doneState (primeFresh exP 10)) (0, []) = some 2 := by
  refine ⟨by rfl, by rfl, by rfl, by rfl⟩

theorem C01_prime_is_fixpoint_false : ¬ C01_prime_is_fixpoint_statement := by
  intro h
  have := h exP 10 _ (by rfl) C01_prime_not_fixpoint.1 (0, []) (by rw [show kindAt exP (0, []) = .nt (some (1, [])) from rfl]; simp)
  rw [C01_prime_not_fixpoint.2.2.2, C01_prime_not_fixpoint.2.1] at this
  cases this

/-- `<start> ::= "a" <b>*` ; `<b> ::= <b> "x"` — the language is `{"a"}`, `<start>` is productive -/
def exH : Grammar :=
  { rules := [("<start>", .cat "c0" [.term (.lit (.text [97])), .rep "s" .star (.nt "<b>" none none) 0 none]),
              ("<b>", .cat "c1" [.nt "<b>" none none, .term (.lit (.text [120]))])] }

/-- **`prime()` never returns on `exH`** (the real one does not either: it is called while the spec is
    loaded; see /var/tmp/fixes/C01-prime-hangs-on-unproductive) -/
theorem C01_prime_hangs_on_unproductive_symbol (fuel : Nat) (s : Pos → Dist) : primeFresh exH fuel ≠ .done s := by
  have hk1 : kindAt exH (1, [0]) = .nt (some (1, [])) := by rfl
  have hk2 : kindAt exH (1, []) = .cat [(1, [0]), (1, [1])] := by rfl
  have hz1 : ¬ (initAt exH (1, [0]) ≠ none) := by simp [show initAt exH (1, [0]) = none from rfl]
  have hz2 : ¬ (initAt exH (1, []) ≠ none) := by simp [show initAt exH (1, []) = none from rfl]
  have key : ∀ a, Prime.Comp (kindAt exH) (fun c => initAt exH c ≠ none) a → a ≠ (1, [0]) ∧ a ≠ (1, []) := by
    intro a h
    induction h with
    | term hk => constructor <;> (rintro rfl; simp [hk1, hk2] at hk)
    | nt hk _ ih =>
      constructor
      · rintro rfl
        rw [hk1] at hk
        cases hk
        exact (ih hz2).2 rfl
      · rintro rfl; rw [hk2] at hk; cases hk
    | alt hk _ _ _ => constructor <;> (rintro rfl; simp [hk1, hk2] at hk)
    | cat hk _ ih =>
      constructor
      · rintro rfl; rw [hk1] at hk; cases hk
      · rintro rfl
        rw [hk2] at hk
        cases hk
        exact (ih (1, [0]) (by simp) hz1).1 rfl
    | rep hk _ _ => constructor <;> (rintro rfl; simp [hk1, hk2] at hk)
  have hnc : ¬ Prime.Comp (kindAt exH) (fun c => initAt exH c ≠ none) (1, [0]) := fun h => (key _ h).1 rfl
  exact Prime.loop_never_done (by rw [hk1]; simp) hnc fuel _ _ (Prime.sound_init _ _) (by decide) s

/-! ## 8. termination of budgeted expansion -/

/-- `expandF` / `fuzzStartF` (`Model/FuzzT.lean`) are `expand` / `fuzzStart` with the reason for "no
    result" kept apart: `stuck` (the tape is not a run of the code) vs. `fuel` (recursion bound hit) -/
theorem C01_expandF_refines_expand (G : FGrammar) (fuel : Nat) (start : String) (path : List String) (b : Int)
    (tape : Tape) : (fuzzStartF G fuel start path b tape).toOption = fuzzStart G fuel start path b tape :=
  Term.fuzzStartF_toOption G fuel start path b tape

/-- **once the budget is exhausted `Node.fuzz` returns, for ALL tapes, within a recursion depth that
    depends on the grammar alone** (`G.depthBound` = width · (largest distance + 1)): with `max_nodes ≤ 1`
    every alternative is chosen by minimum distance, every repetition makes `min` iterations, and each
    step strictly decreases `Term.mu` (distance · width + node size).  Primed, generator-free grammars. -/
theorem C01_expand_terminates_exhausted (G : FGrammar) (hp : primedB G = true) (hg : G.gens = [])
    (fuel : Nat) (start : String) (path : List String) (b : Int) (hb : b ≤ 1) (tape : Tape)
    (hf : G.depthBound + 2 ≤ fuel) : fuzzStartF G fuel start path b tape ≠ .fuel := by
  apply Term.fuzzStartF_no_fuel G (C01_prime_wellDist G hp) hg
  simp only [hb, if_true]
  omega

/-- **with budget left, the recursion depth is bounded by the number of random draws**: `Node.fuzz`
    never descends more than `G.depthBound` levels without drawing (`random.choice` in `Alternative`,
    `random.randint` in `Repetition`), so a run that makes `k` draws stays within
    `(k + 1) · depthBound + 2` levels — for ALL budgets and tapes.  A bound in terms of the budget alone
    does not exist (section 8b). -/
theorem C01_expand_terminates_partial (G : FGrammar) (hp : primedB G = true) (hg : G.gens = [])
    (fuel : Nat) (start : String) (path : List String) (b : Int) (tape : Tape)
    (hf : G.fuelFor tape ≤ fuel) : fuzzStartF G fuel start path b tape ≠ .fuel := by
  apply Term.fuzzStartF_no_fuel G (C01_prime_wellDist G hp) hg
  unfold FGrammar.fuelFor at hf
  have e : (tape.length + 1) * G.depthBound = tape.length * G.depthBound + G.depthBound := Nat.succ_mul _ _
  have : (if b ≤ 1 then 0 else tape.length) * G.depthBound ≤ tape.length * G.depthBound :=
    Nat.mul_le_mul_right _ (by split <;> omega)
  omega

/-! ## 8b. … and no bound in terms of the budget alone exists -/

/-- the statement at full strength: for a primed generator-free grammar, a start symbol and a budget
    there is a recursion bound that no tape exceeds (`Node.fuzz` returns whatever the random source does) -/
def C01_expand_terminates_statement : Prop :=
  ∀ (G : FGrammar), primedB G = true → G.gens = [] → ∀ (start : String) (b : Int),
    ∃ F, ∀ (path : List String) (tape : Tape) (fuel : Nat), F ≤ fuel → fuzzStartF G fuel start path b tape ≠ .fuel

/-- **it is false of the code as it is**: on `<start> ::= <a>` ; `<a> ::= ("(" <a> ")")*` (`Neg.exN`, with the
    distances the real `prime()` computes) and `max_nodes = 50`, the draws `Neg.spine F` — `randint → 2`, in the
    first iteration the inner `randint → 0`, in the second the same again — drive the recursion below ANY bound
    `F`: `Repetition.fuzz` gives the iterations beyond `min` more budget than it has (`reserved_max_nodes` goes
    negative), so the `Star` three levels further down is called with the same budget 48 again.
    Replayed on the real `Grammar.fuzz` with scripted draws: /var/tmp/fixes/C01-fuzz-budget-inflation. -/
theorem C01_expand_no_budget_bound (F : Nat) :
    fuzzStartF Neg.exN F "<start>" ["<start>"] 50 (Neg.spine F) = .fuel :=
  Neg.fuzz_spine_fuel F

theorem C01_expand_terminates_false : ¬ C01_expand_terminates_statement := by
  intro h
  obtain ⟨F, hF⟩ := h Neg.exN (by rfl) rfl "<start>" 50
  exact hF ["<start>"] (Neg.spine F) F (Nat.le_refl _) (C01_expand_no_budget_bound F)

/-! ## 9. the evolution-level operators, line by line (`Model/Evo.lean`) -/

/-- **`SimpleSubtreeCrossover.crossover`**: both children are derivations with their parent's root symbol —
    for every pair of valid parents and every choice of the common symbol and of the two nodes.
    (The model is functional: the parents are arguments and cannot change; that the real operator leaves
    its inputs alone is checked by the correspondence `crossover_mutates_input`.) -/
theorem C01_crossover_valid (G : Grammar) (R : RegexOracle) (fuel : Nat) (p1 p2 c1 c2 : ATree) (sym : String)
    (k1 k2 : Nat) (h1 : AValid G R p1) (h2 : AValid G R p2) (h : crossover fuel p1 p2 sym k1 k2 = .ok c1 c2) :
    (AValid G R c1 ∧ c1.sym = p1.sym) ∧ (AValid G R c2 ∧ c2.sym = p2.sym) :=
  Evo.crossover_valid G R fuel p1 p2 c1 c2 sym k1 k2 h1 h2 h

/-- **`SimpleMutation.mutate`**: the mutated individual is a derivation with the same root symbol — for
    every set of failing trees, both index draws, every budget and every admissible tape of the `fuzz` call -/
theorem C01_mutate_valid (G : FGrammar) (R : RegexOracle) (fuelF fuelR : Nat) (ind m : ATree)
    (failing : List (List Nat)) (maxNodes : Int) (i j : Nat) (tape rest : Tape)
    (hv : AValid G.erase R ind) (htape : TapeOk G.erase R tape)
    (h : mutate G fuelF fuelR ind failing maxNodes i j tape = .ok m rest) :
    AValid G.erase R m ∧ m.sym = ind.sym :=
  let r := Evo.mutate_valid G R fuelF fuelR ind m failing maxNodes i j tape rest hv htape h
  ⟨r.1, r.2.1⟩

/-- … and without a writable nonterminal failing tree the individual itself is returned -/
theorem C01_mutate_nothing_to_mutate (G : FGrammar) (fuelF fuelR : Nat) (ind : ATree) (failing : List (List Nat))
    (maxNodes : Int) (i j : Nat) (tape : Tape) :
    mutate G fuelF fuelR ind failing maxNodes i j tape = .same ↔ mutCands ind failing = [] :=
  Evo.mutate_same_iff G fuelF fuelR ind failing maxNodes i j tape

/-- **`PopulationManager.fix_individual`** (with `ApplyAll/ApplyFirst/Nop`, `RepetitionBoundsSuggestion`
    and pairs handed out by parser-based suggestions): the repaired individual is a derivation with the same
    root symbol, provided every leaf suggestion is sound (`Evo.SuggOk`): a `given` pair carries a derivation
    (parser output, C04 / a copy of a subtree), and for a `RepetitionBoundsSuggestion` the parent's children
    still spell out its rule once the trailing iterations are dropped / `goal - bound` iterations of the body
    are spliced in behind the last one (`Evo.RepOk`; sections 3 gives this for whole iterations and a count
    within the bounds).  The full-delete branch (copy of the first common node, nested replace, read-only
    marks) is covered. -/
theorem C01_fix_valid (G : FGrammar) (R : RegexOracle) (fuel : Nat) (ind ind' : ATree) (sugg : Option Sugg)
    (tape tape' : Tape) (n : Nat) (hv : AValid G.erase R ind) (htape : TapeOk G.erase R tape)
    (hok : ∀ s, sugg = some s → Evo.SuggOk G R ind s)
    (h : fixIndividual G fuel ind sugg tape = some ((ind', n), tape')) :
    AValid G.erase R ind' ∧ ind'.sym = ind.sym :=
  let r := Evo.fix_valid G R fuel ind ind' sugg tape tape' n hv htape hok h
  ⟨r.1, r.2.1⟩

/-- non-vacuity: crossing `exA` with itself at `<a>` (second `<a>` of the first parent, first of the second) -/
example : (match crossover 10 exA exA "<a>" 1 0 with
    | .ok c1 c2 => (c1.erase, c2.erase)
    | _ => (exTree, exTree))
    = (.node "<start>" [.node "<a>" [.leaf (.text [97])], .node "<a>" [.leaf (.text [97])], .leaf (.text [120])],
       .node "<start>" [.node "<a>" [.leaf (.text [55])], .node "<a>" [.leaf (.text [55])], .leaf (.text [120])]) := by
  rfl

/-- non-vacuity: mutating the second `<a>` of `exA` (failing tree = the root; draws 0, 2; the `fuzz` call
    gets `max_nodes = 2 + (50 - 6)`) -/
example : (match mutate exG 6 10 exA [[]] 50 0 2 [.alt 0] with
    | .ok m _ => m.erase
    | _ => exTree)
    = .node "<start>" [.node "<a>" [.leaf (.text [97])], .node "<a>" [.leaf (.text [97])], .leaf (.text [120])] := by
  rfl

/-- non-vacuity of the primed / termination hypotheses: `exG` carries what `prime()` computes, has no
    generators; bound for the exhausted regime -/
example : primedB exG = true ∧ exG.gens = [] ∧ exG.depthBound = 42 := by
  refine ⟨by rfl, rfl, by rfl⟩
example : fuzzStartF exG 44 "<start>" ["<start>"] 1 [.rep 3, .alt 0, .rep 1]
    = .ok (.node "<start>" [.node "<a>" [.leaf (.text [97])]], []) := by rfl

end FV
