/-
C02 — emitted solutions satisfy every hard constraint.

FULL STATEMENT.  Every tree that `Evaluator.evaluate_individual` yields (and so every tree `fuzz()` /
`generate_solutions()` hand out, best-effort padding excluded) satisfies every `where` constraint, every
extra constraint and every computed repetition bound under an evaluator that shares no state with the
search; a constraint whose evaluation raises is not satisfied.

What is proved here (models: `Model/Constraint.lean` for `fitness()`; `Model/EmitExact.lean` for
`_evaluate_constraints` / the acceptance test in exact arithmetic; `Model/Emit.lean` + `Model/EmitFloat.lean`
+ `Generated/Fitness.lean` over `Model/Float53.lean` for what the code computes in binary64):

* `C02_fitness_one_iff_success`   for every combinator: the number `fitness()` returns lies in [0,1] and is
                                  1 exactly when `success` (from `solved = total ⇔ success`, incl. the
                                  `solved = total + 1` bookkeeping of disjunction / quantifiers and the copied
                                  consequent of an implication; DistanceAware: all values 1.0 ⇔ success)
* `C02_rep_bounds_fitness`        the same for `RepetitionBoundsConstraint`, and success ⇔ all computed bounds hold
* `C02_exception_not_satisfied`   a constraint whose `fitness()` raises keeps the tree from being emitted
                                  (`…_float`: in binary64)
* `C02_accept_iff`                exact arithmetic: acceptance test passes ⇔ every constraint reported success
* `C02_emit_sound`                exact arithmetic: emitted ⇒ every hard constraint holds in the documented
                                  meaning (`denote`, via `C07_op_eq_denote`) and every computed repetition bound holds
* `C02_accept_only_if_float`      BINARY64, the GENERATED formula / class mean / per-constraint quotient /
                                  comparison: `fitness >= 1.0` ⇒ no constraint raised and every one succeeded
* `C02_accept_iff_float`          … and conversely (then the fitness is exactly 1.0)
* `C02_emit_sound_float`          BINARY64: a tree yielded by `evaluateIndividual` (any state of the memo tables)
                                  satisfies every hard constraint (`denote`) and every computed repetition bound
* `C02_yield_only_if_float`, `C02_run_yields_only_satisfied_float`   the same at the level of per-constraint results, for one
                                  evaluation in any state and for every sequence of evaluations (every history)
* `C02_float_bound_is_needed`     the magnitude bound cannot be dropped: 3 constraints, one with 2^53
                                  combinations of which one fails, ARE accepted by binary64

BOUNDS of the binary64 theorems: with `h`, `r` the numbers of hard / repetition-bounds constraints and `2^B` a
bound on every per-constraint denominator (`total`; number of combinations of a comparison; number of
repetition groups): `(h + r) * 2^B ≤ 2^50` (e.g. `h + r ≤ 2^25`, totals `≤ 2^25`).  No soft constraints
(`s = 0`), `expected_fitness = 1.0`.  The float model has no subnormals / overflow; every value here is 0
or lies in `[2^-101, 2^53]` (quotients `≥ 1/total`, means `≥ 1/(total·len)`), far inside the normal range.

How the float proof goes (Proofs/Float53Mono.lean, Proofs/EmitFloat.lean): `rnd` never moves a value across
a double (`toRat_rnd_le_repr`: `x ≤ K·2^E`, `K < 2^53` ⇒ `rnd x ≤ K·2^E`) and changes a value by at most the
factor `1 ± 2^-53` (`toRat_rnd_le_mul`).  A constraint that did not succeed scores `rnd(s/t) ≤ 1 - 2^-B`; the
running sum after `k` additions stays `≤ k` resp. `≤ k - 2^-B` once the defective value (or a skipped, raising
constraint) went in — these bounds are doubles, so nothing accumulates; the remaining four roundings (mean,
`* len`, `+`, `/ (h + r)`) cost `(1 + 2^-53)^4`, less than the gap `2^-B / (h + r) ≥ 2^-50`.  CPython's
compensated `sum` over values 0.0/1.0 is shown exact (`pySum_bools`).

These helper files import single Mathlib tactic modules (Linarith, Positivity, Ring, NormNum, FieldSimp);
models and drivers stay Mathlib-free.

Every `theorem` in this file is an obligation audited with `#print axioms`.
-/
import Proofs.EmitExact
import Proofs.EmitFloat
import Generated.Cons
import Generated.Fitness
namespace FV

theorem C02_source_configuration :
    Generated.consCfgRead = true ∧ Generated.consCfg = OpCfg.fixed := by decide

/-! ## 1. `fitness() = 1 ⇔ success`, for every constraint class -/

/-- the counters of every fitness value built by the constraint classes: `0 < total`,
    `solved ≤ total`, `success ⇔ solved = total`, and for comparisons `success ⇔ all values are 1.0` -/
theorem C02_combinator_bookkeeping (c : Cons) (t : Tree) (σ : Scope) (ρ : Locals) (f : Fit) (σ' : Scope)
    (ρ' : Locals) (hwf : c.WF = true) (h : opFit Generated.consCfg c t σ ρ = .ok (f, σ', ρ')) : f.Wf := by
  rw [C02_source_configuration.2] at h
  exact opFit_wf c t σ ρ f σ' ρ' hwf h

theorem C02_fitness_one_iff_success (c : Cons) (t : Tree) (σ : Scope) (ρ : Locals) (f : Fit) (σ' : Scope)
    (ρ' : Locals) (hwf : c.WF = true) (h : opFit Generated.consCfg c t σ ρ = .ok (f, σ', ρ')) :
    0 ≤ f.value ∧ f.value ≤ 1 ∧ (f.value = 1 ↔ f.success = true) :=
  (C02_combinator_bookkeeping c t σ ρ f σ' ρ' hwf h).value_props

/-- each aggregation step on its own (the shapes `fitness()` goes through) -/
theorem C02_aggregators_keep_bookkeeping :
    (∀ rs, (exprFit rs).Wf) ∧ (∀ rs, (cmpFit false rs).Wf) ∧
    (∀ n fs, fs ≠ [] → (∀ f ∈ fs, f.Wf) → (conjFit n fs).Wf) ∧
    (∀ n fs, fs ≠ [] → fs.length ≤ n → (∀ f ∈ fs, f.Wf) → (disjFit n fs).Wf) ∧
    (∀ f, f.Wf → (implFit f).Wf) ∧
    (∀ fs, (∀ f ∈ fs, f.Wf) → (allFit fs).Wf) ∧ (∀ fs, (∀ f ∈ fs, f.Wf) → (anyFit fs).Wf) :=
  ⟨exprFit_wf, cmpFit_wf, conjFit_wf, disjFit_wf, implFit_wf, allFit_wf, anyFit_wf⟩

/-- why well-formedness of the program is required: a conjunction of *no* constraints succeeds with
    `total = 0`, for which `fitness()` answers 0 (the front end never builds one) -/
theorem C02_empty_conjunction_scores_zero :
    (conjFit 0 []).success = true ∧ (conjFit 0 []).value = 0 := by decide +kernel

/-- before fix 90f1d189 a comparison all of whose combinations raise had no value at all: success with
    fitness 0 -/
theorem C02_skipped_comparison_scores_zero :
    (cmpFit true [.error .pyValue]).success = true ∧ (cmpFit true [.error .pyValue]).value = 0 := by
  decide +kernel

theorem C02_rep_bounds_fitness (gs : List RepGroup) :
    (repFit gs).Wf ∧ (repFit gs).success = repDenote gs := ⟨repFit_wf gs, repFit_success gs⟩

/-! ## 2. the acceptance test -/

/-- with at least one constraint the acceptance test passes exactly when no constraint raised and every
    one reported success -/
theorem C02_accept_iff (hard rep : List (Option Fit)) (hh : AllWf hard) (hr : AllWf rep)
    (hpos : 0 < hard.length + rep.length) :
    (1 : Rat) ≤ fitnessQ hard rep ↔ (AllSucceed hard ∧ AllSucceed rep) := by
  rw [fitnessQ_eq hard rep hpos]
  have hn : (0 : Rat) < (((hard.length + rep.length : Nat)) : Rat) := Rat.natCast_pos.2 hpos
  have hsplit : (((hard.length + rep.length : Nat)) : Rat) = ((hard.length : Nat) : Rat) + ((rep.length : Nat) : Rat) := by
    push_cast; rfl
  have b1 := sumValues_le hard hh
  have b2 := sumValues_le rep hr
  have e1 := sumValues_eq_length_iff hard hh
  have e2 := sumValues_eq_length_iff rep hr
  constructor
  · intro h
    have := rat_le_of_one_le_div _ _ hn h
    rw [hsplit] at this
    exact ⟨e1.1 (by grind), e2.1 (by grind)⟩
  · intro ⟨ha, hb⟩
    have h1 := e1.2 ha
    have h2 := e2.2 hb
    have heq : sumValues hard + sumValues rep = (((hard.length + rep.length : Nat)) : Rat) := by
      rw [hsplit]; grind
    rw [heq]
    have : (((hard.length + rep.length : Nat)) : Rat) / (((hard.length + rep.length : Nat)) : Rat) = 1 := by grind
    exact this ▸ Rat.le_refl

/-- a constraint whose evaluation raises (nothing is added for it) is not satisfied: the tree is not
    emitted -/
theorem C02_exception_not_satisfied (hard rep : List (Option Fit)) (hh : AllWf hard) (hr : AllWf rep)
    (seen : Bool) (hraised : none ∈ hard ∨ none ∈ rep) : emitsQ 1 hard rep seen = false := by
  have hpos : 0 < hard.length + rep.length := by
    rcases hraised with h | h
    · have := List.length_pos_of_mem h; omega
    · have := List.length_pos_of_mem h; omega
  unfold emitsQ
  have : ¬ ((1 : Rat) ≤ fitnessQ hard rep) := by
    intro hacc
    have ⟨ha, hb⟩ := (C02_accept_iff hard rep hh hr hpos).1 hacc
    rcases hraised with h | h
    · obtain ⟨f, hf, _⟩ := ha none h; cases hf
    · obtain ⟨f, hf, _⟩ := hb none h; cases hf
  simp [this]

/-! ## 3. emitted ⇒ satisfied -/

/-- **emit soundness** (exact arithmetic).  `cs` are the hard constraints (spec + extra / command line:
    the evaluator does not distinguish them), `gss` what each repetition-bounds constraint finds in the
    tree.  If the acceptance test with `expected_fitness = 1.0` lets the tree through, every hard
    constraint holds in the documented meaning and every computed repetition bound holds. -/
theorem C02_emit_sound (cs : List Cons) (gss : List (List RepGroup)) (t : Tree) (seen : Bool)
    (hwf : ∀ c ∈ cs, c.WF = true)
    (h : emitsQ 1 (cs.map (outcome Generated.consCfg t)) (gss.map (fun gs => some (repFit gs))) seen = true) :
    (∀ c ∈ cs, denote c t [] [] = true) ∧ (∀ gs ∈ gss, repDenote gs = true) := by
  rw [C02_source_configuration.2] at h
  have hh : AllWf (cs.map (outcome OpCfg.fixed t)) := by
    intro r hr f hf
    obtain ⟨c, hc, rfl⟩ := List.mem_map.1 hr
    unfold outcome at hf
    cases ho : opFit OpCfg.fixed c t [] [] with
    | error e => simp [ho] at hf
    | ok x =>
      obtain ⟨g, σ', ρ'⟩ := x
      simp only [ho, Option.some.injEq] at hf
      subst hf
      exact opFit_wf c t [] [] g σ' ρ' (hwf c hc) ho
  have hr : AllWf (gss.map (fun gs => some (repFit gs))) := by
    intro r hr f hf
    obtain ⟨gs, _, rfl⟩ := List.mem_map.1 hr
    cases hf
    exact repFit_wf gs
  by_cases hpos : 0 < (cs.map (outcome OpCfg.fixed t)).length + (gss.map (fun gs => some (repFit gs))).length
  · unfold emitsQ at h
    simp only [Bool.and_eq_true, decide_eq_true_eq] at h
    have ⟨ha, hb⟩ := (C02_accept_iff _ _ hh hr hpos).1 h.1
    constructor
    · intro c hc
      obtain ⟨f, hf, hs⟩ := ha (outcome OpCfg.fixed t c) (List.mem_map.2 ⟨c, hc, rfl⟩)
      unfold outcome at hf
      cases ho : opFit OpCfg.fixed c t [] [] with
      | error e => simp [ho] at hf
      | ok x =>
        obtain ⟨g, σ', ρ'⟩ := x
        simp only [ho, Option.some.injEq] at hf
        subst hf
        rw [← (opFit_sound c t [] [] g σ' ρ' ho).2.2]
        exact hs
    · intro gs hgs
      obtain ⟨f, hf, hs⟩ := hb (some (repFit gs)) (List.mem_map.2 ⟨gs, hgs, rfl⟩)
      cases hf
      rw [← repFit_success]
      exact hs
  · simp only [List.length_map] at hpos
    have h1 : cs = [] := by cases cs with
      | nil => rfl
      | cons x xs => simp at hpos
    have h2 : gss = [] := by cases gss with
      | nil => rfl
      | cons x xs => simp at hpos
    subst h1; subst h2
    simp

/-- non-vacuity: the hypotheses of `C02_emit_sound` are met by a concrete spec and tree
    (`int(<x>) == 1` with one repetition group of length 2 within [2, 2], on "11") … -/
def exTree11 : Tree :=
  .node "<start>" [.node "<x>" [.leaf (.text [49])], .node "<x>" [.leaf (.text [49])]]
def exCons11 : Cons := .cmp (.i .eq (.intOf (.ph 0)) (.lit 1)) [.rule "<x>"]

theorem C02_emit_example :
    emitsQ 1 ([exCons11].map (outcome OpCfg.fixed exTree11)) ([[⟨2, 2, 2⟩]].map (fun gs => some (repFit gs))) false = true ∧
    -- … and a tree with an unsatisfied combination ("1a": `int("a")` raises) is not emitted …
    emitsQ 1 ([exCons11].map (outcome OpCfg.fixed
        (.node "<start>" [.node "<x>" [.leaf (.text [49])], .node "<x>" [.leaf (.text [97])]]))) [] false = false ∧
    -- … nor one whose repetition count 3 is outside the computed bounds [2, 2]
    emitsQ 1 ([exCons11].map (outcome OpCfg.fixed exTree11)) ([[⟨3, 2, 2⟩]].map (fun gs => some (repFit gs))) false = false := by
  decide +kernel

/-- with the threshold loosened to 0.99 the second implication is lost: 99 satisfied constraints and one
    violated one pass -/
theorem C02_loosened_threshold_counterexample :
    emitsQ (99 / 100) (List.replicate 99 (some trivialFit) ++ [some ⟨0, 1, false, none⟩]) [] false = true := by
  decide +kernel

/-! ## 4. TEST (not part of the proof): the generated binary64 formula takes the same decision -/

def tblFits : List (Option Fit) :=
  [some ⟨1, 1, true, none⟩, some ⟨2, 3, false, none⟩, some ⟨0, 1, false, none⟩, none,
   some ⟨2, 2, true, some [true, true]⟩, some ⟨1, 3, false, some [true, false, false]⟩, some ⟨6, 7, false, none⟩]

def tblLists : List (List (Option Fit)) :=
  [[]] ++ tblFits.map (fun a => [a]) ++ (tblFits.flatMap fun a => tblFits.map fun b => [a, b]) ++
  [List.replicate 5 (some ⟨1, 1, true, none⟩), List.replicate 6 (some ⟨3, 3, true, none⟩),
   List.replicate 5 (some ⟨1, 1, true, none⟩) ++ [some ⟨6, 7, false, none⟩]]

def tblExact : List Bool :=
  tblLists.flatMap fun hard => [[], [some ⟨1, 1, true, none⟩], List.replicate 5 (some ⟨1, 1, true, none⟩),
      [some ⟨1, 2, false, none⟩]].map fun rep => decide ((1 : Rat) ≤ fitnessQ hard rep)

open FV.F in
def tblFloat53 : List Bool :=
  tblLists.flatMap fun hard => [[], [some ⟨1, 1, true, none⟩], List.replicate 5 (some ⟨1, 1, true, none⟩),
      [some ⟨1, 2, false, none⟩]].map fun rep =>
    Generated.acceptCmp (Generated.fitnessFormula (Generated.classMean (hard.map toF)) (Generated.classMean (rep.map toF))
      one hard.length rep.length 0) one

theorem C02_float_formula_agrees_on_table : tblFloat53 = tblExact := by decide +kernel

/-! ## 5. binary64: the acceptance test of the real arithmetic

The same statements for what the code computes: per-constraint `fitness()` (generated `cfFitness` /
`daFitness`), `_evaluate_constraints` (generated `classMean`), the generated `fitnessFormula` and
`acceptCmp`, all over `Model/Float53.lean` (round-to-nearest-even after every operation, CPython's
compensated `sum`).  Magnitude bound: `(h + r) * 2^B ≤ 2^50`, where `h`, `r` are the numbers of hard and
repetition-bounds constraints and `2^B` bounds every per-constraint denominator (`total`, or the number of
combinations of a comparison) — e.g. `h + r ≤ 2^25` and every `total ≤ 2^25`, or `h + r ≤ 2^20` and
`total ≤ 2^30`.  A bound of this kind is necessary: `C02_float_bound_is_needed`. -/

open FV.F in
/-- **acceptance only if everything succeeded (binary64, generated formula)**: if the acceptance
    comparison of the source lets the computed fitness through against `expected_fitness = 1.0`, no
    constraint raised and every constraint reported success -/
theorem C02_accept_only_if_float (B : Nat) (hard rep : List (Option Fit)) (softMean : F)
    (hh : AllWf hard) (hr : AllWf rep) (dh : DenomLe B hard) (dr : DenomLe B rep)
    (hpos : 0 < hard.length + rep.length) (hbound : (hard.length + rep.length) * 2 ^ B ≤ 2 ^ 50)
    (hacc : Generated.acceptCmp
      (Generated.fitnessFormula (Generated.classMean (hard.map toF)) (Generated.classMean (rep.map toF))
        softMean hard.length rep.length 0) one = true) :
    AllSucceed hard ∧ AllSucceed rep := by
  apply Classical.byContradiction
  intro hns
  have hlt := fitnessF_lt_one B hard rep softMean hh hr dh dr hpos hbound hns
  simp only [Generated.acceptCmp, fge, fle, toRat_one, decide_eq_true_eq] at hacc
  exact absurd hlt (not_lt.2 hacc)

open FV.F in
/-- both directions: under the bound the binary64 acceptance test passes exactly when every constraint
    succeeded, and then the fitness is exactly 1.0 (the converse is C03's arithmetic) -/
theorem C02_accept_iff_float (B : Nat) (hard rep : List (Option Fit)) (softMean : F)
    (hh : AllWf hard) (hr : AllWf rep) (dh : DenomLe B hard) (dr : DenomLe B rep)
    (hpos : 0 < hard.length + rep.length) (hbound : (hard.length + rep.length) * 2 ^ B ≤ 2 ^ 50) :
    Generated.acceptCmp
      (Generated.fitnessFormula (Generated.classMean (hard.map toF)) (Generated.classMean (rep.map toF))
        softMean hard.length rep.length 0) one = true ↔ (AllSucceed hard ∧ AllSucceed rep) := by
  constructor
  · exact C02_accept_only_if_float B hard rep softMean hh hr dh dr hpos hbound
  · intro ⟨sh, sr⟩
    have h2 : 0 < 2 ^ B := Nat.pow_pos (by decide)
    have hB : 2 ^ B ≤ 2 ^ 50 := by
      have : 1 * 2 ^ B ≤ (hard.length + rep.length) * 2 ^ B := Nat.mul_le_mul_right _ hpos
      omega
    have hn : (hard.length + rep.length) * 1 ≤ (hard.length + rep.length) * 2 ^ B :=
      Nat.mul_le_mul_left _ h2
    rw [fitnessF_eq_one hard rep softMean hh hr
      (fun r hr' f hf => by have := dh r hr' f hf; omega)
      (fun r hr' f hf => by have := dr r hr' f hf; omega) (by omega) sh sr]
    decide +kernel

/-- a constraint whose evaluation raises keeps the tree from being emitted, in binary64 too -/
theorem C02_exception_not_satisfied_float (B : Nat) (hard rep : List (Option Fit))
    (hh : AllWf hard) (hr : AllWf rep) (dh : DenomLe B hard) (dr : DenomLe B rep)
    (hbound : (hard.length + rep.length) * 2 ^ B ≤ 2 ^ 50)
    (seen : Bool) (hraised : none ∈ hard ∨ none ∈ rep) : emitsF F.one hard rep seen = false := by
  have hpos : 0 < hard.length + rep.length := by
    rcases hraised with h | h
    · have := List.length_pos_of_mem h; omega
    · have := List.length_pos_of_mem h; omega
  cases he : emitsF F.one hard rep seen with
  | false => rfl
  | true =>
    exfalso
    simp only [emitsF, Generated.emitCondition, Bool.and_eq_true, individualF, Individual.fitness,
      List.length_map] at he
    have ⟨ha, hb⟩ := C02_accept_only_if_float B hard rep F.one hh hr dh dr hpos hbound he.1
    rcases hraised with h | h
    · obtain ⟨f, hf, _⟩ := ha none h; cases hf
    · obtain ⟨f, hf, _⟩ := hb none h; cases hf

/-- `evaluate_individual` in ANY state of its memo tables (binary64): what it yields is the tree it was
    called with, and every constraint of that tree succeeded (none raised).  A cached tree yields nothing. -/
theorem C02_yield_only_if_float (B : Nat) (hard rep : List (Option Fit)) (key k : Int) (st : EvalState)
    (hh : AllWf hard) (hr : AllWf rep) (dh : DenomLe B hard) (dr : DenomLe B rep)
    (hbound : (hard.length + rep.length) * 2 ^ B ≤ 2 ^ 50)
    (h : k ∈ (evaluateIndividual F.one st (individualF key hard rep)).emitted) :
    k = key ∧ AllSucceed hard ∧ AllSucceed rep := by
  have hk : k = key ∧ Generated.acceptCmp (individualF key hard rep).fitness F.one = true := by
    unfold evaluateIndividual at h
    split at h
    · simp at h
    · simp only at h
      split at h
      · rename_i he
        simp only [Generated.emitCondition, Bool.and_eq_true] at he
        simp only [List.mem_singleton] at h
        exact ⟨h, he.1⟩
      · simp at h
  refine ⟨hk.1, ?_⟩
  by_cases hpos : 0 < hard.length + rep.length
  · have hacc := hk.2
    simp only [individualF, Individual.fitness, List.length_map] at hacc
    exact C02_accept_only_if_float B hard rep F.one hh hr dh dr hpos hbound hacc
  · have h1 : hard = [] := by cases hard with
      | nil => rfl
      | cons x xs => simp at hpos
    have h2 : rep = [] := by cases rep with
      | nil => rfl
      | cons x xs => simp at hpos
    subst h1; subst h2
    simp [AllSucceed]

/-- every generation history (binary64): whatever sequence of trees the search evaluates, from whatever
    state, each key it yields belongs to an evaluated tree all of whose constraints succeeded -/
theorem C02_run_yields_only_satisfied_float (B : Nat)
    (jobs : List (Int × List (Option Fit) × List (Option Fit))) (st : EvalState)
    (hj : ∀ j ∈ jobs, AllWf j.2.1 ∧ AllWf j.2.2 ∧ DenomLe B j.2.1 ∧ DenomLe B j.2.2 ∧
      (j.2.1.length + j.2.2.length) * 2 ^ B ≤ 2 ^ 50) :
    ∀ k ∈ (evaluateAll F.one st (jobs.map (fun j => individualF j.1 j.2.1 j.2.2))).2,
      ∃ j ∈ jobs, j.1 = k ∧ AllSucceed j.2.1 ∧ AllSucceed j.2.2 := by
  induction jobs generalizing st with
  | nil => intro k hk; simp [evaluateAll] at hk
  | cons j js ih =>
    intro k hk
    simp only [List.map_cons, evaluateAll, List.mem_append] at hk
    rcases hk with hk | hk
    · obtain ⟨a, b, c, d, e⟩ := hj j (by simp)
      have := C02_yield_only_if_float B j.2.1 j.2.2 j.1 k st a b c d e hk
      exact ⟨j, by simp, this.1.symm, this.2⟩
    · obtain ⟨j', hj', hrest⟩ := ih _ (fun x hx => hj x (by simp [hx])) k hk
      exact ⟨j', by simp [hj'], hrest⟩

/-- **emit soundness, binary64.**  `cs` are the hard constraints, `gss` what each repetition-bounds
    constraint finds in the tree, `st` ANY state of the evaluator's two memo tables.  If
    `evaluate_individual` (Model/Emit.lean: cache lookup, the generated formula over the generated class
    means in `Float53`, the generated emission condition with `expected_fitness = 1.0`) yields the tree,
    then every hard constraint holds in the documented meaning `denote` and every computed repetition
    bound holds — provided the numbers of combinations / repetition groups are at most `2^B` and
    `(h + r) * 2^B ≤ 2^50`. -/
theorem C02_emit_sound_float (B : Nat) (cs : List Cons) (gss : List (List RepGroup)) (t : Tree)
    (key : Int) (st : EvalState)
    (hwf : ∀ c ∈ cs, c.WF = true)
    (hdc : ∀ c ∈ cs, ∀ f, outcome Generated.consCfg t c = some f → f.denom ≤ 2 ^ B)
    (hdg : ∀ gs ∈ gss, gs.length ≤ 2 ^ B)
    (hbound : (cs.length + gss.length) * 2 ^ B ≤ 2 ^ 50)
    (h : key ∈ (evaluateIndividual F.one st
      (individualF key (cs.map (outcome Generated.consCfg t)) (gss.map (fun gs => some (repFit gs))))).emitted) :
    (∀ c ∈ cs, denote c t [] [] = true) ∧ (∀ gs ∈ gss, repDenote gs = true) := by
  rw [C02_source_configuration.2] at h hdc
  have hh : AllWf (cs.map (outcome OpCfg.fixed t)) := by
    intro r hr f hf
    obtain ⟨c, hc, rfl⟩ := List.mem_map.1 hr
    unfold outcome at hf
    cases ho : opFit OpCfg.fixed c t [] [] with
    | error e => simp [ho] at hf
    | ok x =>
      obtain ⟨g, σ', ρ'⟩ := x
      simp only [ho, Option.some.injEq] at hf
      subst hf
      exact opFit_wf c t [] [] g σ' ρ' (hwf c hc) ho
  have hr : AllWf (gss.map (fun gs => some (repFit gs))) := by
    intro r hr f hf
    obtain ⟨gs, _, rfl⟩ := List.mem_map.1 hr
    cases hf
    exact repFit_wf gs
  have dh : DenomLe B (cs.map (outcome OpCfg.fixed t)) := by
    intro r hr f hf
    obtain ⟨c, hc, rfl⟩ := List.mem_map.1 hr
    exact hdc c hc f hf
  have dr : DenomLe B (gss.map (fun gs => some (repFit gs))) := by
    intro r hr f hf
    obtain ⟨gs, hgs, rfl⟩ := List.mem_map.1 hr
    cases hf
    exact repFit_denom_le B gs (hdg gs hgs)
  have ⟨_, ha, hb⟩ := C02_yield_only_if_float B _ _ key key st hh hr dh dr
    (by simpa only [List.length_map] using hbound) h
  constructor
  · intro c hc
    obtain ⟨f, hf, hs⟩ := ha (outcome OpCfg.fixed t c) (List.mem_map.2 ⟨c, hc, rfl⟩)
    unfold outcome at hf
    cases ho : opFit OpCfg.fixed c t [] [] with
    | error e => simp [ho] at hf
    | ok x =>
      obtain ⟨g, σ', ρ'⟩ := x
      simp only [ho, Option.some.injEq] at hf
      subst hf
      rw [← (opFit_sound c t [] [] g σ' ρ' ho).2.2]
      exact hs
  · intro gs hgs
    obtain ⟨f, hf, hs⟩ := hb (some (repFit gs)) (List.mem_map.2 ⟨gs, hgs, rfl⟩)
    cases hf
    rw [← repFit_success]
    exact hs

/-- non-vacuity of `C02_emit_sound_float`: the spec / tree of `C02_emit_example`, first evaluation in
    the initial state, `B = 1`: every hypothesis holds (so the conclusion is not vacuous) … -/
example :
    (∀ c ∈ [exCons11], c.WF = true) ∧
    (∀ c ∈ [exCons11], ∀ f, outcome Generated.consCfg exTree11 c = some f → f.denom ≤ 2 ^ 1) ∧
    (∀ gs ∈ [[(⟨2, 2, 2⟩ : RepGroup)]], gs.length ≤ 2 ^ 1) ∧
    ([exCons11].length + [[(⟨2, 2, 2⟩ : RepGroup)]].length) * 2 ^ 1 ≤ 2 ^ 50 ∧
    (7 : Int) ∈ (evaluateIndividual F.one EvalState.empty
      (individualF 7 ([exCons11].map (outcome Generated.consCfg exTree11))
        ([[(⟨2, 2, 2⟩ : RepGroup)]].map (fun gs => some (repFit gs))))).emitted := by
  have ho : outcome Generated.consCfg exTree11 exCons11 = some ⟨2, 2, true, some [true, true]⟩ := by
    decide +kernel
  refine ⟨by decide, ?_, by decide, by decide, by decide +kernel⟩
  intro c hc f hf
  simp only [List.mem_singleton] at hc
  subst hc
  rw [ho] at hf
  cases hf
  decide

/-- … and in binary64, too, the tree with an unsatisfied combination and the one whose repetition count
    is out of bounds are not yielded; the satisfied one is yielded once -/
theorem C02_emit_float_example :
    (evaluateAll F.one EvalState.empty
      [individualF 1 ([exCons11].map (outcome OpCfg.fixed
          (.node "<start>" [.node "<x>" [.leaf (.text [49])], .node "<x>" [.leaf (.text [97])]]))) [],
       individualF 2 ([exCons11].map (outcome OpCfg.fixed exTree11)) ([[⟨3, 2, 2⟩]].map (fun gs => some (repFit gs))),
       individualF 3 ([exCons11].map (outcome OpCfg.fixed exTree11)) ([[⟨2, 2, 2⟩]].map (fun gs => some (repFit gs))),
       individualF 3 ([exCons11].map (outcome OpCfg.fixed exTree11)) ([[⟨2, 2, 2⟩]].map (fun gs => some (repFit gs)))]).2
      = [3] := by
  decide +kernel

/-- a magnitude bound is necessary: with `2^53` combinations of which one fails, next to two satisfied
    constraints, binary64 computes `1.0 + 1.0 + 0.9999999999999999 = 3.0` and the tree IS accepted
    (here `(h + r) * 2^B = 3 * 2^53`; the theorems above need `≤ 2^50`) -/
theorem C02_float_bound_is_needed :
    emitsF F.one [some ⟨1, 1, true, none⟩, some ⟨1, 1, true, none⟩, some ⟨2 ^ 53 - 1, 2 ^ 53, false, none⟩] [] false
      = true := by
  decide +kernel

end FV
