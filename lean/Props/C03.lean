/-
C03 — a tree that satisfies all constraints is accepted as a solution.

Property theorems only; helper lemmas are in `Proofs/Float53.lean`.  The arithmetic is the
*generated* `Generated/Fitness.lean` (harness/translate_fitness.py re-reads
`Evaluator.evaluate_individual`, `Evaluator._evaluate_constraints`, `ConstraintFitness.fitness`,
`DistanceAwareConstraintFitness.fitness` on every run) over the binary64 model
`Model/Float53.lean`; the evaluator's memo tables are `Model/Emit.lean`.  The models are tied to
/repo by `harness/props/c03.py`.  Every `theorem` here is an obligation audited with `#print axioms`.

Full statement (quantifier: all counts h of hard and r of repetition-bound constraints, every order
of declaring them, every tree satisfying them; no soft constraints):

  for every evaluator state reachable from the initial one and every tree whose per-constraint
  fitness is 1.0 for all h + r constraints, the first evaluation of the tree yields it, for all
  h + r < 2^53 — `C03_first_seen_is_emitted`, `C03_run_emits_every_satisfied_tree_once`.

Declaration order: `Evaluator.__init__` splits the declared list into the hard and the
repetition-bounds class by `isinstance`, keeping the relative order inside a class; the class means
below are stated for *lists* of per-constraint results, so they hold for every order
(an all-satisfied list is `replicate n (some 1.0)` whatever the order).

Bounds: `h + r < 2^53` (all integers involved are then exactly representable; no value leaves
`[0, 2^53]`, so no subnormal / overflow case of binary64 that the model omits can occur).
-/
import Proofs.Float53
import Proofs.Emit
namespace FV
open FV.F FV.Generated

/-! ## 1. what "the tree satisfies a constraint" means at the fitness level -/

/-- `ConstraintFitness(solved = n, total = n)` — a successful expression / repetition-bounds /
    conjunction result (`solved == total`), or a successful quantifier / disjunction / implication
    (`solved = total + 1` then `total += 1`, again equal) — has fitness exactly 1.0 -/
theorem C03_satisfied_constraint_fitness_is_one (n : Nat) (h0 : 0 < n) (h : n < 2 ^ 53) :
    cfFitness n n = one := by
  have hn : n ≠ 0 := by omega
  simp only [cfFitness, hn, ne_eq, not_false_eq_true, decide_true, if_true]
  exact fdiv_self_ofNat n h0 h

/-- not vacuous, and a constraint that is NOT fully solved is below 1.0 -/
theorem C03_constraint_fitness_examples :
    cfFitness 1 1 = one ∧ cfFitness 7 7 = one ∧ flt (cfFitness 6 7) one = true ∧
    cfFitness 0 0 = zero := by decide +kernel

/-- a successful comparison constraint (`DistanceAwareConstraintFitness`, every value 1.0, at least
    one combination) has fitness exactly 1.0 — through CPython's compensated `sum` -/
theorem C03_satisfied_distance_fitness_is_one (n : Nat) (h0 : 0 < n) (h : n < 2 ^ 53) :
    daFitness (ones n) = one := by
  have hne : (ones n).isEmpty = false := by
    cases n with
    | zero => omega
    | succ k => simp [ones, List.replicate_succ]
  have hl : (ones n).length = n := by simp [ones]
  simp only [daFitness, hne, hl, Bool.not_false, if_true, pySum_ones n h0 h]
  exact fdiv_self_ofNat n h0 h

/-! ## 2. the class mean of an all-satisfied class is exactly 1.0 -/

/-- `_evaluate_constraints` over `n` constraints that all report 1.0 (in whatever order they were
    declared) returns 1.0, for every `n < 2^53` (`n = 0`: the early return) -/
theorem C03_class_mean_of_satisfied_is_one (n : Nat) (h : n < 2 ^ 53) :
    classMean (List.replicate n (some one)) = one := by
  by_cases h0 : n = 0
  · subst h0; simp [classMean, ofDecimal_one]
  · have := foldOk_some_ones n 0 (by omega)
    simp only [Nat.zero_add, ofNat_zero] at this
    simp only [classMean, List.length_replicate, h0, decide_false, Bool.false_eq_true, if_false,
      ofDecimal_zero, this]
    exact fdiv_self_ofNat n (by omega) h

/-- a class in which one constraint raised, or one is not fully solved, has a mean below 1.0
    (so the hypothesis of the acceptance theorems is not met by such trees) -/
theorem C03_class_mean_examples :
    classMean [some one, some one, some one] = one ∧
    flt (classMean [some one, none, some one]) one = true ∧
    flt (classMean [some one, some (cfFitness 1 2)]) one = true := by decide +kernel

/-! ## 3. the generated fitness formula gives exactly 1.0, and the acceptance test passes -/

/-- for ALL counts `h`, `r` with `h + r < 2^53` (including `h = 0`, `r = 0`, and no constraints at
    all) and no soft constraints, the fitness of a tree whose class means are 1.0 is exactly 1.0 -/
theorem C03_fitness_of_all_satisfied_is_one (h r : Nat) (hb : h + r < 2 ^ 53) (softMean : F) :
    fitnessFormula one one softMean h r 0 = one := by
  have hm := fmul_one_ofNat h (by omega)
  have hr := fmul_one_ofNat r (by omega)
  have ha := fadd_ofNat h r hb
  by_cases ht : h + r = 0
  · have h0 : h = 0 := by omega
    have r0 : r = 0 := by omega
    subst h0 r0
    simp [fitnessFormula]
  · have hd := fdiv_self_ofNat (h + r) (by omega) hb
    have hpos : 0 < h + r := by omega
    by_cases hr0 : r = 0
    · subst hr0
      simp only [Nat.add_zero] at hd hpos
      simp [fitnessFormula, hm, hd, hpos]
    · have hrpos : 0 < r := by omega
      simp [fitnessFormula, hm, hr, ha, hd, hpos, hrpos]

/-- the acceptance comparison of the source accepts fitness 1.0 against `expected_fitness = 1.0` (the
    default) and against every lower threshold a caller may pass -/
theorem C03_acceptance_test_accepts_one (expected : F) (he : fle expected one = true) :
    acceptCmp one expected = true := by
  simpa [acceptCmp, fge] using he

/-- `C03_accept_if_all_satisfied`: every tree that satisfies all `h` hard and all `r`
    repetition-bounds constraints (no soft ones) has fitness exactly 1.0 and passes the test -/
theorem C03_accept_if_all_satisfied (ind : Individual) (hsoft : ind.soft = 0)
    (hs : ind.allSatisfied) (hb : ind.hard.length + ind.rep.length < 2 ^ 53)
    (expected : F) (he : fle expected one = true) :
    ind.fitness = one ∧ acceptCmp ind.fitness expected = true := by
  obtain ⟨h1, h2⟩ := allSatisfied_lists ind hs
  have e : ind.fitness = one := by
    unfold Individual.fitness
    rw [h1, h2, C03_class_mean_of_satisfied_is_one _ (by omega),
      C03_class_mean_of_satisfied_is_one _ (by omega), hsoft]
    simp only [List.length_replicate]
    exact C03_fitness_of_all_satisfied_is_one _ _ hb _
  exact ⟨e, by rw [e]; exact C03_acceptance_test_accepts_one expected he⟩

/-! ## 4. the first evaluation yields the tree -/

/-- states the evaluator can be in: whatever is in the solution set has a cache entry (both tables
    start empty and are only extended by `evaluate_individual`) -/
def EvalState.wf (st : EvalState) : Prop :=
  ∀ k ∈ st.solutionSet, (st.fitnessCache.lookup k).isSome

theorem C03_initial_state_wf : EvalState.empty.wf := by
  intro k hk; simp [EvalState.empty] at hk

theorem C03_wf_preserved (e : F) (st : EvalState) (ind : Individual) (hw : st.wf) :
    (evaluateIndividual e st ind).state.wf := by
  unfold evaluateIndividual
  cases hc : st.fitnessCache.lookup ind.key with
  | some f => exact hw
  | none =>
    intro k hk
    simp only [List.lookup_cons]
    by_cases hkk : k = ind.key
    · subst hkk; simp
    · have hne : (k == ind.key) = false := by simpa using hkk
      simp only [hne]
      apply hw
      simp only at hk
      split at hk
      · rcases List.mem_cons.1 hk with h | h
        · exact absurd h hkk
        · exact h
      · exact hk

/-- `C03_first_seen_is_emitted`: in any reachable state, a tree that is evaluated for the first time
    (no cache entry) and satisfies all constraints is yielded, enters the solution set, and is cached
    with fitness exactly 1.0 -/
theorem C03_first_seen_is_emitted (st : EvalState) (ind : Individual) (hw : st.wf)
    (hnew : st.fitnessCache.lookup ind.key = none)
    (hsoft : ind.soft = 0) (hs : ind.allSatisfied)
    (hb : ind.hard.length + ind.rep.length < 2 ^ 53)
    (expected : F) (he : fle expected one = true) :
    (evaluateIndividual expected st ind).emitted = [ind.key] ∧
    ind.key ∈ (evaluateIndividual expected st ind).state.solutionSet ∧
    (evaluateIndividual expected st ind).state.fitnessCache.lookup ind.key = some one ∧
    (evaluateIndividual expected st ind).fitness = one := by
  obtain ⟨hf, hacc⟩ := C03_accept_if_all_satisfied ind hsoft hs hb expected he
  have hns : st.solutionSet.contains ind.key = false := by
    cases hcon : st.solutionSet.contains ind.key with
    | false => rfl
    | true =>
      have hm : ind.key ∈ st.solutionSet := by simpa using hcon
      have := hw _ hm
      rw [hnew] at this; simp at this
  have hnm : ind.key ∉ st.solutionSet := by simpa using hns
  have hem2 : emitCondition one expected (decide (ind.key ∈ st.solutionSet)) = true := by
    simp [emitCondition, C03_acceptance_test_accepts_one expected he, hnm]
  unfold evaluateIndividual
  simp [hnew, hf, hem2]

/-- the second evaluation of the same tree is answered from the cache and yields nothing -/
theorem C03_second_evaluation_is_silent (e : F) (st : EvalState) (ind : Individual) :
    (evaluateIndividual e (evaluateIndividual e st ind).state ind).emitted = [] := by
  have hc : ((evaluateIndividual e st ind).state.fitnessCache.lookup ind.key).isSome := by
    unfold evaluateIndividual
    cases hc : st.fitnessCache.lookup ind.key with
    | some f => simp [hc]
    | none => simp
  generalize (evaluateIndividual e st ind).state = st' at hc
  unfold evaluateIndividual
  cases hl : st'.fitnessCache.lookup ind.key with
  | some f => rfl
  | none => rw [hl] at hc; simp at hc

/-- non-vacuity: a concrete run — (h, r) = (1, 5), the pair the pre-fix arithmetic lost — first
    evaluation yields the tree, the second does not; a tree failing one constraint is not yielded -/
def exSat : Individual := ⟨42, [some one], List.replicate 5 (some one), 0, one⟩
def exUnsat : Individual := ⟨43, [some one], [some one, some (cfFitness 1 2), some one], 0, one⟩

theorem C03_example_run :
    (evaluateAll one EvalState.empty [exUnsat, exSat, exSat, exUnsat]).2 = [42] := by
  decide +kernel

example : exSat.allSatisfied ∧ exSat.soft = 0 ∧ exSat.hard.length + exSat.rep.length < 2 ^ 53 := by
  refine ⟨⟨?_, ?_⟩, rfl, by decide⟩ <;> intro x hx <;> simp [exSat] at hx <;> simp [hx]

/-- the hypotheses of the run theorems (§5) hold for that run: keys identify the trees, no soft
    constraints, sizes in range -/
example : (∀ a ∈ [exUnsat, exSat, exSat, exUnsat], ∀ b ∈ [exUnsat, exSat, exSat, exUnsat], a.key = b.key → a = b) ∧
    (∀ a ∈ [exUnsat, exSat, exSat, exUnsat], a.soft = 0) ∧
    (∀ a ∈ [exUnsat, exSat, exSat, exUnsat], a.hard.length + a.rep.length < 2 ^ 53) := by decide +kernel

/-! ## 5. whole runs: every satisfied tree is reported exactly once, at its first evaluation -/

/-- In a run from any reachable state over trees that are identified by their keys, every tree that
    satisfies all constraints and had not been evaluated before the run is among the yielded ones. -/
theorem C03_run_emits_every_satisfied_tree (st : EvalState) (inds : List Individual) (hw : st.wf)
    (hkey : ∀ a ∈ inds, ∀ b ∈ inds, a.key = b.key → a = b)
    (hsoft : ∀ a ∈ inds, a.soft = 0)
    (hb : ∀ a ∈ inds, a.hard.length + a.rep.length < 2 ^ 53) :
    ∀ a ∈ inds, a.allSatisfied →
      a.key ∈ (evaluateAll one st inds).2 ∨ (st.fitnessCache.lookup a.key).isSome := by
  induction inds generalizing st with
  | nil => intro a ha; simp at ha
  | cons x rest ih =>
    intro a ha hsat
    rw [evaluateAll_cons]
    have hw' := C03_wf_preserved one st x hw
    have ih' := ih (evaluateIndividual one st x).state hw'
      (fun p hp q hq => hkey p (List.mem_cons_of_mem _ hp) q (List.mem_cons_of_mem _ hq))
      (fun p hp => hsoft p (List.mem_cons_of_mem _ hp))
      (fun p hp => hb p (List.mem_cons_of_mem _ hp))
    cases hc : st.fitnessCache.lookup a.key with
    | some f => right; simp
    | none =>
      left
      by_cases hax : a.key = x.key
      · have hxa : a = x := hkey a ha x List.mem_cons_self hax
        subst hxa
        have := (C03_first_seen_is_emitted st a hw hc (hsoft a ha) hsat (hb a ha) one fle_one_one).1
        simp [this]
      · have har : a ∈ rest := by
          rcases List.mem_cons.1 ha with h | h
          · exact absurd (by rw [h]) hax
          · exact h
        rcases ih' a har hsat with h | h
        · exact List.mem_append_right _ h
        · -- a cache entry for a.key after evaluating x, although a.key ≠ x.key and none before
          exfalso
          unfold evaluateIndividual at h
          cases hcx : st.fitnessCache.lookup x.key with
          | some f => simp [hcx, hc] at h
          | none =>
            have hne : (a.key == x.key) = false := by simpa using hax
            simp [hcx, List.lookup_cons, hne, hc] at h

/-- nothing is yielded twice, and nothing that is already in the solution set is yielded again -/
theorem C03_run_emits_at_most_once (e : F) (st : EvalState) (inds : List Individual) :
    (evaluateAll e st inds).2.Nodup ∧ ∀ k ∈ (evaluateAll e st inds).2, k ∉ st.solutionSet := by
  induction inds generalizing st with
  | nil => simp [evaluateAll]
  | cons x rest ih =>
    rw [evaluateAll_cons]
    obtain ⟨ihn, ihd⟩ := ih (evaluateIndividual e st x).state
    generalize hout : (evaluateAll e (evaluateIndividual e st x).state rest).2 = out at ihn ihd
    unfold evaluateIndividual at ihd ⊢
    cases hc : st.fitnessCache.lookup x.key with
    | some f =>
      simp only [hc] at ihd
      simp only [List.nil_append]
      exact ⟨ihn, ihd⟩
    | none =>
      simp only [hc] at ihd
      simp only
      cases hem : emitCondition x.fitness e (st.solutionSet.contains x.key) with
      | false =>
        simp only [hem, Bool.false_eq_true, if_false] at ihd
        simp only [Bool.false_eq_true, if_false, List.nil_append]
        exact ⟨ihn, ihd⟩
      | true =>
        simp only [hem, if_true] at ihd
        simp only [if_true, List.cons_append, List.nil_append]
        have hnot : st.solutionSet.contains x.key = false := by
          simp only [emitCondition, Bool.and_eq_true, Bool.not_eq_true'] at hem
          exact hem.2
        refine ⟨List.nodup_cons.2 ⟨fun hx => ihd _ hx List.mem_cons_self, ihn⟩, ?_⟩
        intro k hk
        rcases List.mem_cons.1 hk with h | h
        · subst h; simpa using hnot
        · exact fun hks => ihd k h (List.mem_cons_of_mem _ hks)

/-- from the initial state: every satisfied tree of the run is yielded, exactly once -/
theorem C03_run_emits_every_satisfied_tree_once (inds : List Individual)
    (hkey : ∀ a ∈ inds, ∀ b ∈ inds, a.key = b.key → a = b)
    (hsoft : ∀ a ∈ inds, a.soft = 0)
    (hb : ∀ a ∈ inds, a.hard.length + a.rep.length < 2 ^ 53) :
    (∀ a ∈ inds, a.allSatisfied → a.key ∈ (evaluateAll one EvalState.empty inds).2) ∧
    (evaluateAll one EvalState.empty inds).2.Nodup := by
  refine ⟨fun a ha hs => ?_, (C03_run_emits_at_most_once one EvalState.empty inds).1⟩
  rcases C03_run_emits_every_satisfied_tree EvalState.empty inds C03_initial_state_wf hkey hsoft hb a ha hs
    with h | h
  · exact h
  · simp [EvalState.empty] at h

/-! ## 6. the defect that was fixed (commit a20f00f7), machine-checked -/

/-- the pre-fix arithmetic `hard/total*h + rep/total*r` gives 0.9999999999999999 (bit pattern
    0x3FEFFFFFFFFFFFFF) for one hard and five repetition-bounds constraints that are all satisfied;
    the tree fails `>= 1.0`, while the current formula gives exactly 1.0 -/
theorem C03_old_formula_counterexample :
    toBits (oldFormula one one one 1 5 0) = 0x3FEFFFFFFFFFFFFF ∧
    (oldFormula one one one 1 5 0).toRat = 9007199254740991 / 9007199254740992 ∧
    flt (oldFormula one one one 1 5 0) one = true ∧
    fge (oldFormula one one one 1 5 0) one = false ∧
    fitnessFormula one one one 1 5 0 = one := by decide +kernel

/-- with the pre-fix formula the evaluator model never yields that tree -/
theorem C03_old_formula_never_emits :
    emitCondition (oldFormula (classMean exSat.hard) (classMean exSat.rep) one 1 5 0) one false = false := by
  decide +kernel

/-! ## 7. tests of the binary64 model against Lean's kernel `Float` (not part of the proofs) -/

/-- TEST: on a table of 12 operand pairs × 5 operations the model and Lean's `Float` give the same
    IEEE bit patterns -/
theorem C03_float53_agrees_with_kernel_float_on_table : tblModel = tblFloat := float_table

/-- (h, number of satisfied hard constraints, r, number of satisfied repetition constraints); the
    unsatisfied ones report 1/3 -/
def tblCases : List (Nat × Nat × Nat × Nat) :=
  [(1, 1, 5, 5), (1, 1, 5, 4), (3, 2, 0, 0), (0, 0, 7, 6), (2, 2, 9, 9), (6, 1, 1, 1), (0, 0, 0, 0), (10, 3, 3, 0)]

def tblFormulaModel : List (Nat × Bool) := tblCases.map fun (h, a, r, b) =>
  let hard := List.replicate a (some one) ++ List.replicate (h - a) (some (cfFitness 1 3))
  let rep := List.replicate b (some one) ++ List.replicate (r - b) (some (cfFitness 1 3))
  let f := fitnessFormula (classMean hard) (classMean rep) one h r 0
  (toBits f, acceptCmp f one)

def tblFormulaFloat : List (Nat × Bool) := tblCases.map fun (h, a, r, b) =>
  let hard := List.replicate a (some (1.0 : Float)) ++ List.replicate (h - a) (some (KFloat.cfFitness 1 3))
  let rep := List.replicate b (some (1.0 : Float)) ++ List.replicate (r - b) (some (KFloat.cfFitness 1 3))
  let f := KFloat.fitnessFormula (KFloat.classMean hard) (KFloat.classMean rep) 1.0 h r 0
  (f.toBits.toNat, KFloat.acceptCmp f 1.0)

/-- TEST: the generated class mean + formula + acceptance test evaluated over the model and over Lean's
    `Float` give the same bit patterns and verdicts on 8 (h, r, satisfied) cases -/
theorem C03_generated_formula_agrees_with_kernel_float_on_table : tblFormulaModel = tblFormulaFloat := by
  decide +kernel

end FV
