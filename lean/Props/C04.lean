/-
C04 — parsing is sound: every yielded tree derives exactly the input.

FULL STATEMENT.  For every grammar `G`, start symbol `s`, input `w` (str, bytes, bits) and every tree `t`
yielded by `Grammar.parse_forest(w, start=s)` in COMPLETE mode:
  (1) `Valid G R t` (a derivation of the grammar) with root `s`,
  (2) the serialisation of `t` is exactly `w`,
  (3) no helper symbol (`<__…>`, `<*…*>`) occurs in `t`;
and every tree yielded by `Fandango(spec).parse(w)` additionally satisfies every constraint of the spec
(`denote c t = true`), so an input outside the constrained language yields nothing.

WHAT IS PROVED (all grammars, inputs, start symbols, prediction orders, fuel, and every VARIANT of the parser the
model has — `Variant`: admission policy, compilation of `{n,}`, completing `predict`, the three scanner guards; the
translator harness/translate_earley.py reads from /repo which variant the source is, `Generated/Earley.lean`):

* `C04_checked_tree_is_language_witness`, `C04_checker_sound_and_complete`, `C04_valid_tree_has_no_helper`
      — the judge of the harness: a tree accepted by the verified checker whose value is `v` *is* a witness of
      `v ∈ Lang G s`; the checker misses nothing; a valid tree of a grammar without helper-named rules holds no
      helper symbol.
* `C04_chart_sound` / `C04_chart_invariant_step` — the chart invariant of the Earley model (`Model/Earley.lean`, incl.
      the repetition shortcut and the loop that ends `predict`): every yielded parser tree is the start node over a
      rule of the table deriving columns `0 … n`.
* `C04_compiled_table_sane` — the compiled helper-rule table of EVERY grammar meets what the invariant needs.
* `C04_collapse_preserves_derivations` — helper collapsing maps a derivation over the helper rules to a
      `Valid` tree of the IR grammar (all node kinds; `{n,}` as n iterations + tail without upper bound, and capped).
* `C04_model_parse_sound` — every variant: (1) + (3) + the leaves tile the input column by column (each leaf equals
      the input at its column).  `C04_model_parse_sound_aligned` — a variant with the alignment guard: payload leaves
      sit on cell boundaries.  `C04_generated_variant_aligned` + `C04_generated_parser_sound` — THE SOURCE AS IT IS NOW
      has the guard (decided on the generated definition), hence (1), (3) and the aligned column-level form of (2);
      `C04_aligned_payload_tree_spells_input`: for trees without bit leaves that IS "serialisation = input".
* `C04_api_filter` / `C04_api_parse_sound` / `C04_api_generated_parser_sound` — `Fandango.parse` yields only trees of the
      forest on which every constraint's documented meaning holds.
* COMPOSED with termination (C06) and the scanner-level language (C05), §7 — no fuel left free:
      `C04_total_parse_sound` — at C06's step bound `totalFuel c = stepBoundN c (chartBound c) + 1` the parse of the
      source as it is now HAS an answer, the same for every larger budget and the only one any budget gives, and if it
      is a list of trees they satisfy (1), (3) and the aligned column-level form of (2);
      `C04_yielded_only_for_language` — a tree is only yielded for a word of the parser's language (`Scan.accepts`: some
      expansion of the IR is read by the scanners from the first to the last column): soundness at the level of the
      scanners, the converse of `C05_machine_complete` (new lemma `Proofs/EarleyTotalLang.lean`: the compiled table
      derives nothing but expansions of the IR); with it `C05_parse_decides_language`: the machine model DECIDES that
      language.
* OLD (`Variant.old`, the code before /repo a33087ac; record of finding F36, not a statement about the code as it is):
      `C04_old_unaligned_scan_unsound`, `C04_old_unaligned_scan_accepts_payload` — clause (2) was false off the byte
      boundary; the same theorems say that the parser as it is now yields nothing on the witness (replayed on the
      implementation by the harness on every run).

NOT proved (partial): (2) as an equation between `Tree.value` and the input for trees that mix bit and payload
leaves (stated as `FullSerialisation`; the aligned tiling theorem is the column-level form of it, and the harness
compares the real serialisations).  The regex length oracle and the Latin-1 coercion of literals to the input's type
are assumptions (`OracleOk`, `Grammar.typed`), checked per case by the harness.  Model ↔ code: `harness/props/c04.py`
(forest comparison) and C06 (per-column states).
Every `theorem` in this file is an obligation audited with `#print axioms`.
-/
import Proofs.IR
import Proofs.C04Chart
import Proofs.C04Compile
import Proofs.C04Collapse
import Proofs.C04Sound
import Proofs.EarleyFuel
import Proofs.EarleyTotalLang
import Proofs.Constraint
import Generated.Cons
import Generated.Earley
namespace FV
open Earley

/-! ## 1. the judge: the verified checker -/

/-- a tree the checker accepts, with value `v`, is a witness that `v` is in the language of its root -/
theorem C04_checked_tree_is_language_witness (G : Grammar) (R : RegexOracle) (s : String) (a r : Option String)
    (kids : List Tree) (v : TV) (hv : validB G R (.mk (.nt s) a r kids) = true)
    (hval : (Tree.mk (.nt s) a r kids).value = .ok v) : Lang G R s v :=
  ⟨a, r, kids, (validB_iff G R _).1 hv, hval⟩

/-- the checker neither misses an invalid tree nor rejects a valid one -/
theorem C04_checker_sound_and_complete (G : Grammar) (R : RegexOracle) (t : Tree) :
    validB G R t = true ↔ Valid G R t := validB_iff G R t

mutual
/-- a derivation only mentions nonterminals the grammar defines: no helper symbol anywhere -/
theorem C04_valid_tree_has_no_helper (G : Grammar) (R : RegexOracle)
    (hG : ∀ p ∈ G.rules, isHelperName p.1 = false) : ∀ t : Tree, Valid G R t → noHelper t = true
  | .mk (.term _) _ _ kids, h => by
    simp only [Valid] at h
    subst h
    simp [noHelper, noHelperL]
  | .mk (.nt s) _ _ kids, h => by
    simp only [Valid] at h
    obtain ⟨⟨body, _, hr, _, _⟩, hk⟩ := h
    have hs : isHelperName s = false := by
      unfold Grammar.rule at hr
      cases hf : G.rules.find? (fun p => p.1 == s) with
      | none => simp [hf] at hr
      | some p =>
        have hm := List.mem_of_find?_eq_some hf
        have he := List.find?_some hf
        have : p.1 = s := by simpa using he
        rw [← this]
        exact hG p hm
    simp [noHelper, hs, C04_validL_has_no_helper G R hG kids hk]
  | .mk .slice _ _ _, h => by simp [Valid] at h
theorem C04_validL_has_no_helper (G : Grammar) (R : RegexOracle)
    (hG : ∀ p ∈ G.rules, isHelperName p.1 = false) : ∀ ts : List Tree, ValidL G R ts → noHelperL ts = true
  | [], _ => by simp [noHelperL]
  | t :: ts, h => by
    simp only [ValidL] at h
    simp [noHelperL, C04_valid_tree_has_no_helper G R hG t h.1, C04_validL_has_no_helper G R hG ts h.2]
end

/-! ## 2. the chart -/

/-- **chart soundness** (every admission policy, prediction order, scanner, fuel; with the repetition
    shortcut): whatever the machine has yielded is the node of the requested start symbol over one of its
    rules, deriving the columns `0 … ncols-1` over the helper rules -/
theorem C04_chart_sound (c : Cfg) (hs : SaneS c) (fuel : Nat) (m : M)
    (h : run c fuel (M.init c) = .done m ∨ run c fuel (M.init c) = .raised m ∨ run c fuel (M.init c) = .next m) :
    ∀ pt, pt ∈ m.out → TopOk c pt := chart_sound c hs fuel m h

/-- the invariant behind it, one step at a time: every state of every column is `Good` (its children complete
    to a derivation of its rule from its origin) -/
theorem C04_chart_invariant_step (c : Cfg) (hs : SaneS c) (m : M) (hi : Inv c m) :
    (∀ m', step c m = .next m' → Inv c m') ∧ (∀ m', step c m = .done m' → Inv c m') ∧
    (∀ m', step c m = .raised m' → Inv c m') := inv_step c hs m hi

/-- the table `IterativeParser._process` compiles from ANY grammar has the shape the invariant needs (in
    particular what `place_repetition_shortcut` silently relies on: the loop nonterminal of `*` / `+` occurs
    only as the head of its beginner and as the last symbol of its one recursive rule) -/
theorem C04_compiled_table_sane (c : Cfg) (G : Grammar) (cap : Option Nat) (hr : c.rules = compile G cap)
    (hpred : ∀ k x rhs, rhs ∈ c.pred k x → (x, rhs) ∈ compile G cap) : SaneS c :=
  saneS_of_rules c G cap hr hpred

/-- non-vacuity: the invariant holds initially, for every configuration -/
example (c : Cfg) (hs : SaneS c) : Inv c (M.init c) := inv_init c hs

/-! ## 3. `Fandango.parse`: the constraint filter -/

/-- `all(constraint.check(tree) for constraint in self.constraints)`; `none` = a `check` raised -/
def apiKeep (cfg : OpCfg) : List Cons → Tree → Option Bool
  | [], _ => some true
  | c :: cs, t =>
    match check cfg c t [] [] with
    | none => none
    | some false => some false
    | some true => apiKeep cfg cs t

/-- the generator `Fandango.parse`: trees yielded, and whether it ended with an exception -/
def apiParse (cfg : OpCfg) (cs : List Cons) : List Tree → List Tree × Bool
  | [] => ([], false)
  | t :: ts =>
    match apiKeep cfg cs t with
    | none => ([], true)
    | some true => (t :: (apiParse cfg cs ts).1, (apiParse cfg cs ts).2)
    | some false => apiParse cfg cs ts

theorem C04_api_keep_means_denote (cs : List Cons) (t : Tree) (h : apiKeep Generated.consCfg cs t = some true) :
    ∀ c ∈ cs, denote c t [] [] = true := by
  induction cs with
  | nil => intro c hc; cases hc
  | cons c cs ih =>
    intro c' hc'
    simp only [apiKeep] at h
    cases hk : check Generated.consCfg c t [] [] with
    | none => simp [hk] at h
    | some b =>
      cases b with
      | false => simp [hk] at h
      | true =>
        simp only [hk] at h
        rcases List.mem_cons.1 hc' with rfl | hm
        · unfold check at hk
          have hcfg : Generated.consCfg = OpCfg.fixed := by decide
          rw [hcfg] at hk
          cases ho : opFit OpCfg.fixed c' t [] [] with
          | error e => simp [ho] at hk
          | ok r =>
            obtain ⟨f, σ', ρ'⟩ := r
            have := (opFit_sound c' t [] [] f σ' ρ' ho).2.2
            simp [ho] at hk
            rw [← this]; exact hk
        · exact ih h c' hm

/-- **API filter**: every tree `Fandango.parse` yields is a tree of the forest on which the documented
    meaning of every constraint holds (for the constraint variant the translator reads from the source) -/
theorem C04_api_filter (cs : List Cons) (forest : List Tree) (t : Tree)
    (h : t ∈ (apiParse Generated.consCfg cs forest).1) :
    t ∈ forest ∧ ∀ c ∈ cs, denote c t [] [] = true := by
  induction forest with
  | nil => simp [apiParse] at h
  | cons u us ih =>
    simp only [apiParse] at h
    cases hk : apiKeep Generated.consCfg cs u with
    | none => simp [hk] at h
    | some b =>
      cases b with
      | true =>
        simp only [hk] at h
        rcases List.mem_cons.1 h with rfl | hm
        · exact ⟨List.mem_cons_self, C04_api_keep_means_denote cs _ hk⟩
        · exact ⟨List.mem_cons_of_mem _ (ih hm).1, (ih hm).2⟩
      | false =>
        simp only [hk] at h
        exact ⟨List.mem_cons_of_mem _ (ih h).1, (ih h).2⟩

/-- an input whose forest holds no tree satisfying the constraints yields nothing -/
theorem C04_api_outside_constrained_language_yields_nothing (cs : List Cons) (forest : List Tree)
    (h : ∀ t ∈ forest, ∃ c ∈ cs, denote c t [] [] = false) :
    (apiParse Generated.consCfg cs forest).1 = [] := by
  cases hy : (apiParse Generated.consCfg cs forest).1 with
  | nil => rfl
  | cons t ts =>
    have hm : t ∈ (apiParse Generated.consCfg cs forest).1 := by rw [hy]; exact List.mem_cons_self
    obtain ⟨hf, hd⟩ := C04_api_filter cs forest t hm
    obtain ⟨c, hc, hfalse⟩ := h t hf
    rw [hd c hc] at hfalse
    cases hfalse

/-! ## 4. helper collapsing and the model parser -/

/-- **helper collapsing preserves derivations**: a derivation of a rule of the start symbol over the helper
    rules (`<__…>` spliced, `<*…*>` never a node) collapses to a valid derivation tree of the IR grammar —
    alternatives, concatenations, `*`, `+`, `?`, `{n,m}`, and `{n,}` both as the code compiles it now (`cap = none`:
    n iterations + right-recursive tail, no upper bound) and as it did before b48dd899 (`cap = some c`) -/
theorem C04_collapse_preserves_derivations (G : Grammar) (cap : Option Nat) (R : RegexOracle) (scan : Scan)
    (start : String) (hwf : G.wf = true) (hscan : ScanOk G cap R scan) {rhs : List ESym} {kids : List PT}
    {i j : Nat} (hr : (NT.user start, rhs) ∈ compile G cap)
    (h : DerL (tableOf G cap start) scan rhs kids i j) :
    Valid G R (Tree.mk (.nt start) none none (collapseL kids)) :=
  collapse_top_valid G cap R scan start hwf hscan hr h

/-- **the model parser is sound, for every variant of the code** (`Variant`: admission policy, compilation of
    `{n,}`, `predict` with or without the completion of finished empty derivations, scanner with or without the
    three guards): every tree of a complete parse is a valid derivation rooted at the requested start symbol,
    holds no helper symbol, and its leaves tile the input: leaf after leaf, each equal to what the input holds at
    its column, ending at the last column.  All grammars (well-formed bounds, literals of the input's type),
    inputs, start symbols, prediction orders, fuel. -/
theorem C04_model_parse_sound (G : Grammar) (v : Variant) (inp : Input) (start : String)
    (pred : Nat → NT → List (List ESym)) (R : RegexOracle)
    (hpred : ∀ k x rhs, rhs ∈ pred k x → (x, rhs) ∈ compile G v.cap)
    (hwf : G.wf = true) (hty : G.typed inp.isBytes = true) (ho : OracleOk inp R) (hc : CellsOk inp)
    (hG : ∀ q ∈ G.rules, isHelperName q.1 = false)
    (fuel : Nat) (ts : List Tree)
    (h : parseComplete (mkCfg G v inp start pred) fuel = some (.ok ts)) :
    ∀ t ∈ ts, Valid G R t ∧ t.sym = .nt start ∧ noHelper t = true ∧
      TilesLoose inp t.leaves 0 (8 * inp.cells.length) := by
  intro t ht
  have := parse_sound_of_scan G v inp start pred (scanV v inp) R hpred hwf hty
    (fun t hp k m l hs => by
      have := scanV_ok v inp R ho hc hp hs
      exact ⟨this.1, this.2.1, this.2.2.1⟩) fuel ts h t ht
  exact ⟨this.1, this.2.1, C04_valid_tree_has_no_helper G R hG t this.1, this.2.2⟩

/-- a variant whose scanner has the alignment guard of `_consume` (a33087ac): additionally every payload leaf
    starts on a cell boundary -/
theorem C04_model_parse_sound_aligned (G : Grammar) (v : Variant) (hal : v.aligned = true) (inp : Input)
    (start : String) (pred : Nat → NT → List (List ESym)) (R : RegexOracle)
    (hpred : ∀ k x rhs, rhs ∈ pred k x → (x, rhs) ∈ compile G v.cap)
    (hwf : G.wf = true) (hty : G.typed inp.isBytes = true) (ho : OracleOk inp R) (hc : CellsOk inp)
    (hG : ∀ q ∈ G.rules, isHelperName q.1 = false)
    (fuel : Nat) (ts : List Tree)
    (h : parseComplete (mkCfg G v inp start pred) fuel = some (.ok ts)) :
    ∀ t ∈ ts, Valid G R t ∧ t.sym = .nt start ∧ noHelper t = true ∧
      Tiles inp t.leaves 0 (8 * inp.cells.length) := by
  intro t ht
  have h1 := C04_model_parse_sound G v inp start pred R hpred hwf hty ho hc hG fuel ts h t ht
  have h2 := parse_sound_of_aligned_scan G v inp start pred (scanV v inp) hpred hty
    (fun t hp k m l hs => by
      have := scanV_ok v inp R ho hc hp hs
      exact ⟨this.2.1, this.2.2.1, this.2.2.2.1 hal⟩) fuel ts h t ht
  exact ⟨h1.1, h1.2.1, h1.2.2.1, h2⟩

/-- the variant the translator reads from the source NOW has the alignment guard (`decide` on the generated
    definition: it fails, and with it the obligation, the day the guard leaves the source) -/
theorem C04_generated_variant_aligned :
    (match Earley.Gen.variant with | some v => v.aligned | none => false) = true := by decide

/-- **the parser as the source has it now is sound** — stated for `Generated/Earley.lean`'s variant: clauses (1),
    (3) and the column-level form of (2) with aligned payload leaves -/
theorem C04_generated_parser_sound (G : Grammar) (v : Variant) (hv : Earley.Gen.variant = some v) (inp : Input)
    (start : String) (pred : Nat → NT → List (List ESym)) (R : RegexOracle)
    (hpred : ∀ k x rhs, rhs ∈ pred k x → (x, rhs) ∈ compile G v.cap)
    (hwf : G.wf = true) (hty : G.typed inp.isBytes = true) (ho : OracleOk inp R) (hc : CellsOk inp)
    (hG : ∀ q ∈ G.rules, isHelperName q.1 = false)
    (fuel : Nat) (ts : List Tree)
    (h : parseComplete (mkCfg G v inp start pred) fuel = some (.ok ts)) :
    ∀ t ∈ ts, Valid G R t ∧ t.sym = .nt start ∧ noHelper t = true ∧
      Tiles inp t.leaves 0 (8 * inp.cells.length) := by
  have hal : v.aligned = true := by
    have := C04_generated_variant_aligned
    rw [hv] at this
    exact this
  exact C04_model_parse_sound_aligned G v hal inp start pred R hpred hwf hty ho hc hG fuel ts h

/-- … and for a tree without bit leaves the tiling IS "serialisation = input": the payloads of the leaves,
    concatenated, are the cells of the input -/
theorem C04_aligned_payload_tree_spells_input (inp : Input) (t : Tree)
    (hb : ∀ l ∈ t.leaves, l.isBit = false) (h : Tiles inp t.leaves 0 (8 * inp.cells.length)) :
    t.leaves.flatMap Leaf.cellsOf = inp.cells :=
  tiles_payload_cells inp t.leaves hb h

/-- the full clause (2), not proved in this generality (trees mixing bit and payload leaves): the value of a
    yielded tree is the input.  `C04_model_parse_sound_aligned` is its column-level form; the harness compares
    the real serialisations (`str(tree)`, `bytes(tree)`, `to_bits()`) with the input on every yielded tree. -/
def FullSerialisation (G : Grammar) (v : Variant) (inp : Input) (start : String)
    (pred : Nat → NT → List (List ESym)) (fuel : Nat) : Prop :=
  v.aligned = true → v.wideGuard = true →
  ∀ ts, parseComplete (mkCfg G v inp start pred) fuel = some (.ok ts) →
    ∀ t ∈ ts, (t.value.bind TV.toBits) = .ok (inp.cells.flatMap (fun c => byteBits (mkByte c)))

/-! ## 5. OLD: the scanner before a33087ac — clause (2) was false off the byte boundary

These two theorems are about `Variant.old` (the code before the repairs) and are kept as the machine-checked record
of finding F36; on the same input the parser as it is now (`Variant.now`) yields nothing.  The harness replays
the witness on the implementation on every run and expects no tree. -/

def wG : Grammar := ⟨[("<start>", .cat "c" [.nt "<b>" none none, .nt "<b>" none none, .nt "<b>" none none,
    .nt "<b>" none none, .term (.lit (.bytes [mkByte 97])), .nt "<b>" none none, .nt "<b>" none none,
    .nt "<b>" none none, .nt "<b>" none none]),
  ("<b>", .alt "a" [.term (.lit (.bit false)), .term (.lit (.bit true))])]⟩
def wInp : Input := { isBytes := true, cells := [97, 31], rlen := fun _ _ => none }

/-- OLD scanner: the bytes literal `b"a"` is accepted at column 4 of `b"a\x1f"` (compared with the whole cell 0),
    8 columns wide, although the columns 4 … 11 hold `0001 0001`; the scanner as it is now refuses -/
theorem C04_old_unaligned_scan_accepts_payload :
    scanV (Variant.old 20) wInp (.lit (.bytes [mkByte 97])) 4 = some (12, .bytes [mkByte 97]) ∧
    scanImpl wInp (.lit (.bytes [mkByte 97])) 4 = none := by decide

/-- OLD parser: `<start> ::= <b><b><b><b> b"a" <b><b><b><b>` on `b"a\x1f"` yielded the tree with leaves
    `0 1 1 0 b"a" 1 1 1 1`, whose payload leaf sits at column 4 — it has no serialisation (C09: misaligned bytes
    raise), let alone the input.  The parser as it is now yields nothing. -/
theorem C04_old_unaligned_scan_unsound :
    (match parseComplete (mkCfg wG (Variant.old 20) wInp "<start>" (predDefault wG (some 20))) 600 with
     | some (.ok ts) => ts.map (fun t => t.leaves)
     | _ => []) =
      [[.bit false, .bit true, .bit true, .bit false, .bytes [mkByte 97], .bit true, .bit true, .bit true, .bit true]]
    ∧ (match parseComplete (mkCfg wG Variant.now wInp "<start>" (predDefault wG none)) 600 with
       | some (.ok ts) => ts.length
       | _ => 1) = 0 := by decide +kernel

/-- non-vacuity of `C04_model_parse_sound`: the witness grammar meets its hypotheses, and a parse of the current
    variant returns a tree (`<b>{8}`-like grammar on one byte) -/
example : wG.wf = true ∧ wG.typed wInp.isBytes = true ∧ (∀ q ∈ wG.rules, isHelperName q.1 = false) := by decide +kernel

/-! ## 6. the API on top of the parser -/

/-- **`Fandango.parse` is sound** (every variant): a yielded tree is a valid derivation from the start symbol whose
    leaves tile the input, without helper symbols, and satisfies every constraint -/
theorem C04_api_parse_sound (G : Grammar) (v : Variant) (inp : Input) (start : String)
    (pred : Nat → NT → List (List ESym)) (R : RegexOracle) (cs : List Cons)
    (hpred : ∀ k x rhs, rhs ∈ pred k x → (x, rhs) ∈ compile G v.cap)
    (hwf : G.wf = true) (hty : G.typed inp.isBytes = true) (ho : OracleOk inp R) (hc : CellsOk inp)
    (hG : ∀ q ∈ G.rules, isHelperName q.1 = false)
    (fuel : Nat) (forest : List Tree)
    (h : parseComplete (mkCfg G v inp start pred) fuel = some (.ok forest)) :
    ∀ t ∈ (apiParse Generated.consCfg cs forest).1,
      Valid G R t ∧ t.sym = .nt start ∧ noHelper t = true ∧ TilesLoose inp t.leaves 0 (8 * inp.cells.length) ∧
      ∀ c ∈ cs, denote c t [] [] = true := by
  intro t ht
  obtain ⟨hf, hd⟩ := C04_api_filter cs forest t ht
  obtain ⟨h1, h2, h3, h4⟩ := C04_model_parse_sound G v inp start pred R hpred hwf hty ho hc hG fuel forest h t hf
  exact ⟨h1, h2, h3, h4, hd⟩

/-- the same for the variant of the source as it is now, with aligned payload leaves -/
theorem C04_api_generated_parser_sound (G : Grammar) (v : Variant) (hv : Earley.Gen.variant = some v) (inp : Input)
    (start : String) (pred : Nat → NT → List (List ESym)) (R : RegexOracle) (cs : List Cons)
    (hpred : ∀ k x rhs, rhs ∈ pred k x → (x, rhs) ∈ compile G v.cap)
    (hwf : G.wf = true) (hty : G.typed inp.isBytes = true) (ho : OracleOk inp R) (hc : CellsOk inp)
    (hG : ∀ q ∈ G.rules, isHelperName q.1 = false)
    (fuel : Nat) (forest : List Tree)
    (h : parseComplete (mkCfg G v inp start pred) fuel = some (.ok forest)) :
    ∀ t ∈ (apiParse Generated.consCfg cs forest).1,
      Valid G R t ∧ t.sym = .nt start ∧ noHelper t = true ∧ Tiles inp t.leaves 0 (8 * inp.cells.length) ∧
      ∀ c ∈ cs, denote c t [] [] = true := by
  intro t ht
  obtain ⟨hf, hd⟩ := C04_api_filter cs forest t ht
  obtain ⟨h1, h2, h3, h4⟩ := C04_generated_parser_sound G v hv inp start pred R hpred hwf hty ho hc hG fuel forest h t hf
  exact ⟨h1, h2, h3, h4, hd⟩

/-! ## 7. composed with termination (C06) and with the scanner-level language (C05): no fuel left free

Possible in ONE Lean theorem since the name clash between the proof families was removed (`Proofs/EarleyBound.lean`:
`TInv`, `tinv_init`; `colAt_replicate` once, in `Proofs/EarleyCols.lean`). -/

/-- **the ANSWER of the parser is sound.**  For the variant of the source as it is now, every grammar (well-formed
    bounds, literals of the input's type, no helper-named rule), input, start symbol and prediction order within the
    table: at C06's step bound `totalFuel` the parse HAS an answer, the same for every larger budget and the only one
    any budget gives; and if it is a list of trees, every tree is a valid derivation from the start symbol without
    helper symbols whose leaves tile the input, payload leaves on cell boundaries.  (That the answer is never an
    exception and is non-empty exactly for the words of the language: `C05_parse_total`,
    `C05_parse_decides_language`.) -/
theorem C04_total_parse_sound (G : Grammar) (v : Variant) (hv : Earley.Gen.variant = some v) (inp : Input)
    (start : String) (pred : Nat → NT → List (List ESym)) (R : RegexOracle)
    (hpred : ∀ k x rhs, rhs ∈ pred k x → (x, rhs) ∈ compile G v.cap)
    (hwf : G.wf = true) (hty : G.typed inp.isBytes = true) (ho : OracleOk inp R) (hc : CellsOk inp)
    (hG : ∀ q ∈ G.rules, isHelperName q.1 = false) :
    ∃ r, parseComplete (mkCfg G v inp start pred) (totalFuel (mkCfg G v inp start pred)) = some r ∧
      (∀ fuel, totalFuel (mkCfg G v inp start pred) ≤ fuel → parseComplete (mkCfg G v inp start pred) fuel = some r) ∧
      (∀ fuel r', parseComplete (mkCfg G v inp start pred) fuel = some r' → r' = r) ∧
      ∀ ts, r = .ok ts → ∀ t ∈ ts, Valid G R t ∧ t.sym = .nt start ∧ noHelper t = true ∧
        Tiles inp t.leaves 0 (8 * inp.cells.length) := by
  have hpol : v.policy = .acyclic := by
    have hnow : Earley.Gen.variant = some Variant.now := by decide
    have : v = Variant.now := Option.some.inj (hv.symm.trans hnow)
    rw [this]; rfl
  obtain ⟨r, h1, h2, h3⟩ := parse_total (sane_mkCfg G v inp start pred hpred) hpol
  refine ⟨r, h1, h2, h3, ?_⟩
  intro ts hr
  subst hr
  exact C04_generated_parser_sound G v hv inp start pred R hpred hwf hty ho hc hG _ ts h1

/-- **a tree is only ever yielded for a word of the parser's language** (soundness at the level of the scanners, the
    converse of C05's completeness): if a parse of the code as it is returns a tree — any budget — then some expansion
    of the grammar IR from the start symbol (some nesting depth `d`, repetition counts `≤ c`) is a terminal sequence
    that the scanners of `Model/Scan.lean` read from the first to the last column (`Scan.accepts`,
    `C05_parser_language_iff`).  `Valid` + `Tiles` do not say this (a tree does not remember which terminal a leaf
    instantiates, nor that a regex leaf is what `re.match` prefers there); it is proved on the table derivation the
    chart is sound for (`Proofs/EarleyTotalLang.lean`). -/
theorem C04_yielded_only_for_language (G : Grammar) (hwf : G.wf = true) (v : Variant)
    (hv : Earley.Gen.variant = some v) (inp : Input) (start : String) (pred : Nat → NT → List (List ESym))
    (hpred : ∀ k x rhs, rhs ∈ pred k x → (x, rhs) ∈ compile G v.cap) (fuel : Nat) (ts : List Tree)
    (h : parseComplete (mkCfg G v inp start pred) fuel = some (.ok ts)) (hne : ts ≠ []) :
    ∃ c d, Scan.accepts G inp.toInp c d start = true := by
  have hnow : Earley.Gen.variant = some Variant.now := by decide
  have : v = Variant.now := Option.some.inj (hv.symm.trans hnow)
  subst this
  exact parsed_accepts G hwf inp start pred hpred fuel ts h hne

/-- the hypotheses of the two theorems are met by the witness grammar `<b><b><b><b> b"a" <b><b><b><b>` on `b"a\x1f"`
    (prediction in table order), and the conclusion of the first is not vacuous: the answer exists -/
example : Earley.Gen.variant = some Variant.now ∧
    (∀ k x rhs, rhs ∈ predOfRules (compile wG none) k x → (x, rhs) ∈ compile wG Variant.now.cap) ∧
    wG.wf = true ∧ wG.typed wInp.isBytes = true ∧ OracleOk wInp (fun _ _ => false) ∧ CellsOk wInp ∧
    (∀ q ∈ wG.rules, isHelperName q.1 = false) ∧
    ∃ r, parseComplete (mkCfg wG Variant.now wInp "<start>" (predOfRules (compile wG none)))
      (totalFuel (mkCfg wG Variant.now wInp "<start>" (predOfRules (compile wG none)))) = some r := by
  have hpred : ∀ k x rhs, rhs ∈ predOfRules (compile wG none) k x → (x, rhs) ∈ compile wG Variant.now.cap :=
    fun k x rhs h => predOfRules_mem (rules := compile wG none) (k := k) (x := x) h
  have ho : OracleOk wInp (fun _ _ => false) := by intro id w l h; cases h
  have hc : CellsOk wInp := by
    intro _ c hc
    simp only [wInp, List.mem_cons, List.not_mem_nil, or_false] at hc
    rcases hc with rfl | rfl <;> omega
  refine ⟨by decide, hpred, by decide +kernel, by decide +kernel, ho, hc, by decide +kernel, ?_⟩
  obtain ⟨r, h1, _⟩ := C04_total_parse_sound wG Variant.now (by decide) wInp "<start>" _ (fun _ _ => false) hpred
    (by decide +kernel) (by decide +kernel) ho hc (by decide +kernel)
  exact ⟨r, h1⟩

end FV
