/-
C05 — what Fandango generates, Fandango parses back (round trip).

Property theorems only.  Helper lemmas: `Proofs/Enum.lean`, `Proofs/Scan.lean`, `Proofs/RepCap.lean`, `Proofs/IR.lean`;
models: `Model/Enum.lean` (an enumerator of the language that follows nothing but the grammar), `Model/IR.lean`
(`Valid`, `Lang`), `Model/Scan.lean` (the scanners of `iterative_parser.py` as of 1ef12755 — one greedy `re.match`
length per regex scan, an empty match IS a match (179bde08), literals compared unit by unit, text/bytes/regex only
at byte boundaries (a33087ac), units above 0xFF have no bits (1ef12755) — and the language the parser is meant to
accept with them: `accepts`), `Model/RepCap.lean` (the generator's repetition cap).

FULL STATEMENT (`C05_RoundTrip acc`): for every grammar and every derivation `t` of a non-terminal `s`
(`DerNT`: a tree together with, per leaf, the regex terminal it instantiates) that is IN THE CLASS — `inClass`: the
decidable side condition "regex terminals cannot be split in more than one way between neighbours", made
precise: every leaf of the witness is exactly what ONE scan of its terminal reads at the column where the
serialised leaf starts — the parser accepts the serialised word (`acc`).  That the accepted word comes back as a
tree with the identical serialisation is C04's half (every yielded tree spells the input).

What is proved:
  * `C05_enum_sound` / `C05_enum_word_in_lang` / `C05_enum_checked` / `C05_enum_is_bounded_derivation`: every word
    the independent enumerator hands to the real parser comes with a machine-checked derivation witness
    (`Valid`, in `Lang`, `DerNT`, tags naming regexes that accept their leaves); `C05_enum_complete_bounded`:
    without truncation it lists every derivation within its bounds;
  * `C05_parser_language_iff`: the recogniser `accepts` (what the driver runs next to the real parser on every
    word) accepts exactly the words for which the grammar has an expansion that the scanners read from the
    first to the last column;
  * `C05_roundtrip_partial`: `C05_RoundTrip` holds with `acc := accepts` — PARTIAL because `accepts` is the
    language-level model of the parser (grammar + the code's scanners), not the Earley machine: that
    predict/complete/column bookkeeping (`Model/Earley.lean`, C04/C06) computes this language is NOT proved; it
    is checked on every run, both ways, by comparing `accepts` with the real `Fandango.parse` on every word;
  * `C05_untagged_in_class`: the walk the driver runs on trees of the real generator (which carry no tags) is
    conservative: it implies `inClass` for every tagging consistent with `re.fullmatch`;
  * current-code witnesses (`decide +kernel`, each replayed on /repo by the harness as a corner spec):
    `C05_empty_regex_parsed` (F10a repaired: `r"[0-9]*" "x"` reads "x"), `C05_regex_split_outside_class`
    (`r"[0-9]*" r"[0-9]+"` on "0": in `Lang`, witness not in the class — fails at a REGEX leaf — and rejected),
    `C05_nonascii_text_counterexample` (open finding F10b: `b"\xff" "é"` is written FF C3 A9, the witness fails
    at a LITERAL leaf, FF C3 A9 is rejected and FF E9 accepted);
  * the repetition cap (§5, `Model/RepCap.lean`): the generator caps every open-ended repetition at the
    grammar's current cap, the parser (since b48dd899) accepts the uncapped language.
    `C05_generated_within_language`, `C05_generator_cap_monotone`, `C05_open_repetition_parsed`.
-/
import Proofs.Enum
import Proofs.Scan
import Proofs.RepCap
import Proofs.IRFast
namespace FV
namespace Enum

/-! ## 1. the enumerator is sound: every enumerated tree is a derivation -/

/-- Every tree the enumerator lists is a derivation of the grammar from `s` (every inner node's children spell
    out one expansion of its rule, repetition counts within bounds), the children of its root `Matches` the
    rule of `s`, and the tags line up with the leaves and name regex terminals that accept them. -/
theorem C05_enum_sound (G : Grammar) (R : RegexOracle) (inst : Inst) (hI : InstOK R inst)
    (c : Nat) (lim : Option Nat) (rot d : Nat) (s : String) (t : Tree) (tags : List (Option Nat))
    (h : (t, tags) ∈ enumTrees G inst c lim rot d s) :
    Valid G R t ∧ t.sym = .nt s ∧
    (∃ body toks, G.rule s = some body ∧ toksOf t.kids = some toks ∧ Matches R body toks) ∧
    tagOK R t.leaves tags := by
  unfold enumTrees at h
  rw [List.mem_filterMap] at h
  obtain ⟨f, hf, hm⟩ := h
  obtain ⟨v, _, tg⟩ := enumNT_ok G R hI d s none none f hf
  -- the shape of what `enumNT` returns
  cases d with
  | zero => simp [enumNT] at hf
  | succ d =>
    simp only [enumNT] at hf
    cases hr : G.rule s with
    | none => simp [hr] at hf
    | some body =>
      simp only [hr, List.mem_map] at hf
      obtain ⟨g, _, rfl⟩ := hf
      simp only [Option.some.injEq, Prod.mk.injEq] at hm
      obtain ⟨rfl, rfl⟩ := hm
      simp only [ValidL, and_true] at v
      refine ⟨v, rfl, ?_, ?_⟩
      · simp only [Valid] at v
        obtain ⟨⟨body', toks, hb, ht, hmm⟩, _⟩ := v
        exact ⟨body', toks, by rw [← hr]; exact hb, ht, hmm⟩
      · simpa [Tree.leavesL] using tg

/-- the word of an enumerated tree is a word of the language of `s` -/
theorem C05_enum_word_in_lang (G : Grammar) (R : RegexOracle) (inst : Inst) (hI : InstOK R inst)
    (c : Nat) (lim : Option Nat) (rot d : Nat) (s : String) (t : Tree) (tags : List (Option Nat))
    (h : (t, tags) ∈ enumTrees G inst c lim rot d s) (v : TV) (hv : t.value = .ok v) : Lang G R s v := by
  obtain ⟨hval, hsym, _, _⟩ := C05_enum_sound G R inst hI c lim rot d s t tags h
  cases t with
  | mk sym a r kids =>
    simp only [Tree.sym] at hsym
    subst hsym
    exact ⟨a, r, kids, hval, hv⟩

/-- the verified checker agrees: the driver's `validB` on an enumerated tree can only answer `true` -/
theorem C05_enum_checked (G : Grammar) (R : RegexOracle) (inst : Inst) (hI : InstOK R inst)
    (c : Nat) (lim : Option Nat) (rot d : Nat) (s : String) (t : Tree) (tags : List (Option Nat))
    (h : (t, tags) ∈ enumTrees G inst c lim rot d s) : validB G R t = true :=
  (validB_iff G R t).mpr (C05_enum_sound G R inst hI c lim rot d s t tags h).1

/-! ## 1b. … and complete up to its bounds -/

/-- Without truncation (`lim = none`) the enumerator lists *every* bounded derivation: every tree that the
    declarative relation `DerNT` (depth `≤ d`, repetition counts `≤ c`, regex leaves from `inst`) derives from
    `s`, whatever the rotation.  So an exhaustive run hands every word of the bounded language to the parser. -/
theorem C05_enum_complete_bounded (G : Grammar) (inst : Inst) (c rot d : Nat) (s : String) (t : Tree)
    (tags : List (Option Nat)) (h : DerNT G inst c d s none none ([t], tags)) :
    (t, tags) ∈ enumTrees G inst c none rot d s := by
  unfold enumTrees
  rw [List.mem_filterMap]
  exact ⟨([t], tags), enumNT_complete G d s none none _ h, rfl⟩

/-- the declarative bounded derivations are derivations in the sense of `Valid` (via the enumerator) -/
theorem C05_bounded_derivation_valid (G : Grammar) (R : RegexOracle) (inst : Inst) (hI : InstOK R inst)
    (c d : Nat) (s : String) (t : Tree) (tags : List (Option Nat))
    (h : DerNT G inst c d s none none ([t], tags)) : Valid G R t ∧ tagOK R t.leaves tags := by
  have hm := C05_enum_complete_bounded G inst c 0 d s t tags h
  obtain ⟨h1, _, _, h4⟩ := C05_enum_sound G R inst hI c none 0 d s t tags hm
  exact ⟨h1, h4⟩

/-- everything the enumerator lists (with any truncation and rotation) is a bounded derivation `DerNT` -/
theorem C05_enum_is_bounded_derivation (G : Grammar) (inst : Inst) (c : Nat) (lim : Option Nat) (rot d : Nat)
    (s : String) (t : Tree) (tags : List (Option Nat)) (h : (t, tags) ∈ enumTrees G inst c lim rot d s) :
    DerNT G inst c d s none none ([t], tags) := by
  unfold enumTrees at h
  rw [List.mem_filterMap] at h
  obtain ⟨f, hf, hm⟩ := h
  have hd := Scan.enumNT_der G d s none none f hf
  obtain ⟨ts, tg⟩ := f
  cases ts with
  | nil => simp at hm
  | cons t' rest =>
    cases rest with
    | nil =>
      simp only [Option.some.injEq, Prod.mk.injEq] at hm
      obtain ⟨rfl, rfl⟩ := hm
      exact hd
    | cons _ _ => simp at hm

end Enum

/-! ## 2. the round trip -/

namespace Scan
open Enum

/-- THE FULL STATEMENT, for an acceptance function `acc G inp c d s` of the parser ("the parse of the word `inp`
    from `<s>` yields a tree"; `c`, `d`: bounds on repetition counts / nesting the parser may assume, the real
    parser has none): every derivation in the class is accepted. -/
def C05_RoundTrip (acc : Grammar → Inp → Nat → Nat → String → Bool) : Prop :=
  ∀ (G : Grammar) (inst : Inst) (c d c' d' : Nat) (s : String) (a r : Option String) (t : Tree)
    (tags : List (Option Nat)) (inp : Inp) (binary : Bool),
    DerNT G inst c d s a r ([t], tags) → c ≤ c' → d ≤ d' → inClass inp binary t.leaves tags = true →
    acc G inp c' d' s = true

/-- the parser-language model accepts exactly the words for which the grammar has an expansion (nesting `≤ d`,
    repetition counts `≤ c`) that the scanners of the code read from column 0 to the last column -/
theorem C05_parser_language_iff (G : Grammar) (inp : Inp) (c d : Nat) (s : String) :
    accepts G inp c d s = true ↔ ∃ w, ExpNT G c d s w ∧ scanAll inp w 0 = some inp.ncols :=
  accepts_iff G inp c d s

/-- a witness in the class is read by the scanners over the whole word -/
theorem C05_inClass_scanned (inp : Inp) (binary : Bool) (leaves : List Leaf) (tags : List (Option Nat))
    (h : inClass inp binary leaves tags = true) : scanAll inp (termsOf leaves tags) 0 = some inp.ncols := by
  simp only [inClass, Bool.and_eq_true, Option.isNone_iff_eq_none, beq_iff_eq] at h
  obtain ⟨n, hn, hs⟩ := firstFail_scanAll inp binary leaves tags 0 0 h.1
  rw [h.2, Option.some.injEq] at hn
  simpa [hn] using hs

/-- THE ROUND TRIP for the parser-language model (partial: see the header — the Earley machine is tied to
    `accepts` by the differential check, not by proof). -/
theorem C05_roundtrip_partial : C05_RoundTrip accepts := by
  intro G inst c d c' d' s a r t tags inp binary hder hc hd hin
  obtain ⟨hexp, _⟩ := derNT_exp G hc d d' hd s a r ([t], tags) hder
  have e : fterms ([t], tags) = termsOf t.leaves tags := by simp [fterms, Tree.leavesL]
  rw [e] at hexp
  exact (accepts_iff G inp c' d' s).mpr ⟨_, hexp, C05_inClass_scanned inp binary t.leaves tags hin⟩

/-- … in particular for everything the enumerator hands to the real parser -/
theorem C05_roundtrip_enumerated_partial (G : Grammar) (inst : Inst) (c : Nat) (lim : Option Nat) (rot d : Nat)
    (s : String) (t : Tree) (tags : List (Option Nat)) (h : (t, tags) ∈ enumTrees G inst c lim rot d s)
    (c' d' : Nat) (hc : c ≤ c') (hd : d ≤ d') (inp : Inp) (binary : Bool)
    (hin : inClass inp binary t.leaves tags = true) : accepts G inp c' d' s = true :=
  C05_roundtrip_partial G inst c d c' d' s none none t tags inp binary
    (C05_enum_is_bounded_derivation G inst c lim rot d s t tags h) hc hd hin

/-- trees of the real generator carry no tags: the walk without tags (`firstFailU`, run by the driver with
    `re.fullmatch` as `full`) implies the side condition for every tagging that only names regexes matching
    their leaf as a whole -/
theorem C05_untagged_in_class (inp : Inp) (binary : Bool) (full : Nat → Leaf → Bool) (ids : List Nat)
    (leaves : List Leaf) (tags : List (Option Nat))
    (h : firstFailU inp binary full ids leaves 0 0 = none) (hl : lenSum binary leaves = some inp.ncols)
    (ht : TagsIn full ids leaves tags) : inClass inp binary leaves tags = true := by
  simp only [inClass, Bool.and_eq_true, Option.isNone_iff_eq_none, beq_iff_eq]
  exact ⟨firstFailU_firstFail inp binary full ids leaves tags 0 0 h ht, hl⟩

/-! ## 3. non-vacuity -/

/-- greedy digit run at unit `w` (`re.match(r"[0-9]*", word[w:])`) -/
def digitRun (cells : List Nat) (w : Nat) : Nat := ((cells.drop w).takeWhile (fun c => 48 ≤ c && c ≤ 57)).length

/-- regex 0 = `[0-9]*`, regex 1 = `[0-9]+` -/
def digitsInp (cells : List Nat) : Inp :=
  ⟨cells, fun id w => if id = 0 then some (digitRun cells w)
                      else if id = 1 then (if digitRun cells w = 0 then none else some (digitRun cells w)) else none⟩

end Scan

namespace Enum

/-- `<start> ::= r"[0-9]*" "x"{1,2}` with the regex instances "", "12" -/
def exG : Grammar := ⟨[("<start>", .cat "c0" [.term (.regex 0),
  .rep "r0" .braces (.term (.lit (.text [120]))) 1 (some 2)])]⟩
def exInst : Inst := fun id => if id = 0 then [.text [], .text [49, 50]] else []
def exR : RegexOracle := fun id l => id == 0 && (match l with
  | .text s => s.all (fun c => 48 ≤ c && c ≤ 57)
  | _ => false)

/-- the enumerator lists the four words "x", "xx", "12x", "12xx" with their witnesses; the first has an
    empty regex leaf followed by another symbol -/
theorem C05_enum_example :
    InstOK exR exInst ∧
    (enumTrees exG exInst 3 (some 100) 0 2 "<start>").length = 4 ∧
    (enumTrees exG exInst 3 (some 100) 0 2 "<start>").map (fun p => (p.1.leaves, p.2)) =
      [([.text [], .text [120]], [some 0, none]),
       ([.text [], .text [120], .text [120]], [some 0, none, none]),
       ([.text [49, 50], .text [120]], [some 0, none]),
       ([.text [49, 50], .text [120], .text [120]], [some 0, none, none])] ∧
    (enumTrees exG exInst 3 (some 100) 0 2 "<start>").all (fun p => validB exG exR p.1) = true := by
  refine ⟨?_, by decide +kernel, by decide +kernel, by decide +kernel⟩
  intro id l hl
  simp only [exInst] at hl
  split at hl
  · subst id
    simp only [List.mem_cons, List.not_mem_nil, or_false] at hl
    rcases hl with rfl | rfl <;> decide
  · simp at hl

/-- non-vacuity of `C05_enum_complete_bounded` and of the hypotheses of `C05_roundtrip_partial`: "12xx" has a
    bounded derivation -/
theorem C05_complete_example :
    DerNT exG exInst 3 2 "<start>" none none
      ([Tree.node "<start>" [Tree.leaf (.text [49, 50]), Tree.leaf (.text [120]), Tree.leaf (.text [120])]],
       [some 0, none, none]) := by
  refine ⟨_, ([Tree.leaf (.text [49, 50]), Tree.leaf (.text [120]), Tree.leaf (.text [120])],
    [some 0, none, none]), rfl, ?_, rfl⟩
  simp only [DerWith, DerCat]
  refine ⟨([Tree.leaf (.text [49, 50])], [some 0]), ([Tree.leaf (.text [120]), Tree.leaf (.text [120])], [none, none]),
    ⟨.text [49, 50], by simp [exInst], rfl⟩, ?_, rfl⟩
  refine ⟨([Tree.leaf (.text [120]), Tree.leaf (.text [120])], [none, none]), ([], []),
    ⟨2, by omega, by decide, ?_⟩, rfl, rfl⟩
  simp only [PowR]
  exact ⟨([Tree.leaf (.text [120])], [none]), ([Tree.leaf (.text [120])], [none]), rfl,
    ⟨([Tree.leaf (.text [120])], [none]), ([], []), rfl, rfl, rfl⟩, rfl⟩

end Enum

namespace Scan
open Enum

/-- the witness of "12xx" is in the class and the model accepts the word; `inClass` separates: the witness
    "1"·"2" of "12" for `r"[0-9]*" r"[0-9]*"` is not in the class (the first regex reads both digits), and it
    fails at leaf 0, a regex leaf; the tag-free walk (hypothesis of `C05_untagged_in_class`) agrees on both -/
theorem C05_inClass_example :
    inClass (digitsInp [49, 50, 120, 120]) false [.text [49, 50], .text [120], .text [120]] [some 0, none, none] = true ∧
    accepts exG (digitsInp [49, 50, 120, 120]) 3 2 "<start>" = true ∧
    accepts exG (digitsInp [49, 50, 120, 120, 120]) 3 2 "<start>" = false ∧
    firstFail (digitsInp [49, 50]) false [.text [49], .text [50]] [some 0, some 0] 0 0 = some (0, true) ∧
    firstFailU (digitsInp [49, 50, 120, 120]) false exR [0] [.text [49, 50], .text [120], .text [120]] 0 0 = none ∧
    firstFailU (digitsInp [49, 50]) false exR [0] [.text [49], .text [50]] 0 0 = some (0, true) := by
  refine ⟨by decide +kernel, by decide +kernel, by decide +kernel, by decide +kernel, by decide +kernel,
    by decide +kernel⟩

/-! ## 4. the current code on the three classes the check was written around -/

/-- (i) `<start> ::= r"[0-9]*" "x"` (finding F10a, repaired by 179bde08): the word "x" — empty regex leaf, then
    "x" — is in the class and accepted; before the repair `scan_regex` turned the 0-length match into "no
    match". -/
theorem C05_empty_regex_parsed :
    validB ⟨[("<start>", .cat "c" [.term (.regex 0), .term (.lit (.text [120]))])]⟩ exR
      (.node "<start>" [Tree.leaf (.text []), Tree.leaf (.text [120])]) = true ∧
    inClass (digitsInp [120]) false [.text [], .text [120]] [some 0, none] = true ∧
    accepts ⟨[("<start>", .cat "c" [.term (.regex 0), .term (.lit (.text [120]))])]⟩ (digitsInp [120]) 0 1 "<start>"
      = true := by
  refine ⟨by decide +kernel, by decide +kernel, by decide +kernel⟩

/-- `<start> ::= r"[0-9]*" r"[0-9]+"` -/
def splitG : Grammar := ⟨[("<start>", .cat "c" [.term (.regex 0), .term (.regex 1)])]⟩
def splitR : RegexOracle := fun id l => match l with
  | .text s => s.all (fun c => 48 ≤ c && c ≤ 57) && (id == 0 || (id == 1 && !s.isEmpty))
  | _ => false

/-- (ii) OUTSIDE THE CLASS: `r"[0-9]*" r"[0-9]+"` on "0".  The word is in the language (the enumerator lists
    the witness ""·"0", the verified checker accepts it), but the one length `re.match` prefers for `[0-9]*` at
    column 0 is 1, not 0: the witness fails the side condition at leaf 0, a REGEX leaf, and the word is not in
    the parser's language — `Fandango.parse("0")` yields nothing.  Not a violation of C05 as stated (the regex
    terminals of this grammar can be split in more than one way); "00" (witness "0"·"0") likewise, while
    "0"·"" for `r"[0-9]+" r"[0-9]*"` is in the class and accepted. -/
theorem C05_regex_split_outside_class :
    (enumTrees splitG (fun id => if id = 0 then [.text []] else [.text [48]]) 0 (some 10) 0 1 "<start>").map
      (fun p => (p.1.leaves, p.2, validB splitG splitR p.1)) = [([.text [], .text [48]], [some 0, some 1], true)] ∧
    firstFail (digitsInp [48]) false [.text [], .text [48]] [some 0, some 1] 0 0 = some (0, true) ∧
    accepts splitG (digitsInp [48]) 0 1 "<start>" = false ∧
    accepts splitG (digitsInp [48, 48]) 0 1 "<start>" = false ∧
    inClass (digitsInp [48]) false [.text [48], .text []] [some 1, some 0] = true ∧
    accepts ⟨[("<start>", .cat "c" [.term (.regex 1), .term (.regex 0)])]⟩ (digitsInp [48]) 0 1 "<start>" = true := by
  refine ⟨by decide +kernel, by decide +kernel, by decide +kernel, by decide +kernel, by decide +kernel,
    by decide +kernel⟩

/-- no regex terminals -/
def noRegexInp (cells : List Nat) : Inp := ⟨cells, fun _ _ => none⟩

/-- `<start> ::= b"\xff" "é"` -/
def nonasciiG : Grammar :=
  ⟨[("<start>", .cat "c" [.term (.lit (.bytes [255])), .term (.lit (.text [233]))])]⟩

/-- (iii) INSIDE THE CLASS, VIOLATED (open finding F10b): `<start> ::= b"\xff" "é"`.  The derivation serialises
    to FF C3 A9 (UTF-8), but the scanner compares the text literal with the input unit by unit (Latin-1): the
    witness fails at leaf 1, a LITERAL leaf — the parser does not read back what the generator wrote — and
    FF C3 A9 is rejected, while FF E9, which no tree of the grammar serialises to, is accepted. -/
theorem C05_nonascii_text_counterexample :
    (Tree.node "<start>" [Tree.leaf (.bytes [255]), Tree.leaf (.text [233])]).value
      = .ok ⟨.bytes [255, 195, 169], []⟩ ∧
    firstFail (noRegexInp [255, 195, 169]) true [.bytes [255], .text [233]] [none, none] 0 0 = some (1, false) ∧
    accepts nonasciiG (noRegexInp [255, 195, 169]) 0 1 "<start>" = false ∧
    accepts nonasciiG (noRegexInp [255, 233]) 0 1 "<start>" = true := by
  refine ⟨by decide +kernel, by decide +kernel, by decide +kernel, by decide +kernel⟩

/-- bits: `<start> ::= 0 1 0 0 0 0 0 1 "b"` reads "Ab"; a text literal is not read in the middle of a byte
    (a33087ac): `0 "a" …` on 30 80 is rejected although bit 0 and then the bits of "a" are there -/
theorem C05_bits_example :
    accepts ⟨[("<start>", .cat "c" [.term (.lit (.bit false)), .term (.lit (.bit true)), .term (.lit (.bit false)),
      .term (.lit (.bit false)), .term (.lit (.bit false)), .term (.lit (.bit false)), .term (.lit (.bit false)),
      .term (.lit (.bit true)), .term (.lit (.text [98]))])]⟩ (noRegexInp [65, 98]) 0 1 "<start>" = true ∧
    accepts ⟨[("<start>", .cat "c" [.term (.lit (.bit false)), .term (.lit (.text [97]))])]⟩
      (noRegexInp [48, 128]) 0 1 "<start>" = false := by
  refine ⟨by decide +kernel, by decide +kernel⟩

end Scan

/-! ## 5. the repetition cap: generator language vs the language the parser is compiled for -/

namespace RepCap

/-- the decision procedure the driver runs: is the tree a derivation once the selected open-ended repetitions
    are capped at `c`?  (`selAll`: what the generator can produce with cap `c`) -/
def capValid (sel : Sel) (c : Nat) (G : Grammar) (R : RegexOracle) (t : Tree) : Bool :=
  validFast (capGrammar sel c G) R t

theorem C05_capValid_iff (sel : Sel) (c : Nat) (G : Grammar) (R : RegexOracle) (t : Tree) :
    capValid sel c G R t = true ↔ Valid (capGrammar sel c G) R t :=
  validFast_iff (capGrammar sel c G) R t

/-- Whatever the cap, everything the generator can derive (all open-ended repetitions `≤ c`) is a derivation of
    the grammar itself — the language the parser is compiled for since b48dd899 (`{n,}` = n iterations and a
    right-recursive tail, like `*` and `+`). -/
theorem C05_generated_within_language (G : Grammar) (R : RegexOracle) (sel : Sel) (c : Nat) (t : Tree)
    (hv : Valid (capGrammar sel c G) R t) : Valid G R t := by
  have := valid_mono G R (sel := sel) (sel' := selNone) (c := c) (c' := 0)
    (fun k hk => by simp [selNone] at hk) t hv
  rwa [capGrammar_none] at this

/-- the tuner raising the cap only adds derivations -/
theorem C05_generator_cap_monotone (G : Grammar) (R : RegexOracle) (c c' : Nat) (h : c ≤ c') (t : Tree)
    (hv : Valid (capGrammar selAll c G) R t) : Valid (capGrammar selAll c' G) R t :=
  valid_mono G R (fun _ _ => ⟨rfl, h⟩) t hv

/-- `<start> ::= ("a"){2,} "b"` -/
def capG : Grammar := ⟨[("<start>", .cat "c0" [.rep "r0" .braces (.term (.lit (.text [97]))) 2 none,
  .term (.lit (.text [98]))])]⟩
def noRe : RegexOracle := fun _ _ => false
/-- `k` iterations: `a`×k `b` -/
def capTree (k : Nat) : Tree :=
  .node "<start>" (List.replicate k (Tree.leaf (.text [97])) ++ [Tree.leaf (.text [98])])

/-- 21 iterations of `("a"){2,}`: a derivation of the grammar; the generator produces it with cap 30 (after the
    tuner has raised it), not with cap 20; the parser-language model accepts the word whatever the cap was when
    the parser was built — and so does the real parser since b48dd899 (the harness feeds cap+1 and 2·cap+3
    iterations; before, `{n,}` was compiled with the cap as upper bound and this word was rejected: finding
    F38, fixed). -/
theorem C05_open_repetition_parsed :
    validFast capG noRe (capTree 21) = true ∧
    capValid selAll 30 capG noRe (capTree 21) = true ∧
    capValid selAll 20 capG noRe (capTree 21) = false ∧
    Scan.accepts capG (Scan.noRegexInp (List.replicate 21 97 ++ [98])) 21 1 "<start>" = true ∧
    Scan.accepts capG (Scan.noRegexInp [97, 98]) 21 1 "<start>" = false := by
  refine ⟨by decide +kernel, by decide +kernel, by decide +kernel, by decide +kernel, by decide +kernel⟩

end RepCap
end FV
