/-
C05 — what Fandango generates, Fandango parses back (round trip).

Property theorems only.  Helper lemmas: `Proofs/Enum.lean`, `Proofs/IR.lean`; models: `Model/Enum.lean` (an
enumerator of the language that follows nothing but the grammar), `Model/IR.lean` (`Valid`, `Lang`),
`Model/Incremental.lean` (the scanner layer of the parser, used for the two refutations below).

FULL STATEMENT (`C05_RoundTrip`): for every grammar, every derivation `t` of a non-terminal `s` whose regex
leaves are the greedy matches at their positions (`regexGreedy`, the decidable side condition "regex
terminals cannot be split in more than one way between neighbours"), the parser's complete parses of
`value t` contain a tree with the same value.  It quantifies over a parser model `parseComplete` and needs
recogniser *completeness* of an Earley model, which nobody has proved here: it stays an OPEN obligation.

What is proved:
  * `C05_enum_complete_bounded`: without truncation the enumerator lists every derivation within its bounds
    (depth, repetition counts, regex instances), stated against a declarative relation `DerNT`;
  * `C05_enum_sound` / `C05_roundtrip_partial`: every word the independent enumerator hands to the real
    parser comes with a machine-checked derivation witness (`Valid`, in `Lang`, tags naming regexes that
    accept their leaves) — so "a word of the language the real parser rejects" is a verified statement about
    the grammar, and only the parser side of the round trip rests on the differential check;
  * the full statement is FALSE of the scanner as it is written, on two concrete witnesses
    (`C05_empty_regex_counterexample`, `C05_nonascii_text_counterexample`), both replayed on /repo by the
    harness (open findings `C05/empty-matching-regex`, `C05/nonascii-text-next-to-binary`);
  * the repetition cap (§5, `Model/RepCap.lean`): the generator caps every open-ended repetition at the grammar's
    current cap `c`, the parser compiles `{n,}` (not `*`, `+`) with the cap `c0` it read when it was built.
    `C05_generated_within_parser_cap`: while `c ≤ c0` every derivation the generator can produce is a derivation
    of the language the parser's helper rules spell out, which is inside the documented language
    (`C05_parser_cap_within_language`); `C05_open_repetition_cap_counterexample`: once the tuner has raised
    `c` above `c0` (20 → 30) this fails — 21 iterations of `("a"){2,}` are generated and documented, and outside
    the parser's language, while the same word is inside it for `"a"+`.  Replayed on /repo by the harness (open
    finding `C05/open-repetition-capped`; the witness class is decided by `capValid`, `C05_capValid_iff`).
-/
import Proofs.Enum
import Proofs.Incremental
import Proofs.RepCap
import Proofs.IRFast
namespace FV
namespace Enum

/-! ## 1. the enumerator is sound: every enumerated tree is a derivation -/

/-- Every tree the enumerator lists is a derivation of the grammar from `s` (every inner node's children spell
    out one expansion of its rule, repetition counts within bounds), the children of its root `Matches` the
    rule of `s`, and the tags line up with the leaves and name regex terminals that accept them. -/
theorem C05_enum_sound (G : Grammar) (R : RegexOracle) (inst : Inst) (hI : InstOK R inst)
    (c : Nat) (lim : Option Nat) (rot d : Nat) (s : String) (t : Tree) (tags : List (Option Nat))
    (h : (t, tags) ∈ enumTrees G inst c lim rot d s) :
    Valid G R t ∧ t.sym = .nt s ∧
    (∃ body toks, G.rule s = some body ∧ toksOf t.kids = some toks ∧ Matches R body toks) ∧
    tagOK R t.leaves tags := by
  unfold enumTrees at h
  rw [List.mem_filterMap] at h
  obtain ⟨f, hf, hm⟩ := h
  obtain ⟨v, _, tg⟩ := enumNT_ok G R hI d s none none f hf
  -- the shape of what `enumNT` returns
  cases d with
  | zero => simp [enumNT] at hf
  | succ d =>
    simp only [enumNT] at hf
    cases hr : G.rule s with
    | none => simp [hr] at hf
    | some body =>
      simp only [hr, List.mem_map] at hf
      obtain ⟨g, _, rfl⟩ := hf
      simp only [Option.some.injEq, Prod.mk.injEq] at hm
      obtain ⟨rfl, rfl⟩ := hm
      simp only [ValidL, and_true] at v
      refine ⟨v, rfl, ?_, ?_⟩
      · simp only [Valid] at v
        obtain ⟨⟨body', toks, hb, ht, hmm⟩, _⟩ := v
        exact ⟨body', toks, by rw [← hr]; exact hb, ht, hmm⟩
      · simpa [Tree.leavesL] using tg

/-- the word of an enumerated tree is a word of the language of `s` -/
theorem C05_enum_word_in_lang (G : Grammar) (R : RegexOracle) (inst : Inst) (hI : InstOK R inst)
    (c : Nat) (lim : Option Nat) (rot d : Nat) (s : String) (t : Tree) (tags : List (Option Nat))
    (h : (t, tags) ∈ enumTrees G inst c lim rot d s) (v : TV) (hv : t.value = .ok v) : Lang G R s v := by
  obtain ⟨hval, hsym, _, _⟩ := C05_enum_sound G R inst hI c lim rot d s t tags h
  cases t with
  | mk sym a r kids =>
    simp only [Tree.sym] at hsym
    subst hsym
    exact ⟨a, r, kids, hval, hv⟩

/-- the verified checker agrees: the driver's `validB` on an enumerated tree can only answer `true` -/
theorem C05_enum_checked (G : Grammar) (R : RegexOracle) (inst : Inst) (hI : InstOK R inst)
    (c : Nat) (lim : Option Nat) (rot d : Nat) (s : String) (t : Tree) (tags : List (Option Nat))
    (h : (t, tags) ∈ enumTrees G inst c lim rot d s) : validB G R t = true :=
  (validB_iff G R t).mpr (C05_enum_sound G R inst hI c lim rot d s t tags h).1

/-! ## 1b. … and complete up to its bounds -/

/-- Without truncation (`lim = none`) the enumerator lists *every* bounded derivation: every tree that the
    declarative relation `DerNT` (depth `≤ d`, repetition counts `≤ c`, regex leaves from `inst`) derives from
    `s`, whatever the rotation.  So an exhaustive run hands every word of the bounded language to the parser. -/
theorem C05_enum_complete_bounded (G : Grammar) (inst : Inst) (c rot d : Nat) (s : String) (t : Tree)
    (tags : List (Option Nat)) (h : DerNT G inst c d s none none ([t], tags)) :
    (t, tags) ∈ enumTrees G inst c none rot d s := by
  unfold enumTrees
  rw [List.mem_filterMap]
  exact ⟨([t], tags), enumNT_complete G d s none none _ h, rfl⟩

/-- the declarative bounded derivations are derivations in the sense of `Valid` (via the enumerator) -/
theorem C05_bounded_derivation_valid (G : Grammar) (R : RegexOracle) (inst : Inst) (hI : InstOK R inst)
    (c d : Nat) (s : String) (t : Tree) (tags : List (Option Nat))
    (h : DerNT G inst c d s none none ([t], tags)) : Valid G R t ∧ tagOK R t.leaves tags := by
  have hm := C05_enum_complete_bounded G inst c 0 d s t tags h
  obtain ⟨h1, _, _, h4⟩ := C05_enum_sound G R inst hI c none 0 d s t tags hm
  exact ⟨h1, h4⟩

/-! ## 2. the round trip: statement, and the half that is proved -/

/-- THE FULL STATEMENT, for a parser model `parse G R Rg binary s word` (complete parses of the serialised
    word): every derivation whose regex leaves are greedy matches is found again, up to its value. -/
def C05_RoundTrip
    (parse : Grammar → RegexOracle → (Nat → List Nat → Option Nat) → Bool → String → List Nat → List Tree)
    (serialise : Bool → TV → Option (List Nat)) : Prop :=
  ∀ (G : Grammar) (R : RegexOracle) (Rg : Nat → List Nat → Option Nat) (binary : Bool) (s : String)
    (t : Tree) (tags : List (Option Nat)) (v : TV) (word : List Nat),
    Valid G R t → t.sym = .nt s → tagOK R t.leaves tags → t.value = .ok v → serialise binary v = some word →
    regexGreedy Rg binary word t.leaves tags 0 = true →
    ∃ t' ∈ parse G R Rg binary s word, t'.value = .ok v

/-- What is proved of the round trip: its hypotheses are met by everything the enumerator produces — each
    enumerated word is in `Lang`, with a `Valid` witness and well-formed tags.  (The conclusion, "the parser
    finds it", is the open half.) -/
theorem C05_roundtrip_partial (G : Grammar) (R : RegexOracle) (inst : Inst) (hI : InstOK R inst)
    (c : Nat) (lim : Option Nat) (rot d : Nat) (s : String) (t : Tree) (tags : List (Option Nat))
    (h : (t, tags) ∈ enumTrees G inst c lim rot d s) :
    Valid G R t ∧ t.sym = .nt s ∧ tagOK R t.leaves tags ∧ (∀ v, t.value = .ok v → Lang G R s v) := by
  obtain ⟨h1, h2, _, h4⟩ := C05_enum_sound G R inst hI c lim rot d s t tags h
  exact ⟨h1, h2, h4, fun v hv => C05_enum_word_in_lang G R inst hI c lim rot d s t tags h v hv⟩

/-! ## 3. non-vacuity -/

/-- `<start> ::= r"[0-9]*" "x"{1,2}` with the regex instances "", "12" -/
def exG : Grammar := ⟨[("<start>", .cat "c0" [.term (.regex 0),
  .rep "r0" .braces (.term (.lit (.text [120]))) 1 (some 2)])]⟩
def exInst : Inst := fun id => if id = 0 then [.text [], .text [49, 50]] else []
def exR : RegexOracle := fun id l => id == 0 && (match l with
  | .text s => s.all (fun c => 48 ≤ c && c ≤ 57)
  | _ => false)

/-- the enumerator lists the four words "x", "xx", "12x", "12xx" with their witnesses; the first has an
    empty regex leaf followed by another symbol -/
theorem C05_enum_example :
    InstOK exR exInst ∧
    (enumTrees exG exInst 3 (some 100) 0 2 "<start>").length = 4 ∧
    (enumTrees exG exInst 3 (some 100) 0 2 "<start>").map (fun p => (p.1.leaves, p.2)) =
      [([.text [], .text [120]], [some 0, none]),
       ([.text [], .text [120], .text [120]], [some 0, none, none]),
       ([.text [49, 50], .text [120]], [some 0, none]),
       ([.text [49, 50], .text [120], .text [120]], [some 0, none, none])] ∧
    (enumTrees exG exInst 3 (some 100) 0 2 "<start>").all (fun p => validB exG exR p.1) = true := by
  refine ⟨?_, by decide +kernel, by decide +kernel, by decide +kernel⟩
  intro id l hl
  simp only [exInst] at hl
  split at hl
  · subst id
    simp only [List.mem_cons, List.not_mem_nil, or_false] at hl
    rcases hl with rfl | rfl <;> decide
  · simp at hl

/-- non-vacuity of `C05_enum_complete_bounded`: "12xx" has a bounded derivation, hence is enumerated -/
theorem C05_complete_example :
    DerNT exG exInst 3 2 "<start>" none none
      ([Tree.node "<start>" [Tree.leaf (.text [49, 50]), Tree.leaf (.text [120]), Tree.leaf (.text [120])]],
       [some 0, none, none]) := by
  refine ⟨_, ([Tree.leaf (.text [49, 50]), Tree.leaf (.text [120]), Tree.leaf (.text [120])],
    [some 0, none, none]), rfl, ?_, rfl⟩
  simp only [DerWith, DerCat]
  refine ⟨([Tree.leaf (.text [49, 50])], [some 0]), ([Tree.leaf (.text [120]), Tree.leaf (.text [120])], [none, none]),
    ⟨.text [49, 50], by simp [exInst], rfl⟩, ?_, rfl⟩
  refine ⟨([Tree.leaf (.text [120]), Tree.leaf (.text [120])], [none, none]), ([], []),
    ⟨2, by omega, by decide, ?_⟩, rfl, rfl⟩
  simp only [PowR, DerWith]
  exact ⟨([Tree.leaf (.text [120])], [none]), ([Tree.leaf (.text [120])], [none]), rfl,
    ⟨([Tree.leaf (.text [120])], [none]), ([], []), rfl, rfl, rfl⟩, rfl⟩

/-- greedy digit run (`re.match(r"[0-9]*", rest)`) -/
def digitsStar : Nat → List Nat → Option Nat :=
  fun _ z => some (z.takeWhile (fun c => 48 ≤ c && c ≤ 57)).length

/-- `regexGreedy` separates the stated class from what is outside it: the witness of "12x" is greedy; the
    witness of "12" = "1"·"2" for `r"[0-9]*" r"[0-9]*"` is not (the first regex would take both digits) -/
theorem C05_regexGreedy_example :
    regexGreedy digitsStar false [49, 50, 120] [.text [49, 50], .text [120]] [some 0, none] 0 = true ∧
    regexGreedy digitsStar false [120] [.text [], .text [120]] [some 0, none] 0 = true ∧
    regexGreedy digitsStar false [49, 50] [.text [49], .text [50]] [some 0, some 0] 0 = false := by
  decide

end Enum

/-! ## 4. the round trip is false of the scanner as written: two concrete witnesses -/

namespace Incr
open Enum

/-- the oracle of `r"[0-9]*"` as `Terminal.check` sees it -/
def digitsStarOracle : ROracle where
  full := fun _ z => some (z.takeWhile (fun c => 48 ≤ c && c ≤ 57)).length
  part := fun _ z => if z.all (fun c => 48 ≤ c && c ≤ 57) then some z.length else none

/-- (i) `<start> ::= r"[0-9]*" "x"`: the word "x" is in the language (verified witness: empty regex leaf, then
    "x"), "12x" is parsed, but on "x" `scan_regex` turns the 0-length match into "no match" and nothing is
    parsed. -/
theorem C05_empty_regex_counterexample :
    validB ⟨[("<start>", .cat "c" [.term (.regex 0), .term (.lit (.text [120]))])]⟩ exR
      (.node "<start>" [Tree.leaf (.text []), Tree.leaf (.text [120])]) = true ∧
    (Tree.node "<start>" [Tree.leaf (.text []), Tree.leaf (.text [120])]).value = .ok ⟨.text [120], []⟩ ∧
    (completeParses linEngine
      (feed linEngine digitsStarOracle .text (linStart [[.regex 0, .lit [120]]]) [49, 50, 120])).length = 1 ∧
    completeParses linEngine
      (feed linEngine digitsStarOracle .text (linStart [[.regex 0, .lit [120]]]) [120]) = [] := by
  refine ⟨by decide +kernel, by decide +kernel, by decide +kernel, by decide +kernel⟩

/-- no regex terminals -/
def noRegexO : ROracle := ⟨fun _ _ => none, fun _ _ => none⟩

/-- (ii) `<start> ::= b"\xff" "é"`: the derivation serialises to FF C3 A9 (UTF-8), but the scanner compares the
    text literal with the input unit by unit (Latin-1), so FF C3 A9 is rejected while FF E9 — which no tree of
    the grammar serialises to — is accepted. -/
theorem C05_nonascii_text_counterexample :
    (Tree.node "<start>" [Tree.leaf (.bytes [255]), Tree.leaf (.text [233])]).value
      = .ok ⟨.bytes [255, 195, 169], []⟩ ∧
    completeParses linEngine
      (feed linEngine noRegexO .bytes (linStart [[.lit [255], .lit [233]]]) [255, 195, 169]) = [] ∧
    (completeParses linEngine
      (feed linEngine noRegexO .bytes (linStart [[.lit [255], .lit [233]]]) [255, 233])).length = 1 := by
  refine ⟨by decide +kernel, by decide +kernel, by decide +kernel⟩

end Incr

/-! ## 5. the repetition cap: generator language vs parser language vs documented language -/

namespace RepCap

/-- the decision procedure the driver runs: is the tree a derivation once the selected open-ended repetitions
    are capped at `c`? -/
def capValid (sel : Sel) (c : Nat) (G : Grammar) (R : RegexOracle) (t : Tree) : Bool :=
  validFast (capGrammar sel c G) R t

theorem C05_capValid_iff (sel : Sel) (c : Nat) (G : Grammar) (R : RegexOracle) (t : Tree) :
    capValid sel c G R t = true ↔ Valid (capGrammar sel c G) R t :=
  validFast_iff (capGrammar sel c G) R t

/-- While the generator's cap `c` does not exceed the cap `c0` the parser was compiled with, everything the
    generator can derive (all open-ended repetitions `≤ c`) is a derivation of the parser's language (`{n,}`
    bounded by `c0`, `*` and `+` unbounded). -/
theorem C05_generated_within_parser_cap (G : Grammar) (R : RegexOracle) (c c0 : Nat) (h : c ≤ c0) (t : Tree)
    (hv : Valid (capGrammar selAll c G) R t) : Valid (capGrammar selBraces c0 G) R t :=
  valid_mono G R (fun _ _ => ⟨rfl, h⟩) t hv

/-- the parser's language and the generator's language are inside the documented (uncapped) language -/
theorem C05_parser_cap_within_language (G : Grammar) (R : RegexOracle) (sel : Sel) (c : Nat) (t : Tree)
    (hv : Valid (capGrammar sel c G) R t) : Valid G R t := by
  have := valid_mono G R (sel := sel) (sel' := selNone) (c := c) (c' := 0)
    (fun k hk => by simp [selNone] at hk) t hv
  rwa [capGrammar_none] at this

/-- `<start> ::= ("a"){2,} "b"` and `<start> ::= "a"+ "b"` -/
def capG : Grammar := ⟨[("<start>", .cat "c0" [.rep "r0" .braces (.term (.lit (.text [97]))) 2 none,
  .term (.lit (.text [98]))])]⟩
def capGplus : Grammar := ⟨[("<start>", .cat "c0" [.rep "r0" .plus (.term (.lit (.text [97]))) 1 none,
  .term (.lit (.text [98]))])]⟩
def noRe : RegexOracle := fun _ _ => false
/-- `k` iterations: `a`×k `b` -/
def capTree (k : Nat) : Tree :=
  .node "<start>" (List.replicate k (Tree.leaf (.text [97])) ++ [Tree.leaf (.text [98])])

/-- non-vacuity of `C05_generated_within_parser_cap` (20 iterations, caps 20/20), and its failure once the tuner
    has raised the generator's cap to 30 while the parser still has 20: the tree with 21 iterations is a
    derivation of the grammar, the generator can produce it, the parser's language does not contain it — and
    does contain the same word when the rule is written with `+`. -/
theorem C05_open_repetition_cap_counterexample :
    capValid selAll 20 capG noRe (capTree 20) = true ∧ capValid selBraces 20 capG noRe (capTree 20) = true ∧
    validFast capG noRe (capTree 21) = true ∧
    capValid selAll 30 capG noRe (capTree 21) = true ∧
    capValid selBraces 20 capG noRe (capTree 21) = false ∧
    capValid selBraces 20 capGplus noRe (capTree 21) = true ∧
    capValid selAll 20 capGplus noRe (capTree 21) = false := by
  refine ⟨by decide +kernel, by decide +kernel, by decide +kernel, by decide +kernel, by decide +kernel,
    by decide +kernel, by decide +kernel⟩

end RepCap
end FV
