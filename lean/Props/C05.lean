/-
C05 — what Fandango generates, Fandango parses back (round trip).

Property theorems only.  Helper lemmas: `Proofs/Enum.lean`, `Proofs/Scan.lean`, `Proofs/RepCap.lean`, `Proofs/IR.lean`,
`Proofs/EarleyComplete1.lean` … `Proofs/EarleyComplete9.lean` (completeness of the Earley machine model),
`Proofs/EarleyTotalLang.lean` (its converse), `Proofs/EarleyFuel.lean`, `Proofs/EarleyTotal.lean` (composition with C04/C06);
models: `Model/Enum.lean` (an enumerator of the language that follows nothing but the grammar), `Model/IR.lean`
(`Valid`, `Lang`), `Model/Scan.lean` (the scanners of `iterative_parser.py` as of 1ef12755 — one greedy `re.match`
length per regex scan, an empty match IS a match (179bde08), literals compared unit by unit, text/bytes/regex only
at byte boundaries (a33087ac), units above 0xFF have no bits (1ef12755) — and the language the parser is meant to
accept with them: `accepts`), `Model/RepCap.lean` (the generator's repetition cap).

FULL STATEMENT (`C05_RoundTrip acc`): for every grammar and every derivation `t` of a non-terminal `s`
(`DerNT`: a tree together with, per leaf, the regex terminal it instantiates) that is IN THE CLASS — `inClass`: the
decidable side condition "regex terminals cannot be split in more than one way between neighbours", made
precise: every leaf of the witness is exactly what ONE scan of its terminal reads at the column where the
serialised leaf starts — the parser accepts the serialised word (`acc`).  That the accepted word comes back as a
tree with the identical serialisation is C04's half (every yielded tree spells the input).

What is proved:
  * `C05_enum_sound` / `C05_enum_word_in_lang` / `C05_enum_checked` / `C05_enum_is_bounded_derivation`: every word
    the independent enumerator hands to the real parser comes with a machine-checked derivation witness
    (`Valid`, in `Lang`, `DerNT`, tags naming regexes that accept their leaves); `C05_enum_complete_bounded`:
    without truncation it lists every derivation within its bounds;
  * `C05_parser_language_iff`: the recogniser `accepts` (what the driver runs next to the real parser on every
    word) accepts exactly the words for which the grammar has an expansion that the scanners read from the
    first to the last column;
  * `C05_roundtrip_partial`: `C05_RoundTrip` holds with `acc := accepts` (the language-level model);
  * **the Earley MACHINE computes that language — the former named gap, now proved for the model
    `Model/Earley.lean`** (§2b; helper lemmas `Proofs/EarleyComplete1…9.lean`), in four stages:
      STAGE 1  `C05_compile_complete`: the compiled helper-rule table derives every scanner-read expansion of the IR
               (all node kinds: alternatives, concatenations, `*`, `+`, `?`, `{m,n}` as the nested chain, `{n,}` as
               n iterations + right-recursive tail); the converse is C04's `C04_collapse_preserves_derivations`;
      STAGE 2  `C05_closed_chart_complete`: a chart history closed under predict / scan / complete (core items,
               nullable completions included) holds the finished start item for every derivation — by induction on
               the size of the derivation, loops of `*` / `+` handled at the level of their beginner (`Leads`);
               that the machine BUILDS such a history (live worklists, the live list `complete` iterates, the
               `complete` calls that end `predict` — /repo 1d73281f —, scanning at byte boundaries / bit columns):
               `Proofs/EarleyComplete3/4/7/8.lean` (`CI`, `ci_step`, `mi_close`, `mi_run`), for EVERY admission policy;
      STAGE 3  `C05_cut_keeps_uncut_representative`: the covering cut of /repo 73e5ffe3 only cuts a finished state
               whose nonterminal is that of an EARLIER finished state of the same column with the same origin, so
               every core item keeps an uncut representative (children in the identity of a state only add states);
               `C05_shortcut_loses_nothing`: `place_repetition_shortcut` only takes states waiting for their own loop
               nonterminal out of the `dot_map`, and the replacement passes completions on to the same outside states;
      STAGE 4  `C05_chart_machine_complete` (any configuration: policy `core` / `impl` / `acyclic`, any prediction order
               offering all alternatives) and **`C05_machine_complete`** (the code as it is, `Variant.now`,
               `C05_generated_variant_is_now`): a word `accepts` accepts is parsed — no run raises, every finished run
               returns at least one tree; `C05_machine_complete_tree`: and (C04) every returned tree is a derivation
               whose leaves tile the input; **`C05_roundtrip`**: every in-class derivation of a well-formed grammar
               is parsed back by the machine model.  Non-vacuity: `C05_example_rlen_ok`, `C05_machine_example`,
               `C05_machine_nullable_example` (`decide +kernel` runs of the model).
  * **END TO END (§2c), composed with C04 (soundness) and C06 (termination) — no fuel parameter left free**
    (`Proofs/EarleyFuel.lean`, `Proofs/EarleyTotalLang.lean`, `Proofs/EarleyTotal.lean`; possible since the name clash
    between `Proofs/C04Chart.lean` and `Proofs/EarleyTerm.lean` / `Proofs/EarleyBound.lean` was removed: the termination
    family's `Inv` / `inv_init` are now `TInv` / `tinv_init`, `colAt_replicate` lives once in `Proofs/EarleyCols.lean`):
      (a) `C05_parse_total`: the parser model is a TOTAL FUNCTION — at C06's explicit bound
          `totalFuel c = stepBoundN c (chartBound c) + 1` `parseComplete` has finished with `ok ts` (never an exception,
          given `RlenOk`), every larger budget returns the same `ts`, no budget returns anything else;
      (b) `C05_parse_decides_language` (`C05_parse_decides_expansions`, `C05_parse_rejects_outside_language`): that
          answer has `ts ≠ []` **IFF** `∃ c d, Scan.accepts G inp c d start = true` — the Earley machine model DECIDES the
          scanner-level language.  ⇐ `C05_machine_complete`; ⇒ chart soundness (C04) + the converse of STAGE 1, proved
          for this (`parsed_accepts`, `drv_semT`: the compiled table derives nothing but expansions of the IR that the
          scanners read; stated in C04 as `C04_yielded_only_for_language`).  NOTE: the converse does NOT follow from
          `Valid` + `Tiles` of the yielded tree (a tree does not say which terminal a leaf instantiates, nor that a regex
          leaf is the one length `re.match` prefers at its column) — it is proved on the table derivation instead;
      (c) `C05_roundtrip_total`: for every in-class derivation (the hypotheses of `C05_roundtrip`) the parser model
          terminates and returns a non-empty list of trees, each `Valid`, rooted at the start symbol, its leaves tiling
          the word column by column with payload leaves on cell boundaries (for a tree without bit leaves: the
          payloads concatenated ARE the word's cells).
    Hypotheses, exactly: `G.wf`, `RlenOk` (or C04's `OracleOk`, which implies it), `PredExact`; C06's `Sane` follows
    (`sane_mkCfg`); (c) additionally C04's `CellsOk`, `G.typed`.  Each with an `example` on `("a"?)* "b"` / "ab" (a
    grammar with a same-span self-derivation) that meets them; one example decides NON-membership of "ba" for all
    bounds from a 300-step run of the model.
    NOT in these theorems: the tie model ↔ code (translator `Generated/Earley.lean`, per-run correspondence of C04/C06,
    and this property's own two-way comparison of `accepts` with the real `Fandango.parse` on every word);
  * `C05_untagged_in_class`: the walk the driver runs on trees of the real generator (which carry no tags) is
    conservative: it implies `inClass` for every tagging consistent with `re.fullmatch`;
  * current-code witnesses (`decide +kernel`, each replayed on /repo by the harness as a corner spec):
    `C05_empty_regex_parsed` (F10a repaired: `r"[0-9]*" "x"` reads "x"), `C05_regex_split_outside_class`
    (`r"[0-9]*" r"[0-9]+"` on "0": in `Lang`, witness not in the class — fails at a REGEX leaf — and rejected),
    `C05_nonascii_text_counterexample` (open finding F10b: `b"\xff" "é"` is written FF C3 A9, the witness fails
    at a LITERAL leaf, FF C3 A9 is rejected and FF E9 accepted);
  * the repetition cap (§5, `Model/RepCap.lean`): the generator caps every open-ended repetition at the
    grammar's current cap, the parser (since b48dd899) accepts the uncapped language.
    `C05_generated_within_language`, `C05_generator_cap_monotone`, `C05_open_repetition_parsed`.
-/
import Proofs.Enum
import Proofs.Scan
import Proofs.RepCap
import Proofs.IRFast
import Proofs.EarleyComplete9
import Proofs.EarleyTotal
import Generated.Earley
namespace FV
namespace Enum

/-! ## 1. the enumerator is sound: every enumerated tree is a derivation -/

/-- Every tree the enumerator lists is a derivation of the grammar from `s` (every inner node's children spell
    out one expansion of its rule, repetition counts within bounds), the children of its root `Matches` the
    rule of `s`, and the tags line up with the leaves and name regex terminals that accept them. -/
theorem C05_enum_sound (G : Grammar) (R : RegexOracle) (inst : Inst) (hI : InstOK R inst)
    (c : Nat) (lim : Option Nat) (rot d : Nat) (s : String) (t : Tree) (tags : List (Option Nat))
    (h : (t, tags) ∈ enumTrees G inst c lim rot d s) :
    Valid G R t ∧ t.sym = .nt s ∧
    (∃ body toks, G.rule s = some body ∧ toksOf t.kids = some toks ∧ Matches R body toks) ∧
    tagOK R t.leaves tags := by
  unfold enumTrees at h
  rw [List.mem_filterMap] at h
  obtain ⟨f, hf, hm⟩ := h
  obtain ⟨v, _, tg⟩ := enumNT_ok G R hI d s none none f hf
  -- the shape of what `enumNT` returns
  cases d with
  | zero => simp [enumNT] at hf
  | succ d =>
    simp only [enumNT] at hf
    cases hr : G.rule s with
    | none => simp [hr] at hf
    | some body =>
      simp only [hr, List.mem_map] at hf
      obtain ⟨g, _, rfl⟩ := hf
      simp only [Option.some.injEq, Prod.mk.injEq] at hm
      obtain ⟨rfl, rfl⟩ := hm
      simp only [ValidL, and_true] at v
      refine ⟨v, rfl, ?_, ?_⟩
      · simp only [Valid] at v
        obtain ⟨⟨body', toks, hb, ht, hmm⟩, _⟩ := v
        exact ⟨body', toks, by rw [← hr]; exact hb, ht, hmm⟩
      · simpa [Tree.leavesL] using tg

/-- the word of an enumerated tree is a word of the language of `s` -/
theorem C05_enum_word_in_lang (G : Grammar) (R : RegexOracle) (inst : Inst) (hI : InstOK R inst)
    (c : Nat) (lim : Option Nat) (rot d : Nat) (s : String) (t : Tree) (tags : List (Option Nat))
    (h : (t, tags) ∈ enumTrees G inst c lim rot d s) (v : TV) (hv : t.value = .ok v) : Lang G R s v := by
  obtain ⟨hval, hsym, _, _⟩ := C05_enum_sound G R inst hI c lim rot d s t tags h
  cases t with
  | mk sym a r kids =>
    simp only [Tree.sym] at hsym
    subst hsym
    exact ⟨a, r, kids, hval, hv⟩

/-- the verified checker agrees: the driver's `validB` on an enumerated tree can only answer `true` -/
theorem C05_enum_checked (G : Grammar) (R : RegexOracle) (inst : Inst) (hI : InstOK R inst)
    (c : Nat) (lim : Option Nat) (rot d : Nat) (s : String) (t : Tree) (tags : List (Option Nat))
    (h : (t, tags) ∈ enumTrees G inst c lim rot d s) : validB G R t = true :=
  (validB_iff G R t).mpr (C05_enum_sound G R inst hI c lim rot d s t tags h).1

/-! ## 1b. … and complete up to its bounds -/

/-- Without truncation (`lim = none`) the enumerator lists *every* bounded derivation: every tree that the
    declarative relation `DerNT` (depth `≤ d`, repetition counts `≤ c`, regex leaves from `inst`) derives from
    `s`, whatever the rotation.  So an exhaustive run hands every word of the bounded language to the parser. -/
theorem C05_enum_complete_bounded (G : Grammar) (inst : Inst) (c rot d : Nat) (s : String) (t : Tree)
    (tags : List (Option Nat)) (h : DerNT G inst c d s none none ([t], tags)) :
    (t, tags) ∈ enumTrees G inst c none rot d s := by
  unfold enumTrees
  rw [List.mem_filterMap]
  exact ⟨([t], tags), enumNT_complete G d s none none _ h, rfl⟩

/-- the declarative bounded derivations are derivations in the sense of `Valid` (via the enumerator) -/
theorem C05_bounded_derivation_valid (G : Grammar) (R : RegexOracle) (inst : Inst) (hI : InstOK R inst)
    (c d : Nat) (s : String) (t : Tree) (tags : List (Option Nat))
    (h : DerNT G inst c d s none none ([t], tags)) : Valid G R t ∧ tagOK R t.leaves tags := by
  have hm := C05_enum_complete_bounded G inst c 0 d s t tags h
  obtain ⟨h1, _, _, h4⟩ := C05_enum_sound G R inst hI c none 0 d s t tags hm
  exact ⟨h1, h4⟩

/-- everything the enumerator lists (with any truncation and rotation) is a bounded derivation `DerNT` -/
theorem C05_enum_is_bounded_derivation (G : Grammar) (inst : Inst) (c : Nat) (lim : Option Nat) (rot d : Nat)
    (s : String) (t : Tree) (tags : List (Option Nat)) (h : (t, tags) ∈ enumTrees G inst c lim rot d s) :
    DerNT G inst c d s none none ([t], tags) := by
  unfold enumTrees at h
  rw [List.mem_filterMap] at h
  obtain ⟨f, hf, hm⟩ := h
  have hd := Scan.enumNT_der G d s none none f hf
  obtain ⟨ts, tg⟩ := f
  cases ts with
  | nil => simp at hm
  | cons t' rest =>
    cases rest with
    | nil =>
      simp only [Option.some.injEq, Prod.mk.injEq] at hm
      obtain ⟨rfl, rfl⟩ := hm
      exact hd
    | cons _ _ => simp at hm

end Enum

/-! ## 2. the round trip -/

namespace Scan
open Enum

/-- THE FULL STATEMENT, for an acceptance function `acc G inp c d s` of the parser ("the parse of the word `inp`
    from `<s>` yields a tree"; `c`, `d`: bounds on repetition counts / nesting the parser may assume, the real
    parser has none): every derivation in the class is accepted. -/
def C05_RoundTrip (acc : Grammar → Inp → Nat → Nat → String → Bool) : Prop :=
  ∀ (G : Grammar) (inst : Inst) (c d c' d' : Nat) (s : String) (a r : Option String) (t : Tree)
    (tags : List (Option Nat)) (inp : Inp) (binary : Bool),
    DerNT G inst c d s a r ([t], tags) → c ≤ c' → d ≤ d' → inClass inp binary t.leaves tags = true →
    acc G inp c' d' s = true

/-- the parser-language model accepts exactly the words for which the grammar has an expansion (nesting `≤ d`,
    repetition counts `≤ c`) that the scanners of the code read from column 0 to the last column -/
theorem C05_parser_language_iff (G : Grammar) (inp : Inp) (c d : Nat) (s : String) :
    accepts G inp c d s = true ↔ ∃ w, ExpNT G c d s w ∧ scanAll inp w 0 = some inp.ncols :=
  accepts_iff G inp c d s

/-- a witness in the class is read by the scanners over the whole word -/
theorem C05_inClass_scanned (inp : Inp) (binary : Bool) (leaves : List Leaf) (tags : List (Option Nat))
    (h : inClass inp binary leaves tags = true) : scanAll inp (termsOf leaves tags) 0 = some inp.ncols := by
  simp only [inClass, Bool.and_eq_true, Option.isNone_iff_eq_none, beq_iff_eq] at h
  obtain ⟨n, hn, hs⟩ := firstFail_scanAll inp binary leaves tags 0 0 h.1
  rw [h.2, Option.some.injEq] at hn
  simpa [hn] using hs

/-- THE ROUND TRIP for the parser-language model (`_partial`: `accepts` is the language, not the machine; the machine
    half is `C05_roundtrip` below, through `C05_machine_complete`). -/
theorem C05_roundtrip_partial : C05_RoundTrip accepts := by
  intro G inst c d c' d' s a r t tags inp binary hder hc hd hin
  obtain ⟨hexp, _⟩ := derNT_exp G hc d d' hd s a r ([t], tags) hder
  have e : fterms ([t], tags) = termsOf t.leaves tags := by simp [fterms, Tree.leavesL]
  rw [e] at hexp
  exact (accepts_iff G inp c' d' s).mpr ⟨_, hexp, C05_inClass_scanned inp binary t.leaves tags hin⟩

/-- … in particular for everything the enumerator hands to the real parser -/
theorem C05_roundtrip_enumerated_partial (G : Grammar) (inst : Inst) (c : Nat) (lim : Option Nat) (rot d : Nat)
    (s : String) (t : Tree) (tags : List (Option Nat)) (h : (t, tags) ∈ enumTrees G inst c lim rot d s)
    (c' d' : Nat) (hc : c ≤ c') (hd : d ≤ d') (inp : Inp) (binary : Bool)
    (hin : inClass inp binary t.leaves tags = true) : accepts G inp c' d' s = true :=
  C05_roundtrip_partial G inst c d c' d' s none none t tags inp binary
    (C05_enum_is_bounded_derivation G inst c lim rot d s t tags h) hc hd hin

/-- trees of the real generator carry no tags: the walk without tags (`firstFailU`, run by the driver with
    `re.fullmatch` as `full`) implies the side condition for every tagging that only names regexes matching
    their leaf as a whole -/
theorem C05_untagged_in_class (inp : Inp) (binary : Bool) (full : Nat → Leaf → Bool) (ids : List Nat)
    (leaves : List Leaf) (tags : List (Option Nat))
    (h : firstFailU inp binary full ids leaves 0 0 = none) (hl : lenSum binary leaves = some inp.ncols)
    (ht : TagsIn full ids leaves tags) : inClass inp binary leaves tags = true := by
  simp only [inClass, Bool.and_eq_true, Option.isNone_iff_eq_none, beq_iff_eq]
  exact ⟨firstFailU_firstFail inp binary full ids leaves tags 0 0 h ht, hl⟩

end Scan

/-! ## 2b. the Earley MACHINE computes the parser's language (completeness of `Model/Earley.lean`) -/

namespace Earley
open FV.Scan (scanAll ExpNT accepts)

/-- STAGE 1 — the compiled helper-rule table derives the language of the IR: every expansion of `<s>` (any nesting
    depth `d`, repetition counts `≤ c`) that the scanners read from column `p` to column `q` has a derivation over
    `compile G none` (the table of the code as it is: `*`/`+` as right-recursive loops, `?`, `{m,n}` as the nested
    chain, `{n,}` as n iterations + tail) from `p` to `q`.  (The converse is `C04_collapse_preserves_derivations`.) -/
theorem C05_compile_complete (G : Grammar) (hwf : G.wf = true) (scan : Scan) (inp : Scan.Inp)
    (hag : ScanAgree inp scan) (c d : Nat) (s : String) (a r : Option String) (w : List Term) (p q : Nat)
    (hw : ExpNT G c d s w) (hs : scanAll inp w p = some q) :
    Drv (compile G none) scan [ESym.n (.user s) a r] p q :=
  compile_complete G hwf scan inp hag c d s a r w p q hw hs

/-- STAGE 2 (static) — chart completeness for a `Closed` chart history (predict / scan / complete closure at the
    level of core items, nullable completions included, WITH the repetition shortcut: `Closed.keep`, `Closed.leads`):
    a derivation of the start symbol over the columns `0 … j` puts the finished start item into column `j`. -/
theorem C05_closed_chart_complete {c : Cfg} {P : Nat → Col} {post : Nat → List St} (hc : Closed c P post)
    (hs : SaneS c) (hm : ∀ t k e l, c.scan t k = some (e, l) → k ≤ e)
    (h0 : HasIt (P 0) (startItem c.start)) {n j : Nat}
    (hd : DrvN c.rules c.scan n [ESym.plain (.user c.start)] 0 j) : HasIt (P j) (startItem c.start).next :=
  static_complete hc hs hm h0 hd

/-- STAGE 3a — the covering cut (/repo 73e5ffe3) drops nothing at the level of core items: in a column of the
    machine every finished state has an UNCUT finished state with the same nonterminal and origin (every nonterminal
    of a covering set is that of an earlier finished state of the column with the same origin: `CI.covC`). -/
theorem C05_cut_keeps_uncut_representative {c : Cfg} {m : M} (h : CI c m) (n : Nat) (t : St)
    (hn : (colAt m.cols m.k).states[n]? = some t) (hfin : t.item.finished = true) :
    ∃ (n' : Nat) (t' : St), (colAt m.cols m.k).states[n']? = some t' ∧ t'.item.finished = true ∧
      t'.item.lhs = t.item.lhs ∧ t'.item.origin = t.item.origin ∧ cyclicAt c.policy m.k t' = false :=
  uncut_rep h n t hn hfin

/-- STAGE 3b — the repetition shortcut loses nothing: it only takes states out of the `dot_map` that wait for their
    own loop nonterminal, and what it puts in passes a completion of the loop on to the same outside states. -/
theorem C05_shortcut_loses_nothing {c : Cfg} (hs : SaneS c) {cols : List Col} {k : Nat} (hg : GoodCols c cols)
    (horg0 : ∀ j, j ≤ k → ∀ s, s ∈ (colAt cols j).dots → s.item.origin ≤ j)
    (hdots : ∀ s, s ∈ (colAt cols k).states → s.item.sym?.isSome = true → s ∈ (colAt cols k).dots) :
    ShSpec c cols (shortcut cols k) k :=
  shortcut_spec hs hg horg0 hdots

/-- STAGES 2–4 for ANY configuration — every admission policy (`core`: same item; `impl`: same item and children;
    `acyclic`: the code, with the covering cut), every prediction order offering all alternatives, `predict`
    completing finished empty derivations (/repo 1d73281f), a scanner that moves forward inside the table: if the
    start symbol derives all columns, no run raises and every finished run has yielded a tree. -/
theorem C05_chart_machine_complete {c : Cfg} (hs : SaneS c) (hfull : Full c) (hn : 0 < c.ncols) {n : Nat}
    (hd : DrvN c.rules c.scan n [ESym.plain (.user c.start)] 0 (c.ncols - 1)) (fuel : Nat) :
    (∀ m, run c fuel (M.init c) = .done m → m.out ≠ []) ∧ (∀ m, run c fuel (M.init c) ≠ .raised m) :=
  machine_complete hs hfull hn hd fuel

/-- the variant of the parser the translator reads from the source (regenerated by the checks of C04/C06) is the one
    the completeness theorems are stated for -/
theorem C05_generated_variant_is_now : Earley.Gen.variant = some Variant.now := by decide

/-- **C05_machine_complete** — the named gap, closed for the model: for every well-formed grammar, input and start
    symbol, if the word is in the parser's language (`Scan.accepts`: some expansion of the grammar is read by the
    scanners from the first to the last column — `C05_parser_language_iff`) then the Earley machine of the code as it
    is (`Variant.now`) does not raise, and whenever it is done it returns at least one tree.  (That it IS done within
    `stepBoundN c (chartBound c) + 1` steps is `C06_forest_terminates`; composed, with no fuel left free:
    `C05_parse_total`, `C05_parse_decides_language` in §2c.) -/
theorem C05_machine_complete (G : Grammar) (hwf : G.wf = true) (inp : Input) (ho : RlenOk inp) (start : String)
    (pred : Nat → NT → List (List ESym)) (hp : PredExact G pred) (c d : Nat)
    (hacc : accepts G inp.toInp c d start = true) (fuel : Nat) :
    parseComplete (mkCfg G Variant.now inp start pred) fuel ≠ some (.error ()) ∧
    ∀ ts, parseComplete (mkCfg G Variant.now inp start pred) fuel = some (.ok ts) → ts ≠ [] :=
  accepts_parsed G hwf inp ho start pred hp c d hacc fuel

/-- … and (C04's soundness) every tree it returns is a derivation of the grammar from the start symbol whose leaves
    tile the input, payload leaves on cell boundaries: the word comes back with the identical serialisation -/
theorem C05_machine_complete_tree (G : Grammar) (hwf : G.wf = true) (inp : Input) (R : RegexOracle)
    (hoR : OracleOk inp R) (hcells : CellsOk inp) (hty : G.typed inp.isBytes = true) (start : String)
    (pred : Nat → NT → List (List ESym)) (hp : PredExact G pred) (c d : Nat)
    (hacc : accepts G inp.toInp c d start = true) (fuel : Nat) (ts : List Tree)
    (h : parseComplete (mkCfg G Variant.now inp start pred) fuel = some (.ok ts)) :
    ∃ t, t ∈ ts ∧ Valid G R t ∧ t.sym = .nt start ∧ Tiles inp t.leaves 0 (8 * inp.cells.length) := by
  have ho : RlenOk inp := fun id w l hl => (hoR id w l hl).1
  have hne := (accepts_parsed G hwf inp ho start pred hp c d hacc fuel).2 ts h
  cases ts with
  | nil => exact absurd rfl hne
  | cons t rest =>
    have hpred : ∀ k x rhs, rhs ∈ pred k x → (x, rhs) ∈ compile G Variant.now.cap := fun k x rhs hh => (hp k x rhs).1 hh
    have h1 := parse_sound_of_scan G Variant.now inp start pred (scanV Variant.now inp) R hpred hwf hty
      (fun t hp' k m l hs => by
        have := scanV_ok Variant.now inp R hoR hcells hp' hs
        exact ⟨this.1, this.2.1, this.2.2.1⟩) fuel (t :: rest) h t (by simp)
    have h2 := parse_sound_of_aligned_scan G Variant.now inp start pred (scanV Variant.now inp) hpred hty
      (fun t hp' k m l hs => by
        have := scanV_ok Variant.now inp R hoR hcells hp' hs
        exact ⟨this.2.1, this.2.2.1, this.2.2.2.1 rfl⟩) fuel (t :: rest) h t (by simp)
    exact ⟨t, by simp, h1.1, h1.2.1, h2⟩

end Earley

namespace Scan
open Enum Earley

/-- what the real parser does on the word, as the machine model has it: for every prediction order offering exactly
    the alternatives of the compiled table and every amount of fuel the parse does not raise, and a finished parse
    returns a tree -/
def MachineParses (G : Grammar) (inp : Inp) (isBytes : Bool) (s : String) : Prop :=
  ∀ (pred : Nat → NT → List (List ESym)), PredExact G pred → ∀ fuel : Nat,
    parseComplete (mkCfg G Variant.now ⟨isBytes, inp.cells, inp.rlen⟩ s pred) fuel ≠ some (.error ()) ∧
    ∀ ts, parseComplete (mkCfg G Variant.now ⟨isBytes, inp.cells, inp.rlen⟩ s pred) fuel = some (.ok ts) → ts ≠ []

/-- **THE ROUND TRIP FOR THE EARLEY MACHINE** (no longer `_partial` with respect to the machine): every derivation in
    the class — every leaf exactly what one scan of its terminal reads where the serialised leaf starts — of a
    well-formed grammar is parsed back by the machine model of the code as it is.  What remains outside the proof is
    the tie model ↔ code (translator + per-run correspondence of C04/C06, and this property's own differential
    check). -/
theorem C05_roundtrip (G : Grammar) (hwf : G.wf = true) (inst : Inst) (c d : Nat) (s : String) (a r : Option String)
    (t : Tree) (tags : List (Option Nat)) (inp : Inp) (binary isBytes : Bool)
    (ho : ∀ id w l, inp.rlen id w = some l → l ≤ (inp.cells.drop w).length)
    (hder : DerNT G inst c d s a r ([t], tags)) (hin : inClass inp binary t.leaves tags = true) :
    MachineParses G inp isBytes s := by
  intro pred hp fuel
  have hacc := C05_roundtrip_partial G inst c d c d s a r t tags inp binary hder (Nat.le_refl _) (Nat.le_refl _) hin
  exact accepts_parsed G hwf ⟨isBytes, inp.cells, inp.rlen⟩ ho s pred hp c d hacc fuel

end Scan

/-! ## 2c. END TO END — soundness (C04), termination (C06) and completeness composed: no fuel left free

`totalFuel c = stepBoundN c (chartBound c) + 1` is C06's explicit step bound (`Proofs/EarleyFuel.lean`), a function of
the configuration alone.  Hypotheses, exactly: `G.wf` (repetition bounds of their class, `min ≤ max`), `RlenOk inp`
(the regex length oracle never reports more than is left of the word; implied by C04's `OracleOk`), `PredExact G pred`
(`predict` offers exactly the alternatives of the compiled table, in any order); C06's `Sane` follows from them
(`sane_mkCfg`).  Non-vacuity on `totG` = `<start> ::= ("a"?)* "b"` (a same-span self-derivation: `totG_epsCycle`). -/

namespace Earley
open FV.Scan (scanAll ExpNT accepts)

/-- **(a) the parser model is a total function.**  For every grammar, every input whose regex oracle is bounded by the
    word, every start symbol and every prediction order that only offers alternatives of the table: after
    `totalFuel` steps — C06's bound — `parseComplete` HAS finished, without an exception; every larger budget returns
    the same list of trees, and no budget at all returns anything else. -/
theorem C05_parse_total (G : Grammar) (inp : Input) (ho : RlenOk inp) (start : String)
    (pred : Nat → NT → List (List ESym)) (hpred : ∀ k x rhs, rhs ∈ pred k x → (x, rhs) ∈ compile G none) :
    ∃ ts, parseComplete (mkCfg G Variant.now inp start pred) (totalFuel (mkCfg G Variant.now inp start pred))
          = some (.ok ts) ∧
      (∀ fuel, totalFuel (mkCfg G Variant.now inp start pred) ≤ fuel →
        parseComplete (mkCfg G Variant.now inp start pred) fuel = some (.ok ts)) ∧
      (∀ fuel r, parseComplete (mkCfg G Variant.now inp start pred) fuel = some r → r = .ok ts) :=
  parse_now_total G inp ho start pred hpred

/-- the hypotheses of `C05_parse_total` are met by `("a"?)* "b"` on "ab" with prediction in table order — a grammar
    on which the parser before /repo 73e5ffe3 did not terminate -/
example : RlenOk totAB ∧ (∀ k x rhs, rhs ∈ predTable totG k x → (x, rhs) ∈ compile totG none) ∧
    hasEpsCycle (compile totG none) = true ∧
    ∃ ts, parseComplete (mkCfg totG Variant.now totAB "<start>" (predTable totG))
      (totalFuel (mkCfg totG Variant.now totAB "<start>" (predTable totG))) = some (.ok ts) :=
  ⟨tot_rlenOk _, (predTable_exact totG).sub, totG_epsCycle,
    (C05_parse_total totG totAB (tot_rlenOk _) "<start>" (predTable totG) (predTable_exact totG).sub).imp
      (fun _ h => h.1)⟩

/-- **(b) the Earley machine model DECIDES the scanner-level language.**  For every well-formed grammar, bounded oracle,
    input, start symbol and prediction order offering exactly the alternatives of the table: the (fuel-independent)
    answer of the parser is `ok ts`, and `ts ≠ []` **iff** the word is in the parser's language — `Scan.accepts` for some
    bounds on nesting depth and repetition counts (`C05_parser_language_iff`: some expansion of the grammar is read by
    the scanners from the first to the last column).  ⇐ is `C05_machine_complete`; ⇒ is chart soundness (C04) plus the
    converse of the compilation (`Proofs/EarleyTotalLang.lean`, `C04_yielded_only_for_language`). -/
theorem C05_parse_decides_language (G : Grammar) (hwf : G.wf = true) (inp : Input) (ho : RlenOk inp) (start : String)
    (pred : Nat → NT → List (List ESym)) (hp : PredExact G pred) :
    ∃ ts, parseComplete (mkCfg G Variant.now inp start pred) (totalFuel (mkCfg G Variant.now inp start pred))
          = some (.ok ts) ∧
      (∀ fuel, totalFuel (mkCfg G Variant.now inp start pred) ≤ fuel →
        parseComplete (mkCfg G Variant.now inp start pred) fuel = some (.ok ts)) ∧
      (ts ≠ [] ↔ ∃ c d, accepts G inp.toInp c d start = true) :=
  parse_now_decides G hwf inp ho start pred hp

/-- the same with the language spelt out: a tree comes back iff some expansion of `<start>` (some depth, some bound on
    the repetition counts) is a terminal sequence the scanners read from column 0 to the last column -/
theorem C05_parse_decides_expansions (G : Grammar) (hwf : G.wf = true) (inp : Input) (ho : RlenOk inp) (start : String)
    (pred : Nat → NT → List (List ESym)) (hp : PredExact G pred) :
    ∃ ts, parseComplete (mkCfg G Variant.now inp start pred) (totalFuel (mkCfg G Variant.now inp start pred))
          = some (.ok ts) ∧
      (ts ≠ [] ↔ ∃ c d w, ExpNT G c d start w ∧ scanAll inp.toInp w 0 = some (8 * inp.cells.length)) := by
  obtain ⟨ts, h1, _, h3⟩ := parse_now_decides G hwf inp ho start pred hp
  refine ⟨ts, h1, h3.trans ?_⟩
  constructor
  · rintro ⟨c, d, h⟩
    obtain ⟨w, hw, hs⟩ := (Scan.accepts_iff G inp.toInp c d start).1 h
    exact ⟨c, d, w, hw, hs⟩
  · rintro ⟨c, d, w, hw, hs⟩
    exact ⟨c, d, (Scan.accepts_iff G inp.toInp c d start).2 ⟨w, hw, hs⟩⟩

/-- … and a word outside the language (for all bounds) gets the empty forest — not an exception, not a hang -/
theorem C05_parse_rejects_outside_language (G : Grammar) (hwf : G.wf = true) (inp : Input) (ho : RlenOk inp)
    (start : String) (pred : Nat → NT → List (List ESym)) (hp : PredExact G pred)
    (hout : ∀ c d, accepts G inp.toInp c d start = false) :
    parseComplete (mkCfg G Variant.now inp start pred) (totalFuel (mkCfg G Variant.now inp start pred))
      = some (.ok []) := by
  obtain ⟨ts, h1, _, h3⟩ := parse_now_decides G hwf inp ho start pred hp
  cases ts with
  | nil => exact h1
  | cons t rest =>
    obtain ⟨c, d, h⟩ := h3.1 (by simp)
    rw [hout c d] at h
    cases h

/-- the hypotheses of `C05_parse_decides_language` are met by `("a"?)* "b"`; "ab" is in its language, so the total
    parser returns a tree — here the theorem is USED, the step bound is far too large to run -/
example : totG.wf = true ∧ RlenOk totAB ∧ PredExact totG (predTable totG) ∧
    ∃ ts, parseComplete (mkCfg totG Variant.now totAB "<start>" (predTable totG))
      (totalFuel (mkCfg totG Variant.now totAB "<start>" (predTable totG))) = some (.ok ts) ∧ ts ≠ [] := by
  refine ⟨totG_wf, tot_rlenOk _, predTable_exact totG, ?_⟩
  obtain ⟨ts, h1, _, h3⟩ :=
    C05_parse_decides_language totG totG_wf totAB (tot_rlenOk _) "<start>" (predTable totG) (predTable_exact totG)
  exact ⟨ts, h1, h3.2 ⟨1, 1, totAB_accepted⟩⟩

/-- deciding NON-membership for all bounds with a finite run of the model: on "ba" the machine is over after 300 steps
    with no tree (`decide +kernel`); by (a) that is the answer of the total parser, by (b) "ba" is in the language for
    NO bound on depth and repetition counts -/
example : ∀ c d, accepts totG totBA.toInp c d "<start>" = false := by
  have hrun : (match parseComplete (mkCfg totG Variant.now totBA "<start>" (predTable totG)) 300 with
      | some (.ok ts) => ts.length
      | _ => 1) = 0 := by decide +kernel
  obtain ⟨ts, h1, _, h3⟩ :=
    C05_parse_decides_language totG totG_wf totBA (tot_rlenOk _) "<start>" (predTable totG) (predTable_exact totG)
  obtain ⟨ts', h1', _, hall⟩ :=
    C05_parse_total totG totBA (tot_rlenOk _) "<start>" (predTable totG) (predTable_exact totG).sub
  have hts : ts = ts' := by
    rw [h1] at h1'
    exact Except.ok.inj (Option.some.inj h1')
  have hnil : ts' = [] := by
    cases hr : parseComplete (mkCfg totG Variant.now totBA "<start>" (predTable totG)) 300 with
    | none => rw [hr] at hrun; cases hrun
    | some r =>
      cases r with
      | error e => rw [hr] at hrun; cases hrun
      | ok l =>
        rw [hr] at hrun
        have hl : l = [] := List.eq_nil_of_length_eq_zero hrun
        have := hall 300 _ hr
        rw [hl] at this
        exact (Except.ok.inj this).symm
  intro c d
  cases hacc : accepts totG totBA.toInp c d "<start>" with
  | false => rfl
  | true => exact absurd (hts.trans hnil) (h3.2 ⟨c, d, hacc⟩)

end Earley

namespace Scan
open Enum Earley

/-- **(c) THE ROUND TRIP, END TO END.**  For every in-class derivation of a well-formed grammar (the hypotheses of
    `C05_roundtrip`: `DerNT` — a tree with, per leaf, the regex terminal it instantiates — whose every leaf is exactly
    what ONE scan of its terminal reads at the column where the serialised leaf starts, `inClass`, on the word `inp`)
    and every prediction order offering exactly the alternatives of the table, the parser model TERMINATES (within
    `totalFuel`, the answer independent of the budget), returns `ok ts` with `ts ≠ []`, and every returned tree is a
    valid derivation of the grammar rooted at `<s>` whose leaves tile the word `inp` column by column, payload leaves
    on cell boundaries (C04) — for a tree without bit leaves: the payloads of its leaves, concatenated, ARE the cells
    of the word.  `R`: the full-match oracle of `Valid` (`OracleOk`: it accepts what the length oracle returns);
    `CellsOk`, `G.typed`: C04's assumptions on the input's type. -/
theorem C05_roundtrip_total (G : Grammar) (hwf : G.wf = true) (inst : Inst) (c d : Nat) (s : String)
    (a r : Option String) (t : Tree) (tags : List (Option Nat)) (inp : Inp) (binary isBytes : Bool)
    (R : RegexOracle) (hoR : OracleOk ⟨isBytes, inp.cells, inp.rlen⟩ R) (hcells : CellsOk ⟨isBytes, inp.cells, inp.rlen⟩)
    (hty : G.typed isBytes = true)
    (hder : DerNT G inst c d s a r ([t], tags)) (hin : inClass inp binary t.leaves tags = true)
    (pred : Nat → NT → List (List ESym)) (hp : PredExact G pred) :
    ∃ ts, parseComplete (mkCfg G Variant.now ⟨isBytes, inp.cells, inp.rlen⟩ s pred)
            (totalFuel (mkCfg G Variant.now ⟨isBytes, inp.cells, inp.rlen⟩ s pred)) = some (.ok ts) ∧
      (∀ fuel, totalFuel (mkCfg G Variant.now ⟨isBytes, inp.cells, inp.rlen⟩ s pred) ≤ fuel →
        parseComplete (mkCfg G Variant.now ⟨isBytes, inp.cells, inp.rlen⟩ s pred) fuel = some (.ok ts)) ∧
      ts ≠ [] ∧
      ∀ t' ∈ ts, Valid G R t' ∧ t'.sym = .nt s ∧
        Tiles ⟨isBytes, inp.cells, inp.rlen⟩ t'.leaves 0 (8 * inp.cells.length) ∧
        ((∀ l ∈ t'.leaves, l.isBit = false) → t'.leaves.flatMap Leaf.cellsOf = inp.cells) := by
  have hacc := C05_roundtrip_partial G inst c d c d s a r t tags inp binary hder (Nat.le_refl _) (Nat.le_refl _) hin
  have ho : RlenOk ⟨isBytes, inp.cells, inp.rlen⟩ := rlenOk_of_oracleOk hoR
  obtain ⟨ts, h1, h2, h3⟩ := parse_now_decides G hwf ⟨isBytes, inp.cells, inp.rlen⟩ ho s pred hp
  refine ⟨ts, h1, h2, h3.2 ⟨c, d, hacc⟩, ?_⟩
  intro t' ht'
  obtain ⟨v1, v2, v3⟩ :=
    now_trees_sound G hwf ⟨isBytes, inp.cells, inp.rlen⟩ R hoR hcells hty s pred hp.sub _ ts h1 t' ht'
  exact ⟨v1, v2, v3, fun hb => tiles_payload_cells ⟨isBytes, inp.cells, inp.rlen⟩ t'.leaves hb v3⟩

/-- the hypotheses of `C05_roundtrip_total` are met: the enumerator lists a derivation of `("a"?)* "b"` that is in
    the class on "ab" (`decide +kernel`), the grammar is well formed and typed, the oracles are fine — hence the
    parser model returns, at its step bound, trees that spell "ab" -/
example : ∃ ts, parseComplete (mkCfg totG Variant.now totAB "<start>" (predTable totG))
      (totalFuel (mkCfg totG Variant.now totAB "<start>" (predTable totG))) = some (.ok ts) ∧ ts ≠ [] ∧
    ∀ t' ∈ ts, Valid totG noRegex t' ∧ t'.sym = .nt "<start>" ∧ Tiles totAB t'.leaves 0 16 := by
  have hex : (enumTrees totG (fun _ => []) 1 none 0 1 "<start>").any
      (fun p => inClass totAB.toInp false p.1.leaves p.2) = true := by decide +kernel
  obtain ⟨p, hp, hcls⟩ := List.any_eq_true.1 hex
  obtain ⟨t, tags⟩ := p
  have hder := C05_enum_is_bounded_derivation totG (fun _ => []) 1 none 0 1 "<start>" t tags hp
  obtain ⟨ts, h1, _, hne, hall⟩ := C05_roundtrip_total totG totG_wf (fun _ => []) 1 1 "<start>" none none t tags
    totAB.toInp false false noRegex (tot_oracleOk _) (tot_cellsOk _) totG_typed hder hcls (predTable totG)
    (predTable_exact totG)
  exact ⟨ts, h1, hne, fun t' ht' => ⟨(hall t' ht').1, (hall t' ht').2.1, (hall t' ht').2.2.1⟩⟩

end Scan

namespace Scan
open Enum

/-! ## 3. non-vacuity -/

/-- greedy digit run at unit `w` (`re.match(r"[0-9]*", word[w:])`) -/
def digitRun (cells : List Nat) (w : Nat) : Nat := ((cells.drop w).takeWhile (fun c => 48 ≤ c && c ≤ 57)).length

/-- regex 0 = `[0-9]*`, regex 1 = `[0-9]+` -/
def digitsInp (cells : List Nat) : Inp :=
  ⟨cells, fun id w => if id = 0 then some (digitRun cells w)
                      else if id = 1 then (if digitRun cells w = 0 then none else some (digitRun cells w)) else none⟩

end Scan

namespace Enum

/-- `<start> ::= r"[0-9]*" "x"{1,2}` with the regex instances "", "12" -/
def exG : Grammar := ⟨[("<start>", .cat "c0" [.term (.regex 0),
  .rep "r0" .braces (.term (.lit (.text [120]))) 1 (some 2)])]⟩
def exInst : Inst := fun id => if id = 0 then [.text [], .text [49, 50]] else []
def exR : RegexOracle := fun id l => id == 0 && (match l with
  | .text s => s.all (fun c => 48 ≤ c && c ≤ 57)
  | _ => false)

/-- the enumerator lists the four words "x", "xx", "12x", "12xx" with their witnesses; the first has an
    empty regex leaf followed by another symbol -/
theorem C05_enum_example :
    InstOK exR exInst ∧
    (enumTrees exG exInst 3 (some 100) 0 2 "<start>").length = 4 ∧
    (enumTrees exG exInst 3 (some 100) 0 2 "<start>").map (fun p => (p.1.leaves, p.2)) =
      [([.text [], .text [120]], [some 0, none]),
       ([.text [], .text [120], .text [120]], [some 0, none, none]),
       ([.text [49, 50], .text [120]], [some 0, none]),
       ([.text [49, 50], .text [120], .text [120]], [some 0, none, none])] ∧
    (enumTrees exG exInst 3 (some 100) 0 2 "<start>").all (fun p => validB exG exR p.1) = true := by
  refine ⟨?_, by decide +kernel, by decide +kernel, by decide +kernel⟩
  intro id l hl
  simp only [exInst] at hl
  split at hl
  · subst id
    simp only [List.mem_cons, List.not_mem_nil, or_false] at hl
    rcases hl with rfl | rfl <;> decide
  · simp at hl

/-- non-vacuity of `C05_enum_complete_bounded` and of the hypotheses of `C05_roundtrip_partial`: "12xx" has a
    bounded derivation -/
theorem C05_complete_example :
    DerNT exG exInst 3 2 "<start>" none none
      ([Tree.node "<start>" [Tree.leaf (.text [49, 50]), Tree.leaf (.text [120]), Tree.leaf (.text [120])]],
       [some 0, none, none]) := by
  refine ⟨_, ([Tree.leaf (.text [49, 50]), Tree.leaf (.text [120]), Tree.leaf (.text [120])],
    [some 0, none, none]), rfl, ?_, rfl⟩
  simp only [DerWith, DerCat]
  refine ⟨([Tree.leaf (.text [49, 50])], [some 0]), ([Tree.leaf (.text [120]), Tree.leaf (.text [120])], [none, none]),
    ⟨.text [49, 50], by simp [exInst], rfl⟩, ?_, rfl⟩
  refine ⟨([Tree.leaf (.text [120]), Tree.leaf (.text [120])], [none, none]), ([], []),
    ⟨2, by omega, by decide, ?_⟩, rfl, rfl⟩
  simp only [PowR]
  exact ⟨([Tree.leaf (.text [120])], [none]), ([Tree.leaf (.text [120])], [none]), rfl,
    ⟨([Tree.leaf (.text [120])], [none]), ([], []), rfl, rfl, rfl⟩, rfl⟩

end Enum

namespace Scan
open Enum

/-- the witness of "12xx" is in the class and the model accepts the word; `inClass` separates: the witness
    "1"·"2" of "12" for `r"[0-9]*" r"[0-9]*"` is not in the class (the first regex reads both digits), and it
    fails at leaf 0, a regex leaf; the tag-free walk (hypothesis of `C05_untagged_in_class`) agrees on both -/
theorem C05_inClass_example :
    inClass (digitsInp [49, 50, 120, 120]) false [.text [49, 50], .text [120], .text [120]] [some 0, none, none] = true ∧
    accepts exG (digitsInp [49, 50, 120, 120]) 3 2 "<start>" = true ∧
    accepts exG (digitsInp [49, 50, 120, 120, 120]) 3 2 "<start>" = false ∧
    firstFail (digitsInp [49, 50]) false [.text [49], .text [50]] [some 0, some 0] 0 0 = some (0, true) ∧
    firstFailU (digitsInp [49, 50, 120, 120]) false exR [0] [.text [49, 50], .text [120], .text [120]] 0 0 = none ∧
    firstFailU (digitsInp [49, 50]) false exR [0] [.text [49], .text [50]] 0 0 = some (0, true) := by
  refine ⟨by decide +kernel, by decide +kernel, by decide +kernel, by decide +kernel, by decide +kernel,
    by decide +kernel⟩

/-! ## 3b. non-vacuity of the machine-completeness theorems -/

end Scan
namespace Earley

/-- a `str` input with the digit-run oracle of `Scan.digitsInp` (regex 0 = `[0-9]*`, regex 1 = `[0-9]+`) -/
def exInput (cells : List Nat) : Input := ⟨false, cells, (Scan.digitsInp cells).rlen⟩

/-- the hypotheses of `C05_machine_complete` are met by a concrete non-trivial instance: the oracle is bounded … -/
theorem C05_example_rlen_ok (cells : List Nat) : RlenOk (exInput cells) := by
  intro id w l h
  have hle : Scan.digitRun cells w ≤ (cells.drop w).length := by
    unfold Scan.digitRun
    exact length_takeWhile_le' _ _
  simp only [exInput, Scan.digitsInp] at h
  split at h
  · cases h; exact hle
  · split at h
    · split at h
      · cases h
      · cases h; exact hle
    · cases h

/-- … the grammar `<start> ::= r"[0-9]*" "x"{1,2}` is well formed, "12xx" is in the parser's language, and the
    machine of the code as it is (prediction in table order, `predTable_exact`) returns exactly the tree with the
    leaves "12" "x" "x"; on "12xxx" (outside the language) it returns no tree (`decide +kernel` on the model) -/
theorem C05_machine_example :
    Enum.exG.wf = true ∧
    Scan.accepts Enum.exG (exInput [49, 50, 120, 120]).toInp 3 2 "<start>" = true ∧
    (match parseComplete (mkCfg Enum.exG Variant.now (exInput [49, 50, 120, 120]) "<start>" (predTable Enum.exG)) 3000 with
     | some (.ok ts) => ts.map (fun t => t.leaves)
     | _ => []) = [[.text [49, 50], .text [120], .text [120]]] ∧
    (match parseComplete (mkCfg Enum.exG Variant.now (exInput [49, 50, 120, 120, 120]) "<start>" (predTable Enum.exG)) 3000 with
     | some (.ok ts) => ts.length
     | _ => 1) = 0 := by decide +kernel

/-- the empty-derivation corner the proof had to get right (nullable completions, `predict` of /repo 1d73281f, the
    covering cut, the repetition shortcut): `<start> ::= ("a"?)* "b"` on "ab" and `<start> ::= <a> <a>; <a> ::= "x"*`
    on "xx" are parsed -/
theorem C05_machine_nullable_example :
    (match parseComplete (mkCfg ⟨[("<start>", .cat "c" [.rep "s" .star (.rep "o" .opt (.term (.lit (.text [97]))) 0 (some 1)) 0 none,
          .term (.lit (.text [98]))])]⟩ Variant.now ⟨false, [97, 98], fun _ _ => none⟩ "<start>"
          (predTable ⟨[("<start>", .cat "c" [.rep "s" .star (.rep "o" .opt (.term (.lit (.text [97]))) 0 (some 1)) 0 none,
          .term (.lit (.text [98]))])]⟩)) 5000 with
     | some (.ok ts) => decide (ts ≠ [])
     | _ => false) = true ∧
    (match parseComplete (mkCfg ⟨[("<start>", .cat "c" [.nt "<a>" none none, .nt "<a>" none none]),
          ("<a>", .rep "s" .star (.term (.lit (.text [120]))) 0 none)]⟩ Variant.now ⟨false, [120, 120], fun _ _ => none⟩ "<start>"
          (predTable ⟨[("<start>", .cat "c" [.nt "<a>" none none, .nt "<a>" none none]),
          ("<a>", .rep "s" .star (.term (.lit (.text [120]))) 0 none)]⟩)) 5000 with
     | some (.ok ts) => decide (ts ≠ [])
     | _ => false) = true := by decide +kernel

end Earley
namespace Scan
open Enum

/-! ## 4. the current code on the three classes the check was written around -/

/-- (i) `<start> ::= r"[0-9]*" "x"` (finding F10a, repaired by 179bde08): the word "x" — empty regex leaf, then
    "x" — is in the class and accepted; before the repair `scan_regex` turned the 0-length match into "no
    match". -/
theorem C05_empty_regex_parsed :
    validB ⟨[("<start>", .cat "c" [.term (.regex 0), .term (.lit (.text [120]))])]⟩ exR
      (.node "<start>" [Tree.leaf (.text []), Tree.leaf (.text [120])]) = true ∧
    inClass (digitsInp [120]) false [.text [], .text [120]] [some 0, none] = true ∧
    accepts ⟨[("<start>", .cat "c" [.term (.regex 0), .term (.lit (.text [120]))])]⟩ (digitsInp [120]) 0 1 "<start>"
      = true := by
  refine ⟨by decide +kernel, by decide +kernel, by decide +kernel⟩

/-- `<start> ::= r"[0-9]*" r"[0-9]+"` -/
def splitG : Grammar := ⟨[("<start>", .cat "c" [.term (.regex 0), .term (.regex 1)])]⟩
def splitR : RegexOracle := fun id l => match l with
  | .text s => s.all (fun c => 48 ≤ c && c ≤ 57) && (id == 0 || (id == 1 && !s.isEmpty))
  | _ => false

/-- (ii) OUTSIDE THE CLASS: `r"[0-9]*" r"[0-9]+"` on "0".  The word is in the language (the enumerator lists
    the witness ""·"0", the verified checker accepts it), but the one length `re.match` prefers for `[0-9]*` at
    column 0 is 1, not 0: the witness fails the side condition at leaf 0, a REGEX leaf, and the word is not in
    the parser's language — `Fandango.parse("0")` yields nothing.  Not a violation of C05 as stated (the regex
    terminals of this grammar can be split in more than one way); "00" (witness "0"·"0") likewise, while
    "0"·"" for `r"[0-9]+" r"[0-9]*"` is in the class and accepted. -/
theorem C05_regex_split_outside_class :
    (enumTrees splitG (fun id => if id = 0 then [.text []] else [.text [48]]) 0 (some 10) 0 1 "<start>").map
      (fun p => (p.1.leaves, p.2, validB splitG splitR p.1)) = [([.text [], .text [48]], [some 0, some 1], true)] ∧
    firstFail (digitsInp [48]) false [.text [], .text [48]] [some 0, some 1] 0 0 = some (0, true) ∧
    accepts splitG (digitsInp [48]) 0 1 "<start>" = false ∧
    accepts splitG (digitsInp [48, 48]) 0 1 "<start>" = false ∧
    inClass (digitsInp [48]) false [.text [48], .text []] [some 1, some 0] = true ∧
    accepts ⟨[("<start>", .cat "c" [.term (.regex 1), .term (.regex 0)])]⟩ (digitsInp [48]) 0 1 "<start>" = true := by
  refine ⟨by decide +kernel, by decide +kernel, by decide +kernel, by decide +kernel, by decide +kernel,
    by decide +kernel⟩

/-- no regex terminals -/
def noRegexInp (cells : List Nat) : Inp := ⟨cells, fun _ _ => none⟩

/-- `<start> ::= b"\xff" "é"` -/
def nonasciiG : Grammar :=
  ⟨[("<start>", .cat "c" [.term (.lit (.bytes [255])), .term (.lit (.text [233]))])]⟩

/-- (iii) INSIDE THE CLASS, VIOLATED (open finding F10b): `<start> ::= b"\xff" "é"`.  The derivation serialises
    to FF C3 A9 (UTF-8), but the scanner compares the text literal with the input unit by unit (Latin-1): the
    witness fails at leaf 1, a LITERAL leaf — the parser does not read back what the generator wrote — and
    FF C3 A9 is rejected, while FF E9, which no tree of the grammar serialises to, is accepted. -/
theorem C05_nonascii_text_counterexample :
    (Tree.node "<start>" [Tree.leaf (.bytes [255]), Tree.leaf (.text [233])]).value
      = .ok ⟨.bytes [255, 195, 169], []⟩ ∧
    firstFail (noRegexInp [255, 195, 169]) true [.bytes [255], .text [233]] [none, none] 0 0 = some (1, false) ∧
    accepts nonasciiG (noRegexInp [255, 195, 169]) 0 1 "<start>" = false ∧
    accepts nonasciiG (noRegexInp [255, 233]) 0 1 "<start>" = true := by
  refine ⟨by decide +kernel, by decide +kernel, by decide +kernel, by decide +kernel⟩

/-- bits: `<start> ::= 0 1 0 0 0 0 0 1 "b"` reads "Ab"; a text literal is not read in the middle of a byte
    (a33087ac): `0 "a" …` on 30 80 is rejected although bit 0 and then the bits of "a" are there -/
theorem C05_bits_example :
    accepts ⟨[("<start>", .cat "c" [.term (.lit (.bit false)), .term (.lit (.bit true)), .term (.lit (.bit false)),
      .term (.lit (.bit false)), .term (.lit (.bit false)), .term (.lit (.bit false)), .term (.lit (.bit false)),
      .term (.lit (.bit true)), .term (.lit (.text [98]))])]⟩ (noRegexInp [65, 98]) 0 1 "<start>" = true ∧
    accepts ⟨[("<start>", .cat "c" [.term (.lit (.bit false)), .term (.lit (.text [97]))])]⟩
      (noRegexInp [48, 128]) 0 1 "<start>" = false := by
  refine ⟨by decide +kernel, by decide +kernel⟩

end Scan

/-! ## 5. the repetition cap: generator language vs the language the parser is compiled for -/

namespace RepCap

/-- the decision procedure the driver runs: is the tree a derivation once the selected open-ended repetitions
    are capped at `c`?  (`selAll`: what the generator can produce with cap `c`) -/
def capValid (sel : Sel) (c : Nat) (G : Grammar) (R : RegexOracle) (t : Tree) : Bool :=
  validFast (capGrammar sel c G) R t

theorem C05_capValid_iff (sel : Sel) (c : Nat) (G : Grammar) (R : RegexOracle) (t : Tree) :
    capValid sel c G R t = true ↔ Valid (capGrammar sel c G) R t :=
  validFast_iff (capGrammar sel c G) R t

/-- Whatever the cap, everything the generator can derive (all open-ended repetitions `≤ c`) is a derivation of
    the grammar itself — the language the parser is compiled for since b48dd899 (`{n,}` = n iterations and a
    right-recursive tail, like `*` and `+`). -/
theorem C05_generated_within_language (G : Grammar) (R : RegexOracle) (sel : Sel) (c : Nat) (t : Tree)
    (hv : Valid (capGrammar sel c G) R t) : Valid G R t := by
  have := valid_mono G R (sel := sel) (sel' := selNone) (c := c) (c' := 0)
    (fun k hk => by simp [selNone] at hk) t hv
  rwa [capGrammar_none] at this

/-- the tuner raising the cap only adds derivations -/
theorem C05_generator_cap_monotone (G : Grammar) (R : RegexOracle) (c c' : Nat) (h : c ≤ c') (t : Tree)
    (hv : Valid (capGrammar selAll c G) R t) : Valid (capGrammar selAll c' G) R t :=
  valid_mono G R (fun _ _ => ⟨rfl, h⟩) t hv

/-- `<start> ::= ("a"){2,} "b"` -/
def capG : Grammar := ⟨[("<start>", .cat "c0" [.rep "r0" .braces (.term (.lit (.text [97]))) 2 none,
  .term (.lit (.text [98]))])]⟩
def noRe : RegexOracle := fun _ _ => false
/-- `k` iterations: `a`×k `b` -/
def capTree (k : Nat) : Tree :=
  .node "<start>" (List.replicate k (Tree.leaf (.text [97])) ++ [Tree.leaf (.text [98])])

/-- 21 iterations of `("a"){2,}`: a derivation of the grammar; the generator produces it with cap 30 (after the
    tuner has raised it), not with cap 20; the parser-language model accepts the word whatever the cap was when
    the parser was built — and so does the real parser since b48dd899 (the harness feeds cap+1 and 2·cap+3
    iterations; before, `{n,}` was compiled with the cap as upper bound and this word was rejected: finding
    F38, fixed). -/
theorem C05_open_repetition_parsed :
    validFast capG noRe (capTree 21) = true ∧
    capValid selAll 30 capG noRe (capTree 21) = true ∧
    capValid selAll 20 capG noRe (capTree 21) = false ∧
    Scan.accepts capG (Scan.noRegexInp (List.replicate 21 97 ++ [98])) 21 1 "<start>" = true ∧
    Scan.accepts capG (Scan.noRegexInp [97, 98]) 21 1 "<start>" = false := by
  refine ⟨by decide +kernel, by decide +kernel, by decide +kernel, by decide +kernel, by decide +kernel⟩

end RepCap
end FV
