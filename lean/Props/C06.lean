/-
C06 — parsing always terminates.   (work in progress: witness first)
-/
import Model.Earley
import Generated.Earley
namespace FV.Earley

def optA : Node := .rep "o" .opt (.term (.lit (.text [97]))) 0 (some 1)
def starN : Node := .rep "s" .star optA 0 none
/-- `<start> ::= ("a"?)* "b"` -/
def G0 : Grammar := { rules := [("<start>", .cat "c" [starN, .term (.lit (.text [98]))])] }
def inAB : Input := { isBytes := false, cells := [97, 98], rlen := fun _ _ => none }
def cfg0 (p : Policy) : Cfg := mkCfg G0 20 inAB "<start>" p (predDefault G0 20)

def Res.running : Res → Bool
  | .next _ => true
  | _ => false
def Res.m : Res → M
  | .next m => m
  | .done m => m
  | .raised m => m
def admitted (r : Res) : Nat := (r.m.cols.map (fun c => c.states.length)).foldl (· + ·) 0

theorem C06_admitImpl_diverges_example :
    (run (cfg0 .impl) 400 (M.init (cfg0 .impl))).running = true
    ∧ admitted (run (cfg0 .impl) 200 (M.init (cfg0 .impl))) < admitted (run (cfg0 .impl) 400 (M.init (cfg0 .impl))) := by
  decide +kernel

end FV.Earley
