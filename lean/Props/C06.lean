/-
C06 — parsing always terminates.

FULL STATEMENT (all grammars the spec reader accepts, all finite inputs, the variant of the parser the source has):

    def FullStatement (v : Variant) : Prop :=
      ∀ (G : Grammar) (inp : Input) (start : String) (pred : Nat → NT → List (List ESym)),
        (∀ k x rhs, rhs ∈ pred k x → (x, rhs) ∈ compile G v.cap) →
        ∃ n m', run (mkCfg G v inp start pred) n (M.init _) = .done m' ∨ … = .raised m'

(`FullStatement` below.)  It is PROVED for the parser as it is (`C06_parse_terminates : FullStatement Variant.now`,
`C06_generated_variant_terminates` for the variant the translator reads from the source on every run), for the
model `Model/Earley.lean` (one-shot COMPLETE parse — prefix mode: see below; the machine includes the loop that ends `predict` — /repo
1d73281f —, the open-ended `{n,}` tail — b48dd899 —, the repetition shortcut, and the admission rule of the code:
duplicate ⇔ same item AND same children, with the covering cut of /repo 73e5ffe3).  No `NoEpsCycle`-style hypothesis,
no fuel in the statement: the step bound `stepBoundN c (chartBound c) + 1` is a function of the configuration.

* `C06_core_item_space_finite`   the core item space of a column is finite, with the design's bound;
* `C06_recognise_terminates`     for every rule table, prediction order, scanner, with or without the completing
                                 `predict`: the chart closure under `admitCore` (duplicate ⇔ same item) reaches
                                 `done`/`raised` within `stepBound c` steps, a function of the configuration
                                 (well-founded measure `mu`, every step decreases it: `step_core`);
* `C06_recognise_terminates_all_grammars`  = FullStatement for every variant with the core policy;
* `C06_steps_bounded_by_chart` / `C06_nontermination_needs_unbounded_chart`  EVERY admission policy, every grammar,
                                 input, prediction order: a run that is still going after `n` steps and whose columns
                                 hold at most `N` states has `n ≤ stepBoundN c N` (measure `muN`,
                                 `Proofs/EarleyGrow.lean`): no loop outside the admissions (`complete`'s live list,
                                 the loop that ends `predict`, the repetition shortcut included);
* `C06_chart_bounded`            **the covering cut bounds the chart**: under the admission rule of the code
                                 (`Policy.acyclic`) every column of every chart the machine builds — any rule table,
                                 prediction order that only offers alternatives of the table, scanner that does not
                                 move backwards — holds at most `chartBound c` states.  Proof
                                 (`Proofs/EarleyBoundK.lean`, `Proofs/EarleyBound.lean`): every admitted state `s` of
                                 column `j` has its children in the finite list `K c (base c j + lr c j s)`, where
                                 the rank `lr` is (j − origin, number of nonterminals of the table in the covering set
                                 of `s` as read in column `j`, dot) lexicographically.  A completion builds the new
                                 state from a completed state `t` and an advanced state `s`; `s` has a smaller dot and
                                 a covering set that is no larger, or lives in an earlier column; `t` starts later
                                 than the new state, or — same span — its nonterminal is NOT in its own covering set
                                 (otherwise `complete` cut it: `cyclicAt`) but IS in the new state's, which also
                                 contains all of `t`'s: strictly more covered nonterminals.  So along every chain of
                                 same-span derivations the covering set grows strictly, the rank is `< RR c`, and the
                                 children of every admitted state are built in boundedly many rounds from finitely
                                 many labels and leaves (`K`).  Invariant `TInv`, preserved by scan, predict,
                                 complete, the completions that end `predict` and the repetition shortcut
                                 (`step_inv`); pairwise different states with keys in a finite space: pigeonhole;
* `C06_forest_terminates`        hence the machine of the code reaches `done`/`raised` within
                                 `stepBoundN c (chartBound c) + 1` steps — every rule table, input, prediction order,
                                 scanner oracle;
* `C06_forest_terminates_all_grammars`  = FullStatement for every variant with the policy of the code;
  `C06_parse_terminates`         = FullStatement Variant.now;
  `C06_generated_variant_terminates`  the variant read from the source now is one the model has and FullStatement
                                 holds for it (a source that went back to the OLD admission rule makes this
                                 obligation fail — the check then reports F9 again);
* `C06_parse_answer_total` / `C06_parse_is_total_function` / `C06_generated_parse_is_total_function`
                                 **the parser model is a TOTAL FUNCTION, no fuel left free**: at the budget
                                 `totalFuel c = stepBoundN c (chartBound c) + 1` `parseComplete` has an answer, every
                                 larger budget returns the same answer, and a budget that returns anything returns it
                                 (`Proofs/EarleyFuel.lean`: a stopped run is stable under more fuel).  Composed with
                                 soundness and completeness — one Lean theorem each, possible since the name clash
                                 between the C04 and C06 proof families was removed (`TInv`, `tinv_init`,
                                 `Proofs/EarleyCols.lean`) —: `C04_total_parse_sound` (the answer's trees are valid and
                                 tile the input), `C05_parse_total` (with a bounded regex oracle the answer is never an
                                 exception), `C05_parse_decides_language` (the answer is non-empty IFF the word is in
                                 the scanner-level language), `C05_roundtrip_total`;
* `C06_cut_terminates_witnesses` the parser as it is now finishes on the design's witness `("a"?)* "b"` / "ab" and on
                                 four other grammars with a same-span self-derivation, with exactly the acyclic trees
                                 (`decide +kernel`); the cut does not reject the input;
* `C06_generated_variant_verdict` the verdict for the generated variant on the witness (concrete run);
* `C06_old_admitImpl_diverges_example_partial`  OLD (the code before /repo 73e5ffe3, `Variant.old`; NOT true of the
                                 code as it is): FullStatement (Variant.old 20) is refuted on `("a"?)* "b"` / "ab" *up
                                 to the bound checked*: after 200, 400, 600 steps the machine is still running and the
                                 number of admitted states has grown each time.  Kept as the record of finding F9.

PREFIX (INCOMPLETE) MODE — section "prefix mode" at the end of this file; model `Model/EarleyPrefix.lean` (one-shot
`parse_forest(word, mode=INCOMPLETE)`: the incomplete states of `scan_bytes` / `scan_regex`, the end-of-input pass of
`_consume` over the live last column with its forced completions of unfinished states, the covering sets of pairs
`(nonterminal, finished?)`, `_incomplete`, the yield order, the final repetition shortcut):
* `C06_prefix_terminates : PrefixStatement Variant.now`  for every grammar, input, both regex oracles, start symbol and
                                 prediction order the prefix-mode machine reaches `done`/`raised` within `prefixBound pc`
                                 steps, a function of the configuration (`C06_prefix_machine_terminates` for every rule
                                 table / scanner / partial-match oracle; `C06_prefix_terminates_all_grammars` for every
                                 variant with the policy of the code; `C06_prefix_generated_variant_terminates` for the
                                 variant read from the source; `C06_prefix_answer`: `parsePrefix` has an answer);
* `C06_prefix_last_column_bounded`  the covering cut bounds the forced completions: at most `capP pc` states in the last
                                 column of the end-of-input phase (rank `lrP`, levels `KB`, pigeonhole —
                                 `Proofs/EarleyPrefixK.lean`, `EarleyPrefixInv.lean`, `EarleyPrefixTerm.lean`);
* `C06_prefix_cut_terminates_witnesses`  the left-recursive grammar of finding F32 on "ab" and `("a"?)* "b"` on "a":
                                 concrete runs of the code as it is (`decide +kernel`);
* `C06_old_prefix_left_recursion_diverges_example_partial`  OLD (before /repo 73e5ffe3; NOT true of the code as it is):
                                 F32 — still running and growing after 200/400/600 steps.
* `C04_prefix_sound_partial`     (the subject of C04 carried over, partial) every tree `parsePrefix` yields — every variant,
                                 grammar typed for the input, prediction order, fuel — is the collapsed node of the start
                                 symbol over children that are a prefix of an expansion of one of its rules in the
                                 compiled table, recursively (`PreL`, `Proofs/EarleyPrefixSound.lean`: the chart invariant
                                 of `Proofs/C04Chart.lean` re-proved with `stop` and the partial leaf), spanning all columns,
                                 and its leaves tile the whole input (the partial leaf is the rest of the input);
                                 `C04_prefix_chart_sound` the same at chart level for every rule table / scanner / policy.
                                 The stronger "only the rightmost path is cut short" is FALSE of the code (witness in
                                 the section, observation findings/OBS-C04-prefix-sibling-after-unfinished); not carried
                                 over: the collapse to the IR-level derivation relation `Matches` / `Valid`.
* `C04_prefix_rightmost_path_only_is_false_witness`  the machine-checked witness of that (model run on `G6` / "x", `decide +kernel`).
Differential only for prefix mode: that the model is the code (per run: the same states in every column, incomplete and
force-completed ones included, the same yielded trees), the partial-match regex oracle (`regex` module), the one
documented deviation of the model (an ordinary state admitted to the last column after an incomplete state with the same
item and children: never observed, impossible for compiled grammars by a children-count argument that is not proved).

NOT proved / not modelled: incremental feeding (`consume` called several times on one parse: an incomplete state that
is continued), `starter_bit`, `hookin_parent`, computed repetitions; the first-tree request is the forest run stopped
early.  `chartBound` / `capP` are (huge, non-elementary looking) functions of the configuration — they show
termination, not a useful complexity bound; the check's step budgets come from the model's own step count, not from
them.  The tie of the model to /repo is the per-run correspondence of `harness/props/c06.py` (same states per column as
the real parser, same forest — COMPLETE and prefix mode) and the translator.
-/
import Model.Earley
import Proofs.EarleyTerm
import Proofs.EarleyGrow
import Proofs.EarleyBound
import Proofs.EarleyFuel
import Model.EarleyPrefix
import Proofs.EarleyPrefixTerm
import Proofs.EarleyPrefixSound
import Generated.Earley
namespace FV.Earley

def optA : Node := .rep "o" .opt (.term (.lit (.text [97]))) 0 (some 1)
def starN : Node := .rep "s" .star optA 0 none
def plusN : Node := .rep "p" .plus optA 1 none
def litB : Node := .term (.lit (.text [98]))
/-- `<start> ::= ("a"?)* "b"` -/
def G0 : Grammar := { rules := [("<start>", .cat "c" [starN, litB])] }
/-- `<start> ::= ("a"?)+ "b"` -/
def G1 : Grammar := { rules := [("<start>", .cat "c" [plusN, litB])] }
/-- `<start> ::= <a> "b" ; <a> ::= <a> | "a"` (unit cycle) -/
def G2 : Grammar := { rules := [("<start>", .cat "c" [.nt "<a>" none none, litB]),
                                ("<a>", .alt "d" [.nt "<a>" none none, .term (.lit (.text [97]))])] }
/-- `<start> ::= (("a"?)*)* "b"` -/
def G3 : Grammar := { rules := [("<start>", .cat "c" [.rep "t" .star starN 0 none, litB])] }
/-- `<start> ::= ("a"?){2,} "b"` (open-ended repetition with an empty-deriving body) -/
def G4 : Grammar := { rules := [("<start>", .cat "c" [.rep "q" .braces optA 2 none, litB])] }
def inAB : Input := { isBytes := false, cells := [97, 98], rlen := fun _ _ => none }
def cfgV (G : Grammar) (v : Variant) : Cfg := mkCfg G v inAB "<start>" (predDefault G v.cap)

def Res.running : Res → Bool
  | .next _ => true
  | _ => false
def Res.isDone : Res → Bool
  | .done _ => true
  | _ => false
def Res.m : Res → M
  | .next m => m
  | .done m => m
  | .raised m => m
def nAdmitted (r : Res) : Nat := (r.m.cols.map (fun c => c.states.length)).foldl (· + ·) 0
def runV (G : Grammar) (v : Variant) (n : Nat) : Res := run (cfgV G v) n (M.init (cfgV G v))

/-- the full statement for a variant of the parser -/
def FullStatement (v : Variant) : Prop :=
  ∀ (G : Grammar) (inp : Input) (start : String) (pred : Nat → NT → List (List ESym)),
    (∀ k x rhs, rhs ∈ pred k x → (x, rhs) ∈ compile G v.cap) →
    ∃ n m', run (mkCfg G v inp start pred) n (M.init (mkCfg G v inp start pred)) = .done m'
          ∨ run (mkCfg G v inp start pred) n (M.init (mkCfg G v inp start pred)) = .raised m'

/-- the core item space of column `j`: (dot slots of the rule table) × (origins ≤ j), at most
    `|rules'| · (maxRhs + 1) · (j + 1)` — the bound of DESIGN §4 -/
theorem C06_core_item_space_finite (c : Cfg) (j : Nat) :
    (itemSpace c j).length = dotSlots c.rules' * (j + 1)
    ∧ (itemSpace c j).length ≤ c.rules'.length * (maxRhs c.rules' + 1) * (j + 1)
    ∧ ∀ it, Item.ok c j it → it ∈ itemSpace c j := by
  refine ⟨itemSpace_length c j, ?_, fun it h => mem_itemSpace.2 h⟩
  rw [itemSpace_length]
  exact Nat.mul_le_mul_right _ (dotSlots_le _)

/-- the recogniser core terminates: for every configuration whose `predict` only offers alternatives of the
    rule table and whose scanner never moves backwards, the closure under `admitCore` is over after at most
    `stepBound c` steps — for every grammar (nullable, cyclic, left/right recursive), input and prediction order,
    with the loop that ends `predict` (`c.predDone`) or without it -/
theorem C06_recognise_terminates (c : Cfg) (hs : Sane c) (hp : c.policy = .core) :
    ∃ m', run c (stepBound c) (M.init c) = .done m' ∨ run c (stepBound c) (M.init c) = .raised m' :=
  run_core_finishes hs hp (stepBound c) (M.init c) (wf_init hp) (Nat.lt_succ_self _)

/-- the hypotheses of `C06_recognise_terminates` are met by every compiled grammar on every input (prediction in
    table order), in particular by the cyclic witness grammar with the machine of the code as it is now -/
example : Sane (cfgOf (compile G0 none) { Variant.now with policy := .core } inAB "<start>")
    ∧ (cfgOf (compile G0 none) { Variant.now with policy := .core } inAB "<start>").policy = .core
    ∧ (cfgOf (compile G0 none) { Variant.now with policy := .core } inAB "<start>").predDone = true :=
  ⟨sane_cfgOf _ _ _ _, rfl, rfl⟩

/-- **FullStatement for the core admission rule**: every grammar, every variant of compilation / scanner / `predict`,
    every input, start symbol and prediction order — the bound is a function of the configuration -/
theorem C06_recognise_terminates_all_grammars (v : Variant) (hp : v.policy = .core) : FullStatement v := by
  intro G inp start pred hpred
  obtain ⟨m', h⟩ := C06_recognise_terminates (mkCfg G v inp start pred) (sane_mkCfg G v inp start pred hpred) hp
  exact ⟨_, m', h⟩

/-- **every admission policy** (the code's included), every rule table, prediction order and scanner that does not
    move backwards: a run that has not stopped after `n` steps while every column of its chart holds at most `N`
    states has `n ≤ stepBoundN c N`.  (The other half of FullStatement — the chart of `Variant.now` stays bounded —
    is `C06_chart_bounded` below.) -/
theorem C06_steps_bounded_by_chart (c : Cfg) (hs : ScanMono c) (N n : Nat) (m : M)
    (h : run c n (M.init c) = .next m) (hN : ∀ j, (colAt m.cols j).states.length ≤ N) :
    n ≤ stepBoundN c N :=
  run_any_bounded hs N n (M.init c) m (wfN_init c) h hN

/-- the same for the machine of any grammar, variant of the code, input, start symbol and prediction order (no
    hypothesis on the prediction order is needed), as a statement about divergence: a parse that never stops
    builds, for every `N`, a column with more than `N` states -/
theorem C06_nontermination_needs_unbounded_chart (G : Grammar) (v : Variant) (inp : Input) (start : String)
    (pred : Nat → NT → List (List ESym))
    (hdiv : ∀ n, ∃ m, run (mkCfg G v inp start pred) n (M.init (mkCfg G v inp start pred)) = .next m) :
    ∀ N, ∃ n m j, run (mkCfg G v inp start pred) n (M.init (mkCfg G v inp start pred)) = .next m
      ∧ N < (colAt m.cols j).states.length := by
  intro N
  have hs : ScanMono (mkCfg G v inp start pred) := fun t k e l h => scanV_mono v inp t k e l h
  obtain ⟨m, hm⟩ := hdiv (stepBoundN (mkCfg G v inp start pred) N + 1)
  apply Classical.byContradiction
  intro hno
  have hall : ∀ j, (colAt m.cols j).states.length ≤ N := by
    intro j
    apply Classical.byContradiction
    intro hj
    exact hno ⟨_, m, j, hm, by omega⟩
  have := C06_steps_bounded_by_chart _ hs N _ m hm hall
  omega

/-- non-vacuity: the witness run of the code as it is, one step before it stops, is such a run (`N = 27`) -/
example : ∃ m, run (cfgV G0 Variant.now) 86 (M.init (cfgV G0 Variant.now)) = .next m
    ∧ (∀ j, (colAt m.cols j).states.length ≤ 27) := by
  refine ⟨(runV G0 Variant.now 86).m, ?_, ?_⟩
  · have : (runV G0 Variant.now 86).running = true := by decide +kernel
    unfold runV at this ⊢
    cases h : run (cfgV G0 Variant.now) 86 (M.init (cfgV G0 Variant.now)) with
    | next m => rfl
    | done m => rw [h] at this; cases this
    | raised m => rw [h] at this; cases this
  · intro j
    have hall : ((runV G0 Variant.now 86).m.cols.all (fun col => decide (col.states.length ≤ 27))) = true := by
      decide +kernel
    unfold colAt
    rw [List.getD_eq_getElem?_getD]
    cases hj : (runV G0 Variant.now 86).m.cols[j]? with
    | none => simp
    | some col =>
      have := List.all_eq_true.1 hall col (List.mem_of_getElem? hj)
      simpa using this

/-- **the covering cut bounds the chart**: under the admission rule of the code (duplicate ⇔ same item and same
    children; `complete` skips a finished state whose nonterminal is in its own covering set) every column of every
    chart the machine builds holds at most `chartBound c` states — every rule table, every prediction order that only
    offers alternatives of the table, every scanner that does not move backwards -/
theorem C06_chart_bounded (c : Cfg) (hs : Sane c) (hp : c.policy = .acyclic) (n : Nat) (m : M)
    (h : run c n (M.init c) = .next m) (j : Nat) : (colAt m.cols j).states.length ≤ chartBound c :=
  run_chart_bounded hs hp n m h j

/-- **the machine of the code stops**: `done` or `raised` within `stepBoundN c (chartBound c) + 1` steps, a function of
    the configuration — for every rule table (nullable, cyclic, left/right recursive), input, prediction order and
    scanner oracle; no hypothesis on the grammar -/
theorem C06_forest_terminates (c : Cfg) (hs : Sane c) (hp : c.policy = .acyclic) :
    ∃ m', run c (stepBoundN c (chartBound c) + 1) (M.init c) = .done m'
        ∨ run c (stepBoundN c (chartBound c) + 1) (M.init c) = .raised m' :=
  run_acyclic_finishes hs hp

/-- the hypotheses of `C06_chart_bounded` / `C06_forest_terminates` are met by every compiled grammar on every input,
    in particular by the cyclic witness grammar `("a"?)* "b"` with the machine of the code as it is now -/
example : Sane (cfgOf (compile G0 none) Variant.now inAB "<start>")
    ∧ (cfgOf (compile G0 none) Variant.now inAB "<start>").policy = .acyclic
    ∧ hasEpsCycle (compile G0 none) = true :=
  ⟨sane_cfgOf _ _ _ _, rfl, by decide +kernel⟩

/-- **FullStatement for the admission rule of the code**: every grammar, every variant of compilation / scanner /
    `predict` with the policy `acyclic`, every input, start symbol and prediction order -/
theorem C06_forest_terminates_all_grammars (v : Variant) (hp : v.policy = .acyclic) : FullStatement v := by
  intro G inp start pred hpred
  obtain ⟨m', h⟩ := C06_forest_terminates (mkCfg G v inp start pred) (sane_mkCfg G v inp start pred hpred) hp
  exact ⟨_, m', h⟩

/-- **the parser as it is now terminates** on every grammar and every finite input (COMPLETE mode, whole forest) -/
theorem C06_parse_terminates : FullStatement Variant.now :=
  C06_forest_terminates_all_grammars Variant.now rfl

/-- the variant the translator read from the source *now* is one the model has, and the full statement holds for it
    (it fails to compile for a source with the OLD admission rule `impl`) -/
theorem C06_generated_variant_terminates : ∃ v, Gen.variant = some v ∧ FullStatement v :=
  ⟨_, rfl, C06_forest_terminates_all_grammars _ rfl⟩

/-! ### the parser model as a total function: the answer does not depend on the fuel -/

/-- **the answer exists and is independent of the step budget**: for every configuration with the admission rule of
    the code (any rule table, prediction order that only offers alternatives of the table, scanner that does not move
    backwards), `parseComplete` has finished at `totalFuel c = stepBoundN c (chartBound c) + 1`; every larger budget
    returns the same answer; every budget that returns an answer returns this one -/
theorem C06_parse_answer_total (c : Cfg) (hs : Sane c) (hp : c.policy = .acyclic) :
    ∃ r, parseComplete c (totalFuel c) = some r ∧
      (∀ fuel, totalFuel c ≤ fuel → parseComplete c fuel = some r) ∧
      (∀ fuel r', parseComplete c fuel = some r' → r' = r) :=
  parse_total hs hp

/-- the statement "the parser is a total function" for a variant of the code: every grammar, input, start symbol and
    prediction order within the table -/
def TotalStatement (v : Variant) : Prop :=
  ∀ (G : Grammar) (inp : Input) (start : String) (pred : Nat → NT → List (List ESym)),
    (∀ k x rhs, rhs ∈ pred k x → (x, rhs) ∈ compile G v.cap) →
    ∃ r, parseComplete (mkCfg G v inp start pred) (totalFuel (mkCfg G v inp start pred)) = some r ∧
      (∀ fuel, totalFuel (mkCfg G v inp start pred) ≤ fuel → parseComplete (mkCfg G v inp start pred) fuel = some r) ∧
      (∀ fuel r', parseComplete (mkCfg G v inp start pred) fuel = some r' → r' = r)

/-- **the parser as it is now is a total function** of grammar, input, start symbol and prediction order -/
theorem C06_parse_is_total_function : TotalStatement Variant.now := by
  intro G inp start pred hpred
  exact C06_parse_answer_total _ (sane_mkCfg G Variant.now inp start pred hpred) rfl

/-- … and so is the variant the translator read from the source now -/
theorem C06_generated_parse_is_total_function : ∃ v, Gen.variant = some v ∧ TotalStatement v :=
  ⟨_, rfl, fun G inp start pred hpred => C06_parse_answer_total _ (sane_mkCfg G _ inp start pred hpred) rfl⟩

/-- the hypotheses of `C06_parse_answer_total` are met by the cyclic witness grammar `("a"?)* "b"` on "ab" (prediction
    in table order); the run of the model that is over within 300 steps (`decide +kernel`) IS the answer at `totalFuel`
    (which is far too large to run): exactly one tree -/
example : ∃ ts, parseComplete (cfgOf (compile G0 none) Variant.now inAB "<start>")
      (totalFuel (cfgOf (compile G0 none) Variant.now inAB "<start>")) = some (.ok ts) ∧ ts.length = 1 := by
  obtain ⟨r, h1, _, h3⟩ := C06_parse_answer_total (cfgOf (compile G0 none) Variant.now inAB "<start>")
    (sane_cfgOf _ _ _ _) rfl
  have hrun : (match parseComplete (cfgOf (compile G0 none) Variant.now inAB "<start>") 300 with
      | some (.ok ts) => ts.length
      | _ => 0) = 1 := by decide +kernel
  cases hr : parseComplete (cfgOf (compile G0 none) Variant.now inAB "<start>") 300 with
  | none => rw [hr] at hrun; cases hrun
  | some r' =>
    cases r' with
    | error e => rw [hr] at hrun; cases hrun
    | ok l =>
      rw [hr] at hrun
      have := h3 300 _ hr
      subst this
      exact ⟨l, h1, hrun⟩

/-- the parser as it is now (children in the admission test + the covering cut, the completing `predict`, the
    open-ended tail) on the design's witness and four other grammars with a same-span self-derivation: it finishes
    on "ab" within 200 steps with exactly the acyclic trees (1, 2, 1, 1, 3); the cut does not reject the input -/
theorem C06_cut_terminates_witnesses :
    (runV G0 Variant.now 200).isDone = true ∧ (runV G0 Variant.now 200).m.out.length = 1
    ∧ (runV G1 Variant.now 200).isDone = true ∧ (runV G1 Variant.now 200).m.out.length = 2
    ∧ (runV G2 Variant.now 200).isDone = true ∧ (runV G2 Variant.now 200).m.out.length = 1
    ∧ (runV G3 Variant.now 200).isDone = true ∧ (runV G3 Variant.now 200).m.out.length = 1
    ∧ (runV G4 Variant.now 200).isDone = true ∧ (runV G4 Variant.now 200).m.out.length = 3
    ∧ hasEpsCycle (compile G0 none) = true ∧ hasEpsCycle (compile G2 none) = true
    ∧ hasEpsCycle (compile G4 none) = true := by
  decide +kernel

/-- what the variant read from the source *now* does on the witness `("a"?)* "b"` / "ab" -/
def verdictFor : Option Variant → Bool
  | some v =>
    match v.policy with
    | .impl => false                      -- the OLD admission rule: the witness diverges (theorem below)
    | _ => (runV G0 v 200).isDone
  | none => false

/-- the generated variant is one the model has, its admission rule is not the OLD one, and the witness terminates
    for it -/
theorem C06_generated_variant_verdict : verdictFor Gen.variant = true := by
  decide +kernel

/-- OLD — about the code BEFORE /repo 73e5ffe3 (`Variant.old`: duplicate ⇔ same item and same children, no cut), NOT
    about the code as it is: on `("a"?)* "b"` / "ab" the machine is still running after 200, 400 and 600 steps, the
    chart growing every time (finite witness, `decide +kernel`; partial: the statement for all n is not proved).
    The same run with the cut (`Variant.now`) is over after 87 steps. -/
theorem C06_old_admitImpl_diverges_example_partial :
    (runV G0 (Variant.old 20) 600).running = true
    ∧ nAdmitted (runV G0 (Variant.old 20) 200) < nAdmitted (runV G0 (Variant.old 20) 400)
    ∧ nAdmitted (runV G0 (Variant.old 20) 400) < nAdmitted (runV G0 (Variant.old 20) 600)
    ∧ (runV G0 Variant.now 87).isDone = true := by
  decide +kernel

/-! ## prefix mode

`parse_forest(word, mode=ParsingMode.INCOMPLETE)`, the machine `stepP` / `runP` / `parsePrefix` of
`Model/EarleyPrefix.lean`: phase A builds the columns exactly as COMPLETE mode does (one `step` of the chart machine
per step) and keeps the *incomplete* states (partial matches of a terminal against the rest of the input) of the last
column aside; phase B is the end-of-input pass of `_consume`: every state of the live last column that has children
is completed **as if it were finished** (forced completion), cut by the covering sets of /repo 73e5ffe3, whose
entries are derivations `(nonterminal, finished?)`.  Finding F32 lived here: with left recursion at the end of the
input the forced completions wrapped the result into itself again and again.

FULL STATEMENT (all grammars, all finite inputs, both regex oracles, every start symbol and prediction order):
`PrefixStatement v` below.  PROVED for the parser as it is: `C06_prefix_terminates : PrefixStatement Variant.now`, with
the explicit step bound `prefixBound pc` (a function of the configuration), and `C06_prefix_generated_variant_terminates`
for the variant the translator reads from the source.  The argument (`Proofs/EarleyPrefix*.lean`): phase A is the
COMPLETE-mode machine, so `TInv` / `muN` of `Proofs/EarleyBound.lean` / `EarleyGrow.lean` apply; when phase B begins the
children of every state are *atoms* (`K c (base c ncols)`, plus one partial leaf for the incomplete states); a forced
completion builds the new state of the last column from a completed state `t` and an advanced state `s` that both
have a strictly smaller rank `lrP` = (last − origin, number of derivations of the table in the covering set, dot): for
`t` because its derivation is NOT in its own covering set (else `complete` returned at once) but IS in the new
state's (same start), or because it starts later; so the children of every state of the last column lie in the finite
level `KB pc (RRP c)`, the keys (item, children, incomplete?) are pairwise different (`Column.add`), pigeonhole:
at most `capP pc` states (`C06_prefix_last_column_bounded`); the measure `muB` (free capacity, unvisited states, rest
of the active `complete` loop) drops with every step.

What rests on the differential check only: that `Model/EarleyPrefix.lean` is the code (per run: same states in every
column incl. the incomplete and the force-completed ones, same yielded trees), the two regex oracles, and the one
documented deviation (an ordinary state admitted after an incomplete one with the same item and children).  -/

/-- the full statement of C06 for prefix mode, for a variant of the parser -/
def PrefixStatement (v : Variant) : Prop :=
  ∀ (G : Grammar) (pi : PInput) (start : String) (pred : Nat → NT → List (List ESym)),
    (∀ k x rhs, rhs ∈ pred k x → (x, rhs) ∈ compile G v.cap) →
    ∃ pm', runP (mkPCfg G v pi start pred) (prefixBound (mkPCfg G v pi start pred))
              (PM.init (mkPCfg G v pi start pred)) = .done pm'
         ∨ runP (mkPCfg G v pi start pred) (prefixBound (mkPCfg G v pi start pred))
              (PM.init (mkPCfg G v pi start pred)) = .raised pm'

/-- **the prefix-mode machine of the code stops**: `done` or `raised` (`IndexError`) within `prefixBound pc` steps — every
    rule table (nullable, cyclic, left/right recursive), input, prediction order that only offers alternatives of the
    table, scanner that does not move backwards, ANY partial-match oracle -/
theorem C06_prefix_machine_terminates (pc : PCfg) (hs : Sane pc.c) (hp : pc.c.policy = .acyclic) :
    ∃ pm', runP pc (prefixBound pc) (PM.init pc) = .done pm' ∨ runP pc (prefixBound pc) (PM.init pc) = .raised pm' :=
  prefix_terminates hs hp

/-- **the forced completions are bounded by the covering cut**: in every reachable state of the prefix-mode machine the
    last column of the end-of-input phase holds at most `capP pc` states -/
theorem C06_prefix_last_column_bounded (pc : PCfg) (hs : Sane pc.c) (hp : pc.c.policy = .acyclic) (n : Nat) (pm : PM)
    (h : runP pc n (PM.init pc) = .next pm) : pm.last.length ≤ capP pc :=
  runP_last_bounded hs hp n _ pm (Or.inl (invA_init hp)) h

/-- **PrefixStatement for the admission rule of the code**: every grammar, every variant of compilation / scanner /
    `predict` with the policy `acyclic`, every input, start symbol and prediction order -/
theorem C06_prefix_terminates_all_grammars (v : Variant) (hp : v.policy = .acyclic) : PrefixStatement v := by
  intro G pi start pred hpred
  exact C06_prefix_machine_terminates (mkPCfg G v pi start pred) (sane_mkCfg G v pi.inp start pred hpred) hp

/-- **a prefix parse with the parser as it is now terminates** on every grammar and every finite input -/
theorem C06_prefix_terminates : PrefixStatement Variant.now :=
  C06_prefix_terminates_all_grammars Variant.now rfl

/-- the variant the translator read from the source *now*: the prefix statement holds for it -/
theorem C06_prefix_generated_variant_terminates : ∃ v, Gen.variant = some v ∧ PrefixStatement v :=
  ⟨_, rfl, C06_prefix_terminates_all_grammars _ rfl⟩

/-- hence `parsePrefix` has an answer at the fuel `prefixBound pc`: a list of partial trees or the exception -/
theorem C06_prefix_answer (pc : PCfg) (hs : Sane pc.c) (hp : pc.c.policy = .acyclic) :
    ∃ r, parsePrefix pc (prefixBound pc) = some r := by
  obtain ⟨pm', h | h⟩ := C06_prefix_machine_terminates pc hs hp
  · exact ⟨_, by unfold parsePrefix; rw [h]⟩
  · exact ⟨_, by unfold parsePrefix; rw [h]⟩

/-- `<start> ::= <a> ; <a> ::= <a> "b" | "a"`: left recursion — the grammar of finding F32 -/
def G5 : Grammar := { rules := [("<start>", .nt "<a>" none none),
  ("<a>", .alt "d" [.cat "e" [.nt "<a>" none none, litB], .term (.lit (.text [97]))])] }
def pinAB : PInput := { inp := inAB, rinc := fun _ _ => false }
/-- the input "a" -/
def pinA : PInput := { inp := { isBytes := false, cells := [97], rlen := fun _ _ => none }, rinc := fun _ _ => false }
def pcfgV (G : Grammar) (v : Variant) (pi : PInput) : PCfg := mkPCfg G v pi "<start>" (predDefault G v.cap)
def PRes.pm : PRes → PM
  | .next pm => pm
  | .done pm => pm
  | .raised pm => pm
def PRes.isDone : PRes → Bool
  | .done _ => true
  | _ => false
def PRes.running : PRes → Bool
  | .next _ => true
  | _ => false
def runPV (G : Grammar) (v : Variant) (pi : PInput) (n : Nat) : PRes := runP (pcfgV G v pi) n (PM.init (pcfgV G v pi))

/-- the prefix-mode machine for a compiled rule table, prediction in table order -/
def pcfgOf (rules : List CRule) (v : Variant) (pi : PInput) (start : String) : PCfg :=
  { c := cfgOf rules v pi.inp start, iscan := iscanV v pi }

/-- the hypotheses of `C06_prefix_machine_terminates` / `C06_prefix_last_column_bounded` are met by every compiled
    grammar on every input, in particular by the left-recursive grammar of F32 (inside the divergence class
    `hasLeftCycle` of prefix parses) with the machine of the code as it is now -/
example : Sane (pcfgOf (compile G5 none) Variant.now pinAB "<start>").c
    ∧ (pcfgOf (compile G5 none) Variant.now pinAB "<start>").c.policy = .acyclic
    ∧ hasLeftCycle (compile G5 none) = true :=
  ⟨sane_cfgOf _ _ _ _, rfl, by decide +kernel⟩

/-- the parser as it is now in prefix mode: on the left-recursive grammar of F32 and "ab" it is over within 80 steps
    with 7 states in the last column, the complete tree and one partial tree (the forced completion of the
    left-recursive rule is cut); on `("a"?)* "b"` / "a" (an empty-deriving body under a repetition AND an input that
    ends early) within 1000 steps with three partial trees -/
theorem C06_prefix_cut_terminates_witnesses :
    (runPV G5 Variant.now pinAB 80).isDone = true ∧ (runPV G5 Variant.now pinAB 80).pm.last.length = 7
    ∧ (runPV G5 Variant.now pinAB 80).pm.m.out.length = 1 ∧ (runPV G5 Variant.now pinAB 80).pm.out.length = 1
    ∧ (runPV G0 Variant.now pinA 1000).isDone = true ∧ (runPV G0 Variant.now pinA 1000).pm.out.length = 3
    ∧ (runPV G0 Variant.now pinA 1000).pm.m.out.length = 0 := by
  decide +kernel

/-- OLD — about the code BEFORE /repo 73e5ffe3 (`Variant.old`: no covering cut), NOT about the code as it is: finding
    F32.  On the left-recursive grammar and "ab" the prefix-mode machine is still running after 200, 400 and 600 steps,
    the last column and the number of yielded partial trees growing every time (finite witness, `decide +kernel`;
    partial: the statement for all n is not proved).  With the cut (`Variant.now`) the same run is over after 80. -/
theorem C06_old_prefix_left_recursion_diverges_example_partial :
    (runPV G5 (Variant.old 20) pinAB 600).running = true
    ∧ (runPV G5 (Variant.old 20) pinAB 200).pm.last.length < (runPV G5 (Variant.old 20) pinAB 400).pm.last.length
    ∧ (runPV G5 (Variant.old 20) pinAB 400).pm.last.length < (runPV G5 (Variant.old 20) pinAB 600).pm.last.length
    ∧ (runPV G5 (Variant.old 20) pinAB 200).pm.out.length < (runPV G5 (Variant.old 20) pinAB 600).pm.out.length
    ∧ (runPV G5 Variant.now pinAB 80).isDone = true := by
  decide +kernel

/-! ### soundness of prefix mode (the subject of C04, carried over; partial)

FULL STATEMENT (not proved): every tree a prefix parse yields is a *prefix of a derivation* of the grammar from the start
symbol — a valid derivation tree (`Valid`, helper symbols collapsed) of which only the rightmost path is cut short —
whose leaves spell the whole input, the last leaf possibly a proper prefix of a terminal.  THIS IS FALSE OF THE CODE as
stated: `<start> ::= <b> <c> | "x" <c> "z" ; <b> ::= "x" "y" ; <c> ::= "" "q"` on "x" yields `<start>(<b>("x"), <c>(""))` —
`<b>` is cut short and yet followed by `<c>` (a state advanced over the unfinished `<b>` by a forced completion is
advanced again by a state that starts in the last column): `findings/OBS-C04-prefix-sibling-after-unfinished`,
`C04_prefix_rightmost_path_only_is_false_witness` below.  What holds, and is proved for the model:
every inner node's children are a prefix of an expansion of one of its rules (`PreL`, over the compiled table: the
collapse to the IR-level `Matches` is not carried over), the root is the start symbol, and the leaves tile the whole
input. -/

/-- **every tree a prefix parse of the model yields** (every variant, grammar, typed input, prediction order, fuel) is
    the node of the start symbol, collapsed, over children that are a prefix of an expansion of one of its rules in
    the compiled table — recursively: every node's children are (`PreL`) — spanning all columns, and its leaves tile
    the whole input: each complete leaf is what the input holds at its column, the partial leaf of an incomplete
    terminal match is the rest of the input.  Partial: not collapsed to the IR-level derivation relation. -/
theorem C04_prefix_sound_partial (G : Grammar) (v : Variant) (pi : PInput) (start : String)
    (pred : Nat → NT → List (List ESym)) (R : RegexOracle)
    (hpred : ∀ k x rhs, rhs ∈ pred k x → (x, rhs) ∈ compile G v.cap)
    (hty : G.typed pi.inp.isBytes = true) (ho : OracleOk pi.inp R) (hc : CellsOk pi.inp)
    (fuel : Nat) (ts : List PartialTree) (h : parsePrefix (mkPCfg G v pi start pred) fuel = some (.ok ts)) :
    ∀ t ∈ ts, ∃ kids rhs, t = Tree.mk (.nt start) none none (collapseL kids) ∧ (NT.user start, rhs) ∈ compile G v.cap ∧
      PreL (tableOf G v.cap start) (scanV v pi.inp) (iscanV v pi) rhs kids 0 (8 * pi.inp.cells.length) ∧
      TilesLoose pi.inp t.leaves 0 (8 * pi.inp.cells.length) :=
  prefix_parse_sound G v pi start pred R hpred hty ho hc fuel ts h

/-- chart level, every rule table / scanner / partial-match oracle / policy: every tree the prefix-mode machine has
    yielded after any number of steps is the start node over a `PreL` derivation spanning all columns -/
theorem C04_prefix_chart_sound (pc : PCfg) (hs : SaneS pc.c) (hpos : 0 < pc.c.ncols) (fuel : Nat) :
    ∀ pt, pt ∈ (runP pc fuel (PM.init pc)).mach.m.out ++ (runP pc fuel (PM.init pc)).mach.out → TopOkP pc pt :=
  prefix_chart_sound pc hs hpos fuel

/-- the hypotheses of `C04_prefix_sound_partial` are met by the left-recursive grammar of F32 on "ab" (typed, no regex,
    text input), and the parse there does yield trees: two (the complete one and a partial one) -/
example : G5.typed pinAB.inp.isBytes = true ∧ OracleOk pinAB.inp (fun _ _ => false) ∧ CellsOk pinAB.inp
    ∧ (match parsePrefix (pcfgV G5 Variant.now pinAB) 80 with
        | some (.ok ts) => ts.length
        | _ => 0) = 2 :=
  ⟨(by decide +kernel), (by intro id w l h; cases h), (by intro h; cases h), (by decide +kernel)⟩

/-- `<start> ::= <b> <c> | "x" <c> "z" ; <b> ::= "x" "y" ; <c> ::= "" "q"` -/
def G6 : Grammar := { rules := [
  ("<start>", .alt "a1" [.cat "c1" [.nt "<b>" none none, .nt "<c>" none none],
                         .cat "c2" [.term (.lit (.text [120])), .nt "<c>" none none, .term (.lit (.text [122]))]]),
  ("<b>", .cat "c3" [.term (.lit (.text [120])), .term (.lit (.text [121]))]),
  ("<c>", .cat "c4" [.term (.lit (.text [])), .term (.lit (.text [113]))])] }
/-- the input "x" -/
def pinX : PInput := { inp := { isBytes := false, cells := [120], rlen := fun _ _ => none }, rinc := fun _ _ => false }
/-- `<start>(<b>("x"), <c>(""))` -/
def spuriousTree : Tree :=
  Tree.node "<start>" [Tree.node "<b>" [Tree.leaf (.text [120])], Tree.node "<c>" [Tree.leaf (.text [])]]

/-- **the stronger form of prefix soundness — only the rightmost path of a partial tree is cut short — is FALSE of the
    code** (model run, `decide +kernel`; the same four trees come out of the real parser: the check compares them, and
    `findings/OBS-C04-prefix-sibling-after-unfinished/repro.py` replays it).  On "x" the prefix parse of `G6` yields,
    among its four trees, `<start>(<b>("x"), <c>(""))`: the only rule of `<b>` is `"x" "y"`, so `<b>("x")` is cut short,
    and yet it is followed by the sibling `<c>` — no derivation of the grammar has this tree as a prefix (`<c>` can only
    start after "xy").  It satisfies `C04_prefix_sound_partial` (every node's children are a prefix of an expansion of
    its rule; the leaves "x", "" tile the input).  Cause: the state `<start-alt> ::= <b> • <c>` that the forced completion
    of the unfinished `<b>` adds to the last column is advanced again by the (force-completed) `<c>` that starts there. -/
theorem C04_prefix_rightmost_path_only_is_false_witness :
    (match parsePrefix (pcfgV G6 Variant.now pinX) 100 with
      | some (.ok ts) => decide (ts.length = 4) && ts.any (fun t => Tree.beq t spuriousTree)
      | _ => false) = true
    ∧ G6.rule "<b>" = some (.cat "c3" [.term (.lit (.text [120])), .term (.lit (.text [121]))])
    ∧ G6.typed pinX.inp.isBytes = true := by
  decide +kernel

end FV.Earley
