/-
C06 — parsing always terminates.

FULL STATEMENT (all grammars the spec reader accepts, all finite inputs, the variant of the parser the source has):

    def FullStatement (v : Variant) : Prop :=
      ∀ (G : Grammar) (inp : Input) (start : String) (pred : Nat → NT → List (List ESym)),
        (∀ k x rhs, rhs ∈ pred k x → (x, rhs) ∈ compile G v.cap) →
        ∃ n m', run (mkCfg G v inp start pred) n (M.init _) = .done m' ∨ … = .raised m'

(`FullStatement` below.)  It is PROVED for the parser as it is (`C06_parse_terminates : FullStatement Variant.now`,
`C06_generated_variant_terminates` for the variant the translator reads from the source on every run), for the
model `Model/Earley.lean` (one-shot COMPLETE parse — prefix mode: see below; the machine includes the loop that ends `predict` — /repo
1d73281f —, the open-ended `{n,}` tail — b48dd899 —, the repetition shortcut, and the admission rule of the code:
duplicate ⇔ same item AND same children, with the covering cut of /repo 73e5ffe3).  No `NoEpsCycle`-style hypothesis,
no fuel in the statement: the step bound `stepBoundN c (chartBound c) + 1` is a function of the configuration.

* `C06_core_item_space_finite`   the core item space of a column is finite, with the design's bound;
* `C06_recognise_terminates`     for every rule table, prediction order, scanner, with or without the completing
                                 `predict`: the chart closure under `admitCore` (duplicate ⇔ same item) reaches
                                 `done`/`raised` within `stepBound c` steps, a function of the configuration
                                 (well-founded measure `mu`, every step decreases it: `step_core`);
* `C06_recognise_terminates_all_grammars`  = FullStatement for every variant with the core policy;
* `C06_steps_bounded_by_chart` / `C06_nontermination_needs_unbounded_chart`  EVERY admission policy, every grammar,
                                 input, prediction order: a run that is still going after `n` steps and whose columns
                                 hold at most `N` states has `n ≤ stepBoundN c N` (measure `muN`,
                                 `Proofs/EarleyGrow.lean`): no loop outside the admissions (`complete`'s live list,
                                 the loop that ends `predict`, the repetition shortcut included);
* `C06_chart_bounded`            **the covering cut bounds the chart**: under the admission rule of the code
                                 (`Policy.acyclic`) every column of every chart the machine builds — any rule table,
                                 prediction order that only offers alternatives of the table, scanner that does not
                                 move backwards — holds at most `chartBound c` states.  Proof
                                 (`Proofs/EarleyBoundK.lean`, `Proofs/EarleyBound.lean`): every admitted state `s` of
                                 column `j` has its children in the finite list `K c (base c j + lr c j s)`, where
                                 the rank `lr` is (j − origin, number of nonterminals of the table in the covering set
                                 of `s` as read in column `j`, dot) lexicographically.  A completion builds the new
                                 state from a completed state `t` and an advanced state `s`; `s` has a smaller dot and
                                 a covering set that is no larger, or lives in an earlier column; `t` starts later
                                 than the new state, or — same span — its nonterminal is NOT in its own covering set
                                 (otherwise `complete` cut it: `cyclicAt`) but IS in the new state's, which also
                                 contains all of `t`'s: strictly more covered nonterminals.  So along every chain of
                                 same-span derivations the covering set grows strictly, the rank is `< RR c`, and the
                                 children of every admitted state are built in boundedly many rounds from finitely
                                 many labels and leaves (`K`).  Invariant `TInv`, preserved by scan, predict,
                                 complete, the completions that end `predict` and the repetition shortcut
                                 (`step_inv`); pairwise different states with keys in a finite space: pigeonhole;
* `C06_forest_terminates`        hence the machine of the code reaches `done`/`raised` within
                                 `stepBoundN c (chartBound c) + 1` steps — every rule table, input, prediction order,
                                 scanner oracle;
* `C06_forest_terminates_all_grammars`  = FullStatement for every variant with the policy of the code;
  `C06_parse_terminates`         = FullStatement Variant.now;
  `C06_generated_variant_terminates`  the variant read from the source now is one the model has and FullStatement
                                 holds for it (a source that went back to the OLD admission rule makes this
                                 obligation fail — the check then reports F9 again);
* `C06_parse_answer_total` / `C06_parse_is_total_function` / `C06_generated_parse_is_total_function`
                                 **the parser model is a TOTAL FUNCTION, no fuel left free**: at the budget
                                 `totalFuel c = stepBoundN c (chartBound c) + 1` `parseComplete` has an answer, every
                                 larger budget returns the same answer, and a budget that returns anything returns it
                                 (`Proofs/EarleyFuel.lean`: a stopped run is stable under more fuel).  Composed with
                                 soundness and completeness — one Lean theorem each, possible since the name clash
                                 between the C04 and C06 proof families was removed (`TInv`, `tinv_init`,
                                 `Proofs/EarleyCols.lean`) —: `C04_total_parse_sound` (the answer's trees are valid and
                                 tile the input), `C05_parse_total` (with a bounded regex oracle the answer is never an
                                 exception), `C05_parse_decides_language` (the answer is non-empty IFF the word is in
                                 the scanner-level language), `C05_roundtrip_total`;
* `C06_cut_terminates_witnesses` the parser as it is now finishes on the design's witness `("a"?)* "b"` / "ab" and on
                                 four other grammars with a same-span self-derivation, with exactly the acyclic trees
                                 (`decide +kernel`); the cut does not reject the input;
* `C06_generated_variant_verdict` the verdict for the generated variant on the witness (concrete run);
* `C06_old_admitImpl_diverges_example_partial`  OLD (the code before /repo 73e5ffe3, `Variant.old`; NOT true of the
                                 code as it is): FullStatement (Variant.old 20) is refuted on `("a"?)* "b"` / "ab" *up
                                 to the bound checked*: after 200, 400, 600 steps the machine is still running and the
                                 number of admitted states has grown each time.  Kept as the record of finding F9.

PREFIX (INCOMPLETE) MODE — section "prefix mode" at the end of this file; model `Model/EarleyPrefix.lean` (one-shot
`parse_forest(word, mode=INCOMPLETE)`: the incomplete states of `scan_bytes` / `scan_regex`, the end-of-input pass of
`_consume` over the live last column with its forced completions of unfinished states, the covering sets of pairs
`(nonterminal, finished?)`, `_incomplete`, the yield order, the final repetition shortcut).  The prefix-mode model has one
parameter of its own, `PCfg.cutShort` (`Gen.cutShort`, read from the source by the translator): the source has
`ParseState.cut_short` — the repair of finding C19:F68: a state advanced over a derivation that ends with the input is
marked and never advanced again — (`true`) or not (`false`).  Everything below is proved for BOTH values unless it says
otherwise:
* `C06_cut_short_irrelevant_in_complete_mode`  COMPLETE mode does not see the parameter: the chart machine of both values
                                 is the same configuration (so every theorem of C04 / C05 / C06 / C13 about COMPLETE mode
                                 holds verbatim for the patched and the unpatched source), every `complete` call of that
                                 machine is that of a finished state (the flag it would hand on is `False`), and the first
                                 loop of a prefix parse is the same machine step by step;
* `C06_prefix_terminates : ∀ cs, PrefixStatement Variant.now cs`  for every grammar, input, both regex oracles, start symbol and
                                 prediction order the prefix-mode machine reaches `done`/`raised` within `prefixBound pc`
                                 steps, a function of the configuration (`C06_prefix_machine_terminates` for every rule
                                 table / scanner / partial-match oracle; `C06_prefix_terminates_all_grammars` for every
                                 variant with the policy of the code; `C06_prefix_generated_variant_terminates` for the
                                 variant and the `cutShort` read from the source; `C06_prefix_answer`: `parsePrefix` has an
                                 answer);
* `C06_prefix_last_column_bounded`  the covering cut bounds the forced completions: at most `capP pc` states in the last
                                 column of the end-of-input phase (rank `lrP`, levels `KB`, pigeonhole —
                                 `Proofs/EarleyPrefixK.lean`, `EarleyPrefixInv.lean`, `EarleyPrefixTerm.lean`);
* `C06_prefix_cut_terminates_witnesses`  the left-recursive grammar of finding F32 on "ab" and `("a"?)* "b"` on "a":
                                 concrete runs, both values of `cutShort` (`decide +kernel`);
* `C06_old_prefix_left_recursion_diverges_example_partial`  OLD (before /repo 73e5ffe3; NOT true of the code as it is):
                                 F32 — still running and growing after 200/400/600 steps.
* `C04_prefix_sound_partial`     (the subject of C04 carried over, weak form, both values) every tree `parsePrefix` yields — every
                                 variant, grammar typed for the input, prediction order, fuel — is the collapsed node of the
                                 start symbol over children that are a prefix of an expansion of one of its rules in the
                                 compiled table, recursively (`PreL`, `Proofs/EarleyPrefixSound.lean`: the chart invariant
                                 of `Proofs/C04Chart.lean` re-proved with `stop` and the partial leaf), spanning all columns,
                                 and its leaves tile the whole input (the partial leaf is the rest of the input);
                                 `C04_prefix_chart_sound` the same at chart level for every rule table / scanner / policy.
* `C04_prefix_rightmost_path_only`  **the strong form, for the source WITH `cut_short`** (`cutShort = true`): every yielded
                                 tree is a prefix of a DERIVATION (`PreS`, `Proofs/EarleyPrefixStrong.lean`): in every node
                                 all children but the last are COMPLETE derivations, only the last may be cut short — a
                                 partial leaf, or a node that is again of this form (`C04_prefix_rightmost_path_shape`:
                                 children = complete derivation of the first `n` symbols ++ nothing / partial leaf / one
                                 cut-short child); it implies the weak form (`C04_prefix_strong_implies_weak`);
                                 `C04_prefix_chart_rightmost_path_only` at chart level for every rule table / scanner /
                                 policy; `C04_prefix_generated_rightmost_path_only` for what the translator read (vacuous
                                 while the source has no `cut_short`).  Not carried over: the collapse to the IR-level
                                 derivation relation `Matches` / `Valid`; what it gives C19 is stated at the end of the file.
* `C04_prefix_rightmost_path_only_is_false_witness`  ABOUT THE SOURCE WITHOUT `cut_short` (`cutShort = false`, /repo before the
                                 repair): the strong form is FALSE there — model run on `G6` / "x" (`decide +kernel`), the
                                 spurious tree `<start>(<b>("x"), <c>(""))`; the same run with `cutShort = true` yields the
                                 three genuine trees only (observation findings/OBS-C04-prefix-sibling-after-unfinished,
                                 finding C19:F68).
Differential only for prefix mode: that the model is the code (per run: the same states in every column, incomplete and
force-completed ones included, each with its `is_incomplete` and `cut_short` flag, the same yielded trees; no state of a
COMPLETE-mode run or of an earlier column is ever marked), the partial-match regex oracle (`regex` module), the one
documented deviation of the model (an ordinary state admitted to the last column after an incomplete state with the same
item and children: never observed, impossible for compiled grammars by a children-count argument that is not proved).

NOT proved / not modelled: incremental feeding (`consume` called several times on one parse: an incomplete state that
is continued), `starter_bit`, `hookin_parent`, computed repetitions; the first-tree request is the forest run stopped
early.  `chartBound` / `capP` are (huge, non-elementary looking) functions of the configuration — they show
termination, not a useful complexity bound; the check's step budgets come from the model's own step count, not from
them.  The tie of the model to /repo is the per-run correspondence of `harness/props/c06.py` (same states per column as
the real parser, same forest — COMPLETE and prefix mode) and the translator.
-/
import Model.Earley
import Proofs.EarleyTerm
import Proofs.EarleyGrow
import Proofs.EarleyBound
import Proofs.EarleyFuel
import Model.EarleyPrefix
import Proofs.EarleyPrefixTerm
import Proofs.EarleyPrefixSound
import Proofs.EarleyPrefixStrong
import Generated.Earley
namespace FV.Earley

def optA : Node := .rep "o" .opt (.term (.lit (.text [97]))) 0 (some 1)
def starN : Node := .rep "s" .star optA 0 none
def plusN : Node := .rep "p" .plus optA 1 none
def litB : Node := .term (.lit (.text [98]))
/-- `<start> ::= ("a"?)* "b"` -/
def G0 : Grammar := { rules := [("<start>", .cat "c" [starN, litB])] }
/-- `<start> ::= ("a"?)+ "b"` -/
def G1 : Grammar := { rules := [("<start>", .cat "c" [plusN, litB])] }
/-- `<start> ::= <a> "b" ; <a> ::= <a> | "a"` (unit cycle) -/
def G2 : Grammar := { rules := [("<start>", .cat "c" [.nt "<a>" none none, litB]),
                                ("<a>", .alt "d" [.nt "<a>" none none, .term (.lit (.text [97]))])] }
/-- `<start> ::= (("a"?)*)* "b"` -/
def G3 : Grammar := { rules := [("<start>", .cat "c" [.rep "t" .star starN 0 none, litB])] }
/-- `<start> ::= ("a"?){2,} "b"` (open-ended repetition with an empty-deriving body) -/
def G4 : Grammar := { rules := [("<start>", .cat "c" [.rep "q" .braces optA 2 none, litB])] }
def inAB : Input := { isBytes := false, cells := [97, 98], rlen := fun _ _ => none }
def cfgV (G : Grammar) (v : Variant) : Cfg := mkCfg G v inAB "<start>" (predDefault G v.cap)

def Res.running : Res → Bool
  | .next _ => true
  | _ => false
def Res.isDone : Res → Bool
  | .done _ => true
  | _ => false
def Res.m : Res → M
  | .next m => m
  | .done m => m
  | .raised m => m
def nAdmitted (r : Res) : Nat := (r.m.cols.map (fun c => c.states.length)).foldl (· + ·) 0
def runV (G : Grammar) (v : Variant) (n : Nat) : Res := run (cfgV G v) n (M.init (cfgV G v))

/-- the full statement for a variant of the parser -/
def FullStatement (v : Variant) : Prop :=
  ∀ (G : Grammar) (inp : Input) (start : String) (pred : Nat → NT → List (List ESym)),
    (∀ k x rhs, rhs ∈ pred k x → (x, rhs) ∈ compile G v.cap) →
    ∃ n m', run (mkCfg G v inp start pred) n (M.init (mkCfg G v inp start pred)) = .done m'
          ∨ run (mkCfg G v inp start pred) n (M.init (mkCfg G v inp start pred)) = .raised m'

/-- the core item space of column `j`: (dot slots of the rule table) × (origins ≤ j), at most
    `|rules'| · (maxRhs + 1) · (j + 1)` — the bound of DESIGN §4 -/
theorem C06_core_item_space_finite (c : Cfg) (j : Nat) :
    (itemSpace c j).length = dotSlots c.rules' * (j + 1)
    ∧ (itemSpace c j).length ≤ c.rules'.length * (maxRhs c.rules' + 1) * (j + 1)
    ∧ ∀ it, Item.ok c j it → it ∈ itemSpace c j := by
  refine ⟨itemSpace_length c j, ?_, fun it h => mem_itemSpace.2 h⟩
  rw [itemSpace_length]
  exact Nat.mul_le_mul_right _ (dotSlots_le _)

/-- the recogniser core terminates: for every configuration whose `predict` only offers alternatives of the
    rule table and whose scanner never moves backwards, the closure under `admitCore` is over after at most
    `stepBound c` steps — for every grammar (nullable, cyclic, left/right recursive), input and prediction order,
    with the loop that ends `predict` (`c.predDone`) or without it -/
theorem C06_recognise_terminates (c : Cfg) (hs : Sane c) (hp : c.policy = .core) :
    ∃ m', run c (stepBound c) (M.init c) = .done m' ∨ run c (stepBound c) (M.init c) = .raised m' :=
  run_core_finishes hs hp (stepBound c) (M.init c) (wf_init hp) (Nat.lt_succ_self _)

/-- the hypotheses of `C06_recognise_terminates` are met by every compiled grammar on every input (prediction in
    table order), in particular by the cyclic witness grammar with the machine of the code as it is now -/
example : Sane (cfgOf (compile G0 none) { Variant.now with policy := .core } inAB "<start>")
    ∧ (cfgOf (compile G0 none) { Variant.now with policy := .core } inAB "<start>").policy = .core
    ∧ (cfgOf (compile G0 none) { Variant.now with policy := .core } inAB "<start>").predDone = true :=
  ⟨sane_cfgOf _ _ _ _, rfl, rfl⟩

/-- **FullStatement for the core admission rule**: every grammar, every variant of compilation / scanner / `predict`,
    every input, start symbol and prediction order — the bound is a function of the configuration -/
theorem C06_recognise_terminates_all_grammars (v : Variant) (hp : v.policy = .core) : FullStatement v := by
  intro G inp start pred hpred
  obtain ⟨m', h⟩ := C06_recognise_terminates (mkCfg G v inp start pred) (sane_mkCfg G v inp start pred hpred) hp
  exact ⟨_, m', h⟩

/-- **every admission policy** (the code's included), every rule table, prediction order and scanner that does not
    move backwards: a run that has not stopped after `n` steps while every column of its chart holds at most `N`
    states has `n ≤ stepBoundN c N`.  (The other half of FullStatement — the chart of `Variant.now` stays bounded —
    is `C06_chart_bounded` below.) -/
theorem C06_steps_bounded_by_chart (c : Cfg) (hs : ScanMono c) (N n : Nat) (m : M)
    (h : run c n (M.init c) = .next m) (hN : ∀ j, (colAt m.cols j).states.length ≤ N) :
    n ≤ stepBoundN c N :=
  run_any_bounded hs N n (M.init c) m (wfN_init c) h hN

/-- the same for the machine of any grammar, variant of the code, input, start symbol and prediction order (no
    hypothesis on the prediction order is needed), as a statement about divergence: a parse that never stops
    builds, for every `N`, a column with more than `N` states -/
theorem C06_nontermination_needs_unbounded_chart (G : Grammar) (v : Variant) (inp : Input) (start : String)
    (pred : Nat → NT → List (List ESym))
    (hdiv : ∀ n, ∃ m, run (mkCfg G v inp start pred) n (M.init (mkCfg G v inp start pred)) = .next m) :
    ∀ N, ∃ n m j, run (mkCfg G v inp start pred) n (M.init (mkCfg G v inp start pred)) = .next m
      ∧ N < (colAt m.cols j).states.length := by
  intro N
  have hs : ScanMono (mkCfg G v inp start pred) := fun t k e l h => scanV_mono v inp t k e l h
  obtain ⟨m, hm⟩ := hdiv (stepBoundN (mkCfg G v inp start pred) N + 1)
  apply Classical.byContradiction
  intro hno
  have hall : ∀ j, (colAt m.cols j).states.length ≤ N := by
    intro j
    apply Classical.byContradiction
    intro hj
    exact hno ⟨_, m, j, hm, by omega⟩
  have := C06_steps_bounded_by_chart _ hs N _ m hm hall
  omega

/-- non-vacuity: the witness run of the code as it is, one step before it stops, is such a run (`N = 27`) -/
example : ∃ m, run (cfgV G0 Variant.now) 86 (M.init (cfgV G0 Variant.now)) = .next m
    ∧ (∀ j, (colAt m.cols j).states.length ≤ 27) := by
  refine ⟨(runV G0 Variant.now 86).m, ?_, ?_⟩
  · have : (runV G0 Variant.now 86).running = true := by decide +kernel
    unfold runV at this ⊢
    cases h : run (cfgV G0 Variant.now) 86 (M.init (cfgV G0 Variant.now)) with
    | next m => rfl
    | done m => rw [h] at this; cases this
    | raised m => rw [h] at this; cases this
  · intro j
    have hall : ((runV G0 Variant.now 86).m.cols.all (fun col => decide (col.states.length ≤ 27))) = true := by
      decide +kernel
    unfold colAt
    rw [List.getD_eq_getElem?_getD]
    cases hj : (runV G0 Variant.now 86).m.cols[j]? with
    | none => simp
    | some col =>
      have := List.all_eq_true.1 hall col (List.mem_of_getElem? hj)
      simpa using this

/-- **the covering cut bounds the chart**: under the admission rule of the code (duplicate ⇔ same item and same
    children; `complete` skips a finished state whose nonterminal is in its own covering set) every column of every
    chart the machine builds holds at most `chartBound c` states — every rule table, every prediction order that only
    offers alternatives of the table, every scanner that does not move backwards -/
theorem C06_chart_bounded (c : Cfg) (hs : Sane c) (hp : c.policy = .acyclic) (n : Nat) (m : M)
    (h : run c n (M.init c) = .next m) (j : Nat) : (colAt m.cols j).states.length ≤ chartBound c :=
  run_chart_bounded hs hp n m h j

/-- **the machine of the code stops**: `done` or `raised` within `stepBoundN c (chartBound c) + 1` steps, a function of
    the configuration — for every rule table (nullable, cyclic, left/right recursive), input, prediction order and
    scanner oracle; no hypothesis on the grammar -/
theorem C06_forest_terminates (c : Cfg) (hs : Sane c) (hp : c.policy = .acyclic) :
    ∃ m', run c (stepBoundN c (chartBound c) + 1) (M.init c) = .done m'
        ∨ run c (stepBoundN c (chartBound c) + 1) (M.init c) = .raised m' :=
  run_acyclic_finishes hs hp

/-- the hypotheses of `C06_chart_bounded` / `C06_forest_terminates` are met by every compiled grammar on every input,
    in particular by the cyclic witness grammar `("a"?)* "b"` with the machine of the code as it is now -/
example : Sane (cfgOf (compile G0 none) Variant.now inAB "<start>")
    ∧ (cfgOf (compile G0 none) Variant.now inAB "<start>").policy = .acyclic
    ∧ hasEpsCycle (compile G0 none) = true :=
  ⟨sane_cfgOf _ _ _ _, rfl, by decide +kernel⟩

/-- **FullStatement for the admission rule of the code**: every grammar, every variant of compilation / scanner /
    `predict` with the policy `acyclic`, every input, start symbol and prediction order -/
theorem C06_forest_terminates_all_grammars (v : Variant) (hp : v.policy = .acyclic) : FullStatement v := by
  intro G inp start pred hpred
  obtain ⟨m', h⟩ := C06_forest_terminates (mkCfg G v inp start pred) (sane_mkCfg G v inp start pred hpred) hp
  exact ⟨_, m', h⟩

/-- **the parser as it is now terminates** on every grammar and every finite input (COMPLETE mode, whole forest) -/
theorem C06_parse_terminates : FullStatement Variant.now :=
  C06_forest_terminates_all_grammars Variant.now rfl

/-- the variant the translator read from the source *now* is one the model has, and the full statement holds for it
    (it fails to compile for a source with the OLD admission rule `impl`) -/
theorem C06_generated_variant_terminates : ∃ v, Gen.variant = some v ∧ FullStatement v :=
  ⟨_, rfl, C06_forest_terminates_all_grammars _ rfl⟩

/-! ### the parser model as a total function: the answer does not depend on the fuel -/

/-- **the answer exists and is independent of the step budget**: for every configuration with the admission rule of
    the code (any rule table, prediction order that only offers alternatives of the table, scanner that does not move
    backwards), `parseComplete` has finished at `totalFuel c = stepBoundN c (chartBound c) + 1`; every larger budget
    returns the same answer; every budget that returns an answer returns this one -/
theorem C06_parse_answer_total (c : Cfg) (hs : Sane c) (hp : c.policy = .acyclic) :
    ∃ r, parseComplete c (totalFuel c) = some r ∧
      (∀ fuel, totalFuel c ≤ fuel → parseComplete c fuel = some r) ∧
      (∀ fuel r', parseComplete c fuel = some r' → r' = r) :=
  parse_total hs hp

/-- the statement "the parser is a total function" for a variant of the code: every grammar, input, start symbol and
    prediction order within the table -/
def TotalStatement (v : Variant) : Prop :=
  ∀ (G : Grammar) (inp : Input) (start : String) (pred : Nat → NT → List (List ESym)),
    (∀ k x rhs, rhs ∈ pred k x → (x, rhs) ∈ compile G v.cap) →
    ∃ r, parseComplete (mkCfg G v inp start pred) (totalFuel (mkCfg G v inp start pred)) = some r ∧
      (∀ fuel, totalFuel (mkCfg G v inp start pred) ≤ fuel → parseComplete (mkCfg G v inp start pred) fuel = some r) ∧
      (∀ fuel r', parseComplete (mkCfg G v inp start pred) fuel = some r' → r' = r)

/-- **the parser as it is now is a total function** of grammar, input, start symbol and prediction order -/
theorem C06_parse_is_total_function : TotalStatement Variant.now := by
  intro G inp start pred hpred
  exact C06_parse_answer_total _ (sane_mkCfg G Variant.now inp start pred hpred) rfl

/-- … and so is the variant the translator read from the source now -/
theorem C06_generated_parse_is_total_function : ∃ v, Gen.variant = some v ∧ TotalStatement v :=
  ⟨_, rfl, fun G inp start pred hpred => C06_parse_answer_total _ (sane_mkCfg G _ inp start pred hpred) rfl⟩

/-- the hypotheses of `C06_parse_answer_total` are met by the cyclic witness grammar `("a"?)* "b"` on "ab" (prediction
    in table order); the run of the model that is over within 300 steps (`decide +kernel`) IS the answer at `totalFuel`
    (which is far too large to run): exactly one tree -/
example : ∃ ts, parseComplete (cfgOf (compile G0 none) Variant.now inAB "<start>")
      (totalFuel (cfgOf (compile G0 none) Variant.now inAB "<start>")) = some (.ok ts) ∧ ts.length = 1 := by
  obtain ⟨r, h1, _, h3⟩ := C06_parse_answer_total (cfgOf (compile G0 none) Variant.now inAB "<start>")
    (sane_cfgOf _ _ _ _) rfl
  have hrun : (match parseComplete (cfgOf (compile G0 none) Variant.now inAB "<start>") 300 with
      | some (.ok ts) => ts.length
      | _ => 0) = 1 := by decide +kernel
  cases hr : parseComplete (cfgOf (compile G0 none) Variant.now inAB "<start>") 300 with
  | none => rw [hr] at hrun; cases hrun
  | some r' =>
    cases r' with
    | error e => rw [hr] at hrun; cases hrun
    | ok l =>
      rw [hr] at hrun
      have := h3 300 _ hr
      subst this
      exact ⟨l, h1, hrun⟩

/-- the parser as it is now (children in the admission test + the covering cut, the completing `predict`, the
    open-ended tail) on the design's witness and four other grammars with a same-span self-derivation: it finishes
    on "ab" within 200 steps with exactly the acyclic trees (1, 2, 1, 1, 3); the cut does not reject the input -/
theorem C06_cut_terminates_witnesses :
    (runV G0 Variant.now 200).isDone = true ∧ (runV G0 Variant.now 200).m.out.length = 1
    ∧ (runV G1 Variant.now 200).isDone = true ∧ (runV G1 Variant.now 200).m.out.length = 2
    ∧ (runV G2 Variant.now 200).isDone = true ∧ (runV G2 Variant.now 200).m.out.length = 1
    ∧ (runV G3 Variant.now 200).isDone = true ∧ (runV G3 Variant.now 200).m.out.length = 1
    ∧ (runV G4 Variant.now 200).isDone = true ∧ (runV G4 Variant.now 200).m.out.length = 3
    ∧ hasEpsCycle (compile G0 none) = true ∧ hasEpsCycle (compile G2 none) = true
    ∧ hasEpsCycle (compile G4 none) = true := by
  decide +kernel

/-- what the variant read from the source *now* does on the witness `("a"?)* "b"` / "ab" -/
def verdictFor : Option Variant → Bool
  | some v =>
    match v.policy with
    | .impl => false                      -- the OLD admission rule: the witness diverges (theorem below)
    | _ => (runV G0 v 200).isDone
  | none => false

/-- the generated variant is one the model has, its admission rule is not the OLD one, and the witness terminates
    for it -/
theorem C06_generated_variant_verdict : verdictFor Gen.variant = true := by
  decide +kernel

/-- OLD — about the code BEFORE /repo 73e5ffe3 (`Variant.old`: duplicate ⇔ same item and same children, no cut), NOT
    about the code as it is: on `("a"?)* "b"` / "ab" the machine is still running after 200, 400 and 600 steps, the
    chart growing every time (finite witness, `decide +kernel`; partial: the statement for all n is not proved).
    The same run with the cut (`Variant.now`) is over after 87 steps. -/
theorem C06_old_admitImpl_diverges_example_partial :
    (runV G0 (Variant.old 20) 600).running = true
    ∧ nAdmitted (runV G0 (Variant.old 20) 200) < nAdmitted (runV G0 (Variant.old 20) 400)
    ∧ nAdmitted (runV G0 (Variant.old 20) 400) < nAdmitted (runV G0 (Variant.old 20) 600)
    ∧ (runV G0 Variant.now 87).isDone = true := by
  decide +kernel

/-! ## prefix mode

`parse_forest(word, mode=ParsingMode.INCOMPLETE)`, the machine `stepP` / `runP` / `parsePrefix` of
`Model/EarleyPrefix.lean`: phase A builds the columns exactly as COMPLETE mode does (one `step` of the chart machine
per step) and keeps the *incomplete* states (partial matches of a terminal against the rest of the input) of the last
column aside; phase B is the end-of-input pass of `_consume`: every state of the live last column that has children
is completed **as if it were finished** (forced completion), cut by the covering sets of /repo 73e5ffe3, whose
entries are derivations `(nonterminal, finished?)`.  Finding F32 lived here: with left recursion at the end of the
input the forced completions wrapped the result into itself again and again.

FULL STATEMENT (all grammars, all finite inputs, both regex oracles, every start symbol and prediction order):
`PrefixStatement v cs` below (`cs`: the source has `ParseState.cut_short`).  PROVED for the parser as it is, with and without
`cut_short`: `C06_prefix_terminates : ∀ cs, PrefixStatement Variant.now cs`, with the explicit step bound `prefixBound pc` (a
function of the configuration), and `C06_prefix_generated_variant_terminates` for the variant and the `cutShort` the
translator reads from the source.  (`cut_short` only removes completions: an iteration of `complete` that is skipped admits
nothing and shortens the rest of the loop — the measure drops.)  The argument (`Proofs/EarleyPrefix*.lean`): phase A is the
COMPLETE-mode machine, so `TInv` / `muN` of `Proofs/EarleyBound.lean` / `EarleyGrow.lean` apply; when phase B begins the
children of every state are *atoms* (`K c (base c ncols)`, plus one partial leaf for the incomplete states); a forced
completion builds the new state of the last column from a completed state `t` and an advanced state `s` that both
have a strictly smaller rank `lrP` = (last − origin, number of derivations of the table in the covering set, dot): for
`t` because its derivation is NOT in its own covering set (else `complete` returned at once) but IS in the new
state's (same start), or because it starts later; so the children of every state of the last column lie in the finite
level `KB pc (RRP c)`, the keys (item, children, incomplete?) are pairwise different (`Column.add`), pigeonhole:
at most `capP pc` states (`C06_prefix_last_column_bounded`); the measure `muB` (free capacity, unvisited states, rest
of the active `complete` loop) drops with every step.

What rests on the differential check only: that `Model/EarleyPrefix.lean` is the code (per run: same states in every
column incl. the incomplete and the force-completed ones, same yielded trees), the two regex oracles, and the one
documented deviation (an ordinary state admitted after an incomplete one with the same item and children).  -/

/-- **`cut_short` is irrelevant in COMPLETE mode**: (1) the chart machine a prefix parse embeds — the machine of COMPLETE
    mode, `Model/Earley.lean` — is the same configuration `mkCfg G v …` for both values of `cutShort` (the model of
    COMPLETE mode has no such field: every theorem of C04 / C05 / C06 / C13 about `mkCfg` / `run` / `parseComplete` is a
    theorem about the source with and without the repair); (2) why that is the code: every `complete` call of that
    machine — from the main loop and from the loop that ends `predict` — is that of a FINISHED state, so the flag
    `state.cut_short or not state.finished()` it hands on is `False` as long as the flags it reads are (all states start
    with `False`; the harness checks on every recorded run that no state of a COMPLETE-mode run is marked); (3) the first
    loop of a prefix parse (phase A) is step by step the same for both values -/
theorem C06_cut_short_irrelevant_in_complete_mode (G : Grammar) (v : Variant) (pi : PInput) (start : String)
    (pred : Nat → NT → List (List ESym)) (hpred : ∀ k x rhs, rhs ∈ pred k x → (x, rhs) ∈ compile G v.cap) :
    ((mkPCfg G v true pi start pred).c = mkCfg G v pi.inp start pred
      ∧ (mkPCfg G v false pi start pred).c = mkCfg G v pi.inp start pred)
    ∧ (∀ fuel,
        (∀ t i, (run (mkCfg G v pi.inp start pred) fuel (M.init (mkCfg G v pi.inp start pred))).mach.frame = some (t, i) →
          (false || !t.item.finished) = false)
        ∧ (∀ t, t ∈ (run (mkCfg G v pi.inp start pred) fuel (M.init (mkCfg G v pi.inp start pred))).mach.pending →
          (false || !t.item.finished) = false))
    ∧ (∀ pm : PM, pm.phaseB = false →
        stepP (mkPCfg G v true pi start pred) pm = stepP (mkPCfg G v false pi start pred) pm) :=
  ⟨⟨rfl, rfl⟩,
   fun fuel => complete_mode_calls_finished _ (saneS_of_rules _ G v.cap rfl hpred) fuel,
   fun pm hph => stepP_phaseA_cutShort G v pi start pred pm hph⟩

/-- the full statement of C06 for prefix mode, for a variant of the parser and a value of `cutShort` -/
def PrefixStatement (v : Variant) (cs : Bool) : Prop :=
  ∀ (G : Grammar) (pi : PInput) (start : String) (pred : Nat → NT → List (List ESym)),
    (∀ k x rhs, rhs ∈ pred k x → (x, rhs) ∈ compile G v.cap) →
    ∃ pm', runP (mkPCfg G v cs pi start pred) (prefixBound (mkPCfg G v cs pi start pred))
              (PM.init (mkPCfg G v cs pi start pred)) = .done pm'
         ∨ runP (mkPCfg G v cs pi start pred) (prefixBound (mkPCfg G v cs pi start pred))
              (PM.init (mkPCfg G v cs pi start pred)) = .raised pm'

/-- **the prefix-mode machine of the code stops**: `done` or `raised` (`IndexError`) within `prefixBound pc` steps — every
    rule table (nullable, cyclic, left/right recursive), input, prediction order that only offers alternatives of the
    table, scanner that does not move backwards, ANY partial-match oracle -/
theorem C06_prefix_machine_terminates (pc : PCfg) (hs : Sane pc.c) (hp : pc.c.policy = .acyclic) :
    ∃ pm', runP pc (prefixBound pc) (PM.init pc) = .done pm' ∨ runP pc (prefixBound pc) (PM.init pc) = .raised pm' :=
  prefix_terminates hs hp

/-- **the forced completions are bounded by the covering cut**: in every reachable state of the prefix-mode machine the
    last column of the end-of-input phase holds at most `capP pc` states -/
theorem C06_prefix_last_column_bounded (pc : PCfg) (hs : Sane pc.c) (hp : pc.c.policy = .acyclic) (n : Nat) (pm : PM)
    (h : runP pc n (PM.init pc) = .next pm) : pm.last.length ≤ capP pc :=
  runP_last_bounded hs hp n _ pm (Or.inl (invA_init hp)) h

/-- **PrefixStatement for the admission rule of the code**: every grammar, every variant of compilation / scanner /
    `predict` with the policy `acyclic`, every input, start symbol and prediction order -/
theorem C06_prefix_terminates_all_grammars (v : Variant) (cs : Bool) (hp : v.policy = .acyclic) :
    PrefixStatement v cs := by
  intro G pi start pred hpred
  exact C06_prefix_machine_terminates (mkPCfg G v cs pi start pred) (sane_mkCfg G v pi.inp start pred hpred) hp

/-- **a prefix parse with the parser as it is now terminates** on every grammar and every finite input — with and
    without `ParseState.cut_short` -/
theorem C06_prefix_terminates : ∀ cs, PrefixStatement Variant.now cs :=
  fun cs => C06_prefix_terminates_all_grammars Variant.now cs rfl

/-- the variant and the `cutShort` the translator read from the source *now*: the prefix statement holds for them -/
theorem C06_prefix_generated_variant_terminates : ∃ v, Gen.variant = some v ∧ PrefixStatement v Gen.cutShort :=
  ⟨_, rfl, C06_prefix_terminates_all_grammars _ _ rfl⟩

/-- hence `parsePrefix` has an answer at the fuel `prefixBound pc`: a list of partial trees or the exception -/
theorem C06_prefix_answer (pc : PCfg) (hs : Sane pc.c) (hp : pc.c.policy = .acyclic) :
    ∃ r, parsePrefix pc (prefixBound pc) = some r := by
  obtain ⟨pm', h | h⟩ := C06_prefix_machine_terminates pc hs hp
  · exact ⟨_, by unfold parsePrefix; rw [h]⟩
  · exact ⟨_, by unfold parsePrefix; rw [h]⟩

/-- `<start> ::= <a> ; <a> ::= <a> "b" | "a"`: left recursion — the grammar of finding F32 -/
def G5 : Grammar := { rules := [("<start>", .nt "<a>" none none),
  ("<a>", .alt "d" [.cat "e" [.nt "<a>" none none, litB], .term (.lit (.text [97]))])] }
def pinAB : PInput := { inp := inAB, rinc := fun _ _ => false }
/-- the input "a" -/
def pinA : PInput := { inp := { isBytes := false, cells := [97], rlen := fun _ _ => none }, rinc := fun _ _ => false }
def pcfgV (G : Grammar) (v : Variant) (cs : Bool) (pi : PInput) : PCfg :=
  mkPCfg G v cs pi "<start>" (predDefault G v.cap)
def PRes.pm : PRes → PM
  | .next pm => pm
  | .done pm => pm
  | .raised pm => pm
def PRes.isDone : PRes → Bool
  | .done _ => true
  | _ => false
def PRes.running : PRes → Bool
  | .next _ => true
  | _ => false
def runPV (G : Grammar) (v : Variant) (cs : Bool) (pi : PInput) (n : Nat) : PRes :=
  runP (pcfgV G v cs pi) n (PM.init (pcfgV G v cs pi))

/-- the prefix-mode machine for a compiled rule table, prediction in table order -/
def pcfgOf (rules : List CRule) (v : Variant) (cs : Bool) (pi : PInput) (start : String) : PCfg :=
  { c := cfgOf rules v pi.inp start, iscan := iscanV v pi, cutShort := cs }

/-- the hypotheses of `C06_prefix_machine_terminates` / `C06_prefix_last_column_bounded` are met by every compiled
    grammar on every input, in particular by the left-recursive grammar of F32 (inside the divergence class
    `hasLeftCycle` of prefix parses) with the machine of the code as it is now -/
example (cs : Bool) : Sane (pcfgOf (compile G5 none) Variant.now cs pinAB "<start>").c
    ∧ (pcfgOf (compile G5 none) Variant.now cs pinAB "<start>").c.policy = .acyclic
    ∧ hasLeftCycle (compile G5 none) = true :=
  ⟨sane_cfgOf _ _ _ _, rfl, by decide +kernel⟩

/-- the parser as it is now in prefix mode, with and without `cut_short`: on the left-recursive grammar of F32 and "ab"
    it is over within 80 steps with 7 states in the last column, the complete tree and one partial tree (the forced
    completion of the left-recursive rule is cut); on `("a"?)* "b"` / "a" (an empty-deriving body under a repetition AND
    an input that ends early) within 1000 steps with three partial trees.  (With `cut_short` 1 resp. 16 states of the
    last column are marked.) -/
theorem C06_prefix_cut_terminates_witnesses : ∀ cs : Bool,
    (runPV G5 Variant.now cs pinAB 80).isDone = true ∧ (runPV G5 Variant.now cs pinAB 80).pm.last.length = 7
    ∧ (runPV G5 Variant.now cs pinAB 80).pm.m.out.length = 1 ∧ (runPV G5 Variant.now cs pinAB 80).pm.out.length = 1
    ∧ (runPV G0 Variant.now cs pinA 1000).isDone = true ∧ (runPV G0 Variant.now cs pinA 1000).pm.out.length = 3
    ∧ (runPV G0 Variant.now cs pinA 1000).pm.m.out.length = 0
    ∧ ((runPV G5 Variant.now cs pinAB 80).pm.last.filter (·.cut)).length = (if cs then 1 else 0)
    ∧ ((runPV G0 Variant.now cs pinA 1000).pm.last.filter (·.cut)).length = (if cs then 16 else 0) := by
  decide +kernel

/-- OLD — about the code BEFORE /repo 73e5ffe3 (`Variant.old`: no covering cut), NOT about the code as it is: finding
    F32.  On the left-recursive grammar and "ab" the prefix-mode machine is still running after 200, 400 and 600 steps,
    the last column and the number of yielded partial trees growing every time (finite witness, `decide +kernel`;
    partial: the statement for all n is not proved).  With the cut (`Variant.now`) the same run is over after 80. -/
theorem C06_old_prefix_left_recursion_diverges_example_partial :
    (runPV G5 (Variant.old 20) false pinAB 600).running = true
    ∧ (runPV G5 (Variant.old 20) false pinAB 200).pm.last.length < (runPV G5 (Variant.old 20) false pinAB 400).pm.last.length
    ∧ (runPV G5 (Variant.old 20) false pinAB 400).pm.last.length < (runPV G5 (Variant.old 20) false pinAB 600).pm.last.length
    ∧ (runPV G5 (Variant.old 20) false pinAB 200).pm.out.length < (runPV G5 (Variant.old 20) false pinAB 600).pm.out.length
    ∧ (runPV G5 Variant.now false pinAB 80).isDone = true := by
  decide +kernel

/-! ### soundness of prefix mode (the subject of C04, carried over)

FULL STATEMENT: every tree a prefix parse yields is a *prefix of a derivation* of the grammar from the start symbol — a valid
derivation tree (`Valid`, helper symbols collapsed) of which only the rightmost path is cut short — whose leaves spell the
whole input, the last leaf possibly a proper prefix of a terminal.

* For the source WITH `ParseState.cut_short` (`cutShort = true`) it is PROVED over the compiled rule table:
  `C04_prefix_rightmost_path_only` (`PreS`: in every node all children but the last are complete derivations `DerL`; the last
  may be a partial leaf or a node that is again of this form), together with `C04_prefix_sound_partial` (the leaves tile the
  whole input).  Partial only in that the collapse of the compiled table to the IR-level relation `Matches` / `Valid` is not
  carried over from COMPLETE mode.
* For the source WITHOUT it (`cutShort = false`, /repo before the repair of C19:F68) it is FALSE:
  `<start> ::= <b> <c> | "x" <c> "z" ; <b> ::= "x" "y" ; <c> ::= "" "q"` on "x" yields `<start>(<b>("x"), <c>(""))` —
  `<b>` is cut short and yet followed by `<c>` (a state advanced over the unfinished `<b>` by a forced completion is
  advanced again by a state that starts in the last column): `findings/OBS-C04-prefix-sibling-after-unfinished`,
  `C04_prefix_rightmost_path_only_is_false_witness` below.  What holds for both values is the weak form
  `C04_prefix_sound_partial`: every inner node's children are a prefix of an expansion of one of its rules (`PreL`), the root
  is the start symbol, and the leaves tile the whole input. -/

/-- **every tree a prefix parse of the model yields** (every variant, with or without `cut_short`, grammar, typed input,
    prediction order, fuel) is the node of the start symbol, collapsed, over children that are a prefix of an expansion of
    one of its rules in the compiled table — recursively: every node's children are (`PreL`) — spanning all columns, and
    its leaves tile the whole input: each complete leaf is what the input holds at its column, the partial leaf of an
    incomplete terminal match is the rest of the input.  Partial: the weak form (see `C04_prefix_rightmost_path_only` for
    the strong one); not collapsed to the IR-level derivation relation. -/
theorem C04_prefix_sound_partial (G : Grammar) (v : Variant) (cs : Bool) (pi : PInput) (start : String)
    (pred : Nat → NT → List (List ESym)) (R : RegexOracle)
    (hpred : ∀ k x rhs, rhs ∈ pred k x → (x, rhs) ∈ compile G v.cap)
    (hty : G.typed pi.inp.isBytes = true) (ho : OracleOk pi.inp R) (hc : CellsOk pi.inp)
    (fuel : Nat) (ts : List PartialTree) (h : parsePrefix (mkPCfg G v cs pi start pred) fuel = some (.ok ts)) :
    ∀ t ∈ ts, ∃ kids rhs, t = Tree.mk (.nt start) none none (collapseL kids) ∧ (NT.user start, rhs) ∈ compile G v.cap ∧
      PreL (tableOf G v.cap start) (scanV v pi.inp) (iscanV v pi) rhs kids 0 (8 * pi.inp.cells.length) ∧
      TilesLoose pi.inp t.leaves 0 (8 * pi.inp.cells.length) :=
  prefix_parse_sound G v cs pi start pred R hpred hty ho hc fuel ts h

/-- chart level, every rule table / scanner / partial-match oracle / policy / value of `cutShort`: every tree the
    prefix-mode machine has yielded after any number of steps is the start node over a `PreL` derivation spanning all
    columns -/
theorem C04_prefix_chart_sound (pc : PCfg) (hs : SaneS pc.c) (hpos : 0 < pc.c.ncols) (fuel : Nat) :
    ∀ pt, pt ∈ (runP pc fuel (PM.init pc)).mach.m.out ++ (runP pc fuel (PM.init pc)).mach.out → TopOkP pc pt :=
  prefix_chart_sound pc hs hpos fuel

/-- the hypotheses of `C04_prefix_sound_partial` are met by the left-recursive grammar of F32 on "ab" (typed, no regex,
    text input), and the parse there does yield trees: two (the complete one and a partial one), for both values -/
example (cs : Bool) : G5.typed pinAB.inp.isBytes = true ∧ OracleOk pinAB.inp (fun _ _ => false) ∧ CellsOk pinAB.inp
    ∧ (match parsePrefix (pcfgV G5 Variant.now cs pinAB) 80 with
        | some (.ok ts) => ts.length
        | _ => 0) = 2 :=
  ⟨(by decide +kernel), (by intro id w l h; cases h), (by intro h; cases h), (by revert cs; decide +kernel)⟩

/-- **only the rightmost path of a partial tree is cut short — the source WITH `ParseState.cut_short`**: every tree a
    prefix parse of the model with `cutShort = true` yields (every variant of compilation / scanner / `predict` /
    admission policy, grammar, input, both regex oracles, prediction order, fuel) is the node of the start symbol,
    collapsed, over children `kids` that are a PREFIX OF A DERIVATION of one of its rules in the compiled table, spanning
    all columns: `PreS` — every child is a COMPLETE derivation (`DerL`: the relation COMPLETE mode is sound for,
    `Proofs/C04Defs.lean`) of its symbol, except possibly the LAST one, which may be the partial leaf of an incomplete
    terminal match or a nonterminal whose own children are again such a prefix.  No node that is not on the right spine
    is cut short; nothing follows a node that is.  (With `C04_prefix_sound_partial`: and the leaves tile the input.) -/
theorem C04_prefix_rightmost_path_only (G : Grammar) (v : Variant) (pi : PInput) (start : String)
    (pred : Nat → NT → List (List ESym))
    (hpred : ∀ k x rhs, rhs ∈ pred k x → (x, rhs) ∈ compile G v.cap)
    (fuel : Nat) (ts : List PartialTree) (h : parsePrefix (mkPCfg G v true pi start pred) fuel = some (.ok ts)) :
    ∀ t ∈ ts, ∃ kids rhs, t = Tree.mk (.nt start) none none (collapseL kids) ∧ (NT.user start, rhs) ∈ compile G v.cap ∧
      PreS (tableOf G v.cap start) (scanV v pi.inp) (iscanV v pi) rhs kids 0 (8 * pi.inp.cells.length) :=
  prefix_parse_strong G v pi start pred hpred fuel ts h

/-- what `PreS` says, spelled out: the children are a COMPLETE derivation `ks1` of the first `n` symbols of the sequence,
    followed by `ks2` = nothing (the input ends between two symbols), the partial leaf of the terminal at position `n`, or
    ONE child for the nonterminal at position `n` (its node, or its spliced children for a helper symbol) whose children
    are a `PreS` prefix of one of its rules — `CutTail`, `Proofs/EarleyPrefixStrong.lean` -/
theorem C04_prefix_rightmost_path_shape {rules : List CRule} {scan iscan : Scan} {rhs : List ESym} {ks : List PT}
    {i j : Nat} (h : PreS rules scan iscan rhs ks i j) :
    ∃ n ks1 ks2 m, ks = ks1 ++ ks2 ∧ DerL rules scan (rhs.take n) ks1 i m ∧ CutTail rules scan iscan rhs n m j ks2 :=
  preS_split h

/-- the strong form implies the weak one -/
theorem C04_prefix_strong_implies_weak {rules : List CRule} {scan iscan : Scan} {rhs : List ESym} {ks : List PT}
    {i j : Nat} (h : PreS rules scan iscan rhs ks i j) : PreL rules scan iscan rhs ks i j :=
  preL_of_preS h

/-- chart level, every rule table / scanner / partial-match oracle / policy, `cutShort = true`: every tree the prefix-mode
    machine has yielded after any number of steps is the start node over a `PreS` prefix spanning all columns -/
theorem C04_prefix_chart_rightmost_path_only (pc : PCfg) (hs : SaneS pc.c) (hcs : pc.cutShort = true)
    (hpos : 0 < pc.c.ncols) (fuel : Nat) :
    ∀ pt, pt ∈ (runP pc fuel (PM.init pc)).mach.m.out ++ (runP pc fuel (PM.init pc)).mach.out → TopOkS pc pt :=
  prefix_chart_strong pc hs hcs hpos fuel

/-- for what the translator read from the source *now* (variant and `cutShort`): IF the source has `cut_short`, every
    prefix parse of the model of that source yields prefixes of derivations only.  (Vacuous while the source does not have
    it: `C04_prefix_rightmost_path_only_is_false_witness` is the verdict then.) -/
theorem C04_prefix_generated_rightmost_path_only (hcs : Gen.cutShort = true) (G : Grammar) (v : Variant)
    (hv : Gen.variant = some v) (pi : PInput) (start : String) (pred : Nat → NT → List (List ESym))
    (hpred : ∀ k x rhs, rhs ∈ pred k x → (x, rhs) ∈ compile G v.cap)
    (fuel : Nat) (ts : List PartialTree) (h : parsePrefix (mkPCfg G v Gen.cutShort pi start pred) fuel = some (.ok ts)) :
    ∀ t ∈ ts, ∃ kids rhs, t = Tree.mk (.nt start) none none (collapseL kids) ∧ (NT.user start, rhs) ∈ compile G v.cap ∧
      PreS (tableOf G v.cap start) (scanV v pi.inp) (iscanV v pi) rhs kids 0 (8 * pi.inp.cells.length) := by
  rw [hcs] at h
  exact prefix_parse_strong G v pi start pred hpred fuel ts h

/-- `<start> ::= <b> <c> | "x" <c> "z" ; <b> ::= "x" "y" ; <c> ::= "" "q"` -/
def G6 : Grammar := { rules := [
  ("<start>", .alt "a1" [.cat "c1" [.nt "<b>" none none, .nt "<c>" none none],
                         .cat "c2" [.term (.lit (.text [120])), .nt "<c>" none none, .term (.lit (.text [122]))]]),
  ("<b>", .cat "c3" [.term (.lit (.text [120])), .term (.lit (.text [121]))]),
  ("<c>", .cat "c4" [.term (.lit (.text [])), .term (.lit (.text [113]))])] }
/-- the input "x" -/
def pinX : PInput := { inp := { isBytes := false, cells := [120], rlen := fun _ _ => none }, rinc := fun _ _ => false }
/-- `<start>(<b>("x"), <c>(""))` -/
def spuriousTree : Tree :=
  Tree.node "<start>" [Tree.node "<b>" [Tree.leaf (.text [120])], Tree.node "<c>" [Tree.leaf (.text [])]]

/-- the hypotheses of `C04_prefix_chart_rightmost_path_only` are met by `G6` on "x" (the witness grammar of the unrepaired
    parser; prediction in table order), and the machine with `cut_short` does yield partial trees there: three — the
    genuine ones `<start>("x")`, `<start>(<b>("x"))`, `<start>("x", <c>(""))`, not the spurious one (the same through
    `parsePrefix`, whose prediction order `predDefault` meets the hypothesis of `C04_prefix_rightmost_path_only` for
    every nonterminal of the table) -/
example : SaneS (pcfgOf (compile G6 none) Variant.now true pinX "<start>").c
    ∧ (pcfgOf (compile G6 none) Variant.now true pinX "<start>").cutShort = true
    ∧ 0 < (pcfgOf (compile G6 none) Variant.now true pinX "<start>").c.ncols
    ∧ (runP (pcfgOf (compile G6 none) Variant.now true pinX "<start>") 100
        (PM.init (pcfgOf (compile G6 none) Variant.now true pinX "<start>"))).mach.out.length = 3
    ∧ (match parsePrefix (pcfgV G6 Variant.now true pinX) 100 with
        | some (.ok ts) => decide (ts.length = 3) && !ts.any (fun t => Tree.beq t spuriousTree)
        | _ => false) = true :=
  ⟨saneS_of_rules _ G6 none rfl (fun k x rhs h => predOfRules_mem (rules := compile G6 none) (k := k) (x := x) h),
   rfl, by decide, by decide +kernel, by decide +kernel⟩

/-- **ABOUT THE SOURCE WITHOUT `ParseState.cut_short`** (`cutShort = false`: /repo before the repair of C19:F68; NOT true
    of a source that has it — `C04_prefix_rightmost_path_only`): the strong form of prefix soundness — only the rightmost
    path of a partial tree is cut short — is FALSE there (model run, `decide +kernel`; the same four trees come out of the
    unrepaired parser: the check compares them, and `findings/OBS-C04-prefix-sibling-after-unfinished/repro.py` replays
    it).  On "x" the prefix parse of `G6` yields, among its four trees, `<start>(<b>("x"), <c>(""))`: the only rule of `<b>`
    is `"x" "y"`, so `<b>("x")` is cut short, and yet it is followed by the sibling `<c>` — no derivation of the grammar has
    this tree as a prefix (`<c>` can only start after "xy").  It satisfies `C04_prefix_sound_partial` (every node's children
    are a prefix of an expansion of its rule; the leaves "x", "" tile the input).  Cause: the state `<start-alt> ::= <b> • <c>`
    that the forced completion of the unfinished `<b>` adds to the last column is advanced again by the (force-completed)
    `<c>` that starts there.  The same run WITH `cut_short` yields three trees, the spurious one is not among them. -/
theorem C04_prefix_rightmost_path_only_is_false_witness :
    (match parsePrefix (pcfgV G6 Variant.now false pinX) 100 with
      | some (.ok ts) => decide (ts.length = 4) && ts.any (fun t => Tree.beq t spuriousTree)
      | _ => false) = true
    ∧ G6.rule "<b>" = some (.cat "c3" [.term (.lit (.text [120])), .term (.lit (.text [121]))])
    ∧ G6.typed pinX.inp.isBytes = true
    ∧ (match parsePrefix (pcfgV G6 Variant.now true pinX) 100 with
      | some (.ok ts) => decide (ts.length = 3) && !ts.any (fun t => Tree.beq t spuriousTree)
      | _ => false) = true := by
  decide +kernel

/-! ### what the strong form gives C19 (`PositionsExact.sound`, `Proofs/ForecastPos.lean`)

C19's remaining tie between the real prefix parse and the forecaster model is `PositionsExact G start h ps` for the right
spines `ps` of the partial trees `PacketForecaster.predict` hands to the visitor: `sound` — every `p ∈ ps` is a partial
derivation `PD G start h p` of the history — and `complete`.  `PD` (IR level, a word of messages) reads: along the spine, in a
concatenation everything LEFT of the spine child is a complete derivation (`GM G (.cat id (ns.take i)) h1`), in a repetition
the earlier iterations are complete (`RepM (GM G n) k h1`), an alternative / a nonterminal descends into one rule, and the
spine ends in the last message of the history (`PD.msg`) or in a repetition that has not begun (`PD.rep0`).

`C04_prefix_rightmost_path_only` is this statement at the level of the compiled rule table, for every tree the prefix parse
yields (source with `cut_short`): by `C04_prefix_rightmost_path_shape`, at every node on the right spine the children are
`ks1 ++ ks2` with `ks1` a COMPLETE derivation `DerL` of the first `n` symbols of the rule — the compiled counterpart of
`GM (.cat id (ns.take i))`, and, through the right-recursive helper rules `<*id:j*>` a repetition compiles to, of
`RepM (GM n) k` — and `ks2` the single child the spine continues in (`CutTail.node`: a `PreS` prefix of ONE rule of the
nonterminal at position `n` — `PD.alt` / `PD.nt` / the next iteration of `PD.rep`), or nothing (`CutTail.none`: the spine
ends after a complete child — the last message, `PD.msg`; or before any child — `PD.rep0`), or a partial leaf
(`CutTail.leaf`: impossible at type level, a message type is matched whole or not at all).  No node off the spine is cut
short and nothing follows a node that is — exactly what failed for the unrepaired parser (`spuriousTree`: `PD.cat` needs
`GM` of `<b>` left of `<c>`) and made `predict` offer a message along a tree that is no partial derivation (C19:F68).

What it does NOT give, and what stays with C19's own per-run tie (`pdB` on every walked tree, model of the visitor vs
`PathFinder.forecast`): (a) the collapse from the compiled table (`DerL` / `PreS` over `compile G`) to the IR relations
(`GM` / `PD` over `Node`) — for COMPLETE mode this is `Proofs/C04Collapse.lean` (`DerL` → `Matches` / `Valid`); the `PreS`
version is not proved; (b) `predict` parses the history as a word of message TYPES and filters the yielded trees by party
afterwards: `sound` at message level is `PreS` at type level + that filter; (c) the half `complete` (every derivation that
extends the history completes a yielded tree): completeness of prefix mode is not proved at all. -/

end FV.Earley
