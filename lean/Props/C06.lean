/-
C06 — parsing always terminates.

FULL STATEMENT (all grammars the spec reader accepts, all finite inputs, the admission policy the source has):

    def FullStatement (p : Policy) : Prop :=
      ∀ (G : Grammar) (cap : Nat) (inp : Input) (start : String) (pred : Nat → NT → List (List ESym)),
        Sane (mkCfg G cap inp start p pred) →
        ∃ n m', run (mkCfg G cap inp start p pred) n (M.init _) = .done m' ∨ … = .raised m'

What is proved here, for the model `Model/Earley.lean` (one-shot COMPLETE parse):

* `C06_core_item_space_finite`   the core item space of a column is finite, with the design's bound;
* `C06_recognise_terminates`     FullStatement .core — for every rule table, prediction order, scanner: the chart
                                 closure under `admitCore` (duplicate ⇔ same item) reaches `done`/`raised` within
                                 `stepBound c` steps, a function of the configuration (well-founded measure `mu`,
                                 every step decreases it: `step_core`); no fuel in the statement;
* `C06_admitImpl_diverges_example_partial`  FullStatement .impl is refuted on `("a"?)* "b"` / "ab" *up to the
                                 bound checked*: after 200, 400, 600 steps the machine is still running and
                                 the number of nAdmitted states has grown each time (`decide +kernel`, finite
                                 witness).  Partial: the statement for *all* n (an invariant of the loop) is not
                                 proved; the harness replays the witness on the real parser on every run.
* `C06_cut_terminates_witnesses` with the covering cut (`Policy.acyclic`, the repair) the same input and three
                                 other cyclic grammars finish, with exactly the acyclic trees (`decide +kernel`);
* `C06_generated_policy_verdict` the verdict for the policy the translator read from the source *now*
                                 (`Generated/Earley.lean`): it is one the model knows; if it is `impl` the witness
                                 diverges (⇒ the check reports F9 through `known_findings`), if it is `acyclic` or
                                 `core` the witness terminates.

NOT proved (kept visible; rests on the per-run correspondence and the step meter on the real parser):
  `forest_terminates : FullStatement .acyclic` (all grammars, needs finiteness of the acyclic derivations of a
  span), `NoEpsCycle rules → termination under .impl`, and everything about INCOMPLETE (prefix) mode, which the
  model does not cover.
-/
import Model.Earley
import Proofs.EarleyTerm
import Generated.Earley
namespace FV.Earley

def optA : Node := .rep "o" .opt (.term (.lit (.text [97]))) 0 (some 1)
def starN : Node := .rep "s" .star optA 0 none
def plusN : Node := .rep "p" .plus optA 1 none
def litB : Node := .term (.lit (.text [98]))
/-- `<start> ::= ("a"?)* "b"` -/
def G0 : Grammar := { rules := [("<start>", .cat "c" [starN, litB])] }
/-- `<start> ::= ("a"?)+ "b"` -/
def G1 : Grammar := { rules := [("<start>", .cat "c" [plusN, litB])] }
/-- `<start> ::= <a> "b" ; <a> ::= <a> | "a"` (unit cycle) -/
def G2 : Grammar := { rules := [("<start>", .cat "c" [.nt "<a>" none none, litB]),
                                ("<a>", .alt "d" [.nt "<a>" none none, .term (.lit (.text [97]))])] }
/-- `<start> ::= (("a"?)*)* "b"` -/
def G3 : Grammar := { rules := [("<start>", .cat "c" [.rep "t" .star starN 0 none, litB])] }
def inAB : Input := { isBytes := false, cells := [97, 98], rlen := fun _ _ => none }
def cfgG (G : Grammar) (p : Policy) : Cfg := mkCfg G 20 inAB "<start>" p (predDefault G 20)
def cfg0 (p : Policy) : Cfg := cfgG G0 p

def Res.running : Res → Bool
  | .next _ => true
  | _ => false
def Res.isDone : Res → Bool
  | .done _ => true
  | _ => false
def Res.m : Res → M
  | .next m => m
  | .done m => m
  | .raised m => m
def nAdmitted (r : Res) : Nat := (r.m.cols.map (fun c => c.states.length)).foldl (· + ·) 0
def at_ (p : Policy) (n : Nat) : Res := run (cfg0 p) n (M.init (cfg0 p))

/-- the core item space of column `j`: (dot slots of the rule table) × (origins ≤ j), at most
    `|rules'| · (maxRhs + 1) · (j + 1)` — the bound of DESIGN §4 -/
theorem C06_core_item_space_finite (c : Cfg) (j : Nat) :
    (itemSpace c j).length = dotSlots c.rules' * (j + 1)
    ∧ (itemSpace c j).length ≤ c.rules'.length * (maxRhs c.rules' + 1) * (j + 1)
    ∧ ∀ it, Item.ok c j it → it ∈ itemSpace c j := by
  refine ⟨itemSpace_length c j, ?_, fun it h => mem_itemSpace.2 h⟩
  rw [itemSpace_length]
  exact Nat.mul_le_mul_right _ (dotSlots_le _)

/-- the recogniser core terminates: for every configuration whose `predict` only offers alternatives of the
    rule table and whose scanner never moves backwards, the closure under `admitCore` is over after at most
    `stepBound c` steps — for every grammar (nullable, cyclic, left/right recursive), input and prediction order -/
theorem C06_recognise_terminates (c : Cfg) (hs : Sane c) (hp : c.policy = .core) :
    ∃ m', run c (stepBound c) (M.init c) = .done m' ∨ run c (stepBound c) (M.init c) = .raised m' :=
  run_core_finishes hs hp (stepBound c) (M.init c) (wf_init hp) (Nat.lt_succ_self _)

/-- the hypotheses of `C06_recognise_terminates` are met by every compiled grammar on every input (prediction in
    table order), in particular by the cyclic witness grammar -/
example : Sane (cfgOf (compile G0 20) inAB "<start>" .core) ∧ (cfgOf (compile G0 20) inAB "<start>" .core).policy = .core :=
  ⟨sane_cfgOf _ _ _ _, rfl⟩

theorem C06_recognise_terminates_compiled (G : Grammar) (cap : Nat) (inp : Input) (start : String) :
    let c := cfgOf (compile G cap) inp start .core
    ∃ m', run c (stepBound c) (M.init c) = .done m' ∨ run c (stepBound c) (M.init c) = .raised m' :=
  C06_recognise_terminates _ (sane_cfgOf _ _ _ _) rfl

/-- the current admission rule (`impl`: duplicate ⇔ same item and same children) on `("a"?)* "b"` / "ab":
    still running after 200, 400 and 600 steps, the chart growing every time.  Finite witness
    (`decide +kernel`); the same run under the core policy is over after 64 steps. -/
theorem C06_admitImpl_diverges_example_partial :
    (at_ .impl 600).running = true
    ∧ nAdmitted (at_ .impl 200) < nAdmitted (at_ .impl 400)
    ∧ nAdmitted (at_ .impl 400) < nAdmitted (at_ .impl 600)
    ∧ (at_ .core 100).isDone = true := by
  decide +kernel

/-- with the covering cut (the repair) the witness and three other cyclic grammars finish on "ab" within 100
    steps, with exactly the acyclic trees (1, 2, 1, 1); the cut does not reject the input -/
theorem C06_cut_terminates_witnesses :
    (at_ .acyclic 100).isDone = true ∧ (at_ .acyclic 100).m.out.length = 1
    ∧ (run (cfgG G1 .acyclic) 100 (M.init (cfgG G1 .acyclic))).isDone = true
    ∧ (run (cfgG G1 .acyclic) 100 (M.init (cfgG G1 .acyclic))).m.out.length = 2
    ∧ (run (cfgG G2 .acyclic) 100 (M.init (cfgG G2 .acyclic))).isDone = true
    ∧ (run (cfgG G2 .acyclic) 100 (M.init (cfgG G2 .acyclic))).m.out.length = 1
    ∧ (run (cfgG G3 .acyclic) 100 (M.init (cfgG G3 .acyclic))).isDone = true
    ∧ (run (cfgG G3 .acyclic) 100 (M.init (cfgG G3 .acyclic))).m.out.length = 1
    ∧ hasEpsCycle (compile G0 20) = true ∧ hasEpsCycle (compile G2 20) = true := by
  decide +kernel

/-- what the policy read from the source *now* does on the witness -/
def verdictFor : Option Policy → Bool
  | some .impl => (at_ .impl 600).running
  | some .acyclic => (at_ .acyclic 100).isDone
  | some .core => (at_ .core 100).isDone
  | none => false

/-- the generated policy is one the model has, and the witness behaves as stated for it: `impl` diverges
    (bounded witness above), `acyclic` / `core` terminate -/
theorem C06_generated_policy_verdict : verdictFor Gen.policy = true := by
  decide +kernel

end FV.Earley
