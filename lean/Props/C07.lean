/-
C07 — constraint verdicts follow the documented selector/quantifier semantics.

FULL STATEMENT.  For every derivation tree `t`, constraint `c` of the modelled constraint language
(all combinators, all selectors, atoms of `Model/Constraint.lean`), scope `σ` and local
variables `ρ`:   `Constraint.check(t, σ, ρ)` answers `True`  ⇔  `denote c t σ ρ`,
where `denote` is the documented meaning (expression truthy for every combination of matches; no match
= nothing to violate; a raising combination fails; quantifiers bind for their body only), and the lazy
evaluation gives the same verdict as the eager one.

What is proved here, for the operational model `opFit` of `fitness()` in the variant the translator reads
from the source on every run (`Generated.consCfg`):

* `C07_op_eq_denote`     whenever `fitness()` returns (no exception escapes it), `success = denote`
* `C07_check_true_iff`   `check = True ⇔ nothing escapes ∧ denote`                      (the full statement)
* `C07_lazy_eq_eager`    an eager evaluation that returns ⇒ the lazy one returns the same verdict
* `C07_scope_is_lexical` a quantifier leaves the caller's `scope` / `local_variables` as they were
* one spec lemma per selector, `C07_no_match_vacuous`, `C07_raising_combination_fails`
* the two fixed defects as counterexamples of the *other* variants (`decide`):
  `C07_shared_dict_counterexample` (the "yq" case), `C07_skip_raise_counterexample` (`int(<x>) == 1` on "a1")

Guard (what the real code rejects): an exception raised by a *selector* (`<a>[7]` IndexError,
`<a>[0, 1]` TypeError) is not caught by `fitness()`; `check` then raises instead of answering.  The model
has that branch (`opFit … = .error e`, `check = none`) and the theorems are stated under exactly
`opFit … = .ok …`.  `{…}` selectors are modelled as the code reads after fix 0d18e90f (before it every one of
them raised ValueError: finding F12).

The models (`Model/Search.lean`, `Model/Constraint.lean`) are tied to /repo by `harness/props/c07.py`.
Every `theorem` in this file is an obligation audited with `#print axioms`.
-/
import Proofs.Constraint
import Proofs.Search
import Generated.Cons
namespace FV

/-! ## 0. the source's current variant (regenerated from /repo on every run) -/

/-- the quantifiers bind on copies and a raising comparison side records 0.0: the variant for which
    the theorems below are stated.  Reverting fix 0c4c2f46 or 90f1d189 makes this false. -/
theorem C07_source_configuration :
    Generated.consCfgRead = true ∧ Generated.consCfg = OpCfg.fixed := by decide

/-! ## 1. verdict = documented meaning -/

/-- whenever `fitness()` returns, its `success` is the documented meaning — all combinators, all
    trees, all scopes, eager or lazy in any mixture -/
theorem C07_op_eq_denote (c : Cons) (t : Tree) (σ : Scope) (ρ : Locals) (f : Fit) (σ' : Scope) (ρ' : Locals)
    (h : opFit Generated.consCfg c t σ ρ = .ok (f, σ', ρ')) : f.success = denote c t σ ρ := by
  rw [C07_source_configuration.2] at h
  exact (opFit_sound c t σ ρ f σ' ρ' h).2.2

/-- the full statement, with the guard made explicit: `check` answers `True` exactly when no selector
    exception escapes and the documented meaning holds -/
theorem C07_check_true_iff (c : Cons) (t : Tree) (σ : Scope) (ρ : Locals) :
    check Generated.consCfg c t σ ρ = some true ↔
      ((∃ r, opFit Generated.consCfg c t σ ρ = .ok r) ∧ denote c t σ ρ = true) := by
  unfold check
  cases h : opFit Generated.consCfg c t σ ρ with
  | error e => simp
  | ok r =>
    obtain ⟨f, σ', ρ'⟩ := r
    have := C07_op_eq_denote c t σ ρ f σ' ρ' h
    simp [this]

/-- … and answers `False` exactly when nothing escapes and the documented meaning does not hold -/
theorem C07_check_false_iff (c : Cons) (t : Tree) (σ : Scope) (ρ : Locals) :
    check Generated.consCfg c t σ ρ = some false ↔
      ((∃ r, opFit Generated.consCfg c t σ ρ = .ok r) ∧ denote c t σ ρ = false) := by
  unfold check
  cases h : opFit Generated.consCfg c t σ ρ with
  | error e => simp
  | ok r =>
    obtain ⟨f, σ', ρ'⟩ := r
    have := C07_op_eq_denote c t σ ρ f σ' ρ' h
    simp [this]

/-! ## 2. lazy = eager -/

/-- if the eager evaluation returns, so does the lazy one, with the same verdict -/
theorem C07_lazy_eq_eager (c : Cons) (t : Tree) (σ : Scope) (ρ : Locals) (f : Fit) (σ' : Scope) (ρ' : Locals)
    (h : opFit Generated.consCfg (c.withLazy false) t σ ρ = .ok (f, σ', ρ')) :
    ∃ f', opFit Generated.consCfg (c.withLazy true) t σ ρ = .ok (f', σ', ρ') ∧ f'.success = f.success := by
  rw [C07_source_configuration.2] at h ⊢
  obtain ⟨f', h'⟩ := lazy_ok c t σ ρ f σ' ρ' h
  refine ⟨f', h', ?_⟩
  rw [(opFit_sound _ t σ ρ f' σ' ρ' h').2.2, (opFit_sound _ t σ ρ f σ' ρ' h).2.2,
      denote_withLazy, denote_withLazy]

/-- whatever mixture of lazy flags: two evaluations that both return agree -/
theorem C07_lazy_flags_irrelevant (c : Cons) (z z' : Bool) (t : Tree) (σ : Scope) (ρ : Locals)
    (r r' : St)
    (h : opFit Generated.consCfg (c.withLazy z) t σ ρ = .ok r)
    (h' : opFit Generated.consCfg (c.withLazy z') t σ ρ = .ok r') : r.1.success = r'.1.success := by
  obtain ⟨f, σ1, ρ1⟩ := r
  obtain ⟨f', σ2, ρ2⟩ := r'
  rw [C07_op_eq_denote _ t σ ρ f σ1 ρ1 h, C07_op_eq_denote _ t σ ρ f' σ2 ρ2 h', denote_withLazy, denote_withLazy]

/-- non-vacuity: a conjunction whose second conjunct would *escape* (index out of range) — the lazy
    evaluation returns `False` after the first conjunct, the eager one raises; this is why
    `C07_lazy_eq_eager` goes from eager to lazy only -/
def exLeaf (s : String) : Tree := .leaf (.text (s.toList.map Char.toNat))
def exTree1 : Tree := .node "<start>" [.node "<a>" [exLeaf "x"], .node "<a>" [exLeaf "y"]]
def exEscape : Cons :=
  .conj false (.cons (.expr .ff []) (.cons (.cmp (.s .eq (.strOf (.ph 0)) (.lit [120])) [.item (.rule "<a>") [.idx 3]]) .nil))

theorem C07_lazy_may_return_where_eager_raises :
    check OpCfg.fixed (exEscape.withLazy true) exTree1 [] [] = some false ∧
    check OpCfg.fixed (exEscape.withLazy false) exTree1 [] [] = none := by decide

/-! ## 3. scopes are lexical -/

/-- a constraint evaluation — in particular a quantifier — hands the caller's `scope` and
    `local_variables` back unchanged: what a quantifier binds is visible in its body only -/
theorem C07_scope_is_lexical (c : Cons) (t : Tree) (σ : Scope) (ρ : Locals) (f : Fit) (σ' : Scope) (ρ' : Locals)
    (h : opFit Generated.consCfg c t σ ρ = .ok (f, σ', ρ')) : σ' = σ ∧ ρ' = ρ := by
  rw [C07_source_configuration.2] at h
  exact ⟨(opFit_sound c t σ ρ f σ' ρ' h).1, (opFit_sound c t σ ρ f σ' ρ' h).2.1⟩

/-- the "yq" case: `all(all(str(<b>) == "y" for <b> in *<a>.<b>) for <a> in *<start>.<a>)` -/
def yqTree : Tree :=
  .node "<start>" [.node "<a>" [.node "<b>" [exLeaf "y"]], .node "<a>" [.node "<b>" [exLeaf "q"]]]
def yqCons : Cons :=
  .all false (.nt "<a>") (.star (.attr (.rule "<start>") (.rule "<a>")))
    (.all false (.nt "<b>") (.star (.attr (.rule "<a>") (.rule "<b>")))
      (.cmp (.s .eq (.strOf (.ph 0)) (.lit [121])) [.rule "<b>"]))

/-- with the quantifiers writing into the caller's dictionary (the code before fix 0c4c2f46) the inner
    binding of `<b>` survives into the second outer iteration, `<a>.<b>` resolves to the stale `<b>`, and
    "yq" is accepted although its meaning is false; the copying variant rejects it -/
theorem C07_shared_dict_counterexample :
    check ⟨.shared, false⟩ yqCons yqTree [] [] = some true ∧
    denote yqCons yqTree [] [] = false ∧
    check OpCfg.fixed yqCons yqTree [] [] = some false := by decide

/-- `<x> <x>` with `int(<x>) == 1` on "a1" -/
def a1Tree : Tree := .node "<start>" [.node "<x>" [exLeaf "a"], .node "<x>" [exLeaf "1"]]
def a1Cons : Cons := .cmp (.i .eq (.intOf (.ph 0)) (.lit 1)) [.rule "<x>"]

/-- with a raising comparison side skipped (the code before fix 90f1d189) "a1" is accepted although the
    combination `<x> = "a"` raises; recording 0.0 rejects it -/
theorem C07_skip_raise_counterexample :
    check ⟨.copy, true⟩ a1Cons a1Tree [] [] = some true ∧
    denote a1Cons a1Tree [] [] = false ∧
    check OpCfg.fixed a1Cons a1Tree [] [] = some false := by decide

/-! ## 4. selectors (docs/Paths.md) -/

/-- `<x>`: every `<x>` node of the tree (reached through non-terminals), or — inside a quantifier that
    binds `<x>` — just the bound tree -/
theorem C07_sel_rule (s : String) (t : Tree) (σ : Scope) :
    (Search.rule s).find t σ =
      match σ.lookup s with
      | some v => .ok [.tree v]
      | none => .ok ((t.findAll s).map .tree) := by
  simp only [Search.find, Search.findG]
  cases σ.lookup s <;> simp

/-- the nodes an unscoped `<x>` finds are exactly the `<x>`-labelled nodes within the tree -/
theorem C07_sel_rule_matches (s : String) (t u : Tree) :
    u ∈ t.findAll s ↔ (Tree.Within u t ∧ u.sym = .nt s) := Tree.mem_findAll s t u

/-- `B.A`: the direct children `A` of every match of `B` -/
theorem C07_sel_attr (b a : Search) (t : Tree) (σ : Scope) :
    (Search.attr b a).find t σ =
      match b.find t σ with
      | .error e => .error e
      | .ok bs => flatMapE (fun u => a.findDirect u σ) (allTrees bs) := by
  simp only [Search.find, Search.findDirect, Search.findG]
  cases Search.findG false b t σ <;> rfl

theorem C07_sel_direct_child (s : String) (u : Tree) :
    (Search.rule s).findDirect u [] = .ok ((u.kids.filter (fun k => k.sym = .nt s)).map .tree) := by
  simp [Search.findDirect, Search.findG, Tree.findDirect]

/-- `B..A`: all `A` within every match of `B` -/
theorem C07_sel_desc (b a : Search) (t : Tree) (σ : Scope) :
    (Search.desc b a).find t σ =
      match b.find t σ with
      | .error e => .error e
      | .ok bs => flatMapE (fun u => a.find u σ) (allTrees bs) := by
  simp only [Search.find, Search.findG]
  cases Search.findG false b t σ <;> rfl

/-- `<foo>..<bar>` includes `<foo>.<bar>` -/
theorem C07_sel_desc_includes_attr (s : String) (t u : Tree) (h : u ∈ t.findDirect s) : u ∈ t.findAll s :=
  Tree.findDirect_subset_findAll s t u h

/-- `B[…]`: the item of every match of `B` -/
theorem C07_sel_item (b : Search) (sl : List Slc) (t : Tree) (σ : Scope) :
    (Search.item b sl).find t σ =
      match b.find t σ with
      | .error e => .error e
      | .ok bs => mapE (fun u => match u.getItem sl with
                                 | .error e => .error e
                                 | .ok x => .ok (Cont.tree x)) (allTrees bs) := by
  simp only [Search.find, Search.findG]
  cases Search.findG false b t σ <;> rfl

/-- `<foo>[N]` is the N-th child, from zero -/
theorem C07_sel_index (t : Tree) (i : Nat) (h : i < t.kids.length) :
    t.getItem [.idx (i : Int)] = .ok t.kids[i] := by
  simp [Tree.getItem, Tree.pyIndex_nonneg _ _ h]

/-- negative indexes count from the end: `<foo>[-1]` is the last child -/
theorem C07_sel_index_negative (t : Tree) (k : Nat) (h : k < t.kids.length) :
    t.getItem [.idx (-((k : Int) + 1))] = .ok (t.kids[t.kids.length - 1 - k]'(by omega)) := by
  simp [Tree.getItem, Tree.pyIndex_neg _ _ h]

/-- an index outside the children raises (IndexError escapes `find`) -/
theorem C07_sel_index_out_of_range (t : Tree) (i : Int)
    (h : (t.kids.length : Int) ≤ i ∨ i < -(t.kids.length : Int)) : t.getItem [.idx i] = .error .index := by
  simp [Tree.getItem, Tree.pyIndex_out_of_range _ _ h]

/-- `<name>[n:m]` is a new unnamed root over the children `n … m-1` -/
theorem C07_sel_slice (t : Tree) (n m : Nat) (hn : n ≤ m) (hm : m ≤ t.kids.length) :
    t.getItem [.slice (some (n : Int)) (some (m : Int)) none]
      = .ok (.mk .slice none none ((t.kids.drop n).take (m - n))) := by
  have h1 : min n t.kids.length = n := Nat.min_eq_left (by omega)
  have h2 : min m t.kids.length = m := Nat.min_eq_left hm
  simp [Tree.getItem, Tree.pySlice_nat, h1, h2]

/-- `<name>[:i]` + `<name>[i:]` = `<name>` -/
theorem C07_sel_slice_split (t : Tree) (i : Nat) :
    ∃ a b, t.getItem [.slice none (some (i : Int)) none] = .ok (.mk .slice none none a) ∧
           t.getItem [.slice (some (i : Int)) none none] = .ok (.mk .slice none none b) ∧
           a ++ b = t.kids :=
  ⟨t.kids.take i, t.kids.drop i, by simp [Tree.getItem, Tree.pySlice_prefix],
    by simp [Tree.getItem, Tree.pySlice_suffix], List.take_append_drop i t.kids⟩

/-- `B{*<x>: i, *<y>}`: for every entry in turn, the matches of the symbol below every match of `B`
    (all descendants for `*`), optionally indexed / sliced per base match -/
theorem C07_sel_selective (b : Search) (ps : List SelPair) (t : Tree) (σ : Scope) :
    (Search.sel b ps).find t σ =
      match b.find t σ with
      | .error e => .error e
      | .ok bs =>
        match flatMapE (selPair (allTrees bs)) ps with
        | .error e => .error e
        | .ok ts => .ok (ts.map .tree) := by
  simp only [Search.find, Search.findG]
  cases Search.findG false b t σ <;> rfl

/-- one entry without items over one base tree: all `<x>` within it -/
theorem C07_sel_selective_entry (u : Tree) (x : String) :
    selPair [u] ⟨x, false, none⟩ = .ok (u.findAll x) := by
  simp [selPair, flatMapE, selItems]

/-- `*B`: one collection holding every match of `B` -/
theorem C07_sel_star (b : Search) (t : Tree) (σ : Scope) :
    (Search.star b).find t σ =
      match b.find t σ with
      | .error e => .error e
      | .ok bs => .ok [.list (allTrees bs)] := by
  simp only [Search.find, Search.findG]
  cases Search.findG false b t σ <;> rfl

/-- a quantifier over `*B` binds each match of `B` in turn -/
theorem C07_sel_star_quantify (b : Search) (t : Tree) (σ : Scope) :
    (Search.star b).quantify t σ =
      match b.find t σ with
      | .error e => .error e
      | .ok bs => .ok (allTrees bs) := by
  simp only [Search.quantify]
  cases b.find t σ <;> rfl

/-- `|B|` / `len(*B)`: the number of matches -/
theorem C07_sel_len (b : Search) (t : Tree) (σ : Scope) (bs : List Cont) (h : b.find t σ = .ok bs) :
    (Search.len b).find t σ = .ok [.len (allTrees bs)] ∧
    (Cont.len (allTrees bs)).evaluate = .int (allTrees bs).length := by
  simp only [Search.find, Search.findG] at h ⊢
  simp [h, Cont.evaluate]

/-! ## 5. no match = nothing to violate; a raising combination fails -/

/-- if one of the symbols a constraint mentions has no match, the constraint holds -/
theorem C07_no_match_vacuous (e : BExpr) (ss : List Search) (t : Tree) (σ : Scope) (ρ : Locals)
    (ms : List (List Cont)) (hms : mapE (fun s => s.find t σ) ss = .ok ms) (hempty : [] ∈ ms) :
    denote (.expr e ss) t σ ρ = true ∧ check Generated.consCfg (.expr e ss) t σ ρ = some true := by
  have hd : denote (.expr e ss) t σ ρ = true := by
    simp [denote, combinations, hms, product_nil_of_mem_nil ms hempty]
  refine ⟨hd, ?_⟩
  rw [C07_check_true_iff]
  refine ⟨?_, hd⟩
  rw [C07_source_configuration.2]
  simp [opFit, combinations, hms]

/-- the same for comparisons -/
theorem C07_no_match_vacuous_cmp (c : Cmp) (ss : List Search) (t : Tree) (σ : Scope) (ρ : Locals)
    (ms : List (List Cont)) (hms : mapE (fun s => s.find t σ) ss = .ok ms) (hempty : [] ∈ ms) :
    denote (.cmp c ss) t σ ρ = true ∧ check Generated.consCfg (.cmp c ss) t σ ρ = some true := by
  have hd : denote (.cmp c ss) t σ ρ = true := by
    simp [denote, combinations, hms, product_nil_of_mem_nil ms hempty]
  refine ⟨hd, ?_⟩
  rw [C07_check_true_iff]
  refine ⟨?_, hd⟩
  rw [C07_source_configuration.2]
  simp [opFit, combinations, hms]

/-- a universal quantifier over nothing holds, an existential one does not -/
theorem C07_quantifier_over_nothing (lz : Bool) (b : Bound) (s : Search) (body : Cons) (t : Tree) (σ : Scope)
    (ρ : Locals) (h : s.quantify t σ = .ok []) :
    denote (.all lz b s body) t σ ρ = true ∧ denote (.any lz b s body) t σ ρ = false := by
  simp [denote, h]

/-- a combination whose evaluation raises makes the constraint fail: meaning and verdict -/
theorem C07_raising_combination_fails (e : BExpr) (ss : List Search) (t : Tree) (σ : Scope) (ρ : Locals)
    (cbs : List (List Cont)) (hc : combinations ss t σ = .ok cbs)
    (cb : List Cont) (hcb : cb ∈ cbs) (x : EvErr) (hx : e.eval ⟨cb, ρ⟩ = .error x) :
    denote (.expr e ss) t σ ρ = false ∧ check Generated.consCfg (.expr e ss) t σ ρ = some false := by
  have hd : denote (.expr e ss) t σ ρ = false := by
    simp only [denote, hc]
    rw [Bool.eq_false_iff]
    intro hall
    have := List.all_eq_true.1 hall cb hcb
    simp [hx, isOkTrue] at this
  refine ⟨hd, ?_⟩
  rw [C07_check_false_iff]
  refine ⟨?_, hd⟩
  rw [C07_source_configuration.2]
  simp [opFit, hc]

/-- the same for a comparison one of whose sides raises (the code after fix 90f1d189) -/
theorem C07_raising_comparison_fails (c : Cmp) (ss : List Search) (t : Tree) (σ : Scope) (ρ : Locals)
    (cbs : List (List Cont)) (hc : combinations ss t σ = .ok cbs)
    (cb : List Cont) (hcb : cb ∈ cbs) (x : EvErr) (hx : c.eval ⟨cb, ρ⟩ = .error x) :
    denote (.cmp c ss) t σ ρ = false ∧ check Generated.consCfg (.cmp c ss) t σ ρ = some false := by
  have hd : denote (.cmp c ss) t σ ρ = false := by
    simp only [denote, hc]
    rw [Bool.eq_false_iff]
    intro hall
    have := List.all_eq_true.1 hall cb hcb
    simp [hx, isOkTrue] at this
  refine ⟨hd, ?_⟩
  rw [C07_check_false_iff]
  refine ⟨?_, hd⟩
  rw [C07_source_configuration.2]
  simp [opFit, hc]

/-- non-vacuity of the hypotheses above: `int(<x>) == 1` on "a1" has a combination that raises -/
example : ∃ cbs cb x, combinations [.rule "<x>"] a1Tree [] = .ok cbs ∧ cb ∈ cbs ∧
    (Cmp.i .eq (.intOf (.ph 0)) (.lit 1)).eval ⟨cb, []⟩ = .error x :=
  ⟨_, [.tree (.node "<x>" [exLeaf "a"])], .pyValue, rfl, List.Mem.head _, by decide⟩

/-- non-vacuity of `C07_op_eq_denote` & co.: the fixed model returns on the documented examples -/
example : ∃ r, opFit OpCfg.fixed yqCons yqTree [] [] = .ok r := ⟨_, rfl⟩

end FV
