/- C07 — placeholder while the correspondence is being established (replaced below) -/
import Model.Constraint
import Generated.Cons
namespace FV

theorem C07_source_configuration :
    Generated.consCfgRead = true ∧ Generated.consCfg = OpCfg.fixed := by decide

end FV
