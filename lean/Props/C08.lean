/-
C08 — Python embedded in a spec keeps its Python meaning.            (PARTIAL — see below)

Full statement (properties.jsonl): for ALL Python programs (statements and expressions) over the
constructs the spec language admits, the code Fandango runs is AST-equivalent to what CPython's
parser produces for the same text (symbol references replaced by fresh variables); anything else is
rejected with an error, never silently altered, reordered or dropped.

What is PROVED here (for all parse trees, all environments): for the Python **expression core**
(`expression` … `atom`: ternary, or/and/not, comparison chains, | ^ & << >> + - * / // % @, unary
+ - ~, **, await, attribute / call (positional, *, keyword, **) / subscript with slices, names,
True/False/None/…, int and str literals, groups, tuples, lists) the `ast` the visitors of
`convert.py` rebuild from the ANTLR parse tree evaluates — under CPython's semantics of `ast` nodes —
exactly like the text read by the grammar under the language reference's semantics (§6):
`C08_visit_eval`.  The operator tables and operand positions of the visitors are *generated from the
current source* (`Generated/PyExpr.lean`) and proved to be CPython's (`C08_tables_are_cpython`).

What is NOT proved (translation validation only, `harness/props/c08.py`): the ANTLR recogniser
(text → parse tree), statements, parameter kinds, lambdas, comprehensions, f-strings, bytes /
float / complex literals, star-elements in displays, the four embedding sites' glue.

The model (`Model/PyExpr.lean`) is tied to /repo on every run by `harness/props/c08.py`.
Every `theorem` in this file is an obligation audited with `#print axioms`.
-/
import Proofs.PyExpr
import Generated.PyExpr
namespace FV.Py
open FV.Generated

/-- the full property, for the record: not provable in Lean (CPython's parser and the ANTLR
    recogniser are not modelled); `C08_visit_eval` is the proved core, the rest is validated per run -/
def C08_FullStatement : Prop :=
  ∀ (parseCPython parseFandango : List Nat → Option Ast) (text : List Nat) (a : Ast),
    parseFandango text = some a → parseCPython text = some a

/-! ## 1. the visitors' tables, read from convert.py on this run, are CPython's -/

/-- every operator-token → `ast` class entry, the operand positions of `_visit_bin_op` /
    `_visit_unary_op` and the field assignment of `ast.IfExp` in the current source coincide with
    CPython's (only the trailing-comma handling of `_process_slices` may differ: it is a parameter). -/
theorem C08_tables_are_cpython : pyTables = cpythonTables pyTables.slicesCommaAware := by
  decide

/-! ## 2. rebuilt `ast` ≡ text, for all parse trees and environments -/

/-- **main theorem.**  `cf flag pt` holds when the source handles `a[s,]` (one slice with a trailing
    comma) as CPython does (`flag`), or `pt` contains no such subscript.  Under that guard the
    meaning of the rebuilt ast equals the grammar-directed meaning of the text: same value or same
    exception, and the same sequence of name look-ups. -/
theorem C08_visit_eval (ρ : Env) (pt : PT) (h : cf pyTables.slicesCommaAware pt = true) :
    evalAst ρ (visit pyTables pt) = evalPT ρ pt := by
  rw [C08_tables_are_cpython]
  exact visit_eval_core _ ρ pt h

/-- with the trailing-comma fix in the source the guard disappears -/
theorem C08_visit_eval_unguarded (ρ : Env) (pt : PT) (hfix : pyTables.slicesCommaAware = true) :
    evalAst ρ (visit pyTables pt) = evalPT ρ pt := by
  apply C08_visit_eval
  rw [hfix]
  exact cf_true pt

/-- wrap an atom in the chain of unit productions `expression → … → primary → atom` -/
def unitChain (a : PT) : PT :=
  .exprD (.disj [.conj [.invC (.cmp (.borT (.bxorT (.bandT (.shiftT (.sumT (.termT (.factorT
    (.powerT (.awaitT (.primA a)))))))))) [] [])]])
/-- the same, starting below `comparison` (an operand of a comparison / arithmetic operator) -/
def borChain (a : PT) : PT :=
  .borT (.bxorT (.bandT (.shiftT (.sumT (.termT (.factorT (.powerT (.awaitT (.primA a)))))))))

/-- environment of the examples: a = (10, 20), b = 0, c = 5, f = pack -/
def exEnv : Env := fun n =>
  if n = "a" then some (.tuple [.int 10, .int 20]) else if n = "b" then some (.int 0)
  else if n = "c" then some (.int 5) else if n = "f" then some (.fn "pack") else none

/-- `a[b,]` -/
def exTrailing : PT :=
  .subscr (.primA (.name "a")) [.sliceE (unitChain (.name "b"))] true

/-- **the guard is needed for the source as found**: without comma-awareness `a[b,]` is rebuilt as
    `a[b]` — with a = (10, 20), b = 0 the text raises TypeError (index `(0,)`), the rebuilt ast
    yields 10.  (Replayed on the implementation by `harness/props/c08.py`.) -/
theorem C08_trailing_comma_subscript_witness (h : pyTables.slicesCommaAware = false) :
    runM (evalAst exEnv (visit pyTables exTrailing)) = .ok (.int 10, ["a", "b"]) ∧
    runM (evalPT exEnv exTrailing) = .error .typeErr := by
  rw [C08_tables_are_cpython, h]
  constructor <;> rfl

/-- non-vacuity of the guard: `a[b:c, 0]`, a chained comparison and a call are inside it -/
def exGuarded : PT :=
  .ternary
    (.disj [.conj [.invC (.cmp (borChain (.name "b")) [.lt, .lte] [borChain (.name "c"), borChain (.num 7)])]])
    (.disj [.conj [.invNot (.invC (.cmp (borChain (.name "b")) [] []))]])
    (unitChain (.num 1))
example : cf pyTables.slicesCommaAware exGuarded = true := by decide
example : runM (evalPT exEnv exGuarded) = .ok (.bool true, ["b", "b", "c"]) := by rfl

/-! ## 3. shape of the rebuilt ast -/

/-- `a or b or c` is ONE BoolOp with three values (as CPython builds it), not nested -/
theorem C08_shape_boolop_flat (a b c : PT) (rest : List PT) :
    visit pyTables (.disj (a :: b :: c :: rest)) =
      .boolOp .Or (visit pyTables a :: visit pyTables b :: visit pyTables c :: visitL pyTables rest) ∧
    visit pyTables (.conj (a :: b :: c :: rest)) =
      .boolOp .And (visit pyTables a :: visit pyTables b :: visit pyTables c :: visitL pyTables rest) := by
  rw [C08_tables_are_cpython]
  constructor <;> simp [visit, visitL, boolOf, cpythonTables]

/-- a disjunction / conjunction with a single operand is that operand (no BoolOp) -/
theorem C08_shape_boolop_single (a : PT) :
    visit pyTables (.disj [a]) = visit pyTables a ∧ visit pyTables (.conj [a]) = visit pyTables a := by
  constructor <;> simp [visit, visitL, boolOf]

/-- a comparison chain is ONE Compare with the operator list and the comparator list in source order -/
theorem C08_shape_compare (f : PT) (r : CmpRule) (rs : List CmpRule) (xs : List PT) :
    visit pyTables (.cmp f (r :: rs) xs) =
      .compare (visit pyTables f) ((r :: rs).map ruleCmp) (visitL pyTables xs) := by
  rw [C08_tables_are_cpython]
  simp [visit, cmpOps_cpython]

/-- `x ** y ** z` groups to the right, and a unary minus to the left of `**` applies to the power -/
theorem C08_shape_power (x y z : PT) :
    visit pyTables (.power x (.factorT (.power y z))) =
      .binOp (visit pyTables x) .Pow (.binOp (visit pyTables y) .Pow (visit pyTables z)) ∧
    visit pyTables (.factor .MINUS (.factorT (.power x y))) =
      .unaryOp .USub (.binOp (visit pyTables x) .Pow (visit pyTables y)) ∧
    visit pyTables (.power x (.factor .MINUS y)) =
      .binOp (visit pyTables x) .Pow (.unaryOp .USub (visit pyTables y)) := by
  rw [C08_tables_are_cpython]
  have hp : ∀ b, (cpythonTables b).powOp = .Pow := fun _ => rfl
  refine ⟨?_, ?_, ?_⟩ <;> simp only [visit, mkBin_cpython, mkUn_cpython, lookup_factor, factorTok, hp]

/-- `body if test else orelse`: test is the second disjunction, body the first -/
theorem C08_shape_ternary (d0 d1 e : PT) :
    visit pyTables (.ternary d0 d1 e) = .ifExp (visit pyTables d1) (visit pyTables d0) (visit pyTables e) := by
  rw [C08_tables_are_cpython]
  rfl

/-- left operand stays left: `l - r`, `l // r`, `l << r` -/
theorem C08_shape_binop_sides (l r : PT) :
    visit pyTables (.sum l .MINUS r) = .binOp (visit pyTables l) .Sub (visit pyTables r) ∧
    visit pyTables (.term l .IDIV r) = .binOp (visit pyTables l) .FloorDiv (visit pyTables r) ∧
    visit pyTables (.shift l .LEFT_SHIFT r) = .binOp (visit pyTables l) .LShift (visit pyTables r) := by
  rw [C08_tables_are_cpython]
  refine ⟨?_, ?_, ?_⟩ <;>
    simp [visit, mkBin_cpython, lookup_sum, lookup_term, lookup_shift, sumTok, termTok, shiftTok]

/-- calls: positional and starred arguments go to `args`, `k=v` and `**m` to `keywords`, each in
    source order; nothing is dropped -/
theorem C08_shape_call (p x y z w : PT) (k : String) :
    visit pyTables (.call p [.pos, .kw k, .star, .dstar] [x, y, z, w]) =
      .call (visit pyTables p) [visit pyTables x, .starred (visit pyTables z)]
        [.keyword (some k) (visit pyTables y), .keyword none (visit pyTables w)] := by
  have hx := (visit_plain pyTables x).1
  simp only [visit, visitL, zipArgs, mkArg]
  rw [List.filter_cons_of_pos (by simp [hx]), List.filter_cons_of_neg (by simp [isKeyword]),
    List.filter_cons_of_pos (by simp [isKeyword]), List.filter_cons_of_neg (by simp [isKeyword]),
    List.filter_cons_of_neg (by simp [hx]), List.filter_cons_of_pos (by simp [isKeyword]),
    List.filter_cons_of_neg (by simp [isKeyword]), List.filter_cons_of_pos (by simp [isKeyword])]
  simp

/-- evaluation order is observable: `f(k=b, *a)` reads `a` before `b` (positional and `*`
    arguments first), exactly as the rebuilt ast does -/
example : runM (evalPT exEnv (.call (.primA (.name "f")) [.kw "k", .star] [unitChain (.name "b"), unitChain (.name "a")]))
    = .ok (.tuple [.tuple [.int 10, .int 20], .tuple [.tuple [.str [107], .int 0]]], ["f", "a", "b"]) := by rfl

end FV.Py
