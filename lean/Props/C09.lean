/-
C09 — a tree's value is the in-order concatenation of its leaves.

Property theorems only; helper lemmas are in `Proofs/Value.lean`.  The model
(`Model/Value.lean`, `Model/Tree.lean`) is tied to /repo by `harness/props/c09.py`.
Every `theorem` in this file is an obligation that the check audits with `#print axioms`.
-/
import Proofs.Value
import Generated.Constants
namespace FV
open TV

/-! ## 1. regardless of how the tree is nested -/

/-- `value()` of an inner node is the fold of `TreeValue.append` over its terminal leaves, left to
    right, starting from the empty value — for every tree shape. -/
theorem C09_value_is_fold_over_leaves (s : Sym) (a r : Option String) (kids : List Tree)
    (hs : ∀ l, s ≠ .term l) :
    (Tree.mk s a r kids).value = foldAppend TV.empty ((Tree.leavesL kids).map Leaf.tv) := by
  cases s with
  | term l => exact absurd rfl (hs l)
  | nt n => simp only [Tree.value]; exact valueIntoL_eq_fold _ _
  | slice => simp only [Tree.value]; exact valueIntoL_eq_fold _ _

/-- two inner nodes with the same leaf sequence have the same value (or fail alike), however
    differently they are nested -/
theorem C09_value_nesting_irrelevant (s s' : Sym) (a r a' r' : Option String) (k k' : List Tree)
    (hs : ∀ l, s ≠ .term l) (hs' : ∀ l, s' ≠ .term l)
    (h : Tree.leavesL k = Tree.leavesL k') :
    (Tree.mk s a r k).value = (Tree.mk s' a' r' k').value := by
  rw [C09_value_is_fold_over_leaves s a r k hs, C09_value_is_fold_over_leaves s' a' r' k' hs', h]

/-- non-vacuity and the documented defect of the former fold: the flat tree `[0,1,0,0,0,0,0,1,"t"]`
    and the nested `[0,1,0,[0,0,0,0,1,"t"]]` have the same leaves; the former child-by-child fold
    (`valueNested`) converted the first and raised on the second, `value` agrees on both. -/
def exFlat : Tree :=
  .node "<s>" ([false, true, false, false, false, false, false, true].map (fun b => Tree.leaf (.bit b))
    ++ [Tree.leaf (.text [116])])
def exNested : Tree :=
  .node "<s>" ([false, true, false].map (fun b => Tree.leaf (.bit b)) ++
    [.node "<r>" ([false, false, false, false, true].map (fun b => Tree.leaf (.bit b))
      ++ [Tree.leaf (.text [116])])])

theorem C09_nested_fold_depended_on_nesting :
    exFlat.leaves = exNested.leaves ∧
    exFlat.valueNested = .ok ⟨.bytes [65, 116], []⟩ ∧ exNested.valueNested = .error .conv ∧
    exFlat.value = .ok ⟨.bytes [65, 116], []⟩ ∧ exNested.value = .ok ⟨.bytes [65, 116], []⟩ := by
  decide

/-! ## 2. the bit view is the concatenation of the leaves' bits -/

/-- bits contributed by a leaf sequence (text leaves through UTF-8) -/
def leavesBits : List Leaf → Except Err Bits
  | [] => .ok []
  | l :: ls =>
    match l.bitsE with
    | .error x => .error x
    | .ok a =>
      match leavesBits ls with
      | .error x => .error x
      | .ok b => .ok (a ++ b)

theorem leaf_toBits (l : Leaf) : toBits l.tv = l.bitsE := by
  cases l with
  | text s => simp only [Leaf.tv, toBits, Leaf.bitsE]; cases encode .utf8 s <;> simp
  | bytes b => simp [Leaf.tv, toBits, Leaf.bitsE]
  | bit b => simp [Leaf.tv, toBits, Leaf.bitsE]

theorem fold_toBits (ls : List Leaf) : ∀ (acc v : TV) (x y : Bits),
    foldAppend acc (ls.map Leaf.tv) = .ok v → toBits acc = .ok x → leavesBits ls = .ok y →
    toBits v = .ok (x ++ y) := by
  induction ls with
  | nil =>
    intro acc v x y h hx hy
    simp only [List.map, foldAppend] at h
    cases h
    simp only [leavesBits] at hy
    cases hy
    simpa using hx
  | cons l ls ih =>
    intro acc v x y h hx hy
    simp only [List.map, foldAppend] at h
    simp only [leavesBits] at hy
    cases hl : l.bitsE with
    | error e => simp [hl] at hy
    | ok lb =>
      simp only [hl] at hy
      cases hr : leavesBits ls with
      | error e => simp [hr] at hy
      | ok rb =>
        simp only [hr] at hy
        cases hy
        cases ha : acc.append l.tv with
        | error e => simp [ha] at h
        | ok acc' =>
          simp only [ha] at h
          have hb := append_toBits ha
          rw [hx, leaf_toBits, hl] at hb
          have := ih acc' v (x ++ lb) rb h hb hr
          simpa [List.append_assoc] using this

/-- **bits view**: whenever the value of an inner node exists, `to_bits()` is the left-to-right
    concatenation of the bits of its leaves. -/
theorem C09_bits_view_is_leaf_concatenation (s : Sym) (a r : Option String) (kids : List Tree)
    (hs : ∀ l, s ≠ .term l) (v : TV) (y : Bits)
    (hv : (Tree.mk s a r kids).value = .ok v) (hy : leavesBits (Tree.leavesL kids) = .ok y) :
    toBits v = .ok y := by
  rw [C09_value_is_fold_over_leaves s a r kids hs] at hv
  have := fold_toBits _ TV.empty v [] y hv rfl hy
  simpa using this

example : exNested.value = .ok ⟨.bytes [65, 116], []⟩ ∧
    leavesBits exNested.leaves = .ok (unpack [65, 116]) := by decide

/-! ## 3. the three views agree -/

/-- **bytes are the bits in groups of eight** -/
theorem C09_bytes_are_bits_in_groups_of_eight (v : TV) (bs : Bytes) (h : toBytes v = .ok bs) :
    toBits v = .ok (unpack bs) := by
  unfold toBytes at h
  by_cases he : v.type = .empty
  · have := (type_empty_iff v).1 he
    subst this
    simp [he] at h; cases h; rfl
  · simp only [he, if_false] at h
    cases hr : reduce .utf8 v with
    | error x => simp [hr] at h
    | ok v' =>
      simp only [hr] at h
      rw [← reduce_toBits hr]
      have hn := reduce_bits_nil hr
      cases hv : v'.val with
      | none => simp [hv] at h
      | bytes b => simp [hv] at h; cases h; simp [toBits, hv, hn]
      | text s => simp only [hv] at h; simp [toBits, hv, hn, h]

/-- conversely: an aligned value whose bit view exists has the packed bits as its bytes -/
theorem C09_bytes_of_aligned_bits (v : TV) (x : Bits) (ha : v.bits.length % 8 = 0)
    (h : toBits v = .ok x) : toBytes v = .ok (pack x) := by
  unfold toBytes
  by_cases he : v.type = .empty
  · have := (type_empty_iff v).1 he
    subst this
    simp [he]; cases h; rfl
  · simp only [he, if_false]
    cases hr : reduce .utf8 v with
    | error e =>
      exfalso
      unfold reduce at hr
      split at hr
      · cases hr
      · split at hr
        · rename_i hh; exact hh ha
        · cases hv : v.val with
          | none => simp [hv] at hr
          | bytes b => simp [hv] at hr
          | text s =>
            simp only [hv] at hr
            simp only [toBits, hv] at h
            cases hes : encode .utf8 s with
            | error e' => simp [hes] at h
            | ok b => simp [hes] at hr
    | ok v' =>
      have hb := reduce_toBits hr
      have hn := reduce_bits_nil hr
      rw [h] at hb
      simp only []
      cases hv : v'.val with
      | none =>
        exfalso
        -- a flushed non-empty value always has a payload
        unfold reduce at hr
        split at hr
        · cases hr
          rename_i hbe
          simp [type, hv, hbe] at he
        · split at hr
          · cases hr
          · cases hv0 : v.val with
            | none => simp [hv0] at hr; cases hr; simp at hv
            | bytes b => simp [hv0] at hr; cases hr; simp at hv
            | text s =>
              simp only [hv0] at hr
              cases hes : encode .utf8 s with
              | error e' => simp [hes] at hr
              | ok b => simp [hes] at hr; cases hr; simp at hv
      | bytes b =>
        simp only [toBits, hv, hn, List.append_nil] at hb
        cases hb
        simp [pack_unpack]
      | text s =>
        simp only [toBits, hv, hn, List.append_nil] at hb
        cases hes : encode .utf8 s with
        | error e' => simp [hes] at hb
        | ok b => simp [hes] at hb; cases hb; simp [pack_unpack, hes]

/-- **the string view of a binary value is the Latin-1 decoding of its bytes** (with the flush
    encoding the source uses after the fix; `Generated/Constants.lean` pins which one that is) -/
theorem C09_str_of_binary_is_latin1_of_bytes (v : TV) (h : v.type = .bytes) :
    toStrWith .utf8 v =
      match toBytes v with
      | .error x => .error x
      | .ok b => .ok (latin1Decode b) := by
  have he : v.type ≠ .empty := by rw [h]; decide
  unfold toStrWith toBytes
  simp only [he, if_false]
  cases hr : reduce .utf8 v with
  | error x => rfl
  | ok v' =>
    simp only []
    cases hv : v'.val with
    | none => rfl
    | bytes b => rfl
    | text s =>
      exfalso
      -- a value of type BYTES never flushes to text
      unfold reduce at hr
      split at hr
      · cases hr
        rename_i hbe
        simp [type, hv, hbe] at h
      · split at hr
        · cases hr
        · cases hv0 : v.val with
          | none => simp [hv0] at hr; cases hr; simp at hv
          | bytes b => simp [hv0] at hr; cases hr; simp at hv
          | text s0 =>
            simp only [hv0] at hr
            cases hes : encode .utf8 s0 with
            | error e' => simp [hes] at hr
            | ok b => simp [hes] at hr; cases hr; simp at hv

/-- the flush the code used before the fix (`latin-1`) breaks that agreement: `["é", 8 bits]` -/
theorem C09_latin1_flush_counterexample :
    let v : TV := ⟨.text [233], [false, true, false, false, false, false, false, true]⟩
    v.type = .bytes ∧ toStrWith .latin1 v = .ok [233, 65] ∧ toBytes v = .ok [195, 169, 65] ∧
    toStrWith .utf8 v = .ok [195, 169, 65] := by
  decide

/-- a pure text value reads back as its text, whatever the flush encoding -/
theorem C09_str_of_text (f : Enc) (v : TV) (h : v.type = .string) :
    ∃ s, v.val = .text s ∧ toStrWith f v = .ok s := by
  cases v with
  | mk val bits =>
    cases val with
    | none => cases bits <;> simp [type] at h
    | bytes b => simp [type] at h
    | text s =>
      cases bits with
      | nil => exact ⟨s, rfl, by simp [toStrWith, type, reduce]⟩
      | cons b bs => simp [type] at h

/-- text leaves only: the value is the concatenated text -/
theorem C09_text_leaves_concatenate (ts : List Str) : ∀ s : Str,
    foldAppend ⟨.text s, []⟩ (ts.map (fun t => (Leaf.text t).tv)) = .ok ⟨.text (s ++ ts.flatten), []⟩ := by
  induction ts with
  | nil => intro s; simp [foldAppend]
  | cons t ts ih =>
    intro s
    have := ih (s ++ t)
    simp only [Leaf.tv] at this
    simp [foldAppend, Leaf.tv, append, type, reduce, this, List.append_assoc]

/-! ## 3b. the source's current choices (regenerated from /repo on every run) -/

/-- `to_string`, `to_bytes`, `append`, `to_int` all flush pending bits with the string-to-bytes
    encoding (UTF-8), bytes are shown as Latin-1, and `value()` folds over the leaves: the
    configuration for which the theorems of this file are stated. -/
theorem C09_source_configuration :
    Generated.toStrFlush = .utf8 ∧ Generated.toBytesFlush = .utf8 ∧ Generated.appendFlush = .utf8 ∧
    Generated.toIntFlush = .utf8 ∧ Generated.strToBytesEncoding = .utf8 ∧
    Generated.bytesToStrEncoding = .latin1 ∧ Generated.valueFold = .leaves := by
  decide

/-- the string view *as the source computes it today* is the Latin-1 decoding of the bytes -/
theorem C09_str_view_of_source (v : TV) (h : v.type = .bytes) :
    toStrWith Generated.toStrFlush v =
      match toBytes v with
      | .error x => .error x
      | .ok b => .ok (latin1Decode b) := by
  have : Generated.toStrFlush = .utf8 := by decide
  rw [this]
  exact C09_str_of_binary_is_latin1_of_bytes v h

/-! ## 4. computing a value never changes a later result -/

/-- the only mutation in the code is `_reduce_trailing_bits` on the receiver.  Flushing a value
    (as `append`, `to_bytes`, `to_string`, `to_int` do) changes no later view of it. -/
theorem C09_flush_changes_no_view (v v' : TV) (h : reduce .utf8 v = .ok v') :
    toBits v' = toBits v ∧ toBytes v' = toBytes v ∧ toStrWith .utf8 v' = toStrWith .utf8 v := by
  have hb := reduce_toBits h
  have hn := reduce_bits_nil h
  have hidem : reduce .utf8 v' = .ok v' := by simp [reduce, hn]
  refine ⟨hb, ?_, ?_⟩
  · unfold toBytes
    by_cases he : v.type = .empty
    · have := (type_empty_iff v).1 he
      subst this
      simp [reduce, TV.empty] at h
      cases h; rfl
    · have he' : v'.type ≠ .empty := by
        intro hc
        have := (type_empty_iff v').1 hc
        subst this
        unfold reduce at h
        split at h
        · cases h; exact he hc
        · split at h
          · cases h
          · cases hv0 : v.val with
            | none => simp [hv0, TV.empty] at h
            | bytes b => simp [hv0, TV.empty] at h
            | text s =>
              simp only [hv0] at h
              cases hes : encode .utf8 s with
              | error e' => simp [hes] at h
              | ok b => simp [hes, TV.empty] at h
      simp only [he, he', if_false, h, hidem]
  · unfold toStrWith
    by_cases he : v.type = .empty
    · have := (type_empty_iff v).1 he
      subst this
      simp [reduce, TV.empty] at h
      cases h; rfl
    · have he' : v'.type ≠ .empty := by
        intro hc
        have := (type_empty_iff v').1 hc
        subst this
        unfold reduce at h
        split at h
        · cases h; exact he hc
        · split at h
          · cases h
          · cases hv0 : v.val with
            | none => simp [hv0, TV.empty] at h
            | bytes b => simp [hv0, TV.empty] at h
            | text s =>
              simp only [hv0] at h
              cases hes : encode .utf8 s with
              | error e' => simp [hes] at h
              | ok b => simp [hes, TV.empty] at h
      simp only [he, he', if_false, h, hidem]

/-- a terminal's own (shared) value is never altered by a flush: it has no pending bits, or a
    single bit, for which the flush raises before assigning -/
theorem C09_terminal_value_never_flushed (e : Enc) (l : Leaf) (v' : TV)
    (h : reduce e l.tv = .ok v') : v' = l.tv := by
  cases l with
  | text s => simp [Leaf.tv, reduce] at h; exact h.symm
  | bytes b => simp [Leaf.tv, reduce] at h; exact h.symm
  | bit b => simp [Leaf.tv, reduce] at h

/-- `append` returns a value and leaves a receiver all of whose views are unchanged -/
theorem C09_append_receiver_views_unchanged (a b r a' : TV) (h : appendS a b = .ok (r, a')) :
    toBits a' = toBits a ∧ toBytes a' = toBytes a ∧ toStrWith .utf8 a' = toStrWith .utf8 a := by
  unfold appendS at h
  split at h
  · cases h; exact ⟨rfl, rfl, rfl⟩
  · split at h
    · cases h; exact ⟨rfl, rfl, rfl⟩
    · cases hr : reduce .utf8 a with
      | error x => simp [hr] at h
      | ok a'' =>
        simp only [hr] at h
        cases ha : a.append b with
        | error x => simp [ha] at h
        | ok r' =>
          simp only [ha] at h
          cases h
          exact C09_flush_changes_no_view a a' hr

/-! ## 5. the error branch: bytes needed at a position that is not byte-aligned -/

theorem C09_misaligned_flush_raises (e : Enc) (v : TV) (h : v.bits.length % 8 ≠ 0) :
    reduce e v = .error .conv := by
  unfold reduce
  have : v.bits.isEmpty = false := by
    cases hb : v.bits with
    | nil => simp [hb] at h
    | cons x xs => rfl
  simp [this, h]

theorem C09_misaligned_append_raises (a : TV) (l : Leaf) (h : a.bits.length % 8 ≠ 0)
    (hl : ∀ b, l ≠ .bit b) : a.append l.tv = .error .conv := by
  have hne : a.type ≠ .empty := by
    intro hc
    have := (type_empty_iff a).1 hc
    subst this
    simp [TV.empty] at h
  unfold append
  simp only [hne, if_false]
  cases l with
  | bit b => exact absurd rfl (hl b)
  | text s => simp [Leaf.tv, C09_misaligned_flush_raises .utf8 a h]
  | bytes s => simp [Leaf.tv, C09_misaligned_flush_raises .utf8 a h]

example : (⟨.none, [true, false, true]⟩ : TV).bits.length % 8 ≠ 0 := by decide

end FV

namespace FV
open TV

/-! ## 6. exactly when is the value defined?  "as long as the positions where bytes are needed are
byte-aligned" -/

/-- UTF-8 encodable text (no lone surrogates) -/
def EncOk (s : Str) : Prop := ∃ b, encode .utf8 s = .ok b

def Leaf.EncOk : Leaf → Prop
  | .text s => FV.EncOk s
  | _ => True

/-- scan the leaves with the number of pending bits: a text or bytes leaf needs a byte boundary -/
def alignedFrom : Nat → List Leaf → Bool
  | _, [] => true
  | p, .bit _ :: ls => alignedFrom (p + 1) ls
  | p, .text _ :: ls => p % 8 == 0 && alignedFrom 0 ls
  | p, .bytes _ :: ls => p % 8 == 0 && alignedFrom 0 ls

theorem encOk_append {s t : Str} (hs : EncOk s) (ht : EncOk t) : EncOk (s ++ t) := by
  obtain ⟨a, ha⟩ := hs
  obtain ⟨b, hb⟩ := ht
  exact ⟨a ++ b, by rw [encode_append, ha, hb]⟩

/-- the accumulator's own text is encodable -/
def TV.ValOk (v : TV) : Prop := ∀ s, v.val = .text s → EncOk s

theorem reduce_aligned_ok {v : TV} (hv : v.ValOk) (ha : v.bits.length % 8 = 0)
    (hne : v.type ≠ .empty) :
    ∃ v', reduce .utf8 v = .ok v' ∧ v'.bits = [] ∧
      ((∃ s, v'.val = .text s ∧ EncOk s) ∨ ∃ b, v'.val = .bytes b) := by
  rcases reduce_cases .utf8 v with ⟨hb, hr⟩ | ⟨_, hl, _⟩ | ⟨_, _, hr⟩
  · refine ⟨v, hr, hb, ?_⟩
    cases hval : v.val with
    | none => exact absurd (by simp [type, hval, hb]) hne
    | text s => exact Or.inl ⟨s, rfl, hv s hval⟩
    | bytes b => exact Or.inr ⟨b, rfl⟩
  · exact absurd ha hl
  · cases hval : v.val with
    | none => simp only [hval] at hr; exact ⟨_, hr, rfl, Or.inr ⟨_, rfl⟩⟩
    | bytes b => simp only [hval] at hr; exact ⟨_, hr, rfl, Or.inr ⟨_, rfl⟩⟩
    | text s =>
      simp only [hval] at hr
      obtain ⟨b, hb⟩ := hv s hval
      simp only [hb] at hr
      exact ⟨_, hr, rfl, Or.inr ⟨_, rfl⟩⟩

/-- appending a bit leaf always succeeds and adds one pending bit -/
theorem append_bit_defined (acc : TV) (b : Bool) (hacc : acc.ValOk) :
    ∃ acc', acc.append (Leaf.bit b).tv = .ok acc' ∧ acc'.ValOk ∧
      acc'.bits.length = acc.bits.length + 1 := by
  unfold append
  by_cases he : acc.type = .empty
  · have := (type_empty_iff acc).1 he
    subst this
    refine ⟨(Leaf.bit b).tv, by simp [he], ?_, by simp [Leaf.tv, TV.empty]⟩
    intro s hs; simp [Leaf.tv] at hs
  · refine ⟨⟨acc.val, acc.bits ++ [b]⟩, by simp [he, Leaf.tv], ?_, by simp⟩
    intro s hs; exact hacc s hs

/-- appending an encodable text or bytes leaf succeeds exactly at a byte boundary -/
theorem append_payload_defined (acc : TV) (l : Leaf) (hbit : ∀ b, l ≠ .bit b) (hacc : acc.ValOk)
    (hl : l.EncOk) :
    if acc.bits.length % 8 = 0
    then ∃ acc', acc.append l.tv = .ok acc' ∧ acc'.ValOk ∧ acc'.bits.length = 0
    else acc.append l.tv = .error .conv := by
  by_cases ha : acc.bits.length % 8 = 0
  · simp only [ha, if_true]
    by_cases he : acc.type = .empty
    · refine ⟨l.tv, by simp [append, he], ?_, ?_⟩
      · intro s hs
        cases l with
        | text t => simp [Leaf.tv] at hs; subst hs; exact hl
        | bytes t => simp [Leaf.tv] at hs
        | bit b => exact absurd rfl (hbit b)
      · cases l <;> simp [Leaf.tv]
        exact absurd rfl (hbit _)
    · obtain ⟨v', hr, hnil, hval⟩ := reduce_aligned_ok hacc ha he
      cases l with
      | bit b => exact absurd rfl (hbit b)
      | text t =>
        have ht : EncOk t := hl
        rcases hval with ⟨s, hs, hes⟩ | ⟨s, hs⟩
        · refine ⟨⟨.text (s ++ t), []⟩, by simp [append, he, Leaf.tv, hr, hs], ?_, rfl⟩
          intro u hu; simp at hu; subst hu; exact encOk_append hes ht
        · obtain ⟨tb, htb⟩ := ht
          refine ⟨⟨.bytes (s ++ tb), []⟩, by simp [append, he, Leaf.tv, hr, hs, htb], ?_, rfl⟩
          intro u hu; simp at hu
      | bytes t =>
        rcases hval with ⟨s, hs, hes⟩ | ⟨s, hs⟩
        · obtain ⟨sb, hsb⟩ := hes
          refine ⟨⟨.bytes (sb ++ t), []⟩, by simp [append, he, Leaf.tv, hr, hs, hsb], ?_, rfl⟩
          intro u hu; simp at hu
        · refine ⟨⟨.bytes (s ++ t), []⟩, by simp [append, he, Leaf.tv, hr, hs], ?_, rfl⟩
          intro u hu; simp at hu
  · simp only [ha, if_false]
    exact C09_misaligned_append_raises acc l ha hbit

/-- **the value of a leaf sequence exists exactly when every byte-needing position is aligned**
    (for UTF-8-encodable text); otherwise the fold raises the conversion error -/
theorem C09_fold_defined_iff_aligned : ∀ (ls : List Leaf) (acc : TV), acc.ValOk →
    (∀ l ∈ ls, l.EncOk) →
    (if alignedFrom acc.bits.length ls = true
     then ∃ v, foldAppend acc (ls.map Leaf.tv) = .ok v
     else foldAppend acc (ls.map Leaf.tv) = .error .conv)
  | [], acc, _, _ => by simp [alignedFrom, foldAppend]
  | l :: ls, acc, hacc, hls => by
    have hl : l.EncOk := hls l (by simp)
    have hrest : ∀ l' ∈ ls, l'.EncOk := fun l' h => hls l' (by simp [h])
    simp only [List.map, foldAppend]
    cases l with
    | bit b =>
      obtain ⟨acc', ha, hok, hlen⟩ := append_bit_defined acc b hacc
      have ih := C09_fold_defined_iff_aligned ls acc' hok hrest
      simp only [alignedFrom, ha]
      rw [hlen] at ih
      exact ih
    | text t =>
      have step := append_payload_defined acc (.text t) (by intro b; simp) hacc hl
      by_cases hal : acc.bits.length % 8 = 0
      · simp only [hal, if_true] at step
        obtain ⟨acc', ha, hok, hlen⟩ := step
        have ih := C09_fold_defined_iff_aligned ls acc' hok hrest
        rw [hlen] at ih
        simpa [alignedFrom, hal, ha] using ih
      · simp only [hal, if_false] at step
        simp [alignedFrom, hal, step]
    | bytes t =>
      have step := append_payload_defined acc (.bytes t) (by intro b; simp) hacc hl
      by_cases hal : acc.bits.length % 8 = 0
      · simp only [hal, if_true] at step
        obtain ⟨acc', ha, hok, hlen⟩ := step
        have ih := C09_fold_defined_iff_aligned ls acc' hok hrest
        rw [hlen] at ih
        simpa [alignedFrom, hal, ha] using ih
      · simp only [hal, if_false] at step
        simp [alignedFrom, hal, step]

/-- for whole trees: an inner node over encodable leaves has a value iff its leaf sequence is aligned -/
theorem C09_value_defined_iff_aligned (s : Sym) (a r : Option String) (kids : List Tree)
    (hs : ∀ l, s ≠ .term l) (henc : ∀ l ∈ Tree.leavesL kids, l.EncOk) :
    (∃ v, (Tree.mk s a r kids).value = .ok v) ↔ alignedFrom 0 (Tree.leavesL kids) = true := by
  rw [C09_value_is_fold_over_leaves s a r kids hs]
  have h := C09_fold_defined_iff_aligned (Tree.leavesL kids) TV.empty
    (by intro s hs; simp [TV.empty] at hs) henc
  have h0 : TV.empty.bits.length = 0 := rfl
  rw [h0] at h
  by_cases hal : alignedFrom 0 (Tree.leavesL kids) = true
  · simp only [hal, if_true] at h
    exact ⟨fun _ => hal, fun _ => h⟩
  · simp only [hal] at h
    constructor
    · rintro ⟨v, hv⟩
      simp only [Bool.false_eq_true, if_false] at h
      rw [h] at hv
      cases hv
    · intro hc; exact absurd hc hal

example : alignedFrom 0 exNested.leaves = true ∧ alignedFrom 0 [.bit true, .text [97]] = false := by
  decide

end FV
