/-
C10 — tree bookkeeping stays consistent under any edits; edits never alias.

Property theorems only (helper lemmas: `Proofs/Arena*.lean`).  The model (`Model/Arena.lean`,
`Model/ArenaOps.lean`, `Model/ArenaStep.lean`) is an arena of node records with the mutable
`DerivationTree` API on top; it is tied to /repo by `harness/props/c10.py` (op-history correspondence
through `drv_arena`).  Every `theorem` here is audited with `#print axioms`.

Reading of the statement.
* "reported size / hash coincide with recomputation": `Inv.size`, `Inv.hash` for the abstraction
  `Abs σ i t` (the pure tree node `i` currently denotes; `absF` is its executable version).
* "every child's parent link points to the node that lists it": `Inv.par`.  The real API lets one node be
  listed by two listers (`p2.set_children([c])` while `p1` still lists `c`; a `SliceTree` lists children it
  does not own): then only the *last* lister is the parent and the other one's caches go stale
  (`C10_shared_child_goes_stale`, `C10_view_goes_stale`, both by `decide` and both replayed on the real
  code by the check).  The invariant is therefore stated for nodes that are not views, and preserved
  along histories that respect single ownership (`Op.ok`): children handed to a node are detached roots
  or the node's own children.  Fandango's own code stays inside this discipline.
* Proved for all histories: `Inv` is preserved by EVERY operation of the language — the constructor,
  `add_child`, `set_children`, the three setters, `hash`, `==`, indexing / slicing, every read-only accessor,
  `append(hookin_path)`, `deepcopy` with all flag combinations (subtree copies AND the upward whole-tree copy
  `copy.deepcopy(inner_node)`: copy_parent=True on a node that has a parent), `replace` / `replace_multiple`,
  `split_end(copy_tree)` and `prefix(copy_tree)` with both flags: `C10_inv_step : C10_FullStatement Hc` under the
  discipline `Op.okFull`, `C10_inv_reachable` for every history.
  The operations that walk up the parent chain (`split_end`, `prefix`, `deepcopy(copy_parent=True)`) need that
  no node on that chain is a view (`NoViewUp`): a parent link into a `SliceTree` can only come from editing a
  `SliceTree` (outside the discipline), and then these operations re-parent children the view does not own
  (`C10_parent_into_view_breaks`, by `decide`; replayed by hand on the real `DerivationTree`: after
  `v = w[0:]; v.add_child(c); c.split_end(False)` the child `z` of `w` has `z.parent is v`).  Along disciplined histories no
  parent link ever points to a view (`ParNV`, `C10_parNV_step`), so for histories the discipline is just
  "the node is not a view" (`Op.okS`, exactly what harness/impl/arena_real.disciplined mirrors):
  `C10_inv_reachable`.  The parent links followed may be stale (a node keeps `_parent` when its lister drops
  it): nothing assumes that a parent lists the node.
  The *aliasing* half is proved for all inputs without any invariant: `C10_deepcopy_frame`,
  `C10_split_copy_frame`, `C10_prefix_copy_frame` (every pre-existing record is identical afterwards, the
  result and everything above / below it is new) and `C10_replace_frame` (every pre-existing node keeps symbol,
  parties, child list, parent link and flags, the result is new).  In place (`copy_tree=False`):
  `C10_split_inplace_frame` / `C10_prefix_inplace_frame` (nothing but cached sizes / hashes changes except that
  child lists of the strict ancestors of the node are cut to a prefix).
* `H` is abstract: `Hc` combines a node's fields with its children's hashes; `C10_eq_iff` assumes `Hc`
  injective (no collision) — CPython's 64-bit hash is not, accidental collisions are outside the model.
-/
import Proofs.ArenaNVP
namespace FV
open Store
variable {α : Type} [DecidableEq α] {Hc : Sym → Option String → Option String → List α → α}

/-! ### the invariant holds initially and is preserved by every disciplined operation -/

theorem C10_inv_empty : Inv Hc ([] : Store α) := inv_nil

/-- FULL statement: every operation of the language under the full discipline `Op.okFull`
(Proofs/ArenaFull.lean: `Op.ok`, and `deepcopy` with any flags / `split_end` / `prefix` with any flag on a node
that is not a view and — when the parent chain is walked — does not hang below a view) -/
def C10_FullStatement (Hc : Sym → Option String → Option String → List α → α) : Prop :=
  ∀ (fuel : Nat) (σ : Store α) (op : Op), Inv Hc σ → Op.okFull σ op → Inv Hc (step Hc fuel σ op).1

/-- **one public operation** (constructor, add/set children, setters, hash, ==, indexing, slicing, every
read-only accessor, append, `deepcopy` with all flag combinations — including the upward whole-tree copy
`copy.deepcopy(inner_node)` —, replace / replace_multiple, `split_end`, `prefix` with and without
`copy_tree`) from an `Inv` state ends in an `Inv` state; an operation that raises changes nothing (`append`:
keeps the nodes it had added, still `Inv`). -/
theorem C10_inv_step : C10_FullStatement Hc :=
  fun fuel _ op hI hok => step_inv_full fuel hI op hok

/-- … hence for every finite history of such operations, from the empty store -/
theorem C10_inv_reachable_full (fuel : Nat) (ops : List Op) (h : OkHistFull Hc fuel ([] : Store α) ops) :
    Inv Hc (runOps Hc fuel [] ops) := runOps_inv_full fuel ops [] inv_nil h

/-- Under the discipline no parent link is ever made to point to a view, and then "the node is not a view"
(`Op.okS`) is all `split_end` / `prefix` / `deepcopy` need: the pair (`Inv`, `ParNV`) is kept by every operation. -/
theorem C10_parNV_step (fuel : Nat) (σ : Store α) (op : Op) (hI : Inv Hc σ) (hP : ParNV σ) (hok : Op.okS σ op) :
    Inv Hc (step Hc fuel σ op).1 ∧ ParNV (step Hc fuel σ op).1 :=
  ⟨step_inv_full fuel hI op (hok.full hP), (step_pv fuel hI hP op hok).parNV hP⟩

/-- **every history**: from the empty store, every finite history of public operations in which children
handed to a node are detached roots or its own children and views are neither edited nor copied / split
(`OkHistS`) ends in a state that satisfies the bookkeeping invariant (and has no parent link into a view) -/
theorem C10_inv_reachable (fuel : Nat) (ops : List Op) (h : OkHistS Hc fuel ([] : Store α) ops) :
    Inv Hc (runOps Hc fuel [] ops) ∧ ParNV (runOps Hc fuel [] ops) :=
  runOps_inv_S fuel ops [] inv_nil parNV_nil h

/-- the narrower discipline `Op.ok` (no `split_end` / `prefix`, subtree copies only) is a special case -/
theorem C10_ok_is_okFull (σ : Store α) (op : Op) (hI : Inv Hc σ) (hok : Op.ok σ op) : Op.okFull σ op :=
  Op.ok.full hI hok

/-! ### what the invariant says about the observers -/

/-- `size()` = number of nodes recomputed from the current structure -/
theorem C10_size_is_recount (σ : Store α) (i n : Nat) (r : NodeRec α) (t : Tree) (hI : Inv Hc σ)
    (hr : σ[i]? = some r) (hv : r.view = false) (ht : Abs σ i t) (h : sizeOp σ i = .ok n) : n = t.size := by
  simp only [sizeOp, hr] at h
  cases h
  exact hI.size i r t hr hv ht

/-- `hash()` = structural hash recomputed from the current structure; the call fills caches only, with
right values (the state stays `Inv`) -/
theorem C10_hash_is_rehash (fuel : Nat) (σ σ' : Store α) (i : Nat) (h : α) (r : NodeRec α) (t : Tree)
    (hI : Inv Hc σ) (hr : σ[i]? = some r) (hv : r.view = false) (ht : Abs σ i t)
    (e : hashNode Hc fuel σ i = .ok (σ', h)) : h = hashT Hc t ∧ Inv Hc σ' ∧ HashOnly σ σ' := by
  obtain ⟨h1, h2, h3⟩ := hashNode_spec fuel σ i σ' h hI e
  exact ⟨h3 r t hr hv ht, h1, h2⟩

/-- `a == b` exactly when symbols (typed: str / bytes / bit), senders, recipients and shape coincide —
under the stated no-collision hypothesis on the hash combiner -/
theorem C10_eq_iff (hH : HcInjective Hc) (fuel : Nat) (σ σ' : Store α) (i j : Nat) (b : Bool)
    (ri rj : NodeRec α) (ti tj : Tree) (hI : Inv Hc σ)
    (hri : σ[i]? = some ri) (hvi : ri.view = false) (hrj : σ[j]? = some rj) (hvj : rj.view = false)
    (hti : Abs σ i ti) (htj : Abs σ j tj) (e : eqNode Hc fuel σ i j = .ok (σ', b)) :
    (b = true ↔ ti = tj) := by
  obtain ⟨_, _, h⟩ := eqNode_spec fuel hI e
  rw [h ri rj ti tj hri hvi hrj hvj hti htj]
  exact ⟨hashT_inj hH ti tj, fun h => h ▸ rfl⟩

/-- every child listed by a (non-view) node points back to that node -/
theorem C10_parent_links (σ : Store α) (i c : Nat) (r : NodeRec α) (hI : Inv Hc σ) (hr : σ[i]? = some r)
    (hv : r.view = false) (hc : c ∈ r.kids) : parentOp σ c = .ok (some i) := by
  obtain ⟨rc, hrc, hpc, _⟩ := hI.par i r c hr hv hc
  simp [parentOp, hrc, hpc]

/-- the tree printed by the driver is the abstraction the theorems talk about -/
theorem C10_abs_sound (fuel : Nat) (σ : Store α) (i : Nat) (t : Tree) (h : absF fuel σ i = some t) :
    Abs σ i t := absF_sound fuel σ i t h

/-! ### read-only accessors -/

/-- indexing, slicing, size, parent, get_path, flatten, find_all_trees / find_direct_trees (RuleSearch),
get_choices_path, value(): every existing record is left exactly as it was (`tree[a:b]` only allocates
the `SliceTree` it returns) -/
theorem C10_accessor_frame (fuel : Nat) (σ : Store α) (op : Op) (ha : op.accessor = true) (j : Nat)
    (r : NodeRec α) (hr : σ[j]? = some r) : (step Hc fuel σ op).1[j]? = some r := by
  cases op <;> first
    | (simp [Op.accessor] at ha; done)
    | (simp only [step, liftR_fst]; exact hr)
    | skip
  · rename_i i a b
    simp only [step, liftN]
    split
    · exact hr
    · rename_i σ' n e
      unfold getSlice at e
      split at e
      · cases e
      · cases fuel with
        | zero => simp [mkSlice, setChildren, invalidate] at e
        | succ m =>
          rw [mkSlice_eq] at e
          cases e
          rw [get_append_old _ (lt_of_get_some hr)]; exact hr

/-- `tree[a:b]` returns a new node (a view); the invariant is kept -/
theorem C10_slice_is_fresh_view (fuel : Nat) (σ σ' : Store α) (i n : Nat) (a b : Option Int)
    (hI : Inv Hc σ) (h : getSlice fuel σ i a b = .ok (σ', n)) :
    Inv Hc σ' ∧ n = σ.length ∧ ∃ x : NodeRec α, σ' = σ ++ [x] ∧ x.view = true := getSlice_inv fuel hI h

/-! ### copies and replacements never alias their inputs (no invariant needed) -/

omit [DecidableEq α] in
/-- `deepcopy(copy_children, copy_parent)` / `copy.deepcopy`: every record that existed before is
*identical* afterwards (structure, parent, caches, flags); the returned node is new, and new nodes have
only new children and new parents (nothing of the copy points into the original and vice versa) -/
theorem C10_deepcopy_frame (fuel : Nat) (σ σ' : Store α) (i c : Nat) (cc cp : Bool)
    (h : deepcopy fuel σ i cc cp = .ok (σ', c)) :
    σ.length ≤ σ'.length ∧ (∀ a, a < σ.length → σ'[a]? = σ[a]?) ∧ σ.length ≤ c ∧ FreshClosed σ.length σ' :=
  deepcopy_frame fuel h

omit [DecidableEq α] in
/-- `replace` / `replace_multiple` (crossover, mutation and repair are built from it): every pre-existing
node keeps symbol, sender, recipient, child list, parent link, read-only flag (cached sizes / hashes of old
nodes may be rewritten — with the same values under `Inv`); the returned root and everything below it is new -/
theorem C10_replace_frame (fuel : Nat) (σ σ' : Store α) (i c : Nat) (reps : List (Nat × Nat))
    (h : replaceMultiple Hc fuel σ i reps = .ok (σ', c)) :
    Keeps σ.length σ σ' ∧ σ.length ≤ c ∧ FreshKids σ.length σ' :=
  replaceMultiple_frame fuel h

omit [DecidableEq α] in
/-- `split_end(copy_tree=True)` (what `mutate()` works on): every record that existed before is *identical*
afterwards; the returned node is new and everything above / below it is new -/
theorem C10_split_copy_frame (fuel : Nat) (σ σ' : Store α) (i c : Nat)
    (h : splitEnd fuel σ i true = .ok (σ', c)) :
    σ.length ≤ σ'.length ∧ (∀ a, a < σ.length → σ'[a]? = σ[a]?) ∧ σ.length ≤ c ∧ FreshClosed σ.length σ' :=
  splitEnd_copy_frame fuel h

omit [DecidableEq α] in
/-- `prefix(copy_tree=True)`: the same -/
theorem C10_prefix_copy_frame (fuel : Nat) (σ σ' : Store α) (i c : Nat)
    (h : prefixOp fuel σ i true = .ok (σ', c)) :
    σ.length ≤ σ'.length ∧ (∀ a, a < σ.length → σ'[a]? = σ[a]?) ∧ σ.length ≤ c ∧ FreshClosed σ.length σ' :=
  prefix_copy_frame fuel h

omit [DecidableEq α] in
/-- `split_end(copy_tree=False)` edits in place and returns the node itself: every record keeps symbol, parties,
parent link and flags, and its child list — except that the child lists of the strict ancestors of the node are
cut to a prefix (`CutAbove`); nothing is allocated -/
theorem C10_split_inplace_frame (fuel : Nat) (σ σ' : Store α) (i c : Nat) (hI : Inv Hc σ) (hNV : NoViewUp σ i)
    (h : splitEnd fuel σ i false = .ok (σ', c)) : c = i ∧ CutAbove σ σ' i :=
  splitEnd_inplace_frame fuel hI hNV h

omit [DecidableEq α] in
/-- `prefix(copy_tree=False)` returns the node's parent; the same frame -/
theorem C10_prefix_inplace_frame (fuel : Nat) (σ σ' : Store α) (i c : Nat) (hI : Inv Hc σ) (hNV : NoViewUp σ i)
    (h : prefixOp fuel σ i false = .ok (σ', c)) :
    (∃ ri, σ[i]? = some ri ∧ ri.parent = some c) ∧ CutAbove σ σ' i :=
  prefix_inplace_frame fuel hI hNV h

omit [DecidableEq α] in
/-- every `deepcopy` / `copy.deepcopy` keeps the invariant and returns a new node (all flags; the upward
whole-tree copy needs that the node does not hang below a view) -/
theorem C10_deepcopy_inv_full (fuel : Nat) (σ σ' : Store α) (i c : Nat) (cc cp : Bool) (ri : NodeRec α)
    (hI : Inv Hc σ) (hri : σ[i]? = some ri) (hv : ri.view = false) (hNV : cp = true → NoViewUp σ i)
    (h : deepcopy fuel σ i cc cp = .ok (σ', c)) : Inv Hc σ' ∧ c = σ.length :=
  deepcopy_inv_full fuel hI hri hv hNV h

omit [DecidableEq α] in
/-- subtree copies keep the invariant; the copy is a new detached root that nobody lists, and nothing that
existed before is touched -/
theorem C10_deepcopy_inv (fuel : Nat) (σ σ' : Store α) (i c : Nat) (cc cp : Bool) (ri : NodeRec α)
    (hI : Inv Hc σ) (hri : σ[i]? = some ri) (hv : ri.view = false) (hcp : cp = false ∨ ri.parent = none)
    (h : deepcopy fuel σ i cc cp = .ok (σ', c)) :
    Inv Hc σ' ∧ c = σ.length ∧ AgreeBelow σ.length σ σ' ∧ NewKids σ.length σ' ∧ Unlisted σ' c ∧
    ∃ rc, σ'[c]? = some rc ∧ rc.view = false ∧ rc.parent = none :=
  deepcopy_inv fuel hI hri hv hcp h

omit [DecidableEq α] in
/-- `replace` / `replace_multiple` keep the invariant (crossover = two of these; mutation and repair end
in one) when neither the tree nor a replacement is a view -/
theorem C10_replace_inv (fuel : Nat) (σ σ' : Store α) (i c : Nat) (reps : List (Nat × Nat)) (r : NodeRec α)
    (hI : Inv Hc σ) (hri : σ[i]? = some r) (hv : r.view = false)
    (hreps : ∀ a b, (a, b) ∈ reps → ∃ rb, σ[b]? = some rb ∧ rb.view = false)
    (h : replaceMultiple Hc fuel σ i reps = .ok (σ', c)) : Inv Hc σ' :=
  replaceMultiple_inv fuel hI hri hv hreps h

/-- the executable checker the driver evaluates after every operation is sound for `Inv` -/
theorem C10_invB_sound (fuel : Nat) (σ : Store α) (h : invB Hc fuel σ = true) : Inv Hc σ := invB_sound h

/-! ### limits of the real API, modelled faithfully (witnesses by `decide`; replayed on /repo by the check) -/

def HcN : Sym → Option String → Option String → List Nat → Nat := fun _ _ _ hs => hs.sum + 1

def leafA : Op := .mk (.term (.bit false)) none none [] false
def innerOver (k : Nat) : Op := .mk (.nt "a") none none [k] false

/-- history: c = leaf; p1 = node[c]; p2 = node[c] (c handed to a second parent); x = leaf; c.add_child(x) -/
def sharedChildHistory : List Op := [leafA, innerOver 0, innerOver 0, leafA, .addChild 0 3]

/-- A child listed by two parents: the edit below `c` walks up to `p2` only; `p1.size()` still says 2
although `p1` now has 3 nodes.  (`Op.ok` fails at the third op: `c` is not detached any more.) -/
theorem C10_shared_child_goes_stale :
    let σ := runOps HcN 20 [] sharedChildHistory
    (sizeOp σ 1, (absF 20 σ 1).map Tree.size, sizeOp σ 2, (absF 20 σ 2).map Tree.size)
      = (.ok 2, some 3, .ok 3, some 3) := by decide

/-- history: c = node; p = node[c]; v = p[0:]; x = leaf; c.add_child(x) -/
def staleViewHistory : List Op :=
  [.mk (.nt "c") none none [] false, innerOver 0, .getSlice 1 (some 0) none, leafA, .addChild 0 3]

/-- A `SliceTree` held across an edit below it keeps the size it had when it was created: views are
snapshots (the history is disciplined: `Inv` holds, it just does not speak about views). -/
theorem C10_view_goes_stale :
    let σ := runOps HcN 20 [] staleViewHistory
    (sizeOp σ 2, (absF 20 σ 2).map Tree.size, sizeOp σ 1, (absF 20 σ 1).map Tree.size)
      = (.ok 2, some 3, .ok 3, some 3) := by decide

/-- history: z = leaf; w = node[z]; v = w[0:]; c = leaf; v.add_child(c)  — a `SliceTree` is edited (outside the
discipline: `Op.ok` fails at the last op), so `c._parent` is the view -/
def viewParentHistory : List Op := [leafA, innerOver 0, .getSlice 1 (some 0) none, leafA, .addChild 2 3]

/-- Why `split_end` / `prefix` / `deepcopy(copy_parent=True)` need `NoViewUp`: the state after this history still
satisfies `Inv` (it does not speak about views), but `c.split_end(copy_tree=False)` runs
`v.set_children([z, c])` on the view and re-parents `z` (owned by `w`) to it, and `copy.deepcopy(c)` copies the
view as a plain node that takes over the copy of `z` from the copy of `w`: the checker rejects both states.
(Finite witness, `decide +kernel`; the real `DerivationTree` behaves the same — replayed by hand, not by the check.) -/
theorem C10_parent_into_view_breaks :
    let σ := runOps HcN 20 [] viewParentHistory
    (invB HcN 20 σ, invB HcN 20 (step HcN 20 σ (.splitEnd 3 false)).1,
      invB HcN 20 (step HcN 20 σ (.deepcopy 3 true true)).1) = (true, false, false) := by decide +kernel

/-! ### non-vacuity -/

/-- a concrete disciplined history (constructor with children, add_child, setter, hash, slice, ==) -/
def sampleHistory : List Op :=
  [leafA, leafA, .mk (.nt "a") none none [0, 1] false, leafA, .addChild 2 3, .hash 2,
   .setSender 0 (some "P"), .getSlice 2 (some 0) (some 2), .eq 2 4, .setChildren 2 [0, 1]]

example : (runOps HcN 30 [] sampleHistory).length = 5 := by decide

/-- the checker accepts the state after the sample history, and after a history with copy / replace /
split / prefix / append (finite witnesses: `decide +kernel`) -/
example : invB HcN 12 (runOps HcN 12 [] sampleHistory) = true := by decide +kernel

def compositeHistory : List Op :=
  [leafA, leafA, .mk (.nt "a") none none [0, 1] false, .deepcopy 2 true true, .replace 2 [(1, 0)],
   .splitEnd 0 true, .prefix 1 true, .append 2 [("b", true)] 3]

example : invB HcN 16 (runOps HcN 16 [] compositeHistory) = true ∧
    (runOps HcN 16 [] compositeHistory).length = 16 := by decide +kernel

/-- … and rejects the stale state of the shared-child history -/
example : invB HcN 12 (runOps HcN 12 [] sharedChildHistory) = false := by decide +kernel

/-- a concrete history that meets the hypothesis `OkHist` of `C10_inv_reachable_partial`
(constructor with children, hash, replace, subtree copy) -/
def okHistory : List Op :=
  [leafA, leafA, .mk (.nt "a") none none [0, 1] false, .hash 2, .replace 2 [(1, 0)], .deepcopy 2 true true]

example : OkHist HcN 12 ([] : Store Nat) okHistory := by
  refine ⟨?_, ?_, ?_, trivial, ?_, ?_, trivial⟩
  · intro c hc; simp at hc
  · intro c hc; simp at hc
  · intro c hc
    simp at hc
    rcases hc with rfl | rfl
    · exact ⟨_, rfl, rfl, rfl⟩
    · exact ⟨_, rfl, rfl, rfl⟩
  · refine ⟨⟨_, rfl, rfl⟩, ?_⟩
    intro a b hab
    simp at hab
    obtain ⟨rfl, rfl⟩ := hab
    exact ⟨_, rfl, rfl⟩
  · exact ⟨_, rfl, rfl, .inr rfl⟩

/-- a concrete history that meets the hypothesis `OkHistS` of `C10_inv_reachable` with the three operations
added by the full statement: the upward whole-tree copy of an inner node, `split_end` / `prefix` with and
without `copy_tree` -/
def fullHistory : List Op :=
  [leafA, leafA, .mk (.nt "a") none none [0, 1] false, .deepcopy 0 true true, .splitEnd 1 true,
   .prefix 1 false, .splitEnd 0 false]

example : OkHistS HcN 12 ([] : Store Nat) fullHistory := by
  refine ⟨?_, ?_, ?_, ?_, ?_, ?_, ?_, trivial⟩
  · intro c hc; simp at hc
  · intro c hc; simp at hc
  · intro c hc
    simp at hc
    rcases hc with rfl | rfl
    · exact ⟨_, rfl, rfl, rfl⟩
    · exact ⟨_, rfl, rfl, rfl⟩
  · exact ⟨_, rfl, rfl⟩
  · exact ⟨_, rfl, rfl⟩
  · exact ⟨_, rfl, rfl⟩
  · exact ⟨_, rfl, rfl⟩

/-- … and it really runs all of them (no operation raises): 3 + 3 (copy of the whole tree) + 3 (again, for
`split_end(copy_tree=True)`) nodes; `prefix(copy_tree=False)` cuts the root's child list to `[0]` -/
example : (runOps HcN 12 [] fullHistory).length = 9 ∧
    ((runOps HcN 12 [] fullHistory)[2]?).map (·.kids) = some [0] := by decide +kernel

end FV
