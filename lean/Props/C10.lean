/-
C10 — tree bookkeeping stays consistent under any edits; edits never alias.

Property theorems only (helper lemmas: `Proofs/Arena*.lean`).  The model (`Model/Arena.lean`,
`Model/ArenaOps.lean`, `Model/ArenaStep.lean`) is an arena of node records with the mutable
`DerivationTree` API on top; it is tied to /repo by `harness/props/c10.py` (op-history correspondence
through `drv_arena`).  Every `theorem` here is audited with `#print axioms`.

Reading of the statement.
* "reported size / hash coincide with recomputation": `Inv.size`, `Inv.hash` for the abstraction
  `Abs σ i t` (the pure tree node `i` currently denotes; `absF` is its executable version).
* "every child's parent link points to the node that lists it": `Inv.par`.  The real API lets one node be
  listed by two listers (`p2.set_children([c])` while `p1` still lists `c`; a `SliceTree` lists children it
  does not own): then only the *last* lister is the parent and the other one's caches go stale
  (`C10_shared_child_goes_stale`, `C10_view_goes_stale`, both by `decide` and both replayed on the real
  code by the check).  The invariant is therefore stated for nodes that are not views, and preserved
  along histories that respect single ownership (`Op.ok`): children handed to a node are detached roots
  or the node's own children.  Fandango's own code stays inside this discipline.
* Proved for all histories: `Inv` is preserved by the constructor, `add_child`, `set_children`, the three
  setters, `hash`, `==`, indexing / slicing, every read-only accessor, `append(hookin_path)`, subtree
  copies (`deepcopy(copy_parent=False)`, `copy.deepcopy(root)`) and `replace` / `replace_multiple`
  (`C10_inv_step_partial`, `C10_inv_reachable_partial`, `C10_deepcopy_inv`, `C10_replace_inv`).
  The *aliasing* half is proved for all inputs without any invariant: `C10_deepcopy_frame` (every
  pre-existing record is identical afterwards, the copy is new — all flag combinations) and
  `C10_replace_frame` (every pre-existing node keeps symbol, parties, child list, parent link and flags,
  the result is new).
  NOT proved (`C10_FullStatement`): `Inv` preservation by `split_end`, `prefix` and by the upward whole-tree
  copy `copy.deepcopy(inner_node)` (copy_parent=True on a node that has a parent) they start with.  For
  these it is checked on every run by evaluating the *verified* checker `invB` (`C10_invB_sound`) on the
  model state after every operation of every disciplined history, the model being tied to the code by
  correspondence.
* `H` is abstract: `Hc` combines a node's fields with its children's hashes; `C10_eq_iff` assumes `Hc`
  injective (no collision) — CPython's 64-bit hash is not, accidental collisions are outside the model.
-/
import Proofs.ArenaHist
namespace FV
open Store
variable {α : Type} [DecidableEq α] {Hc : Sym → Option String → Option String → List α → α}

/-! ### the invariant holds initially and is preserved by every disciplined operation -/

theorem C10_inv_empty : Inv Hc ([] : Store α) := inv_nil

/-- discipline including the operations without an `Inv`-preservation theorem (`split_end`, `prefix`,
`deepcopy` with `copy_parent=True` of a node that has a parent): they are applied to nodes that are not views -/
def Op.okFull (σ : Store α) : Op → Prop
  | .deepcopy i _ _ | .splitEnd i _ | .prefix i _ => ∃ r, σ[i]? = some r ∧ r.view = false
  | op => Op.ok σ op

/-- FULL statement (not proved for split_end / prefix / upward deepcopy; see the header) -/
def C10_FullStatement (Hc : Sym → Option String → Option String → List α → α) : Prop :=
  ∀ (fuel : Nat) (σ : Store α) (op : Op), Inv Hc σ → Op.okFull σ op → Inv Hc (step Hc fuel σ op).1

/-- one public operation (constructor, add/set children, setters, hash, ==, indexing, slicing, every
read-only accessor, append, subtree deepcopy, replace / replace_multiple) from an `Inv` state ends in an
`Inv` state; an operation that raises changes nothing (`append`: keeps the nodes it had added, still
`Inv`).  Partial: `Op.ok` is `False` for split_end / prefix and excludes `deepcopy(copy_parent=True)` of a
node that has a parent. -/
theorem C10_inv_step_partial (fuel : Nat) (σ : Store α) (op : Op) (hI : Inv Hc σ) (hok : Op.ok σ op) :
    Inv Hc (step Hc fuel σ op).1 := step_inv fuel hI op hok

/-- … hence for every finite history of such operations, from the empty store -/
theorem C10_inv_reachable_partial (fuel : Nat) (ops : List Op) (h : OkHist Hc fuel ([] : Store α) ops) :
    Inv Hc (runOps Hc fuel [] ops) := runOps_inv fuel ops [] inv_nil h

/-! ### what the invariant says about the observers -/

/-- `size()` = number of nodes recomputed from the current structure -/
theorem C10_size_is_recount (σ : Store α) (i n : Nat) (r : NodeRec α) (t : Tree) (hI : Inv Hc σ)
    (hr : σ[i]? = some r) (hv : r.view = false) (ht : Abs σ i t) (h : sizeOp σ i = .ok n) : n = t.size := by
  simp only [sizeOp, hr] at h
  cases h
  exact hI.size i r t hr hv ht

/-- `hash()` = structural hash recomputed from the current structure; the call fills caches only, with
right values (the state stays `Inv`) -/
theorem C10_hash_is_rehash (fuel : Nat) (σ σ' : Store α) (i : Nat) (h : α) (r : NodeRec α) (t : Tree)
    (hI : Inv Hc σ) (hr : σ[i]? = some r) (hv : r.view = false) (ht : Abs σ i t)
    (e : hashNode Hc fuel σ i = .ok (σ', h)) : h = hashT Hc t ∧ Inv Hc σ' ∧ HashOnly σ σ' := by
  obtain ⟨h1, h2, h3⟩ := hashNode_spec fuel σ i σ' h hI e
  exact ⟨h3 r t hr hv ht, h1, h2⟩

/-- `a == b` exactly when symbols (typed: str / bytes / bit), senders, recipients and shape coincide —
under the stated no-collision hypothesis on the hash combiner -/
theorem C10_eq_iff (hH : HcInjective Hc) (fuel : Nat) (σ σ' : Store α) (i j : Nat) (b : Bool)
    (ri rj : NodeRec α) (ti tj : Tree) (hI : Inv Hc σ)
    (hri : σ[i]? = some ri) (hvi : ri.view = false) (hrj : σ[j]? = some rj) (hvj : rj.view = false)
    (hti : Abs σ i ti) (htj : Abs σ j tj) (e : eqNode Hc fuel σ i j = .ok (σ', b)) :
    (b = true ↔ ti = tj) := by
  obtain ⟨_, _, h⟩ := eqNode_spec fuel hI e
  rw [h ri rj ti tj hri hvi hrj hvj hti htj]
  exact ⟨hashT_inj hH ti tj, fun h => h ▸ rfl⟩

/-- every child listed by a (non-view) node points back to that node -/
theorem C10_parent_links (σ : Store α) (i c : Nat) (r : NodeRec α) (hI : Inv Hc σ) (hr : σ[i]? = some r)
    (hv : r.view = false) (hc : c ∈ r.kids) : parentOp σ c = .ok (some i) := by
  obtain ⟨rc, hrc, hpc, _⟩ := hI.par i r c hr hv hc
  simp [parentOp, hrc, hpc]

/-- the tree printed by the driver is the abstraction the theorems talk about -/
theorem C10_abs_sound (fuel : Nat) (σ : Store α) (i : Nat) (t : Tree) (h : absF fuel σ i = some t) :
    Abs σ i t := absF_sound fuel σ i t h

/-! ### read-only accessors -/

/-- indexing, slicing, size, parent, get_path, flatten, find_all_trees / find_direct_trees (RuleSearch),
get_choices_path, value(): every existing record is left exactly as it was (`tree[a:b]` only allocates
the `SliceTree` it returns) -/
theorem C10_accessor_frame (fuel : Nat) (σ : Store α) (op : Op) (ha : op.accessor = true) (j : Nat)
    (r : NodeRec α) (hr : σ[j]? = some r) : (step Hc fuel σ op).1[j]? = some r := by
  cases op <;> first
    | (simp [Op.accessor] at ha; done)
    | (simp only [step, liftR_fst]; exact hr)
    | skip
  · rename_i i a b
    simp only [step, liftN]
    split
    · exact hr
    · rename_i σ' n e
      unfold getSlice at e
      split at e
      · cases e
      · cases fuel with
        | zero => simp [mkSlice, setChildren, invalidate] at e
        | succ m =>
          rw [mkSlice_eq] at e
          cases e
          rw [get_append_old _ (lt_of_get_some hr)]; exact hr

/-- `tree[a:b]` returns a new node (a view); the invariant is kept -/
theorem C10_slice_is_fresh_view (fuel : Nat) (σ σ' : Store α) (i n : Nat) (a b : Option Int)
    (hI : Inv Hc σ) (h : getSlice fuel σ i a b = .ok (σ', n)) :
    Inv Hc σ' ∧ n = σ.length ∧ ∃ x : NodeRec α, σ' = σ ++ [x] ∧ x.view = true := getSlice_inv fuel hI h

/-! ### copies and replacements never alias their inputs (no invariant needed) -/

omit [DecidableEq α] in
/-- `deepcopy(copy_children, copy_parent)` / `copy.deepcopy`: every record that existed before is
*identical* afterwards (structure, parent, caches, flags); the returned node is new, and new nodes have
only new children and new parents (nothing of the copy points into the original and vice versa) -/
theorem C10_deepcopy_frame (fuel : Nat) (σ σ' : Store α) (i c : Nat) (cc cp : Bool)
    (h : deepcopy fuel σ i cc cp = .ok (σ', c)) :
    σ.length ≤ σ'.length ∧ (∀ a, a < σ.length → σ'[a]? = σ[a]?) ∧ σ.length ≤ c ∧ FreshClosed σ.length σ' :=
  deepcopy_frame fuel h

omit [DecidableEq α] in
/-- `replace` / `replace_multiple` (crossover, mutation and repair are built from it): every pre-existing
node keeps symbol, sender, recipient, child list, parent link, read-only flag (cached sizes / hashes of old
nodes may be rewritten — with the same values under `Inv`); the returned root and everything below it is new -/
theorem C10_replace_frame (fuel : Nat) (σ σ' : Store α) (i c : Nat) (reps : List (Nat × Nat))
    (h : replaceMultiple Hc fuel σ i reps = .ok (σ', c)) :
    Keeps σ.length σ σ' ∧ σ.length ≤ c ∧ FreshKids σ.length σ' :=
  replaceMultiple_frame fuel h

omit [DecidableEq α] in
/-- subtree copies keep the invariant; the copy is a new detached root that nobody lists, and nothing that
existed before is touched -/
theorem C10_deepcopy_inv (fuel : Nat) (σ σ' : Store α) (i c : Nat) (cc cp : Bool) (ri : NodeRec α)
    (hI : Inv Hc σ) (hri : σ[i]? = some ri) (hv : ri.view = false) (hcp : cp = false ∨ ri.parent = none)
    (h : deepcopy fuel σ i cc cp = .ok (σ', c)) :
    Inv Hc σ' ∧ c = σ.length ∧ AgreeBelow σ.length σ σ' ∧ NewKids σ.length σ' ∧ Unlisted σ' c ∧
    ∃ rc, σ'[c]? = some rc ∧ rc.view = false ∧ rc.parent = none :=
  deepcopy_inv fuel hI hri hv hcp h

omit [DecidableEq α] in
/-- `replace` / `replace_multiple` keep the invariant (crossover = two of these; mutation and repair end
in one) when neither the tree nor a replacement is a view -/
theorem C10_replace_inv (fuel : Nat) (σ σ' : Store α) (i c : Nat) (reps : List (Nat × Nat)) (r : NodeRec α)
    (hI : Inv Hc σ) (hri : σ[i]? = some r) (hv : r.view = false)
    (hreps : ∀ a b, (a, b) ∈ reps → ∃ rb, σ[b]? = some rb ∧ rb.view = false)
    (h : replaceMultiple Hc fuel σ i reps = .ok (σ', c)) : Inv Hc σ' :=
  replaceMultiple_inv fuel hI hri hv hreps h

/-- the executable checker the driver evaluates after every operation is sound for `Inv` -/
theorem C10_invB_sound (fuel : Nat) (σ : Store α) (h : invB Hc fuel σ = true) : Inv Hc σ := invB_sound h

/-! ### limits of the real API, modelled faithfully (witnesses by `decide`; replayed on /repo by the check) -/

def HcN : Sym → Option String → Option String → List Nat → Nat := fun _ _ _ hs => hs.sum + 1

def leafA : Op := .mk (.term (.bit false)) none none [] false
def innerOver (k : Nat) : Op := .mk (.nt "a") none none [k] false

/-- history: c = leaf; p1 = node[c]; p2 = node[c] (c handed to a second parent); x = leaf; c.add_child(x) -/
def sharedChildHistory : List Op := [leafA, innerOver 0, innerOver 0, leafA, .addChild 0 3]

/-- A child listed by two parents: the edit below `c` walks up to `p2` only; `p1.size()` still says 2
although `p1` now has 3 nodes.  (`Op.ok` fails at the third op: `c` is not detached any more.) -/
theorem C10_shared_child_goes_stale :
    let σ := runOps HcN 20 [] sharedChildHistory
    (sizeOp σ 1, (absF 20 σ 1).map Tree.size, sizeOp σ 2, (absF 20 σ 2).map Tree.size)
      = (.ok 2, some 3, .ok 3, some 3) := by decide

/-- history: c = node; p = node[c]; v = p[0:]; x = leaf; c.add_child(x) -/
def staleViewHistory : List Op :=
  [.mk (.nt "c") none none [] false, innerOver 0, .getSlice 1 (some 0) none, leafA, .addChild 0 3]

/-- A `SliceTree` held across an edit below it keeps the size it had when it was created: views are
snapshots (the history is disciplined: `Inv` holds, it just does not speak about views). -/
theorem C10_view_goes_stale :
    let σ := runOps HcN 20 [] staleViewHistory
    (sizeOp σ 2, (absF 20 σ 2).map Tree.size, sizeOp σ 1, (absF 20 σ 1).map Tree.size)
      = (.ok 2, some 3, .ok 3, some 3) := by decide

/-! ### non-vacuity -/

/-- a concrete disciplined history (constructor with children, add_child, setter, hash, slice, ==) -/
def sampleHistory : List Op :=
  [leafA, leafA, .mk (.nt "a") none none [0, 1] false, leafA, .addChild 2 3, .hash 2,
   .setSender 0 (some "P"), .getSlice 2 (some 0) (some 2), .eq 2 4, .setChildren 2 [0, 1]]

example : (runOps HcN 30 [] sampleHistory).length = 5 := by decide

/-- the checker accepts the state after the sample history, and after a history with copy / replace /
split / prefix / append (finite witnesses: `decide +kernel`) -/
example : invB HcN 12 (runOps HcN 12 [] sampleHistory) = true := by decide +kernel

def compositeHistory : List Op :=
  [leafA, leafA, .mk (.nt "a") none none [0, 1] false, .deepcopy 2 true true, .replace 2 [(1, 0)],
   .splitEnd 0 true, .prefix 1 true, .append 2 [("b", true)] 3]

example : invB HcN 16 (runOps HcN 16 [] compositeHistory) = true ∧
    (runOps HcN 16 [] compositeHistory).length = 16 := by decide +kernel

/-- … and rejects the stale state of the shared-child history -/
example : invB HcN 12 (runOps HcN 12 [] sharedChildHistory) = false := by decide +kernel

/-- a concrete history that meets the hypothesis `OkHist` of `C10_inv_reachable_partial`
(constructor with children, hash, replace, subtree copy) -/
def okHistory : List Op :=
  [leafA, leafA, .mk (.nt "a") none none [0, 1] false, .hash 2, .replace 2 [(1, 0)], .deepcopy 2 true true]

example : OkHist HcN 12 ([] : Store Nat) okHistory := by
  refine ⟨?_, ?_, ?_, trivial, ?_, ?_, trivial⟩
  · intro c hc; simp at hc
  · intro c hc; simp at hc
  · intro c hc
    simp at hc
    rcases hc with rfl | rfl
    · exact ⟨_, rfl, rfl, rfl⟩
    · exact ⟨_, rfl, rfl, rfl⟩
  · refine ⟨⟨_, rfl, rfl⟩, ?_⟩
    intro a b hab
    simp at hab
    obtain ⟨rfl, rfl⟩ := hab
    exact ⟨_, rfl, rfl⟩
  · exact ⟨_, rfl, rfl, .inr rfl⟩

end FV
