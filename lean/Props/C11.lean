/-
C11 — cached evaluations equal fresh evaluations.

FULL STATEMENT.  The fitness, verdict and failing parts reported for a tree at any point of a run are
identical to those obtained by evaluating the same tree with brand-new constraint objects and empty
caches (no soft constraints); no earlier evaluation, edit or hash coincidence can change a verdict.

What is proved (model `Model/Memo.lean`: a memo layer in front of an arbitrary inner evaluator; layers
nest: constraint caches below the evaluator cache; the key function is abstract):

* `C11_layer_refines`       a cache layer in front of an evaluator that refines `fresh` refines `fresh`
* `C11_memo_refines`        hence, after ANY history of calls, a call returns the fresh result
* `C11_runAll_refines`, `C11_aggregate_refines`   composition: a list of cached constraints, then a pure
                             aggregation (conjunction bookkeeping, the evaluator's fitness formula)
* `C11_evaluator_refines`   the two-level instance: `Evaluator._fitness_cache` over the constraints' caches
* `C11_key_determines_of_injective`   the hypothesis `KeyDetermines` follows from (a) *the key covers
                             everything the evaluation reads* and (b) no hash collision among the keys seen
* `C11_key_covers_constraint_inputs`  (a) holds for every constraint of `Model/Constraint.lean`
                             (`fitness` reads the tree, `scope`, `local_variables` — all in the key)
* `C11_key_misses_origin_tags`  (a) FAILS for `RepetitionBoundsConstraint`: its fitness reads the
                             `origin_repetitions` tags, which `DerivationTree.__hash__` does not cover; no key
                             computed from the hashed view can be right for two trees that differ only in tags
* `C11_stale_rep_bounds_history`  a concrete history (evaluate `a`, then `b`) with cached ≠ fresh
* `C11_rep_bounds_refines_partial`  PARTIAL: with a structure-only key the refinement holds under the extra
                             hypothesis `TagsDeterminedByShape` (equal hashed views ⇒ equal groups)
* `C11_source_keys_cover_tags`  what the CURRENT source does (Generated/MemoKey.lean, re-read from the AST of
                             repetition_bounds.py / evaluation.py / tree.py on every run): both keys are
                             extended by `origin_signature()`, which covers every tag (fix a55700f5)
* `C11_rep_bounds_refines`  with the key of the source configuration, cached = fresh for repetition bounds
                             after ANY history, with no hypothesis besides absence of hash collisions

Hypotheses that are *not* discharged (they are about CPython's `hash`): `KeyDetermines` / injectivity of
the key on the inputs that occur.  Trees are values here: an edit produces a new input (C10 is the
frame property that edits do not alias); a stale `hash_cache` after an in-place edit would be a key that
does not cover what is read and is looked for by the harness (`harness/props/c11.py`).
-/
import Model.Memo
import Proofs.EmitExact
import Generated.MemoKey
namespace FV
open Memo

variable {I K R S : Type} [DecidableEq K]

theorem Memo.lookup_mem {k : K} {r : R} : ∀ {tbl : Table K R}, lookup k tbl = some r → (k, r) ∈ tbl
  | [], h => by simp [lookup] at h
  | (k', r') :: rest, h => by
    simp only [lookup] at h
    by_cases hk : k' = k
    · simp only [hk, if_true, Option.some.injEq] at h
      subst h; subst hk; simp
    · simp only [hk, if_false] at h
      exact List.mem_cons_of_mem _ (Memo.lookup_mem h)

/-! ## 1. one cache layer -/

theorem C11_layer_refines (L : Layer I K R S) (Inv : S → Prop) (fresh : I → R) (D : I → Prop)
    (hin : Refines L.inner Inv fresh D) (hkey : KeyDetermines L.key fresh D) :
    Refines L.step (fun st => TableOk L.key fresh D st.1 ∧ Inv st.2) fresh D := by
  intro st i ⟨htbl, hinv⟩ hD
  unfold Layer.step
  cases hl : lookup (L.key i) st.1 with
  | some r =>
    simp only []
    obtain ⟨j, hj, hk, hr⟩ := htbl _ _ (Memo.lookup_mem hl)
    exact ⟨by rw [← hr]; exact hkey j i hj hD hk, htbl, hinv⟩
  | none =>
    simp only []
    have ⟨h1, h2⟩ := hin st.2 i hinv hD
    refine ⟨h1, ?_, h2⟩
    intro k r hm
    rcases List.mem_cons.1 hm with heq | hm'
    · cases heq
      exact ⟨i, hD, rfl, h1.symm⟩
    · exact htbl k r hm'

/-- **cached = fresh after any history**: whatever was evaluated before (all inputs in `D`: the trees of the
    run, with the scopes/locals they were evaluated under), the next call returns the fresh result -/
theorem C11_memo_refines (L : Layer I K R S) (Inv : S → Prop) (fresh : I → R) (D : I → Prop)
    (hin : Refines L.inner Inv fresh D) (hkey : KeyDetermines L.key fresh D)
    (s0 : S) (h0 : Inv s0) (hist : List I) (hh : ∀ j ∈ hist, D j) (i : I) (hi : D i) :
    (L.step (L.replay ([], s0) hist) i).1 = fresh i := by
  have hstep := C11_layer_refines L Inv fresh D hin hkey
  have hinv : ∀ (hist : List I) (st : Table K R × S), (TableOk L.key fresh D st.1 ∧ Inv st.2) →
      (∀ j ∈ hist, D j) → (TableOk L.key fresh D (L.replay st hist).1 ∧ Inv (L.replay st hist).2) := by
    intro hist
    induction hist with
    | nil => intro st h _; exact h
    | cons j rest ih =>
      intro st h hd
      simp only [Layer.replay]
      exact ih _ (hstep st j h (hd j (by simp))).2 (fun x hx => hd x (by simp [hx]))
  have hst := hinv hist ([], s0) ⟨(by intro k r hm; cases hm), h0⟩ hh
  exact (hstep _ i hst hi).1

/-! ## 2. composition -/

/-- an evaluator together with its state invariant and the state-free function it is meant to compute -/
structure Comp (I R S : Type) where
  run : S → I → R × S
  Inv : S → Prop
  fresh : I → R

def StatesOk : List (Comp I R S) → List S → Prop
  | [], [] => True
  | c :: cs, s :: ss => c.Inv s ∧ StatesOk cs ss
  | _, _ => False

theorem C11_runAll_refines (D : I → Prop) :
    ∀ (comps : List (Comp I R S)), (∀ c ∈ comps, Refines c.run c.Inv c.fresh D) →
      Refines (runAll (comps.map (·.run))) (StatesOk comps) (fun i => comps.map (fun c => c.fresh i)) D := by
  intro comps
  induction comps with
  | nil =>
    intro _ ss i hs _
    cases ss with
    | nil => simp [runAll, StatesOk]
    | cons s ss => exact absurd hs (by simp [StatesOk])
  | cons c cs ih =>
    intro hall ss i hs hD
    cases ss with
    | nil => exact absurd hs (by simp [StatesOk])
    | cons s ss =>
      simp only [StatesOk] at hs
      have ⟨h1, h2⟩ := hall c (by simp) s i hs.1 hD
      have ⟨g1, g2⟩ := ih (fun x hx => hall x (by simp [hx])) ss i hs.2 hD
      simp only [List.map, runAll]
      exact ⟨by rw [h1, g1], h2, g2⟩

/-- a pure aggregation after an evaluator (the counters of a conjunction, the fitness formula) -/
theorem C11_aggregate_refines {R' : Type} (run : S → I → R × S) (Inv : S → Prop) (fresh : I → R) (D : I → Prop)
    (agg : R → R') (h : Refines run Inv fresh D) :
    Refines (fun s i => (agg (run s i).1, (run s i).2)) Inv (fun i => agg (fresh i)) D := by
  intro s i hs hD
  have ⟨h1, h2⟩ := h s i hs hD
  exact ⟨by simp only [h1], h2⟩

/-- **the evaluator's cache over the constraints' caches.**  `hard`/`rep` are the (cached) constraint
    evaluators; the evaluator computes the exact fitness of `Model/EmitExact.lean` from their outcomes and
    memoises it under its own key.  After any history the reported fitness is the one computed from
    fresh outcomes. -/
theorem C11_evaluator_refines (comps : List (Comp I (Option Fit) S)) (nHard : Nat) (key : I → K) (D : I → Prop)
    (hall : ∀ c ∈ comps, Refines c.run c.Inv c.fresh D)
    (hkey : KeyDetermines key (fun i => fitnessQ ((comps.map (fun c => c.fresh i)).take nHard)
                                              ((comps.map (fun c => c.fresh i)).drop nHard)) D)
    (ss0 : List S) (h0 : StatesOk comps ss0) (hist : List I) (hh : ∀ j ∈ hist, D j) (i : I) (hi : D i) :
    let L : Layer I K Rat (List S) :=
      ⟨key, fun ss i => ((fun rs => fitnessQ (rs.take nHard) (rs.drop nHard)) (runAll (comps.map (·.run)) ss i).1,
                        (runAll (comps.map (·.run)) ss i).2)⟩
    (L.step (L.replay ([], ss0) hist) i).1 =
      fitnessQ ((comps.map (fun c => c.fresh i)).take nHard) ((comps.map (fun c => c.fresh i)).drop nHard) := by
  intro L
  exact C11_memo_refines L (StatesOk comps) _ D
    (C11_aggregate_refines _ _ _ D (fun rs => fitnessQ (rs.take nHard) (rs.drop nHard)) (C11_runAll_refines D comps hall))
    hkey ss0 h0 hist hh i hi

/-! ## 3. when does the key determine the result? -/

omit [DecidableEq K] in
/-- if the key is a hash of a *view* of the input, the evaluation reads nothing but that view, and the
    hash is injective on the views that occur, then equal keys mean equal results -/
theorem C11_key_determines_of_injective {V : Type} (view : I → V) (H : V → K) (fresh : I → R) (D : I → Prop)
    (hcover : ∀ a b, view a = view b → fresh a = fresh b)
    (hinj : ∀ a b, D a → D b → H (view a) = H (view b) → view a = view b) :
    KeyDetermines (fun i => H (view i)) fresh D :=
  fun a b ha hb hk => hcover a b (hinj a b ha hb hk)

/-- the input of a constraint's `fitness(tree, scope, local_variables)`; `tree.get_root()` is the tree the
    evaluator was given — the same for every nested call, so it adds nothing to the key -/
structure CIn where
  tree : Tree
  scope : Scope
  locals : Locals

/-- every constraint of the modelled language reads nothing but `(tree, scope, local_variables)`: the
    fresh fitness is literally a function of the view the key is computed from -/
theorem C11_key_covers_constraint_inputs (cfg : OpCfg) (c : Cons) (a b : CIn)
    (h : (a.tree, a.scope, a.locals) = (b.tree, b.scope, b.locals)) :
    opFit cfg c a.tree a.scope a.locals = opFit cfg c b.tree b.scope b.locals := by
  cases a; cases b; cases h; rfl

/-- a cached constraint of the modelled language refines its fresh evaluation after any history, provided
    the hash of `(tree, scope, locals)` does not collide on the inputs that occur -/
theorem C11_constraint_cache_refines (cfg : OpCfg) (c : Cons) (H : Tree × Scope × Locals → K) (D : CIn → Prop)
    (hinj : ∀ a b, D a → D b → H (a.tree, a.scope, a.locals) = H (b.tree, b.scope, b.locals) →
      (a.tree, a.scope, a.locals) = (b.tree, b.scope, b.locals))
    (hist : List CIn) (hh : ∀ j ∈ hist, D j) (i : CIn) (hi : D i) :
    let L : Layer CIn K (Except SErr St) Unit :=
      ⟨fun x => H (x.tree, x.scope, x.locals), fun _ x => (opFit cfg c x.tree x.scope x.locals, ())⟩
    (L.step (L.replay ([], ()) hist) i).1 = opFit cfg c i.tree i.scope i.locals := by
  intro L
  exact C11_memo_refines L (fun _ => True) (fun x => opFit cfg c x.tree x.scope x.locals) D
    (fun _ x _ _ => ⟨rfl, trivial⟩)
    (C11_key_determines_of_injective (fun x : CIn => (x.tree, x.scope, x.locals)) H _ D
      (fun a b h => C11_key_covers_constraint_inputs cfg c a b h) hinj)
    () trivial hist hh i hi

/-! ## 4. repetition bounds: the key misses the origin tags -/

def tagA : Tagged := ⟨.node "<start>" [.node "<n>" [.leaf (.text [50])], .node "<item>" [], .node "<item>" []], [⟨2, 2, 2⟩]⟩
/-- the same structure, but the tags put the two items into two groups of one iteration each -/
def tagB : Tagged := ⟨.node "<start>" [.node "<n>" [.leaf (.text [50])], .node "<item>" [], .node "<item>" []], [⟨1, 2, 2⟩, ⟨1, 2, 2⟩]⟩

omit [DecidableEq K] in
/-- two trees with the same hashed view and different repetition-bounds fitness: whatever hash is used,
    a key computed from the view cannot determine the result -/
theorem C11_key_misses_origin_tags (H : Tree → K) :
    tagA.view = tagB.view ∧ repFresh tagA ≠ repFresh tagB ∧
    ¬ KeyDetermines (fun x : Tagged => H x.view) repFresh (fun x => x = tagA ∨ x = tagB) := by
  have hview : tagA.view = tagB.view := rfl
  have hne : repFresh tagA ≠ repFresh tagB := by decide
  refine ⟨hview, hne, ?_⟩
  intro hk
  exact hne (hk tagA tagB (.inl rfl) (.inr rfl) (by show H tagA.view = H tagB.view; rw [hview]))

/-- the history "evaluate `tagA`, then `tagB`" with a key that sees only the structure: the second call is
    answered from the cache with `tagA`'s fitness (success), the fresh answer is failure -/
theorem C11_stale_rep_bounds_history :
    let L : Layer Tagged Nat Fit Unit := ⟨fun x => x.view.size, fun _ x => (repFresh x, ())⟩
    (L.step (L.replay ([], ()) [tagA]) tagB).1.success = true ∧ (repFresh tagB).success = false := by
  decide

/-- on a set of trees whose tags are determined by their shape -/
def TagsDeterminedByShape (D : Tagged → Prop) : Prop :=
  ∀ a b, D a → D b → a.view = b.view → a.groups = b.groups

/-- PARTIAL: with repetition bounds, cached = fresh holds under `TagsDeterminedByShape` (and no hash
    collision).  Not proved — and false in general, see above — without it. -/
theorem C11_rep_bounds_refines_partial (H : Tree → K) (D : Tagged → Prop)
    (htags : TagsDeterminedByShape D)
    (hinj : ∀ a b, D a → D b → H a.view = H b.view → a.view = b.view)
    (hist : List Tagged) (hh : ∀ j ∈ hist, D j) (i : Tagged) (hi : D i) :
    let L : Layer Tagged K Fit Unit := ⟨fun x => H x.view, fun _ x => (repFresh x, ())⟩
    (L.step (L.replay ([], ()) hist) i).1 = repFresh i := by
  intro L
  refine C11_memo_refines L (fun _ => True) repFresh D (fun _ x _ _ => ⟨rfl, trivial⟩) ?_ () trivial hist hh i hi
  intro a b ha hb hk
  unfold repFresh
  rw [htags a b ha hb (hinj a b ha hb hk)]

/-- non-vacuity: a domain on which the hypotheses hold (`{tagA}`) and the conclusion is informative -/
example : TagsDeterminedByShape (fun x => x = tagA) := by
  intro a b ha hb _; rw [ha, hb]

/-! ## 5. repetition bounds: the key the source computes now -/

/-- the key of `RepetitionBoundsConstraint.cache` (and, with repetition bounds present, of
    `Evaluator._fitness_cache`) as a function of what the translator found in the source: the hash of the
    structure alone, or of the structure together with the origin tags -/
def repKey (coversTags : Bool) (H : Tree → K) (H2 : Tree × List RepGroup → K) (x : Tagged) : K :=
  if coversTags then H2 (x.view, x.groups) else H x.view

/-- OBLIGATION ON THE SOURCE: the current source extends both keys by the origin tags, and
    `origin_signature` covers the tags of the node and of every descendant.  Reverting a55700f5 (or keying
    one of the two caches by the tree hash alone again) turns a generated constant to `false` and breaks this
    theorem and the one below. -/
theorem C11_source_keys_cover_tags :
    Generated.MemoKey.repKeyCoversTags = true ∧ Generated.MemoKey.evalKeyCoversTags = true ∧
    Generated.MemoKey.signatureCoversTags = true := by decide

omit [DecidableEq K] in
/-- with the tags in the key, equal keys mean equal repetition-bounds fitness (no collision among the
    keys seen) — the hypothesis `TagsDeterminedByShape` is gone -/
theorem C11_rep_key_determines (H : Tree → K) (H2 : Tree × List RepGroup → K) (D : Tagged → Prop)
    (hinj : ∀ a b, D a → D b → H2 (a.view, a.groups) = H2 (b.view, b.groups) → (a.view, a.groups) = (b.view, b.groups)) :
    KeyDetermines (repKey Generated.MemoKey.repKeyCoversTags H H2) repFresh D := by
  intro a b ha hb hk
  have hk' : H2 (a.view, a.groups) = H2 (b.view, b.groups) := by
    simpa [repKey, C11_source_keys_cover_tags.1] using hk
  have := hinj a b ha hb hk'
  unfold repFresh
  rw [(Prod.mk.inj this).2]

/-- cached = fresh for repetition bounds after ANY history of evaluations, for the key of the source
    configuration (full statement for this constraint class; the only hypothesis left is the absence of
    hash collisions among the keys that occur) -/
theorem C11_rep_bounds_refines (H : Tree → K) (H2 : Tree × List RepGroup → K) (D : Tagged → Prop)
    (hinj : ∀ a b, D a → D b → H2 (a.view, a.groups) = H2 (b.view, b.groups) → (a.view, a.groups) = (b.view, b.groups))
    (hist : List Tagged) (hh : ∀ j ∈ hist, D j) (i : Tagged) (hi : D i) :
    let L : Layer Tagged K Fit Unit :=
      ⟨repKey Generated.MemoKey.repKeyCoversTags H H2, fun _ x => (repFresh x, ())⟩
    (L.step (L.replay ([], ()) hist) i).1 = repFresh i := by
  intro L
  exact C11_memo_refines L (fun _ => True) repFresh D (fun _ x _ _ => ⟨rfl, trivial⟩)
    (C11_rep_key_determines H H2 D hinj) () trivial hist hh i hi

/-- non-vacuity: on the two-tree domain of §4 (where the structure-only key fails) a key over
    (structure, tags) that is injective there exists (the number of groups), and the theorem gives the fresh
    answer for the stale history of §4 -/
example :
    let L : Layer Tagged Nat Fit Unit :=
      ⟨repKey Generated.MemoKey.repKeyCoversTags (fun t => t.size) (fun p => p.2.length), fun _ x => (repFresh x, ())⟩
    (L.step (L.replay ([], ()) [tagA]) tagB).1 = repFresh tagB := by
  refine C11_rep_bounds_refines (fun t => t.size) (fun p => p.2.length) (fun x => x = tagA ∨ x = tagB) ?_
    [tagA] (fun j hj => by simp at hj; exact .inl hj) tagB (.inr rfl)
  rintro a b (rfl | rfl) (rfl | rfl) h
  · rfl
  · exact absurd h (by decide)
  · exact absurd h (by decide)
  · rfl

end FV
