/-
C12 — parse results do not depend on earlier parse calls.

Property theorems only; helper lemmas are in `Proofs/ParseCache.lean` and `Proofs/OriginTags.lean`.
The model (`Model/ParseCache.lean`: `Parser._cache` + the generators of `Parser.parse_forest` over an
abstract fresh parser; `Model/OriginTags.lean`: `origin_repetitions` and the shared iteration
counters) is tied to /repo by `harness/props/c12.py` (translator `harness/translate_cache.py` →
`Generated/Cache.lean`, correspondence through `drv_cache`).  Every `theorem` here is audited.

## Full statement

    def C12_FullStatement cfg := ∀ O history request, answer (replay history) request = parseFresh request

for every sequence of parse-type requests (start a forest, pull trees one at a time, abandon,
exhaust, other start symbols / modes / hook-in parents / starter bits, edits of returned trees).

* It is **proved** for every configuration that stores a forest only when its generator is exhausted,
  has a complete cache key, yields on every hit, copies everything it hands out and gives every request
  its own parser registers (`C12_full_statement_when_isolated`) — and this is the configuration the
  translator reads off the **current source** (`C12_full_statement_source`, for `Generated.cacheConfig`):
  a regression in any of these respects makes that theorem stop checking.
* `C12_cache_refines` is the general refinement theorem behind it, for *any* configuration with the
  store-when-exhausted policy: all histories that stay inside an explicit envelope — the ghost flag
  `tainted` stays false (no uncached generator is resumed after another request re-initialised a shared
  `IterativeParser`, no in-place edit goes through a list object shared with the cache) and the requests
  are `Keyed` (what the key leaves out is at its default, `include_controlflow` is not asked of a hit loop
  that does not yield for it).
* Outside that envelope the statement is **false** for the source as it was after 4ee03385 and before
  the fixes b339574e / 91610c1b / 7afb3369 / 13d797aa (`Config.afterFix`): four machine-checked witnesses
  (`C12_interleaving_counterexample`, `C12_alias_counterexample`, `C12_starter_bit_counterexample`,
  `C12_controlflow_hit_counterexample`), each found or replayed on the implementation by the check and
  each the reason for one flag of `Config`.  `C12_partial_forest_counterexample` is the witness for the
  insertion policy before fix 4ee03385.
-/
import Proofs.ParseCache
import Proofs.OriginTags
import Generated.Cache
namespace FV
open PC

/-- the property as stated, for one configuration of the parse cache -/
def C12_FullStatement (cfg : Config) : Prop :=
  ∀ (T : Type) [DecidableEq T] (O : Oracle T) (h : List Op) (r : Req),
    answer cfg O (replay cfg O h) r = parseFresh O r

/-! ## 1. refinement: the answer after any history is the fresh answer -/

/-- **cache refinement.**  For every configuration with the insertion policy "store when exhausted",
    every fresh parser `O`, every history `h` of keyed requests that stays untainted, and every keyed
    request `r`: enumerating `r` after `h` yields exactly what a fresh grammar object yields.
    (Induction over histories with the invariant "every cached entry equals `parseFresh` of its key,
    and every uncached generator that still owns its registers has yielded a prefix of the fresh
    forest and will yield the rest".) -/
theorem C12_cache_refines (cfg : Config) (hpol : cfg.policy = .storeWhenExhausted)
    {T : Type} [DecidableEq T] (O : Oracle T) (h : List Op)
    (hk : ∀ op ∈ h, OpKeyed cfg op) (hu : (replay cfg O h).tainted = false)
    (r : Req) (hr : Keyed cfg r) :
    answer cfg O (replay cfg O h) r = parseFresh O r := by
  have hI := inv_replayFrom cfg O hpol h State.init hk (gensKeyed_init cfg) (inv_init cfg O) hu
  exact answer_of_inv cfg O hpol _ hI.1 r hr

/-- the same, **for the configuration the translator reads off /repo's current source**; reverting
    fix 4ee03385 makes `Generated.cacheConfig.policy = .appendWhileYielding` and this stops checking -/
theorem C12_cache_refines_source {T : Type} [DecidableEq T] (O : Oracle T) (h : List Op)
    (hk : ∀ op ∈ h, OpKeyed Generated.cacheConfig op)
    (hu : (replay Generated.cacheConfig O h).tainted = false)
    (r : Req) (hr : Keyed Generated.cacheConfig r) :
    answer Generated.cacheConfig O (replay Generated.cacheConfig O h) r = parseFresh O r :=
  C12_cache_refines Generated.cacheConfig (by decide) O h hk hu r hr

/-- the parts of the source's shape that the theorem above needs and that must not regress: the
    insertion policy, deep copies on hits, and `start`, `mode`, `hookin_parent` in the cache key
    (without them `Keyed` would silently exclude the requests the property is about) -/
theorem C12_source_shape :
    Generated.cacheConfig.policy = .storeWhenExhausted ∧ Generated.cacheConfig.hitCopies = true ∧
    Generated.cacheConfig.keyStart = true ∧ Generated.cacheConfig.keyMode = true ∧
    Generated.cacheConfig.keyHook = true := by
  decide

/-- with the source's key and hit loop, every request whose word is a `str`/`bytes` (no starter bit)
    and that does not ask for control-flow nodes is keyed -/
theorem C12_source_keyed (r : Req) (h : r.core.sbit = 0) (hcf : r.cf = false) :
    Keyed Generated.cacheConfig r := by
  obtain ⟨⟨w, sb, st, hk⟩, m, cf⟩ := r
  simp only at h hcf
  subst h hcf
  simp [Keyed, keyOf, Key.core, Generated.cacheConfig]

/-- **the full statement** holds for every configuration that stores on exhaustion, has a complete
    key, copies what it hands out and does not share parser registers between generators: no history
    can become tainted -/
theorem C12_full_statement_when_isolated (cfg : Config) (hpol : cfg.policy = .storeWhenExhausted)
    (hkey : cfg.keyComplete = true) (hy : cfg.hitYieldsCf = true) (hcopies : cfg.copies = true)
    (hregs : cfg.sharedRegs = false) :
    C12_FullStatement cfg := by
  intro T _ O h r
  have hu := (untainted_replayFrom cfg O hcopies hregs h State.init noAlias_init rfl).2
  refine C12_cache_refines cfg hpol O h ?_ hu r (keyed_of_complete cfg hkey hy r)
  intro op _
  cases op with
  | start r' => exact keyed_of_complete cfg hkey hy r'
  | pull g => trivial
  | drop g => trivial
  | mutate o k fn => trivial

theorem C12_full_statement_isolated : C12_FullStatement Config.isolated :=
  C12_full_statement_when_isolated Config.isolated rfl rfl rfl rfl rfl

/-- **the full statement for the configuration of /repo's current source**: all histories of
    parse-type requests, no guard.  Every hypothesis is a decidable fact about the generated
    configuration; a source that shares the parser between generators again, drops a key component,
    stops copying, or stores partial forests makes this theorem fail to check. -/
theorem C12_full_statement_source : C12_FullStatement Generated.cacheConfig :=
  C12_full_statement_when_isolated Generated.cacheConfig (by decide) (by decide) (by decide) (by decide)
    (by decide)

/-! ## 2. handed-out trees are independent copies -/

/-- **answers are copies.**  When hits are deep-copied and the uncached path copies too, no object in
    a caller's hands shares storage with a parser-side object, after any history; consequently no
    edit of a returned tree changes the heap the cache serves from (the ghost flag stays false when
    the registers are per request). -/
theorem C12_answers_are_copies (cfg : Config) (hcopies : cfg.copies = true)
    {T : Type} [DecidableEq T] (O : Oracle T) (h : List Op) (o : Nat) (out : Out T)
    (ho : (replay cfg O h).outs o = some out) : out.alias = none := by
  have := noAlias_replay cfg O hcopies h
  exact this o out ho

/-- the copies the current source makes on a cache **hit** never alias the cache -/
theorem C12_hits_are_copies_source {T : Type} (O : Oracle T) (r : Req) (id : Nat) (v : T) :
    (hitOut Generated.cacheConfig O r id v).alias = none := by
  simp [hitOut, Generated.cacheConfig]

/-! ## 3. machine-checked witnesses (finite; `decide`) -/

/-- a fresh parser with one ambiguous word: word 0 ("x") has the complete trees 10 (`<a>`) and 11
    (`<b>`) — and tree 12 when it is read from starter bit 3 —, its incomplete phase offers 10, 11, 13;
    `collapse` adds 100, edit `n` adds `1000·(n+1)` -/
def exO : Oracle Nat where
  complete c := if c.word = 0 then (if c.sbit = 0 then [10, 11] else if c.sbit = 3 then [12] else []) else []
  partialRaw c := if c.word = 0 then [10, 11, 13] else []
  view cf t := if cf then t else t + 100
  apply n t := t + 1000 * (n + 1)

def reqX : Req := ⟨⟨0, 0, 0, 0⟩, .complete, false⟩
def reqXinc : Req := ⟨⟨0, 0, 0, 0⟩, .incomplete, false⟩
def reqXcf : Req := ⟨⟨0, 0, 0, 0⟩, .complete, true⟩
def reqQinc : Req := ⟨⟨1, 0, 0, 0⟩, .incomplete, false⟩
def reqXbit3 : Req := ⟨⟨0, 3, 0, 0⟩, .complete, false⟩
def reqXbit8 : Req := ⟨⟨0, 8, 0, 0⟩, .complete, false⟩

/-- **pre-fix policy** (append while yielding): `parse("x")` then `parse_forest("x")` answers one
    tree, a fresh grammar two -/
theorem C12_partial_forest_counterexample :
    answer Config.preFix exO (replay Config.preFix exO (parseFirstOps reqX 0)) reqX = [110] ∧
    parseFresh exO reqX = [110, 111] := by
  decide

/-- the same history under the current policy is answered correctly (and is untainted) -/
theorem C12_partial_forest_fixed :
    answer Config.afterFix exO (replay Config.afterFix exO (parseFirstOps reqX 0)) reqX = [110, 111] ∧
    (replay Config.afterFix exO (parseFirstOps reqX 0)).tainted = false := by
  decide

/-- **generator interleaving** (source before b339574e): start a forest of "x", pull one tree, let another
    request in INCOMPLETE mode re-initialise the shared parser, resume the first generator to its end:
    it continues in INCOMPLETE mode, yields incomplete trees, and stores them under the COMPLETE key -/
def interleavedHistory : List Op :=
  [.start reqX, .pull 0, .start reqQinc, .pull 1, .pull 0, .pull 0, .pull 0, .pull 0, .pull 0]

theorem C12_interleaving_counterexample :
    answer Config.afterFix exO (replay Config.afterFix exO interleavedHistory) reqX
      = [110, 111, 110, 111, 113] ∧
    parseFresh exO reqX = [110, 111] ∧
    (replay Config.afterFix exO interleavedHistory).tainted = true ∧
    answer Config.isolated exO (replay Config.isolated exO interleavedHistory) reqX = [110, 111] := by
  decide

/-- **aliasing** (source before 91610c1b): enumerate the forest of "x" completely, edit an
    `origin_repetitions` list of the first returned tree in place: the next answer has the edit -/
def aliasHistory : List Op :=
  [.start reqX, .pull 0, .pull 0, .pull 0, .mutate 0 .list 0]

theorem C12_alias_counterexample :
    answer Config.afterFix exO (replay Config.afterFix exO aliasHistory) reqX = [1110, 111] ∧
    parseFresh exO reqX = [110, 111] ∧
    (replay Config.afterFix exO aliasHistory).tainted = true ∧
    answer Config.isolated exO (replay Config.isolated exO aliasHistory) reqX = [110, 111] := by
  decide

/-- a `set_children`-style edit of a collapsed tree does not reach the cache, an edit of a tree that
    was requested with `include_controlflow=True` does (it is the cached object) -/
theorem C12_alias_node_edits :
    answer Config.afterFix exO (replay Config.afterFix exO
      [.start reqX, .pull 0, .pull 0, .pull 0, .mutate 0 .node 0]) reqX = [110, 111] ∧
    answer Config.afterFix exO (replay Config.afterFix exO
      [.start reqXcf, .pull 0, .pull 0, .pull 0, .mutate 0 .node 0]) reqX = [1110, 111] := by
  decide

/-- **starter bit** (source before 7afb3369): the key has no starter bit, so the forest of a 3-bit word is
    served for the 8-bit word with the same bytes -/
def starterBitHistory : List Op := [.start reqXbit3, .pull 0, .pull 0]

theorem C12_starter_bit_counterexample :
    answer Config.afterFix exO (replay Config.afterFix exO starterBitHistory) reqXbit8 = [112] ∧
    parseFresh exO reqXbit8 = [] ∧
    (replay Config.afterFix exO starterBitHistory).tainted = false ∧
    ¬ Keyed Config.afterFix reqXbit3 ∧
    answer Config.isolated exO (replay Config.isolated exO starterBitHistory) reqXbit8 = [] := by
  decide

/-- **control-flow hit** (source before 13d797aa): the hit loop only yields under `if not include_controlflow`,
    so a cached forest requested with `include_controlflow=True` comes back empty -/
def cfHitHistory : List Op := [.start reqX, .pull 0, .pull 0, .pull 0]

theorem C12_controlflow_hit_counterexample :
    answer Config.afterFix exO (replay Config.afterFix exO cfHitHistory) reqXcf = [] ∧
    parseFresh exO reqXcf = [10, 11] ∧
    (replay Config.afterFix exO cfHitHistory).tainted = false ∧
    ¬ Keyed Config.afterFix reqXcf ∧
    answer Config.isolated exO (replay Config.isolated exO cfHitHistory) reqXcf = [10, 11] := by
  decide

/-- so the full statement is false for the configuration of the source before the four fixes -/
theorem C12_full_statement_fails_after_fix : ¬ C12_FullStatement Config.afterFix := by
  intro h
  have := h Nat exO interleavedHistory reqX
  rw [C12_interleaving_counterexample.1, C12_interleaving_counterexample.2.1] at this
  exact absurd this (by decide)

/-- non-vacuity of `C12_cache_refines`: a history with a first-tree-only request, an abandoned and a
    fully enumerated forest, another mode, a node edit of a returned tree and a hit — every hypothesis
    holds for the configuration of the current source, and the answers are the fresh ones -/
def mixedHistory : List Op :=
  parseFirstOps reqX 0 ++
  [.start reqXinc, .pull 1, .pull 1, .drop 1,
   .start reqX, .pull 2, .pull 2, .pull 2, .mutate 1 .node 3,
   .start reqX, .pull 3, .start reqXinc, .pull 4, .pull 4, .pull 4, .pull 4, .pull 3]

example : (∀ op ∈ mixedHistory, OpKeyed Config.afterFix op) ∧
    (replay Config.afterFix exO mixedHistory).tainted = false ∧ Keyed Config.afterFix reqXinc ∧
    answer Config.afterFix exO (replay Config.afterFix exO mixedHistory) reqXinc = [110, 111, 110, 111, 113] ∧
    parseFresh exO reqXinc = [110, 111, 110, 111, 113] := by
  decide

/-! ## 4. iteration ids: results are stated modulo a consistent renaming -/

/-- **iteration ids.**  (1) The canonical form the comparison uses is invariant under every renaming
    of iteration ids that is injective per repetition id.  (2) Converting a parser tree with the
    shared counters advanced by `δ` (whatever was parsed or fuzzed before) gives the same tree with
    every iteration id shifted by `δ` — a renaming of that kind — so (3) the canonical form of a
    converted tree does not depend on the counters it started from.  (4) The canonical form keeps
    distinct iterations distinct, so anything that groups nodes by (repetition id, iteration id) —
    `RepetitionBoundsConstraint`, the repetition repairs — sees the same groups. -/
theorem C12_iteration_ids_renaming :
    (∀ (ρ : Renaming) (t : OTree), ρ.Injective → (t.rename ρ).normalize = t.normalize) ∧
    (∀ (δ c : Counter) (t : PTree),
      (convTwice (c.add δ) t).1 = (convTwice c t).1.rename (shiftBy δ)) ∧
    (∀ (δ c : Counter) (t : PTree),
      (convTwice (c.add δ) t).1.normalize = (convTwice c t).1.normalize) ∧
    (∀ (t : OTree) (a b : String × Nat), a ∈ t.keys → b ∈ t.keys →
      t.keys.idxOf a = t.keys.idxOf b → a = b) := by
  have h2 : ∀ (δ c : Counter) (t : PTree),
      (convTwice (c.add δ) t).1 = (convTwice c t).1.rename (shiftBy δ) := by
    intro δ c t
    unfold convTwice
    have h1 := conv_shift δ t c []
    simp only [List.map_nil] at h1
    rw [h1]
    have h2 := conv_shift δ t (conv c [] t).2 []
    simp only [List.map_nil] at h2
    rw [h2]
  refine ⟨fun ρ t h => normalize_rename ρ h t, h2, ?_, normalize_injective_on_keys⟩
  intro δ c t
  rw [h2, normalize_rename _ (shift_injective δ)]

/-- non-vacuity: `<start> ::= <a>{1,3}` on "xx" converted after 0 and after 5 earlier iterations: the
    absolute ids differ (2 vs 12 after the double conversion), the canonical forms agree -/
def exP : PTree :=
  .mk "<start>" .plain [.mk "<__rep>" (.rep "rep:1") [.mk "<a>" .plain [.mk "x" .plain []],
                                                       .mk "<a>" .plain [.mk "x" .plain []]]]

example : (convTwice (fun _ => 0) exP).1.keys = [("rep:1", 2), ("rep:1", 2)] ∧
    (convTwice (fun _ => 5) exP).1.keys = [("rep:1", 7), ("rep:1", 7)] ∧
    (convTwice (fun _ => 0) exP).1.normalize.keys = [("rep:1", 0), ("rep:1", 0)] := by
  decide

end FV
