/-
C13 — incremental parsing is independent of how the input is fragmented.

Property theorems only (helper lemmas: `Proofs/Incremental.lean`, `Proofs/IncrEarley*.lean`; models:
`Model/Incremental.lean` — the scanner layer — and `Model/IncrEarley.lean` — the real closure).

**The scanner layer** is the model of `IterativeParser.consume` as of /repo HEAD (incl. 179bde08 "an empty regex
match is a match", a33087ac "text/bytes/regex terminals only at byte boundaries", 1ef12755 "a character above
U+00FF has no bits"; `C13_source_configuration` pins these three shapes to the source on every run) — literal /
regex / bit scanning with the two code paths "whole terminal" and "incomplete state, re-scanned with the next
fragment", the 8-columns-per-unit offsets, states added to the column that is being processed (empty matches), and
the unprocessed last column — over a predict/complete closure `Engine.close` of which the theorems use the laws
`Engine.LawfulOn ok` / `Engine.LawfulCCOn ok okc` *for the column passes named by `ok`* (§1, §2: the hypotheses
`feedOK` / `chunkOK` say that the passes of the runs that are compared are such passes).

**The closure** (§6).  The laws are proved for
  * `linEngine` (finite unions of terminal sequences), for all passes (`C13_linEngine_lawful`), and
  * **`earleyEngine`, the closure of the parser as it is** (`Model/IncrEarley.lean`: the worklist pass of `_consume`
    over one column — `Earley.step` of the line-by-line Earley model for `complete`, the live `complete` loop,
    `predict` with its pending completions of finished empty derivations (1d73281f), the covering cut (73e5ffe3),
    admission by core item + children, `place_repetition_shortcut`; the scanning branch replaced by the same-column
    scanner of the scanner layer; `C13_closure_configuration` pins policy / cut / completing predict to the source),
    **for the passes that come to their end within the fuel, in which the covering cut does not fire, and which
    leave no `*` / `+` right-recursion state in the closed column** (`CloseRes.ok`; `C13_earleyEngine_lawful`).
    The proof characterises such a pass: its closed column is exactly the least set `Der` closed under scanning,
    prediction and completion, which only mentions the SETS of ordinary states of the earlier columns and of the
    seed (`C13_earley_closure_spec`) — order of arrival, parked incomplete states and the deep-copied last column
    do not matter.  Hence `C13_earley_feed_append_partial`, `C13_earley_chunking_irrelevant_partial`,
    `C13_earley_canContinue_sound_partial`: the chunking theorems for the real closure, with the three conditions
    as decidable hypotheses on the runs (`feedOkB` / `chunkOkB` / `ccOkB`, evaluated by the kernel in
    `C13_earley_example_run`; the driver reports them per piece for every differential case).
  * The three conditions are needed for THIS proof, and the third one for the statement itself:
    `C13_earley_close_core_needs_ok` — with two candidates for `place_repetition_shortcut` in a column the closed
    column depends on the ORDER of the seed (the shortcut rewrites the first candidate in column order).  This is
    real: on `<start> ::= <b>*; <b> ::= "x" | "ab" "c" | "a" "bc"` the chart of /repo after "xabcx" differs from
    the chart after "xab","cx" (column 32: which of the two `<*c*> → <b> • <*c*>` states was rewritten) — the
    complete parses are the same (observed differentially; the state-equivalence `PState.Equiv` the theorems
    establish is false there, so a proof for `*` / `+` needs a coarser equivalence and stays open).  The covering
    cut (grammars with a same-span self-derivation) and fuel are limits of the proof only: whether the cut fires
    is decided per state by `_covering`, which `Column.add`'s duplicate test ignores.

Regular expressions are an oracle; what is assumed of it is the explicit hypothesis `CutStable R` (checked against
`re` / `regex` for every case by `harness/props/c13.py`).

Since a33087ac the theorems need no alignment hypothesis any more: a text, bytes or regex terminal that follows a
number of bits that is not a multiple of eight is simply never scanned, at once or in pieces
(`C13_example_misaligned_run`).

FULL STATEMENT (`C13_FullStatement` below): for every lawful engine, *every* oracle, every ready state and every
way of cutting the input, the complete parses after the last piece are those of the whole input.
It is FALSE for the model and for /repo (`C13_full_statement_false`, replayed on the implementation by the
harness: `<start> ::= <n> | <n> <n>; <n> ::= r"[0-9]+"` on "12" has one parse at once and two when fed as
"1","2"): `scan_regex` only tries the one greedy `re.match` length on what is available, so a fragment
boundary inside a digit run offers a split that the whole input never offers.  What is proved is the statement
for oracles that are `CutStable` (literals, bytes, bits, and regexes whose match cannot change once it was
achieved on non-empty input: `ab*c`, `[0-9]{3}`, `a?`…).

Naming: the theorems that carry hypotheses restricting the class are named `…_partial`.  What is missing:
(1) for the real closure, the passes outside `CloseRes.ok` — columns with a live `*` / `+` state (see above),
    passes in which the covering cut fires, fuel; for them the property rests on the differential observation;
(2) regexes whose match can end in more than one place — for those the statement is false, §5;
(3) `can_continue`: the full statement is `canContinue s = false ↔ no extension of the consumed input is in the
    language`; proved is the `→` half against the model's own recogniser (`C13_canContinue_sound_partial`); linking
    it to `Lang` needs recogniser completeness of the Earley model and stays open.
-/
import Proofs.Incremental
import Proofs.IncrementalEx
import Proofs.IncrEarleyLaws
import Generated.Incr
import Generated.Earley
namespace FV
namespace Incr

variable {ι : Type}

/-! ## 0. the source's current scanners (regenerated from /repo on every run) -/

/-- `scan_regex` applies `match_length <= prev_match_length` to incomplete states only, `_consume` scans text /
    bytes / regex terminals at byte boundaries only, `scan_bit` refuses units above 0xFF: the variant
    `Model/Incremental.lean` is written for.  Reverting 179bde08, a33087ac or 1ef12755 makes this false. -/
theorem C13_source_configuration :
    Generated.incrCfgRead = true ∧ Generated.incrCfg = ScanCfg.modelled := by decide

/-- the closure `Model/IncrEarley.lean` is written for — admission by core item + children with the covering cut
    (`Policy.acyclic`, 73e5ffe3), `predict` completes the finished empty derivations (1d73281f), `{n,}` without a
    cap — is what `harness/translate_earley.py` reads from `ParseState.__hash__/__eq__`, `Column.add`,
    `IterativeParser.complete` / `predict` / `visitRepetition` -/
theorem C13_closure_configuration : Earley.Gen.variant = some Earley.Variant.now := by decide

/-! ## 1. fragmentation is irrelevant -/

/-- Feeding `a` and then `b` reaches a state equivalent to feeding `a ++ b`: the same ordinary states in
    every column and the same scheduled states in the last column — in particular the same complete items
    and the same resumable (incomplete-terminal) items. -/
theorem C13_feed_append_partial (eng : Engine ι)
    (ok : List (Col ι) → (Entry ι → List (Entry ι)) → Col ι → Prop) (R : ROracle) (md : Mode)
    (hL : eng.LawfulOn ok) (hR : CutStable R) (s : PState ι) (hs : s.Ready eng) (a b : Units)
    (hoW : feedOK eng R md ok s (a ++ b)) (hoA : feedOK eng R md ok s a)
    (hoB : feedOK eng R md ok (feed eng R md s a) b) :
    (feed eng R md (feed eng R md s a) b).Equiv (feed eng R md s (a ++ b)) ∧
    SetEq (completeParses eng R md (feed eng R md (feed eng R md s a) b))
      (completeParses eng R md (feed eng R md s (a ++ b))) ∧
    SetEq (resumable (feed eng R md (feed eng R md s a) b)) (resumable (feed eng R md s (a ++ b))) := by
  have h := (feed_append eng R md hL hR s hs.wf hs.settled hs.bytes a b hoW hoA hoB).symm
  have hw1 := feed_wf eng R md hL hR (feed_wf eng R md hL hR hs.wf a) b
  have hw2 := feed_wf eng R md hL hR hs.wf (a ++ b)
  exact ⟨h, completeParses_congr eng R md hL hR h hw1 hw2 hoB.2 hoW.2, resumable_congr h⟩

/-- For every list of pieces the complete parses (and the resumable states) after the last piece are those
    of the concatenated input fed at once. -/
theorem C13_chunking_irrelevant_partial (eng : Engine ι)
    (ok : List (Col ι) → (Entry ι → List (Entry ι)) → Col ι → Prop) (R : ROracle) (md : Mode)
    (hL : eng.LawfulOn ok) (hR : CutStable R) (s : PState ι) (hs : s.Ready eng) (pieces : List Units) (w : Units)
    (hw : pieces.flatten = w) (ho : chunkOK eng R md ok s pieces.reverse) :
    SetEq (completeParses eng R md (pieces.foldl (feed eng R md) s))
      (completeParses eng R md (feed eng R md s w)) ∧
    SetEq (resumable (pieces.foldl (feed eng R md) s)) (resumable (feed eng R md s w)) := by
  subst hw
  by_cases hne : pieces = []
  · subst hne
    exact ⟨SetEq.refl _, SetEq.refl _⟩
  have h := chunking eng R md hL hR s hs.wf hs.settled hs.bytes pieces.reverse ho
  simp only [List.reverse_reverse] at h
  have hw1 := foldl_feed_wf eng R md hL hR pieces hs.wf
  have hw2 := feed_wf eng R md hL hR hs.wf pieces.flatten
  -- the scans of the exhausted last fragment of the two runs are among the passes `ho` names
  obtain ⟨p, rs, hpr⟩ : ∃ p rs, pieces.reverse = p :: rs := by
    cases hr : pieces.reverse with
    | nil => exact absurd (List.reverse_eq_nil_iff.mp hr) hne
    | cons p rs => exact ⟨p, rs, rfl⟩
  rw [hpr] at ho
  obtain ⟨_, _, ho3, _, ho5⟩ := ho
  have hp : pieces = rs.reverse ++ [p] := by
    have := congrArg List.reverse hpr
    simpa using this
  have hl1 : lastOK eng R md ok (feed eng R md s pieces.flatten) := by
    have := ho3.2
    rw [hp]
    simpa using this
  have hl2 : lastOK eng R md ok (pieces.foldl (feed eng R md) s) := by
    have := ho5.2
    rw [hp]
    simpa using this
  exact ⟨completeParses_congr eng R md hL hR h.symm hw1 hw2 hl2 hl1, resumable_congr h.symm⟩

/-- The hypotheses on the state are invariants: a fresh parse is ready, and feeding keeps it ready
    (so the two theorems above apply after any number of earlier fragments). -/
theorem C13_ready_invariant (eng : Engine ι)
    (ok : List (Col ι) → (Entry ι → List (Entry ι)) → Col ι → Prop) (R : ROracle) (md : Mode)
    (hL : eng.LawfulOn ok) (hR : CutStable R) :
    (∀ i, (start i).Ready eng) ∧
    (∀ s a, s.Ready eng → (feed eng R md s a).Ready eng) :=
  ⟨fun i => start_ready eng i, fun s a hs => feed_ready eng R md hL hR s hs a⟩

/-- for an engine that satisfies the laws for ALL its passes (`Engine.Lawful`, e.g. `linEngine`) the hypotheses on the
    passes are void -/
theorem C13_chunking_irrelevant_all_passes_partial (eng : Engine ι) (R : ROracle) (md : Mode) (hL : eng.Lawful)
    (hR : CutStable R) (s : PState ι) (hs : s.Ready eng) (pieces : List Units) (w : Units)
    (hw : pieces.flatten = w) :
    SetEq (completeParses eng R md (pieces.foldl (feed eng R md) s))
      (completeParses eng R md (feed eng R md s w)) ∧
    SetEq (resumable (pieces.foldl (feed eng R md) s)) (resumable (feed eng R md s w)) :=
  C13_chunking_irrelevant_partial eng _ R md hL hR s hs pieces w hw (chunkOK_true eng R md s _)

/-- the `incomplete_idx` bookkeeping: whatever one scan adds has `incomplete_idx` = length of the remembered
    prefix (0 and no prefix on ordinary states), and is put no further than the end of the fragment; a text,
    bytes or regex terminal only adds something in a column at a byte boundary -/
theorem C13_incomplete_idx_inv (eng : Engine ι) (R : ROracle) (md : Mode) (hR : CutStable R) (k : Nat)
    (e : Entry ι) (hwf : e.WF eng) (rest : Units) (w len : Nat) (hlen : rest.length + w = len) (j : Nat)
    (x : Entry ι) (hx : (j, x) ∈ scanEntry eng R md k e rest w len) :
    x.idx = x.pre.length ∧ (x.inc = false → x.idx = 0) ∧ (x.inc = true → j = k + 8 * rest.length) ∧
    (wantsBytes eng e → k % 8 = 0) := by
  obtain ⟨h1, h2, h3, _⟩ := scanEntry_out eng R md hR k e hwf rest w len hlen j x hx
  exact ⟨h1.idx_eq, fun h => (h1.1 h).1, fun h => (h2 h).1, fun h => (h3 h).2⟩

/-! ## 2. `can_continue` -/

/-- `can_continue() = False` is final: whatever non-empty input follows — at once or in pieces — no complete
    parse is ever reported again.  (Partial: soundness against the model's recogniser, not against `Lang`.) -/
theorem C13_canContinue_sound_partial (eng : Engine ι)
    (ok : List (Col ι) → (Entry ι → List (Entry ι)) → Col ι → Prop) (okc : List (Col ι) → Col ι → Prop)
    (R : ROracle) (md : Mode) (hC : eng.LawfulCCOn ok okc)
    (s : PState ι) (hset : s.Settled) (hcc : canContinue eng s = false) (v : Units) (hv : v ≠ [])
    (hoP : procOK eng R md ok v 0 s) (hoC : okc s.done (seedAt s.pend s.done.length)) :
    completeParses eng R md (feed eng R md s v) = [] :=
  canContinue_false_no_parse eng R md hC s hset hcc v hv hoP hoC

/-- … and for every way of cutting the continuation -/
theorem C13_canContinue_sound_pieces_partial (eng : Engine ι)
    (ok : List (Col ι) → (Entry ι → List (Entry ι)) → Col ι → Prop) (okc : List (Col ι) → Col ι → Prop)
    (R : ROracle) (md : Mode) (hL : eng.LawfulOn ok)
    (hC : eng.LawfulCCOn ok okc) (hR : CutStable R) (s : PState ι) (hs : s.Ready eng)
    (hcc : canContinue eng s = false) (pieces : List Units) (hne : pieces.flatten ≠ [])
    (ho : chunkOK eng R md ok s pieces.reverse)
    (hoP : procOK eng R md ok pieces.flatten 0 s) (hoC : okc s.done (seedAt s.pend s.done.length)) :
    ∀ t, t ∉ completeParses eng R md (pieces.foldl (feed eng R md) s) := by
  intro t ht
  have h := (C13_chunking_irrelevant_partial eng ok R md hL hR s hs pieces _ rfl ho).1 t
  rw [C13_canContinue_sound_partial eng ok okc R md hC s hs.settled hcc _ hne hoP hoC] at h
  exact absurd (h.mp ht) (by simp)

/-! ## 3. the hypotheses are satisfiable: a concrete lawful engine and concrete oracles -/

/-- the engine for finite unions of terminal sequences satisfies every assumed law -/
theorem C13_linEngine_lawful : linEngine.Lawful ∧ linEngine.LawfulCC :=
  ⟨linEngine_lawful, linEngine_lawfulCC⟩

/-- no regex terminals: the oracle is never consulted, every hypothesis on it holds -/
def noRegex : ROracle := ⟨fun _ _ => none, fun _ _ => none⟩

theorem C13_noRegex_cutStable : CutStable noRegex := by
  refine ⟨?_, ?_, ?_, ?_, ?_, ?_⟩ <;> intros <;> simp_all [noRegex]

def isDigit (c : Nat) : Bool := 48 ≤ c && c ≤ 57

/-- the oracle of `r"[0-9]"` (one digit): an example of a regex oracle that is cut-stable -/
def oneDigit : ROracle where
  full := fun _ z => match z with
    | c :: _ => if isDigit c then some 1 else none
    | [] => none
  part := fun _ z => match z with
    | [] => some 0
    | [c] => if isDigit c then some 1 else none
    | _ => none

theorem C13_oneDigit_cutStable : CutStable oneDigit := by
  refine ⟨?_, ?_, ?_, ?_, ?_, ?_⟩
  · intro r z q h
    match z, h with
    | [], h => simp [oneDigit] at h; subst h; rfl
    | [c], h =>
      simp only [oneDigit] at h
      split at h <;> simp_all
    | _ :: _ :: _, h => simp [oneDigit] at h
  · intro r z m h
    match z, h with
    | [], h => simp [oneDigit] at h
    | c :: _, h =>
      simp only [oneDigit] at h
      split at h <;> simp_all
  · intro r x y h
    match x, y, h with
    | [], _, _ => simp [oneDigit]
    | [c], [], h => simpa using h
    | [c], _ :: _, h => simp [oneDigit] at h
    | _ :: _ :: _, _, h => simp [oneDigit] at h
  · intro r x y m h hlt
    match x, h, hlt with
    | [], _, _ => simp [oneDigit]
    | c :: _, h, hlt =>
      simp only [oneDigit, List.cons_append] at h
      split at h <;> simp_all
      omega
  · intro r x y m h _
    match x, h with
    | [], h => simp [oneDigit] at h
    | c :: _, h => simpa [oneDigit] using h
  · intro r x y m h hle
    match x, h, hle with
    | [], h, hle =>
      simp only [List.length_nil, Nat.le_zero] at hle
      subst hle
      match y, h with
      | [], h => simp [oneDigit] at h
      | c :: _, h =>
        simp only [oneDigit, List.nil_append] at h
        split at h <;> simp_all
    | c :: _, h, _ => simpa [oneDigit] using h

/-- the oracle of `r"[0-9]+"`: greedy digit run; it is *not* cut-stable (`full_stable` fails on "1" ++ "2") -/
def digits : ROracle where
  full := fun _ z =>
    let n := (z.takeWhile isDigit).length
    if n = 0 then none else some n
  part := fun _ z => if z.all isDigit then some z.length else none

theorem C13_digits_not_cutStable : ¬ CutStable digits := by
  intro h
  have := h.full_stable 0 [49] [50] 1 (by decide) (by decide)
  revert this
  decide

/-- the oracle of `r"a?"`: a regex that matches the empty string — and is cut-stable (its match is decided by
    the first unit) -/
def optA : ROracle where
  full := fun _ z => match z with
    | c :: _ => if c = 97 then some 1 else some 0
    | [] => some 0
  part := fun _ z => match z with
    | [] => some 0
    | [c] => if c = 97 then some 1 else none
    | _ => none

theorem C13_optA_cutStable : CutStable optA := by
  refine ⟨?_, ?_, ?_, ?_, ?_, ?_⟩
  · intro r z q h
    match z, h with
    | [], h => simp [optA] at h; subst h; rfl
    | [c], h =>
      simp only [optA] at h
      split at h <;> simp_all
    | _ :: _ :: _, h => simp [optA] at h
  · intro r z m h
    match z, h with
    | [], h => simp [optA] at h; subst h; simp
    | c :: _, h =>
      simp only [optA] at h
      split at h <;> simp_all <;> omega
  · intro r x y h
    match x, y, h with
    | [], _, _ => simp [optA]
    | [c], [], h => simpa using h
    | [c], _ :: _, h => simp [optA] at h
    | _ :: _ :: _, _, h => simp [optA] at h
  · intro r x y m h hlt
    match x, h, hlt with
    | [], _, _ => simp [optA]
    | c :: _, h, hlt =>
      simp only [optA, List.cons_append] at h
      split at h <;> simp_all <;> omega
  · intro r x y m h hne
    match x, h, hne with
    | [], _, hne => exact absurd rfl hne
    | c :: _, h, _ => simpa [optA] using h
  · intro r x y m h hle
    match x, h, hle with
    | [], h, hle =>
      simp only [List.length_nil, Nat.le_zero] at hle
      subst hle
      simp [optA]
    | c :: _, h, _ => simpa [optA] using h

/-! ## 4. non-vacuity: concrete runs that meet every hypothesis, with cuts inside terminals -/

/-- `<start> ::= "abc" 0 1 0 0 0 0 0 1 "é"` (as units) -/
def exAlts : List (List TTerm) :=
  [[.lit [97, 98, 99]] ++ [false, true, false, false, false, false, false, true].map TTerm.bit ++ [.lit [233]]]

def exInput : Units := [97, 98, 99, 65, 233]

/-- the run on `exInput` is ready, every cut of it gives exactly the parse of the whole input, there is one such
    parse, and cutting inside "abc" leaves a resumable state with prefix "ab" -/
theorem C13_example_run :
    (linStart exAlts).Ready linEngine ∧
    (completeParses linEngine noRegex .text (feed linEngine noRegex .text (linStart exAlts) exInput)).length = 1 ∧
    (completeParses linEngine noRegex .text
      ([[97, 98], [99, 65], [233]].foldl (feed linEngine noRegex .text) (linStart exAlts))).length = 1 ∧
    (resumable (feed linEngine noRegex .text (linStart exAlts) [97, 98])).map (fun e => (e.idx, e.pre))
      = [(2, [97, 98])] ∧
    canContinue linEngine (feed linEngine noRegex .text (linStart exAlts) [97, 98]) = true ∧
    canContinue linEngine (feed linEngine noRegex .text (linStart exAlts) exInput) = false := by
  refine ⟨linStart_ready _, by decide +kernel, by decide +kernel, by decide +kernel, by decide +kernel,
    by decide +kernel⟩

/-- the oracle of `r"[0-9]{2}"` is cut-stable: a regex with a multi-unit match inside which a cut can fall -/
theorem C13_twoDigits_cutStable : CutStable twoDigits := twoDigits_cutStable

/-- `<start> ::= r"[0-9]{2}" "a"` -/
def reAlts : List (List TTerm) := [[.regex 0, .lit [97]]]

/-- a run with a cut INSIDE a regex match ("1" | "2a") that meets every hypothesis of the `_partial` theorems:
    the parse is the one of the whole input, and after "1" the regex waits as a resumable state with prefix "1" -/
theorem C13_example_regex_run :
    (linStart reAlts).Ready linEngine ∧
    (completeParses linEngine twoDigits .text
      (feed linEngine twoDigits .text (linStart reAlts) [49, 50, 97])).map Tree.leaves
      = [[Leaf.text [49, 50], Leaf.text [97]]] ∧
    (completeParses linEngine twoDigits .text
      ([[49], [50, 97]].foldl (feed linEngine twoDigits .text) (linStart reAlts))).map Tree.leaves
      = [[Leaf.text [49, 50], Leaf.text [97]]] ∧
    (resumable (feed linEngine twoDigits .text (linStart reAlts) [49])).map (fun e => (e.idx, e.pre))
      = [(1, [49])] ∧
    canContinue linEngine (feed linEngine twoDigits .text (linStart reAlts) [49]) = true := by
  refine ⟨linStart_ready _, by decide +kernel, by decide +kernel, by decide +kernel, by decide +kernel⟩

/-- `<start> ::= r"a?" "b" | "b" r"a?"`: a regex that matches the empty string before another symbol and at the
    end of the input -/
def epsAlts : List (List TTerm) := [[.regex 0, .lit [98]], [.lit [98], .regex 0]]

/-- **an empty regex match is a match** (179bde08), in the column that is being processed: "b" is parsed both
    ways (ε·b and b·ε — the second one only through the scan of the exhausted fragment, `lastCol`), "ab" and "ba"
    one way each, at once and unit by unit; after "b" the regex of `"b" r"a?"` still waits (ordinary state), so
    the parse can continue -/
theorem C13_example_empty_regex_run :
    (linStart epsAlts).Ready linEngine ∧
    (completeParses linEngine optA .text (feed linEngine optA .text (linStart epsAlts) [98])).map Tree.leaves
      = [[Leaf.text [], Leaf.text [98]], [Leaf.text [98], Leaf.text []]] ∧
    (completeParses linEngine optA .text (feed linEngine optA .text (linStart epsAlts) [97, 98])).map Tree.leaves
      = [[Leaf.text [97], Leaf.text [98]]] ∧
    (completeParses linEngine optA .text
      ([[97], [98]].foldl (feed linEngine optA .text) (linStart epsAlts))).map Tree.leaves
      = [[Leaf.text [97], Leaf.text [98]]] ∧
    (completeParses linEngine optA .text (feed linEngine optA .text (linStart epsAlts) [98, 97])).map Tree.leaves
      = [[Leaf.text [98], Leaf.text [97]]] ∧
    (completeParses linEngine optA .text
      ([[98], [97]].foldl (feed linEngine optA .text) (linStart epsAlts))).map Tree.leaves
      = [[Leaf.text [98], Leaf.text [97]]] ∧
    canContinue linEngine (feed linEngine optA .text (linStart epsAlts) [98]) = true ∧
    canContinue linEngine (feed linEngine optA .text (linStart epsAlts) [97, 98]) = false := by
  refine ⟨linStart_ready _, by decide +kernel, by decide +kernel, by decide +kernel, by decide +kernel,
    by decide +kernel, by decide +kernel, by decide +kernel⟩

/-- `<start> ::= 0 1 1 0 "a" 1 1 1 1 | 0 1 1 0 0 0 0 1 "a"`: a text terminal after four bits, and after eight -/
def misAlts : List (List TTerm) :=
  [[false, true, true, false].map TTerm.bit ++ [.lit [97]] ++ [true, true, true, true].map TTerm.bit,
   [false, true, true, false, false, false, false, true].map TTerm.bit ++ [.lit [97]]]

/-- **text terminals are only scanned at byte boundaries** (a33087ac): "a\x1f" is not parsed as 0110·"a"·1111
    (the state that waits for "a" in column 4 is never scanned — at once or in pieces; after the first unit the
    parse can continue only through the aligned alternative), "aa" is parsed as eight bits and "a" -/
theorem C13_example_misaligned_run :
    (linStart misAlts).Ready linEngine ∧
    completeParses linEngine noRegex .bytes (feed linEngine noRegex .bytes (linStart misAlts) [97, 31]) = [] ∧
    completeParses linEngine noRegex .bytes
      ([[97], [31]].foldl (feed linEngine noRegex .bytes) (linStart misAlts)) = [] ∧
    (completeParses linEngine noRegex .bytes (feed linEngine noRegex .bytes (linStart misAlts) [97, 97])).length = 1 ∧
    (completeParses linEngine noRegex .bytes
      ([[97], [97]].foldl (feed linEngine noRegex .bytes) (linStart misAlts))).length = 1 ∧
    canContinue linEngine (feed linEngine noRegex .bytes (linStart misAlts) [97]) = true ∧
    canContinue linEngine (feed linEngine noRegex .bytes (linStart misAlts) [97, 31]) = false := by
  refine ⟨linStart_ready _, by decide +kernel, by decide +kernel, by decide +kernel, by decide +kernel,
    by decide +kernel, by decide +kernel⟩

/-- **a character above U+00FF has no bits** (1ef12755): the bit pattern of "a" does not accept "š" (U+0161,
    low byte 0x61), it accepts "a" -/
theorem C13_example_wide_char_run :
    completeParses linEngine noRegex .text (feed linEngine noRegex .text
      (linStart [[false, true, true, false, false, false, false, true].map TTerm.bit]) [353]) = [] ∧
    (completeParses linEngine noRegex .text (feed linEngine noRegex .text
      (linStart [[false, true, true, false, false, false, false, true].map TTerm.bit]) [97])).length = 1 := by
  constructor <;> decide +kernel

/-! ## 5. the full statement is false: a regex whose match can grow -/

/-- the statement of C13 for *every* oracle -/
def C13_FullStatement : Prop :=
  ∀ (eng : Engine LinItem) (R : ROracle) (md : Mode), eng.Lawful → ∀ (s : PState LinItem), s.Ready eng →
    ∀ (pieces : List Units),
      SetEq (completeParses eng R md (pieces.foldl (feed eng R md) s))
        (completeParses eng R md (feed eng R md s pieces.flatten))

/-- `<start> ::= <n> | <n> <n>; <n> ::= r"[0-9]+"` -/
def splitAlts : List (List TTerm) := [[.regex 0], [.regex 0, .regex 0]]

/-- **the full statement is false**: with the oracle of `r"[0-9]+"` the engine for `<n> | <n> <n>` is lawful,
    the fresh parse is ready — and feeding "1","2" yields the parse 1·2 that feeding "12" does not. -/
theorem C13_full_statement_false : ¬ C13_FullStatement := by
  intro h
  have hs := h linEngine digits .text C13_linEngine_lawful.1 (linStart splitAlts) (linStart_ready _)
    [[49], [50]]
  have hin : [Leaf.text [49], Leaf.text [50]] ∈
      (completeParses linEngine digits .text
        ([[49], [50]].foldl (feed linEngine digits .text) (linStart splitAlts))).map
        Tree.leaves := by decide +kernel
  have hout : [Leaf.text [49], Leaf.text [50]] ∉
      (completeParses linEngine digits .text
        (feed linEngine digits .text (linStart splitAlts) [[49], [50]].flatten)).map
        Tree.leaves := by decide +kernel
  rw [List.mem_map] at hin
  obtain ⟨t, ht, hl⟩ := hin
  exact hout (List.mem_map.mpr ⟨t, (hs t).mp ht, hl⟩)

/-- "12" at once: one parse; "1" then "2": two parses (the boundary offers the split 1|2) -/
theorem C13_regex_split_counterexample :
    (completeParses linEngine digits .text (feed linEngine digits .text (linStart splitAlts) [49, 50])).length = 1 ∧
    (completeParses linEngine digits .text
      ([[49], [50]].foldl (feed linEngine digits .text) (linStart splitAlts))).length = 2 := by
  constructor <;> decide +kernel


/-! ## 6. the closure of the parser as it is -/

section real
open IncrE Earley

/-- **the real predict / complete closure satisfies every law the chunking theorems use** — for the column passes
    that come to their end within the fuel, in which the covering cut does not fire, and which leave no `*` / `+`
    right-recursion state in the closed column (`earleyOk` = `CloseRes.ok`; for `can_continue`'s completion-only
    pass: end + no cut, `earleyOkC`); for every prediction order `pred` (the iteration order of a Python `set`) -/
theorem C13_earleyEngine_lawful (pred : Nat → NT → List (List ESym)) (fuel : Nat) :
    (earleyEngine pred fuel).LawfulOn (earleyOk pred fuel) ∧
    (earleyEngine pred fuel).LawfulCCOn (earleyOk pred fuel) (earleyOkC fuel) :=
  ⟨earleyEngine_lawful pred fuel, earleyEngine_lawfulCC pred fuel⟩

/-- what such a pass computes: exactly the least set closed under scanning, prediction and completion (`Der`,
    `Proofs/IncrEarleySpec.lean`) — a set that is defined from the SETS of ordinary states of the earlier columns
    and of the seed; the order in which the states arrived, the `complete` frames, the pending completions of
    `predict` and the covers leave no trace -/
theorem C13_earley_closure_spec (pred : Nat → NT → List (List ESym)) (fuel : Nat) (d : List (Col KI))
    (f : Entry KI → List (Entry KI)) (seed : Col KI) (hok : (closeRun pred true fuel d f seed).ok = true)
    (e : Entry KI) : e ∈ (earleyEngine pred fuel).close d f seed ↔ Der pred d f seed e :=
  closure_spec pred d f seed hok e

/-- a fresh parse is ready, and feeding keeps it ready (no condition on the passes) -/
theorem C13_earley_ready_invariant (pred : Nat → NT → List (List ESym)) (fuel : Nat) (R : ROracle) (md : Mode)
    (hR : CutStable R) :
    (∀ st, (startState st).Ready (earleyEngine pred fuel)) ∧
    (∀ s a, s.Ready (earleyEngine pred fuel) → (feed (earleyEngine pred fuel) R md s a).Ready (earleyEngine pred fuel)) :=
  ⟨fun st => startState_ready pred fuel st,
   fun s a hs => feed_ready (earleyEngine pred fuel) R md (earleyEngine_lawful pred fuel) hR s hs a⟩

/-- **`consume(a); consume(b)` ~ `consume(a ++ b)` for the real closure**: same ordinary states in every column,
    same scheduled states, same complete parses, same resumable states — when the passes of the three runs are
    passes the laws are proved for (`feedOkB`, decidable: evaluated per run) -/
theorem C13_earley_feed_append_partial (pred : Nat → NT → List (List ESym)) (fuel : Nat) (R : ROracle) (md : Mode)
    (hR : CutStable R) (s : PState KI) (hs : s.Ready (earleyEngine pred fuel)) (a b : Units)
    (hW : feedOkB pred fuel R md s (a ++ b) = true) (hA : feedOkB pred fuel R md s a = true)
    (hB : feedOkB pred fuel R md (feed (earleyEngine pred fuel) R md s a) b = true) :
    (feed (earleyEngine pred fuel) R md (feed (earleyEngine pred fuel) R md s a) b).Equiv
      (feed (earleyEngine pred fuel) R md s (a ++ b)) ∧
    SetEq (completeParses (earleyEngine pred fuel) R md (feed (earleyEngine pred fuel) R md
        (feed (earleyEngine pred fuel) R md s a) b))
      (completeParses (earleyEngine pred fuel) R md (feed (earleyEngine pred fuel) R md s (a ++ b))) ∧
    SetEq (resumable (feed (earleyEngine pred fuel) R md (feed (earleyEngine pred fuel) R md s a) b))
      (resumable (feed (earleyEngine pred fuel) R md s (a ++ b))) :=
  C13_feed_append_partial (earleyEngine pred fuel) (earleyOk pred fuel) R md (earleyEngine_lawful pred fuel) hR s hs a b
    ((feedOkB_iff pred fuel R md _ _).mp hW) ((feedOkB_iff pred fuel R md _ _).mp hA)
    ((feedOkB_iff pred fuel R md _ _).mp hB)

/-- **every way of cutting the input gives the complete parses (and resumable states) of the whole input, for the
    real closure** — when the passes of the runs that are compared (`chunkOkB`: the pieces one by one, every
    prefix at once, every next piece after a prefix fed at once) are passes the laws are proved for -/
theorem C13_earley_chunking_irrelevant_partial (pred : Nat → NT → List (List ESym)) (fuel : Nat) (R : ROracle)
    (md : Mode) (hR : CutStable R) (s : PState KI) (hs : s.Ready (earleyEngine pred fuel)) (pieces : List Units)
    (w : Units) (hw : pieces.flatten = w) (ho : chunkOkB pred fuel R md s pieces.reverse = true) :
    SetEq (completeParses (earleyEngine pred fuel) R md (pieces.foldl (feed (earleyEngine pred fuel) R md) s))
      (completeParses (earleyEngine pred fuel) R md (feed (earleyEngine pred fuel) R md s w)) ∧
    SetEq (resumable (pieces.foldl (feed (earleyEngine pred fuel) R md) s))
      (resumable (feed (earleyEngine pred fuel) R md s w)) :=
  C13_chunking_irrelevant_partial (earleyEngine pred fuel) (earleyOk pred fuel) R md (earleyEngine_lawful pred fuel)
    hR s hs pieces w hw ((chunkOkB_iff pred fuel R md s _).mp ho)

/-- **`can_continue() = False` is final for the real closure** (against the model's recogniser): no non-empty
    continuation ever yields a complete parse — when the completion-only pass of `can_continue` and the first column
    pass of the continuation are passes the laws are proved for (`ccOkB`) -/
theorem C13_earley_canContinue_sound_partial (pred : Nat → NT → List (List ESym)) (fuel : Nat) (R : ROracle)
    (md : Mode) (s : PState KI) (hset : s.Settled) (hcc : canContinue (earleyEngine pred fuel) s = false)
    (v : Units) (hv : v ≠ []) (ho : ccOkB pred fuel R md s v = true) :
    completeParses (earleyEngine pred fuel) R md (feed (earleyEngine pred fuel) R md s v) = [] :=
  C13_canContinue_sound_partial (earleyEngine pred fuel) (earleyOk pred fuel) (earleyOkC fuel) R md
    (earleyEngine_lawfulCC pred fuel) s hset hcc v hv ((ccOkB_iff pred fuel R md s v).mp ho).1
    ((ccOkB_iff pred fuel R md s v).mp ho).2

/-! ### non-vacuity: a recursive, ambiguous grammar, cut inside a literal -/

/-- `<start> ::= <a> <start> | <a>;  <a> ::= "ab" | "a" | "b"` -/
def exG : Grammar := ⟨[
  ("<start>", .alt "A1" [.cat "C1" [.nt "<a>" none none, .nt "<start>" none none], .nt "<a>" none none]),
  ("<a>", .alt "A2" [.term (.lit (.text [97, 98])), .term (.lit (.text [97])), .term (.lit (.text [98]))])]⟩

/-- prediction in the order of the compiled rule table, 400 steps per column pass -/
def exEng : Engine KI := earleyEngine (predDefault exG Variant.now.cap) 400

/-- "ab" at once and as "a","b" on the real closure: every hypothesis of the theorems of this section holds (all
    passes of all runs that are compared end, without cut, without a `*` / `+` state), both runs yield the two
    parses `<a>("ab")` and `<a>("a") <a>("b")`, after "a" the literal "ab" waits as a resumable state with prefix
    "a"; after "x" the parser cannot continue (and the passes the `can_continue` theorem looks at are covered) -/
theorem C13_earley_example_run :
    (startState "<start>").Ready exEng ∧
    chunkOkB (predDefault exG Variant.now.cap) 400 noRegex .text (startState "<start>") [[98], [97]] = true ∧
    feedOkB (predDefault exG Variant.now.cap) 400 noRegex .text (startState "<start>") [97, 98] = true ∧
    (completeParses exEng noRegex .text (feed exEng noRegex .text (startState "<start>") [97, 98])).map Tree.leaves
      = [[Leaf.text [97, 98]], [Leaf.text [97], Leaf.text [98]]] ∧
    (completeParses exEng noRegex .text
      ([[97], [98]].foldl (feed exEng noRegex .text) (startState "<start>"))).map Tree.leaves
      = [[Leaf.text [97, 98]], [Leaf.text [97], Leaf.text [98]]] ∧
    (resumable (feed exEng noRegex .text (startState "<start>") [97])).map (fun e => (e.idx, e.pre)) = [(1, [97])] ∧
    canContinue exEng (feed exEng noRegex .text (startState "<start>") [97]) = true ∧
    canContinue exEng (feed exEng noRegex .text (startState "<start>") [120]) = false ∧
    ccOkB (predDefault exG Variant.now.cap) 400 noRegex .text
      (feed exEng noRegex .text (startState "<start>") [120]) [97] = true := by
  refine ⟨startState_ready _ _ _, by decide +kernel, by decide +kernel, by decide +kernel, by decide +kernel,
    by decide +kernel, by decide +kernel, by decide +kernel, by decide +kernel⟩

/-- `<start> ::= <n> "a" <start> | <n> "a";  <n> ::= r"[0-9]{2}"` -/
def exReG : Grammar := ⟨[
  ("<start>", .alt "A1" [.cat "C1" [.nt "<n>" none none, .term (.lit (.text [97])), .nt "<start>" none none],
                         .cat "C2" [.nt "<n>" none none, .term (.lit (.text [97]))]]),
  ("<n>", .term (.regex 0))]⟩

def exReEng : Engine KI := earleyEngine (predDefault exReG Variant.now.cap) 400

/-- a cut INSIDE a regex match on the real closure ("1" | "2a", cut-stable oracle of `r"[0-9]{2}"`): the hypotheses
    hold, the parse is the one of the whole input, after "1" the regex waits as a resumable state with prefix "1" -/
theorem C13_earley_example_regex_run :
    chunkOkB (predDefault exReG Variant.now.cap) 400 twoDigits .text (startState "<start>") [[50, 97], [49]] = true ∧
    (completeParses exReEng twoDigits .text (feed exReEng twoDigits .text (startState "<start>") [49, 50, 97])).map
      Tree.leaves = [[Leaf.text [49, 50], Leaf.text [97]]] ∧
    (completeParses exReEng twoDigits .text
      ([[49], [50, 97]].foldl (feed exReEng twoDigits .text) (startState "<start>"))).map Tree.leaves
      = [[Leaf.text [49, 50], Leaf.text [97]]] ∧
    (resumable (feed exReEng twoDigits .text (startState "<start>") [49])).map (fun e => (e.idx, e.pre))
      = [(1, [49])] ∧
    canContinue exReEng (feed exReEng twoDigits .text (startState "<start>") [49, 50, 97]) = true := by
  refine ⟨by decide +kernel, by decide +kernel, by decide +kernel, by decide +kernel, by decide +kernel⟩

/-! ### why the passes are restricted: `place_repetition_shortcut` -/

/-- `<start> ::= <b>*;  <b> ::= "y" | "z"` -/
def stG : Grammar := ⟨[("<start>", .rep "S" .star (.nt "<b>" none none) 0 none),
  ("<b>", .alt "A" [.term (.lit (.text [121])), .term (.lit (.text [122]))])]⟩

def stNode : Node := .rep "S" .star (.nt "<b>" none none) 0 none
/-- `<*c*>`, the right-recursive nonterminal of the `*` -/
def stC : NT := .impl stNode 0
def stB (u : Nat) : PT := .node (.user "<b>") none none [.leaf (.text [u])]
/-- `<*c*> → <b> • <*c*>` starting in column `o` -/
def stItem (o : Nat) (kids : List PT) : Entry KI :=
  Entry.fresh ⟨⟨stC, [.n (.user "<b>") none none, .plain stC], 1, o⟩, kids⟩
/-- column 0: `<__star> → • <*c*>`; column 1: `<*c*> → <b> • <*c*>` after a first `<b>` -/
def stCols : List (Col KI) :=
  [[Entry.fresh ⟨⟨.ctl stNode, [.plain stC], 0, 0⟩, []⟩], [stItem 0 [stB 120]]]

def stEng : Engine KI := earleyEngine (predDefault stG Variant.now.cap) 200

/-- **the real closure does NOT satisfy the law `close_core` for all passes**: with two candidates for
    `place_repetition_shortcut` in a column (two `<*c*> → <b> • <*c*>` states that differ in their children) the
    closed column depends on the ORDER of the seed — the shortcut rewrites the candidate that comes first
    (here: into `<*c*> → <b> • <*c*>` from column 0 with the children of both iterations).  On /repo the two
    orders arise from one input cut in two ways (header; `harness/props/c13.py` replays it). -/
theorem C13_earley_close_core_needs_ok : ¬ stEng.Lawful := by
  intro hL
  have hs : CoreEq [stItem 1 [stB 121], stItem 1 [stB 122]] [stItem 1 [stB 122], stItem 1 [stB 121]] := by
    intro e
    simp only [mem_core, List.mem_cons, List.not_mem_nil, or_false]
    constructor
    · rintro ⟨h | h, hi⟩
      · exact ⟨Or.inr h, hi⟩
      · exact ⟨Or.inl h, hi⟩
    · rintro ⟨h | h, hi⟩
      · exact ⟨Or.inr h, hi⟩
      · exact ⟨Or.inl h, hi⟩
  have h := hL.close_core stCols stCols (fun _ => []) _ _ trivial trivial (forall2_coreEq_refl _) hs
    (fun _ _ _ x hx => by cases hx) (fun _ _ _ x hx => by cases hx)
  have h1 : (stEng.close stCols (fun _ => []) [stItem 1 [stB 121], stItem 1 [stB 122]]).any
      (entryBeq (stItem 0 [stB 120, stB 121])) = true := by decide +kernel
  have h2 : (stEng.close stCols (fun _ => []) [stItem 1 [stB 122], stItem 1 [stB 121]]).any
      (entryBeq (stItem 0 [stB 120, stB 121])) = false := by decide +kernel
  rw [List.any_eq_true] at h1
  obtain ⟨x, hx, hb⟩ := h1
  rw [entryBeq_iff] at hb
  subst hb
  have hx' := (h _).mp (mem_core.mpr ⟨hx, rfl⟩)
  rw [List.any_eq_false] at h2
  exact h2 _ (mem_core.mp hx').1 ((entryBeq_iff _ _).mpr rfl)

end real

end Incr
end FV
