/-
C13 — incremental parsing is independent of how the input is fragmented.

Property theorems only (helper lemmas: `Proofs/Incremental.lean`; model: `Model/Incremental.lean`).
The model is the *scanner layer* of `IterativeParser.consume` — literal / regex / bit scanning with the two
code paths "whole terminal" and "incomplete state, re-scanned with the next fragment", the 8-columns-per-unit
offsets and the unprocessed last column — over an abstract predict/complete closure whose assumed laws are
`Engine.Lawful` / `Engine.LawfulCC`.  Regular expressions are an oracle; what is assumed of it is the explicit
hypothesis `CutStable R` (checked against `re` / `regex` for every case by `harness/props/c13.py`).

FULL STATEMENT (`C13_FullStatement` below): for every lawful engine, *every* oracle, every ready state and every
way of cutting the input, the complete parses after the last piece are those of the whole input.
It is FALSE for the model and for /repo (`C13_full_statement_false`, replayed on the implementation by the
harness: `<start> ::= <n> | <n> <n>; <n> ::= r"[0-9]+"` on "12" has one parse at once and two when fed as
"1","2"): `scan_regex` only tries the one greedy `re.match` length on what is available, so a fragment
boundary inside a digit run offers a split that the whole input never offers.  What is proved is the statement
for oracles that are `CutStable` (literals, bytes, bits, and regexes whose match cannot grow: `ab*c`, `[0-9]{3}`…).

Naming: the theorems that carry the hypotheses `CutStable R` / `eng.Lawful` prove the property for a sub-class
only and are therefore named `…_partial` (missing: regexes whose match can end in more than one place — for those
the statement is false, §5 — and the laws of the real predict/complete closure, which are assumed).

`can_continue`: the full statement is `canContinue s = false ↔ no extension of the consumed input is in the
language`; proved is the `→` half against the model's own recogniser (`C13_canContinue_sound_partial`); linking
it to `Lang` needs recogniser completeness of an Earley model and stays open.
-/
import Proofs.Incremental
import Proofs.IncrementalEx
namespace FV
namespace Incr

variable {ι : Type}

/-! ## 1. fragmentation is irrelevant -/

/-- Feeding `a` and then `b` reaches a state equivalent to feeding `a ++ b`: the same ordinary states in
    every column and the same scheduled states in the last column — in particular the same complete items
    and the same resumable (incomplete-terminal) items. -/
theorem C13_feed_append_partial (eng : Engine ι) (R : ROracle) (md : Mode) (hL : eng.Lawful) (hR : CutStable R)
    (s : PState ι) (hs : s.Ready eng) (a b : Units) (hal : (feed eng R md s (a ++ b)).Aligned eng) :
    (feed eng R md (feed eng R md s a) b).Equiv (feed eng R md s (a ++ b)) ∧
    SetEq (completeParses eng (feed eng R md (feed eng R md s a) b))
      (completeParses eng (feed eng R md s (a ++ b))) ∧
    SetEq (resumable (feed eng R md (feed eng R md s a) b)) (resumable (feed eng R md s (a ++ b))) := by
  have h := (feed_append eng R md hL hR s hs.wf hs.settled hs.bytes a b hal).symm
  exact ⟨h, completeParses_congr eng hL h, resumable_congr h⟩

/-- For every list of pieces the complete parses (and the resumable states) after the last piece are those
    of the concatenated input fed at once. -/
theorem C13_chunking_irrelevant_partial (eng : Engine ι) (R : ROracle) (md : Mode) (hL : eng.Lawful)
    (hR : CutStable R) (s : PState ι) (hs : s.Ready eng) (pieces : List Units) (w : Units)
    (hw : pieces.flatten = w) (hal : (feed eng R md s w).Aligned eng) :
    SetEq (completeParses eng (pieces.foldl (feed eng R md) s)) (completeParses eng (feed eng R md s w)) ∧
    SetEq (resumable (pieces.foldl (feed eng R md) s)) (resumable (feed eng R md s w)) := by
  subst hw
  have h := chunking eng R md hL hR s hs.wf hs.settled hs.bytes pieces.reverse
    (by simpa using hal)
  simp only [List.reverse_reverse] at h
  exact ⟨completeParses_congr eng hL h.symm, resumable_congr h.symm⟩

/-- The hypotheses on the state are invariants: a fresh parse is ready, and feeding keeps it ready
    (so the two theorems above apply after any number of earlier fragments). -/
theorem C13_ready_invariant (eng : Engine ι) (R : ROracle) (md : Mode) (hL : eng.Lawful) (hR : CutStable R) :
    (∀ i, (start i).Ready eng) ∧
    (∀ s a, s.Ready eng → (feed eng R md s a).Aligned eng → (feed eng R md s a).Ready eng) :=
  ⟨fun i => start_ready eng i, fun s a hs hal => feed_ready eng R md hL hR s hs a hal⟩

/-- the `incomplete_idx` bookkeeping: whatever one scan adds has `incomplete_idx` = length of the remembered
    prefix (0 and no prefix on ordinary states), and is put no further than the end of the fragment -/
theorem C13_incomplete_idx_inv (eng : Engine ι) (R : ROracle) (md : Mode) (hR : CutStable R) (k : Nat)
    (e : Entry ι) (hwf : e.WF eng) (rest : Units) (w len : Nat) (hlen : rest.length + w = len) (j : Nat)
    (x : Entry ι) (hx : (j, x) ∈ scanEntry eng R md k e rest w len) :
    x.idx = x.pre.length ∧ (x.inc = false → x.idx = 0) ∧ (x.inc = true → j = k + 8 * rest.length) := by
  obtain ⟨h1, h2, _, _⟩ := scanEntry_out eng R md hR k e hwf rest w len hlen j x hx
  exact ⟨h1.idx_eq, fun h => (h1.1 h).1, fun h => (h2 h).1⟩

/-! ## 2. `can_continue` -/

/-- `can_continue() = False` is final: whatever non-empty input follows — at once or in pieces — no complete
    parse is ever reported again.  (Partial: soundness against the model's recogniser, not against `Lang`.) -/
theorem C13_canContinue_sound_partial (eng : Engine ι) (R : ROracle) (md : Mode) (hC : eng.LawfulCC)
    (s : PState ι) (hset : s.Settled) (hcc : canContinue eng s = false) (v : Units) (hv : v ≠ []) :
    completeParses eng (feed eng R md s v) = [] :=
  canContinue_false_no_parse eng R md hC s hset hcc v hv

/-- … and for every way of cutting the continuation -/
theorem C13_canContinue_sound_pieces_partial (eng : Engine ι) (R : ROracle) (md : Mode) (hL : eng.Lawful)
    (hC : eng.LawfulCC) (hR : CutStable R) (s : PState ι) (hs : s.Ready eng)
    (hcc : canContinue eng s = false) (pieces : List Units) (hne : pieces.flatten ≠ [])
    (hal : (feed eng R md s pieces.flatten).Aligned eng) :
    ∀ t, t ∉ completeParses eng (pieces.foldl (feed eng R md) s) := by
  intro t ht
  have h := (C13_chunking_irrelevant_partial eng R md hL hR s hs pieces _ rfl hal).1 t
  rw [C13_canContinue_sound_partial eng R md hC s hs.settled hcc _ hne] at h
  exact absurd (h.mp ht) (by simp)

/-! ## 3. the hypotheses are satisfiable: a concrete lawful engine and concrete oracles -/

/-- the engine for finite unions of terminal sequences satisfies every assumed law -/
theorem C13_linEngine_lawful : linEngine.Lawful ∧ linEngine.LawfulCC := by
  constructor
  · refine ⟨fun _ _ _ _ => Iff.rfl, fun _ _ _ _ _ h => h, fun _ _ h => h, ?_⟩
    intro c c' h t
    simp only [linEngine, List.mem_map, List.mem_filter, Bool.and_eq_true, Bool.not_eq_true']
    constructor
    · rintro ⟨e, ⟨he, hi, hr⟩, rfl⟩
      have := (h e).mp (mem_core.mpr ⟨he, hi⟩)
      exact ⟨e, ⟨(mem_core.mp this).1, hi, hr⟩, rfl⟩
    · rintro ⟨e, ⟨he, hi, hr⟩, rfl⟩
      have := (h e).mpr (mem_core.mpr ⟨he, hi⟩)
      exact ⟨e, ⟨(mem_core.mp this).1, hi, hr⟩, rfl⟩
  · refine ⟨?_, fun _ => rfl, rfl⟩
    intro d s h e he
    have := (h e he).2
    simp only [linEngine, List.isEmpty_iff] at this ⊢
    rw [this]
    rfl

/-- no regex terminals: the oracle is never consulted, every hypothesis on it holds -/
def noRegex : ROracle := ⟨fun _ _ => none, fun _ _ => none⟩

theorem C13_noRegex_cutStable : CutStable noRegex := by
  refine ⟨?_, ?_, ?_, ?_, ?_, ?_⟩ <;> intros <;> simp_all [noRegex]

def isDigit (c : Nat) : Bool := 48 ≤ c && c ≤ 57

/-- the oracle of `r"[0-9]"` (one digit): an example of a regex oracle that is cut-stable -/
def oneDigit : ROracle where
  full := fun _ z => match z with
    | c :: _ => if isDigit c then some 1 else none
    | [] => none
  part := fun _ z => match z with
    | [] => some 0
    | [c] => if isDigit c then some 1 else none
    | _ => none

theorem C13_oneDigit_cutStable : CutStable oneDigit := by
  refine ⟨?_, ?_, ?_, ?_, ?_, ?_⟩
  · intro r z q h
    match z, h with
    | [], h => simp [oneDigit] at h; subst h; rfl
    | [c], h =>
      simp only [oneDigit] at h
      split at h <;> simp_all
    | _ :: _ :: _, h => simp [oneDigit] at h
  · intro r z m h
    match z, h with
    | [], h => simp [oneDigit] at h
    | c :: _, h =>
      simp only [oneDigit] at h
      split at h <;> simp_all
  · intro r x y h
    match x, y, h with
    | [], _, _ => simp [oneDigit]
    | [c], [], h => simpa using h
    | [c], _ :: _, h => simp [oneDigit] at h
    | _ :: _ :: _, _, h => simp [oneDigit] at h
  · intro r x y m h hlt
    match x, h, hlt with
    | [], _, _ => simp [oneDigit]
    | c :: _, h, hlt =>
      simp only [oneDigit, List.cons_append] at h
      split at h <;> simp_all
      omega
  · intro r x y m h _
    match x, h with
    | [], h => simp [oneDigit] at h
    | c :: _, h => simpa [oneDigit] using h
  · intro r x y m h hle
    match x, h, hle with
    | [], h, hle =>
      simp only [List.length_nil, Nat.le_zero] at hle
      subst hle
      match y, h with
      | [], h => simp [oneDigit] at h
      | c :: _, h =>
        simp only [oneDigit, List.nil_append] at h
        split at h <;> simp_all
    | c :: _, h, _ => simpa [oneDigit] using h

/-- the oracle of `r"[0-9]+"`: greedy digit run; it is *not* cut-stable (`full_stable` fails on "1" ++ "2") -/
def digits : ROracle where
  full := fun _ z =>
    let n := (z.takeWhile isDigit).length
    if n = 0 then none else some n
  part := fun _ z => if z.all isDigit then some z.length else none

theorem C13_digits_not_cutStable : ¬ CutStable digits := by
  intro h
  have := h.full_stable 0 [49] [50] 1 (by decide) (by decide)
  revert this
  decide

/-! ## 4. non-vacuity: concrete runs that meet every hypothesis, with cuts inside terminals -/

/-- `<start> ::= "abc" 0 1 0 0 0 0 0 1 "é"` (as units) -/
def exAlts : List (List TTerm) :=
  [[.lit [97, 98, 99]] ++ [false, true, false, false, false, false, false, true].map TTerm.bit ++ [.lit [233]]]

def exInput : Units := [97, 98, 99, 65, 233]

/-- the run on `exInput` is aligned and ready, every cut of it gives exactly the parse of the whole input,
    there is one such parse, and cutting inside "abc" leaves a resumable state with prefix "ab" -/
theorem C13_example_run :
    (linStart exAlts).Ready linEngine ∧
    (feed linEngine noRegex .text (linStart exAlts) exInput).Aligned linEngine ∧
    (completeParses linEngine (feed linEngine noRegex .text (linStart exAlts) exInput)).length = 1 ∧
    (completeParses linEngine
      ([[97, 98], [99, 65], [233]].foldl (feed linEngine noRegex .text) (linStart exAlts))).length = 1 ∧
    (resumable (feed linEngine noRegex .text (linStart exAlts) [97, 98])).map (fun e => (e.idx, e.pre))
      = [(2, [97, 98])] ∧
    canContinue linEngine (feed linEngine noRegex .text (linStart exAlts) [97, 98]) = true ∧
    canContinue linEngine (feed linEngine noRegex .text (linStart exAlts) exInput) = false := by
  refine ⟨⟨?_, ?_, rfl⟩, ?_, by decide +kernel, by decide +kernel, by decide +kernel, by decide +kernel,
    by decide +kernel⟩
  · intro p hp
    simp only [linStart, exAlts, List.map_cons, List.map_nil, List.mem_singleton] at hp
    subst hp
    exact fresh_wf _ _
  · intro p hp
    simp only [linStart, exAlts, List.map_cons, List.map_nil, List.mem_singleton] at hp
    subst hp
    simp [linStart]
  · -- alignment: check the 40 processed columns
    intro k col hget h8 e he hwb
    have hall : ((feed linEngine noRegex .text (linStart exAlts) exInput).done.zipIdx.all (fun (c, k) =>
        k % 8 == 0 || c.all (fun e => match linEngine.want e.item with
          | some (.lit _) => false | some (.regex _) => false | _ => true))) = true := by
      decide +kernel
    rw [List.all_eq_true] at hall
    have hmem : (col, k) ∈ (feed linEngine noRegex .text (linStart exAlts) exInput).done.zipIdx := by
      rw [List.mem_zipIdx_iff_getElem?]
      simpa using hget
    have := hall _ hmem
    simp only [Bool.or_eq_true, beq_iff_eq, List.all_eq_true] at this
    rcases this with h0 | hc
    · exact h8 h0
    · have := hc e he
      rcases hwb with ⟨l, hl⟩ | ⟨r, hr⟩
      · simp [hl] at this
      · simp [hr] at this

/-- the oracle of `r"[0-9]{2}"` is cut-stable: a regex with a multi-unit match inside which a cut can fall -/
theorem C13_twoDigits_cutStable : CutStable twoDigits := twoDigits_cutStable

/-- `<start> ::= r"[0-9]{2}" "a"` -/
def reAlts : List (List TTerm) := [[.regex 0, .lit [97]]]

/-- a run with a cut INSIDE a regex match ("1" | "2a") that meets every hypothesis of the `_partial` theorems:
    the parse is the one of the whole input, and after "1" the regex waits as a resumable state with prefix "1" -/
theorem C13_example_regex_run :
    (linStart reAlts).Ready linEngine ∧
    (feed linEngine twoDigits .text (linStart reAlts) [49, 50, 97]).Aligned linEngine ∧
    (completeParses linEngine (feed linEngine twoDigits .text (linStart reAlts) [49, 50, 97])).map Tree.leaves
      = [[Leaf.text [49, 50], Leaf.text [97]]] ∧
    (completeParses linEngine
      ([[49], [50, 97]].foldl (feed linEngine twoDigits .text) (linStart reAlts))).map Tree.leaves
      = [[Leaf.text [49, 50], Leaf.text [97]]] ∧
    (resumable (feed linEngine twoDigits .text (linStart reAlts) [49])).map (fun e => (e.idx, e.pre))
      = [(1, [49])] ∧
    canContinue linEngine (feed linEngine twoDigits .text (linStart reAlts) [49]) = true := by
  refine ⟨linStart_ready _, aligned_of_check _ (by decide +kernel), by decide +kernel, by decide +kernel,
    by decide +kernel, by decide +kernel⟩

/-! ## 5. the full statement is false: a regex whose match can grow -/

/-- the statement of C13 for *every* oracle -/
def C13_FullStatement : Prop :=
  ∀ (eng : Engine LinItem) (R : ROracle) (md : Mode), eng.Lawful → ∀ (s : PState LinItem), s.Ready eng →
    ∀ (pieces : List Units), (feed eng R md s pieces.flatten).Aligned eng →
      SetEq (completeParses eng (pieces.foldl (feed eng R md) s))
        (completeParses eng (feed eng R md s pieces.flatten))

/-- `<start> ::= <n> | <n> <n>; <n> ::= r"[0-9]+"` -/
def splitAlts : List (List TTerm) := [[.regex 0], [.regex 0, .regex 0]]

/-- **the full statement is false**: with the oracle of `r"[0-9]+"` the engine for `<n> | <n> <n>` is lawful,
    the fresh parse is ready, the run on "12" is aligned — and feeding "1","2" yields the parse 1·2 that
    feeding "12" does not. -/
theorem C13_full_statement_false : ¬ C13_FullStatement := by
  intro h
  have hs := h linEngine digits .text C13_linEngine_lawful.1 (linStart splitAlts) (linStart_ready _)
    [[49], [50]] (aligned_of_check _ (by decide +kernel))
  have hin : [Leaf.text [49], Leaf.text [50]] ∈
      (completeParses linEngine ([[49], [50]].foldl (feed linEngine digits .text) (linStart splitAlts))).map
        Tree.leaves := by decide +kernel
  have hout : [Leaf.text [49], Leaf.text [50]] ∉
      (completeParses linEngine (feed linEngine digits .text (linStart splitAlts) [[49], [50]].flatten)).map
        Tree.leaves := by decide +kernel
  rw [List.mem_map] at hin
  obtain ⟨t, ht, hl⟩ := hin
  exact hout (List.mem_map.mpr ⟨t, (hs t).mp ht, hl⟩)

/-- "12" at once: one parse; "1" then "2": two parses (the boundary offers the split 1|2) -/
theorem C13_regex_split_counterexample :
    (completeParses linEngine (feed linEngine digits .text (linStart splitAlts) [49, 50])).length = 1 ∧
    (completeParses linEngine
      ([[49], [50]].foldl (feed linEngine digits .text) (linStart splitAlts))).length = 2 := by
  constructor <;> decide +kernel

end Incr
end FV
