/-
C14 — the C++ and the Python spec readers agree.                      (PARTIAL — see below)

Full statement (properties.jsonl): for EVERY spec text, the fast (C++) and the pure-Python .fan front
ends either both reject it or both produce the same grammar, constraints and Python code.

What is PROVED here: the two *hand-written lexer bases* (FandangoLexerBase.py / FandangoLexerBase.cpp:
indentation stack, newline handling inside brackets, pending-token queue, DEDENTs at EOF, `skip`),
modelled in `Model/LexBase.lean` as token-queue machines over an abstract stream of raw-lexer events,
deliver the same token-type stream for ever — `C14_bases_equal_partial` — PROVIDED the event stream
does not end with a silently skipped newline (`loudEnd`).  Without that guard the statement is FALSE
of the code as it is: `C14_bases_differ_witness` (replayed on the real front ends by
`harness/props/c14.py`: `def f():\n    return f"("\n` is accepted by the Python reader and
rejected by the C++ reader).  The abstraction does NOT hide the cause: the `(` of `f"("` is an
ordinary OPEN_PAREN token for the raw lexer (the lexer grammar has no f-string mode), i.e. an `opn`
event in BOTH machines; what differs is `nextToken` at the end of the input.
The Python base is right on EVERY stream (`C14_python_base_delivers_spec`, no guard), and so is the
C++ base with the one-line fix of /var/tmp/fixes/C14-eof-after-skipped-newline
(`C14_fixed_bases_equal`, no guard); `C14_bases_equal_once_fixed` states the unguarded equality for the
variant the translator reads off the CURRENT source, under the hypothesis that this variant is the
fixed one — on the tree as found that hypothesis is false (`Generated.cppRecheck = false`).

What is NOT proved (differential testing only, `harness/props/c14.py`): the two generated ATN
interpreters and runtimes (Unicode, char indices, prediction), the speedy-antlr bridge that rebuilds
Python parse-tree objects, and the C++ *binary* (`sa_fandango_cpp_parser.so` is prebuilt: its SOURCE
is pinned by `C14_model_matches_pinned_sources`, the binary is exercised by the differential).

Every `theorem` in this file is an obligation audited with `#print axioms`.
-/
import Proofs.LexBase
import Proofs.LexBaseFixed
import Generated.Lex
namespace FV.Lex

/-- the full property, for the record (the two readers as functions from text to an outcome) -/
def C14_FullStatement : Prop :=
  ∀ (Outcome : Type) (readPy readCpp : List Nat → Outcome) (text : List Nat), readPy text = readCpp text

/-! ## 0. the sources the model was written against -/

/-- normalised-source hashes of the functions modelled by hand (see `harness/translate_lex.py`) -/
def modelledPins (cppRecheck : Bool) : List (String × String) :=
  [("cpp:FandangoLexerBase", "3a5b24d844"),
   ("cpp:_close_brace", "6f9f58eaaf"),
   ("cpp:_on_newline", "6806ceb910"),
   ("cpp:_open_brace", "575c170dc2"),
   ("cpp:commonToken", "f5642c7286"),
   ("cpp:emitToken", "e0671e7589"),
   ("cpp:getIndentationCount", "e4e6fda7dc"),
   ("cpp:nextToken", if cppRecheck then "07a70312a1" else "155f47443a"),   -- with / without the second EOF check
   ("cpp:reset", "27ebb12f30"),
   ("g4:CLOSE_BRACE", "4ebb9098bb"),
   ("g4:CLOSE_BRACK", "a010b15918"),
   ("g4:CLOSE_PAREN", "089bb1d496"),
   ("g4:NEWLINE", "74b107ca66"),
   ("g4:OPEN_BRACE", "fa2b44840a"),
   ("g4:OPEN_BRACK", "694e9c8330"),
   ("g4:OPEN_PAREN", "cb81dc15cc"),
   ("g4:SKIP_", "1999d86319"),
   ("py:__init__", "b4f7b62cc0"),
   ("py:class-constants", "6bf8b61196"),
   ("py:close_brace", "ff2580d2c6"),
   ("py:commonToken", "67bfd24a1d"),
   ("py:createDedent", "8b1a6adca3"),
   ("py:emitToken", "30f22b62ce"),
   ("py:get_indentation_count", "c0627217c3"),
   ("py:nextToken", "f21de3790b"),
   ("py:on_newline", "61ee91bd9c"),
   ("py:open_brace", "580b95080e"),
   ("py:reset", "9b25042bee")]

/-- both bases (and the lexer rules that call them) are, function by function, the ones modelled:
    an edit to one base only breaks this obligation -/
theorem C14_model_matches_pinned_sources :
    FV.Generated.lexPins = modelledPins FV.Generated.cppRecheck := by
  decide

/-- the C++ base as the current source has it (`cppRecheck` is read from the source by the translator) -/
abbrev cppPullsG := cppPullsR FV.Generated.cppRecheck

/-! ## 1. the two bases deliver the same tokens -/

/-- **both bases deliver the intended stream** — the tokens the events stand for, the closing
    NEWLINE DEDENT* if blocks are open, then EOF for ever — for every event stream that does not end
    with a silently skipped newline, and for every number of `nextToken()` calls -/
theorem C14_bases_deliver_spec (evs : List Ev) (h : loudEnd evs 0 = true) (n : Nat) :
    pyPulls n (pyInit evs) = deliver (spec evs [] 0) n ∧ cppPullsG n (cppInit evs) = deliver (spec evs [] 0) n := by
  constructor
  · have := py_pulls n (pyInit evs) (inv_init evs h)
    simpa [pyPend, pyInit, nonEof] using this
  · have := cpp_pulls_R FV.Generated.cppRecheck n (cppInit evs) (inv_init evs h) rfl
    simpa [cppPend, cppInit, nonEof] using this

/-- **C14 for the lexer bases (partial: under `loudEnd`)** -/
theorem C14_bases_equal_partial (evs : List Ev) (h : loudEnd evs 0 = true) (n : Nat) :
    pyPulls n (pyInit evs) = cppPullsG n (cppInit evs) := by
  rw [(C14_bases_deliver_spec evs h n).1, (C14_bases_deliver_spec evs h n).2]

/-- non-vacuity: an indented block whose last line ends with a line break at the block's indentation,
    with a bracket pair spanning a line and a blank line in between, is inside the guard -/
def exLoud : List Ev :=
  [.tok 1, .nl [false, false] false, .tok 2, .opn 3, .nl [] false, .cls 4, .nl [] true, .nl [false, false] false,
   .tok 5, .nl [false, false] false]
example : loudEnd exLoud 0 = true := by decide
example : pyPulls 12 (pyInit exLoud) =
    [.raw 1, .newline, .indent, .raw 2, .raw 3, .raw 4, .newline, .raw 5, .newline, .newline, .dedent, .eof] := by decide
example : cppPullsG 12 (cppInit exLoud) = pyPulls 12 (pyInit exLoud) := by decide

/-- the stream of `def f():⏎    return f"("⏎`, reduced: a token, a line break that indents, an opening
    bracket that is never closed, a final line break (skipped because a bracket is open) -/
def exSilent : List Ev := [.tok 1, .nl [false, false] false, .opn 2, .nl [] false]

/-- **the guard is needed: the bases as they are DIFFER.**  The Python base lexes ahead (every
    `nextToken()` calls the raw lexer), so it sees the end of input while tokens are still queued and
    appends NEWLINE DEDENT before EOF; the C++ base asks the raw lexer only when its deque is empty,
    receives EOF from the skipped newline, and delivers EOF *before* the closing NEWLINE DEDENT. -/
theorem C14_bases_differ_witness :
    loudEnd exSilent 0 = false ∧
    pyPulls 6 (pyInit exSilent) = [.raw 1, .newline, .indent, .raw 2, .newline, .dedent] ∧
    cppPullsR false 6 (cppInit exSilent) = [.raw 1, .newline, .indent, .raw 2, .eof, .newline] := by
  decide

/-- with the second end-of-input check (the fix) the C++ base agrees with the Python base on the witness -/
theorem C14_fixed_base_agrees_on_witness :
    cppPullsR true 8 (cppInit exSilent) = pyPulls 8 (pyInit exSilent) := by
  decide

/-! ## 1b. without the guard: the Python base, and the C++ base once fixed -/

/-- **the Python base delivers the intended stream on EVERY event stream** (no guard): as soon as a block
    is open it is one raw token ahead, so the EOF that follows a skipped last newline is still queued when
    the end-of-input check at the top of `nextToken` runs -/
theorem C14_python_base_delivers_spec (evs : List Ev) (n : Nat) :
    pyPulls n (pyInit evs) = deliver (spec evs [] 0) n := by
  have := py_pulls_gen n (pyInit evs) ⟨fun _ => by simp [pyInit], rfl, fun _ h => absurd rfl h⟩
  simpa [pyPend, pyInit, nonEof] using this

/-- **C14 for the lexer bases, full strength, for the C++ base WITH the second end-of-input check**
    (`cppNextR true`, the patch): equal token streams for every event stream and every number of
    `nextToken()` calls -/
theorem C14_fixed_bases_equal (evs : List Ev) (n : Nat) :
    pyPulls n (pyInit evs) = cppPullsR true n (cppInit evs) := by
  rw [C14_python_base_delivers_spec]
  have := cpp_pulls_fixed n (cppInit evs) ⟨fun _ => by simp [cppInit], rfl⟩ rfl
  simpa [cppPend, cppInit, nonEof] using this.symm

/-- the same for the variant the translator reads off the current source, once that is the fixed one
    (on the tree as found `Generated.cppRecheck = false` and only `C14_bases_equal_partial` applies) -/
theorem C14_bases_equal_once_fixed (hfix : FV.Generated.cppRecheck = true) (evs : List Ev) (n : Nat) :
    pyPulls n (pyInit evs) = cppPullsG n (cppInit evs) := by
  show pyPulls n (pyInit evs) = cppPullsR FV.Generated.cppRecheck n (cppInit evs)
  rw [hfix]
  exact C14_fixed_bases_equal evs n

/-- non-vacuity of the unguarded statements: they cover the stream on which the base as found fails -/
example : loudEnd exSilent 0 = false ∧ pyPulls 8 (pyInit exSilent) = cppPullsR true 8 (cppInit exSilent) :=
  ⟨by decide, C14_fixed_bases_equal exSilent 8⟩

/-- the base as found is wrong against the intended stream on the witness, the Python base is not -/
theorem C14_cpp_as_found_misses_spec_on_witness :
    cppPullsR false 6 (cppInit exSilent) ≠ deliver (spec exSilent [] 0) 6 ∧
    pyPulls 6 (pyInit exSilent) = deliver (spec exSilent [] 0) 6 := by
  decide

/-! ## 2. INDENT and DEDENT are balanced at EOF -/

/-- once the whole stream has been delivered, both bases have emitted as many DEDENT as INDENT tokens
    (every block that was opened is closed before EOF) -/
theorem C14_indents_balanced (evs : List Ev) (h : loudEnd evs 0 = true) (n : Nat)
    (hn : (spec evs [] 0).length ≤ n) :
    countTok .indent (pyPulls n (pyInit evs)) = countTok .dedent (pyPulls n (pyInit evs)) ∧
    countTok .indent (cppPullsG n (cppInit evs)) = countTok .dedent (cppPullsG n (cppInit evs)) := by
  have hs := C14_bases_deliver_spec evs h n
  have hb := spec_balanced evs [] 0
  rw [hs.1, hs.2, deliver_ge _ n hn]
  simp only [countTok_append, countTok_replicate_ne _ _ _ (show (Tok.eof == Tok.indent) = false from rfl),
    countTok_replicate_ne _ _ _ (show (Tok.eof == Tok.dedent) = false from rfl)]
  simp at hb ⊢
  exact hb

/-- the same on EVERY stream for the Python base and for the C++ base with the second end-of-input check -/
theorem C14_indents_balanced_every_stream (evs : List Ev) (n : Nat) (hn : (spec evs [] 0).length ≤ n) :
    countTok .indent (pyPulls n (pyInit evs)) = countTok .dedent (pyPulls n (pyInit evs)) ∧
    countTok .indent (cppPullsR true n (cppInit evs)) = countTok .dedent (cppPullsR true n (cppInit evs)) := by
  have hb := spec_balanced evs [] 0
  rw [← C14_fixed_bases_equal, C14_python_base_delivers_spec, deliver_ge _ n hn]
  simp only [countTok_append, countTok_replicate_ne _ _ _ (show (Tok.eof == Tok.indent) = false from rfl),
    countTok_replicate_ne _ _ _ (show (Tok.eof == Tok.dedent) = false from rfl)]
  simp at hb ⊢
  exact hb

/-! ## 3. the totalisation `headD` in `pyNext` / `cppNext` is never used -/

/-- Python: `self.tokens` is never empty after `super().nextToken()`;  C++: the deque is never empty
    at `tokens.front()` (which would be undefined behaviour) as long as `skipLexer` is 0 on entry —
    which `cpp_step` maintains -/
theorem C14_queue_never_empty (evs : List Ev) (q : List Tok) (ind : List Nat) (op : Int) :
    q ++ (pyRaw evs ind op).em ≠ [] ∧
    (if (cppRaw evs ind op).skipInc > 0 then (cppRaw evs ind op).pushed
      else (cppRaw evs ind op).pushed ++ [(cppRaw evs ind op).ret]) ≠ [] := by
  constructor
  · intro h
    have := pyRaw_em_ne_nil evs ind op
    simp at h
    exact this h.2
  · have ha := raw_agree evs ind op
    split
    · rename_i hs; exact ha.2.2.2.2.2 hs
    · simp

end FV.Lex
