/-
C15 — printing a spec and reading it back preserves its meaning.

Property theorems only; helper lemmas are in `Proofs/Print.lean`, `Proofs/PyLit.lean`, `Proofs/IR.lean`.
Models: `Model/Print.lean` (printer `format_as_spec` of the grammar nodes as a token list, reader =
ANTLR production sub-grammar + `GrammarProcessor`), `Model/PyLit.lean` (CPython `repr` / literal
evaluation), `Model/IR.lean` (`Matches`: the language of a node over child tokens).
The printer's choices are `Generated.printCfg`, extracted from /repo's source on every run by
`harness/translate_print.py`; both models are tied to /repo by `harness/props/c15.py`.

FULL STATEMENT (DESIGN §4 C15) and what is proved here:
  read_print, language preservation, print stability, postfix discipline, open bounds, party annotations,
  F5 counterexample, literal_roundtrip (str, bytes)                         — PROVED below, all inputs
  regex_quote_roundtrip  (`Terminal.format_as_spec` for regex terminals: r'…', r"…", the `\x27`
                          rewriting, the bytes-regex `replace`)              — NOT proved: no model of
                          Python's `re` syntax; differential only (and refuted on the current code for
                          a raw literal holding both quote kinds, see known finding C15/regex-mixed-quotes)
  constraint_print_read  (`Constraint.format_as_spec`, searches)             — NOT proved: differential only
  generators, computed repetition bounds `{int(<n>)}`                         — outside `Node`; differential only
-/
import Proofs.Print
import Proofs.PyLit
import Generated.Print
namespace FV

/-! ## 1. the printer the source implements now is the one the theorems are about -/

/-- the choices extracted from `repetition.py` / `alternative.py` / `concatenation.py`: alternatives
    parenthesise themselves, a postfix operand is parenthesised when it is a sequence or a repetition,
    open bounds print open, `* + ?` are the operator characters.  (`decide` on a finite record.) -/
theorem C15_generated_printer_is_sound : Generated.printCfg.Sound := by decide

/-! ## 2. read ∘ print -/

/-- **Reading the printed form back** succeeds and yields `norm n`: the same node up to node ids,
    collapsed singleton alternatives / concatenations (what `visitAlternative` /
    `visitConcatenation` do) and a sequence printed bare inside a sequence being spliced into it.
    For every expressible node (`wf`: non-empty alternatives and sequences, bounds the
    `Repetition` constructor accepts), every repetition cap. -/
theorem C15_read_print (cap : Nat) (n : Node) (h : wf cap n = true) :
    read cap (print Generated.printCfg n) = some (norm n) :=
  read_print _ C15_generated_printer_is_sound cap n h

/-- the normal form has the same language (over child tokens, any regex oracle) -/
theorem C15_norm_same_language (R : RegexOracle) (n : Node) (ts : List Tok) :
    Matches R (norm n) ts ↔ Matches R n ts :=
  norm_matches R n ts

/-- **Round trip preserves the language**: the printed form is accepted by the reader and the node
    read back matches exactly the child-token sequences the original matches; the verified matcher
    returns the same verdicts on both. -/
theorem C15_roundtrip_same_language (cap : Nat) (n : Node) (h : wf cap n = true) :
    ∃ n', read cap (print Generated.printCfg n) = some n' ∧
      (∀ R ts, Matches R n' ts ↔ Matches R n ts) ∧ (∀ R ts, matchIR R n' ts = matchIR R n ts) := by
  refine ⟨norm n, C15_read_print cap n h, fun R ts => norm_matches R n ts, fun R ts => ?_⟩
  have a := matchIR_iff R ts (norm n)
  have b := matchIR_iff R ts n
  have c := norm_matches R n ts
  cases h1 : matchIR R (norm n) ts <;> cases h2 : matchIR R n ts <;> simp_all

/-- non-vacuity: `(<s:r:a> | 'x'+ ("y" <b>){2,})*` is expressible and is read back as itself -/
def exNode : Node :=
  .rep "r1" .star (.alt "a1" [.nt "<a>" (some "s") (some "r"),
    .cat "c1" [.rep "p1" .plus (.term (.lit (.text [120]))) 1 none,
               .rep "r2" .braces (.cat "c2" [.term (.lit (.text [121])), .nt "<b>" none none]) 2 none]]) 0 none

example : wf 20 exNode = true := by decide
example : read 20 (print Generated.printCfg exNode) = some (norm exNode) := by rfl
example : print Generated.printCfg exNode =
    [.lp, .nt "<a>" (some "s") (some "r"), .bar, .lit (.text [120]), .plus,
     .lp, .lit (.text [121]), .nt "<b>" none none, .rp, .repOpen 2, .rp, .star] := by decide +kernel

/-- **Printing is stable**: for a node of the shape the front end itself builds (every alternative and
    every sequence has at least two members) the node read back prints as exactly the same tokens —
    `repr(parse(repr(g))) == repr(g)` -/
theorem C15_print_stable (cap : Nat) (n : Node) (h : wf cap n = true) (hs : shaped n = true) :
    ∃ n', read cap (print Generated.printCfg n) = some n' ∧
      print Generated.printCfg n' = print Generated.printCfg n :=
  ⟨norm n, C15_read_print cap n h, print_norm _ n hs⟩

example : shaped exNode = true := by decide

/-! ## 3. what survives -/

/-- every postfix operator in the printed form directly follows an atom or a parenthesised group
    (so the grammar rule `operator: symbol ('*'|'+'|'?'|'{…}')` applies to the whole operand) -/
theorem C15_postfix_operand_is_atomic (n : Node) (prev : Option PTok) :
    postfixOk prev (print Generated.printCfg n) = true :=
  postfixOk_print _ C15_generated_printer_is_sound n prev

/-- an open-ended repetition is printed with an open bound `{min,}` — not with the current value of
    the (mutable, global) repetition cap — and read back open -/
theorem C15_open_bound_printed_open (cap : Nat) (id : String) (n : Node) (mn : Nat)
    (h : wf cap (.rep id .braces n mn none) = true) :
    (print Generated.printCfg (.rep id .braces n mn none)).getLast? = some (.repOpen mn) ∧
    read cap (print Generated.printCfg (.rep id .braces n mn none)) = some (.rep "" .braces (norm n) mn none) := by
  refine ⟨?_, C15_read_print cap _ h⟩
  simp only [print, List.getLast?_append, List.getLast?_singleton]
  rfl

/-- bounds, operator kind and operand of every repetition survive -/
theorem C15_repetition_survives (cap : Nat) (id : String) (k : RepKind) (n : Node) (mn : Nat)
    (mx : Option Nat) (h : wf cap (.rep id k n mn mx) = true) :
    read cap (print Generated.printCfg (.rep id k n mn mx)) = some (.rep "" k (norm n) mn mx) :=
  C15_read_print cap _ h

/-- party annotations survive: `<sender:recipient:name>` and `<sender:name>` are read back with the
    same parties (a recipient without a sender is not expressible and not printed) -/
theorem C15_party_annotation_survives (cap : Nat) (name : String) (s r : Option String)
    (h : wf cap (.nt name s r) = true) :
    read cap (print Generated.printCfg (.nt name s r)) = some (.nt name s r) := by
  rw [C15_read_print cap _ h]
  cases s with
  | some _ => rfl
  | none =>
    cases r with
    | none => rfl
    | some _ => simp [wf] at h

/-- terminals are read back as the same terminal (the token carries the leaf / the regex id; the
    quoting of the leaf is §5) -/
theorem C15_terminal_survives (cap : Nat) (t : Term) :
    read cap (print Generated.printCfg (.term t)) = some (.term t) :=
  C15_read_print cap _ rfl

/-! ## 4. the printer before ec9ecf03 (F5), machine-checked counterexamples -/

def litA : Node := .term (.lit (.text [97]))
def litB : Node := .term (.lit (.text [98]))

/-- `("a" "b")*` was printed `'a' 'b'*`, which reads back as `'a' ('b'*)`: the empty sequence is in
    the language of the original and not of the node read back (`rfl` / `decide +kernel`: finite witnesses) -/
theorem C15_prefix_printer_lost_group :
    print (PrintCfg.preFix 20) (.rep "" .star (.cat "" [litA, litB]) 0 none)
      = [.lit (.text [97]), .lit (.text [98]), .star] ∧
    read 20 (print (PrintCfg.preFix 20) (.rep "" .star (.cat "" [litA, litB]) 0 none))
      = some (.cat "" [litA, .rep "" .star litB 0 none]) ∧
    (∀ R, Matches R (.rep "" .star (.cat "" [litA, litB]) 0 none) []) ∧
    (∀ R, ¬ Matches R (.cat "" [litA, .rep "" .star litB 0 none]) []) := by
  refine ⟨by decide +kernel, by rfl, fun R => ?_, fun R => ?_⟩
  · exact (matchIR_iff R [] _).1 (by rfl)
  · intro h
    have h1 := (matchIR_iff R [] _).2 h
    have h2 : matchIR R (.cat "" [litA, .rep "" .star litB 0 none]) [] = false := by rfl
    rw [h2] at h1
    exact Bool.false_ne_true h1

/-- `'a'{2,}` was printed `'a'{2,5}` when the cap was 5: six `a` are in the language of the original
    (under a larger cap) and not of the node read back -/
theorem C15_prefix_printer_closed_open_bound :
    read 5 (print (PrintCfg.preFix 5) (.rep "" .braces litA 2 none))
      = some (.rep "" .braces litA 2 (some 5)) ∧
    (∀ R, Matches R (.rep "" .braces litA 2 none) (List.replicate 6 (.leaf (.text [97])))) ∧
    (∀ R, ¬ Matches R (.rep "" .braces litA 2 (some 5)) (List.replicate 6 (.leaf (.text [97])))) := by
  refine ⟨by rfl, fun R => ?_, fun R => ?_⟩
  · exact (matchIR_iff R _ _).1 (by rfl)
  · intro h
    have h1 := (matchIR_iff R _ _).2 h
    have h2 : matchIR R (.rep "" .braces litA 2 (some 5)) (List.replicate 6 (.leaf (.text [97]))) = false := by rfl
    rw [h2] at h1
    exact Bool.false_ne_true h1

/-- the same two nodes under the current printer: read back as themselves -/
example : read 20 (print Generated.printCfg (.rep "" .star (.cat "" [litA, litB]) 0 none))
    = some (.rep "" .star (.cat "" [litA, litB]) 0 none) := by rfl
example : read 5 (print Generated.printCfg (.rep "" .braces litA 2 none))
    = some (.rep "" .braces litA 2 none) := by rfl

/-! ## 5. quoting of string and bytes literals -/

/-- `eval(repr(s)) == s` for every `str` (code points below 0x110000, lone surrogates included),
    whatever CPython considers printable: quote choice, `\\ \' \"`, `\t \n \r`, `\xNN`, `\uNNNN`,
    `\UNNNNNNNN` -/
theorem C15_literal_roundtrip_str (P : Nat → Bool) (s : Str) (h : ∀ c ∈ s, c < 1114112) :
    PyLit.evalStr (PyLit.reprStr P s) = some s :=
  PyLit.evalStr_reprStr P s h

/-- `eval(repr(b)) == b` for every `bytes` -/
theorem C15_literal_roundtrip_bytes (b : Bytes) :
    PyLit.evalBytes (PyLit.reprBytes (b.map (·.val))) = some (b.map (·.val)) := by
  apply PyLit.evalBytes_reprBytes
  intro c hc
  obtain ⟨x, _, rfl⟩ := List.mem_map.1 hc
  exact x.isLt

/-- non-vacuity: `it's "q"\n\x00é` (é printable) and `b"'\xff\\"` -/
example : PyLit.reprStr (fun c => c == 233) [105, 116, 39, 115, 32, 34, 113, 34, 10, 0, 233]
    = [39, 105, 116, 92, 39, 115, 32, 34, 113, 34, 92, 110, 92, 120, 48, 48, 233, 39] := by decide +kernel
example : PyLit.reprBytes [39, 255, 92] = [98, 34, 39, 92, 120, 102, 102, 92, 92, 34] := by decide +kernel

end FV
