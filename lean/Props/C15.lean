/-
C15 — printing a spec and reading it back preserves its meaning.

Property theorems only; helper lemmas are in `Proofs/Print.lean`, `Proofs/PrintSearch.lean`,
`Proofs/PyLit.lean`, `Proofs/IR.lean`.
Models: `Model/Print.lean` (printer `format_as_spec` of the grammar nodes as a token list incl.
computed repetition bounds; reader = ANTLR production sub-grammar + `GrammarProcessor`; expressions
with embedded selectors; productions with generators), `Model/PrintSearch.lean` (printer / reader of
the selector sub-grammar: `search.py` `format_as_spec`, `SearchProcessor`), `Model/PyLit.lean` (CPython
`repr` / literal evaluation; regex terminals: `_spell_regex`, one-line raw literals),
`Model/IR.lean` (`Matches`: the language of a node over child tokens).
The printer's choices are `Generated.printCfg`, extracted from /repo's source on every run by
`harness/translate_print.py`; the models are tied to /repo by `harness/props/c15.py`.

FULL STATEMENT (DESIGN §4 C15) and what is proved here:
  §2–§4  read_print (grammar nodes INCL. computed repetition bounds `{e}` `{lo,hi}` `{lo,}`), language
         preservation, print stability, postfix discipline, open bounds, party annotations,
         F5 counterexamples                                                    — PROVED, all inputs
  §5     literal_roundtrip (str, bytes)                                        — PROVED, all inputs
  §6     regex_literal_roundtrip (`Terminal.format_as_spec` for regex terminals, str and bytes)
                                                                               — PROVED under the guard
         `noBareFF` (necessary: finding C15/regex-formfeed) and, for the rewritten characters, the
         named oracle assumption `PyLit.HexEscapeSound` about `re` (refuted by CPython for verbose
         patterns: finding C15/regex-verbose-whitespace)
  §7     expressions with embedded selectors, generators `:= f(<a>)`, productions, grammars
                                                                               — PROVED: the payload
         (Python text chunks carried verbatim + selector occurrences) survives print → read; WHERE a
         selector occurrence starts and ends inside Python text is the ANTLR expression grammar's
         business and is taken from the real front end (differential)
  §8     search_print_read (`NonTerminalSearch.format_as_spec` for every search class vs the selector
         sub-grammar)                                                          — PROVED: the reader
         returns the normal form `normSel` (dots nested to the left, nothing else changed), which is the
         search itself for every search in normal form; the reading is in normal form and prints as the
         same tokens; and it FINDS what `s` finds (same containers, trees, order; raises exactly when
         `s` raises) on the shared model of `find` (`Model/Search.lean`, tied to /repo by C07):
         `C15_search_roundtrip_same_find`.  The printer before 9a10ad80 dropped the parentheses of a
         group's base, which does change what is found (`C15_search_parens_matter`, F66 fixed)
  NOT proved (differential only, every run): the boolean / comparison / quantifier layer of constraints
  ABOVE the selectors (`Constraint.format_as_spec`: open findings F18 legacy quantifier, F21 `not` over a
  comparison, F22 parenthesised boolean group re-read as one expression — root causes in the front-end
  grammar), the Python text of expressions (`ast.unparse` ∘ the ANTLR expression visitor: property C08),
  python code of `fandango convert`.
-/
import Proofs.Print
import Proofs.PrintSearch
import Proofs.PrintSearchSem
import Proofs.PyLit
import Generated.Print
namespace FV

/-! ## 1. the printer the source implements now is the one the theorems are about -/

/-- the choices extracted from `repetition.py` / `alternative.py` / `concatenation.py`: alternatives
    parenthesise themselves, a postfix operand is parenthesised when it is a sequence or a repetition,
    open bounds print open, `* + ?` are the operator characters.  (`decide` on a finite record.) -/
theorem C15_generated_printer_is_sound : Generated.printCfg.Sound := by decide

/-! ## 2. read ∘ print -/

/-- **Reading the printed form back** succeeds and yields `norm n`: the same node up to node ids,
    collapsed singleton alternatives / concatenations (what `visitAlternative` /
    `visitConcatenation` do), a sequence printed bare inside a sequence being spliced into it, and the
    normal form (dots nested to the left) of the selectors inside computed bounds.
    For every expressible node (`wf`: non-empty alternatives and sequences, bounds the
    `Repetition` constructor accepts, computed bounds with at least one expression bound), every
    repetition cap. -/
theorem C15_read_print (cap : Nat) (n : ENode) (h : wf cap n = true) :
    read cap (print Generated.printCfg n) = some (norm n) :=
  read_print _ C15_generated_printer_is_sound cap n h

/-- the normal form has the same language (over child tokens, any regex oracle) -/
theorem C15_norm_same_language (R : RegexOracle) (n : ENode) (ts : List Tok) :
    Matches R (erase (norm n)) ts ↔ Matches R (erase n) ts :=
  norm_matches R n ts

/-- **Round trip preserves the language**: the printed form is accepted by the reader and the node
    read back matches exactly the child-token sequences the original matches; the verified matcher
    returns the same verdicts on both. -/
theorem C15_roundtrip_same_language (cap : Nat) (n : ENode) (h : wf cap n = true) :
    ∃ n', read cap (print Generated.printCfg n) = some n' ∧
      (∀ R ts, Matches R (erase n') ts ↔ Matches R (erase n) ts) ∧
      (∀ R ts, matchIR R (erase n') ts = matchIR R (erase n) ts) := by
  refine ⟨norm n, C15_read_print cap n h, fun R ts => norm_matches R n ts, fun R ts => ?_⟩
  have a := matchIR_iff R ts (erase (norm n))
  have b := matchIR_iff R ts (erase n)
  have c := norm_matches R n ts
  cases h1 : matchIR R (erase (norm n)) ts <;> cases h2 : matchIR R (erase n) ts <;> simp_all

/-- the theorems cover the plain IR of `Model/IR.lean`: a node without computed bounds is its own
    erasure -/
theorem C15_plain_nodes_covered (n : Node) : erase (embed n) = n := erase_embed n

/-- non-vacuity: `(<s:r:a> | 'x'+ ("y" <b>){2,})*` is expressible and is read back as itself -/
def exNode : ENode :=
  .rep "r1" .star (.alt "a1" [.nt "<a>" (some "s") (some "r"),
    .cat "c1" [.rep "p1" .plus (.term (.lit (.text [120]))) 1 none,
               .rep "r2" .braces (.cat "c2" [.term (.lit (.text [121])), .nt "<b>" none none]) 2 none]]) 0 none

example : wf 20 exNode = true := by decide
example : read 20 (print Generated.printCfg exNode) = some (norm exNode) := by rfl
example : print Generated.printCfg exNode =
    [.lp, .nt "<a>" (some "s") (some "r"), .bar, .lit (.text [120]), .plus,
     .lp, .lit (.text [121]), .nt "<b>" none none, .rp, .repOpen 2, .rp, .star] := by decide +kernel

/-- **Printing is stable**: for a node of the shape the front end itself builds (every alternative and
    every sequence has at least two members) the node read back prints as exactly the same tokens —
    `repr(parse(repr(g))) == repr(g)` -/
theorem C15_print_stable (cap : Nat) (n : ENode) (h : wf cap n = true) (hs : shaped n = true) :
    ∃ n', read cap (print Generated.printCfg n) = some n' ∧
      print Generated.printCfg n' = print Generated.printCfg n :=
  ⟨norm n, C15_read_print cap n h, print_norm _ (by decide) n hs⟩

example : shaped exNode = true := by decide

/-! ## 3. what survives -/

/-- every postfix operator in the printed form directly follows an atom or a parenthesised group
    (so the grammar rule `operator: symbol ('*'|'+'|'?'|'{…}')` applies to the whole operand) -/
theorem C15_postfix_operand_is_atomic (n : ENode) (prev : Option PTok) :
    postfixOk prev (print Generated.printCfg n) = true :=
  postfixOk_print _ C15_generated_printer_is_sound n prev

/-- an open-ended repetition is printed with an open bound `{min,}` — not with the current value of
    the (mutable, global) repetition cap — and read back open -/
theorem C15_open_bound_printed_open (cap : Nat) (id : String) (n : ENode) (mn : Nat)
    (h : wf cap (.rep id .braces n mn none) = true) :
    (print Generated.printCfg (.rep id .braces n mn none)).getLast? = some (.repOpen mn) ∧
    read cap (print Generated.printCfg (.rep id .braces n mn none)) = some (.rep "" .braces (norm n) mn none) := by
  refine ⟨?_, C15_read_print cap _ h⟩
  simp only [print, List.getLast?_append, List.getLast?_singleton]
  rfl

/-- bounds, operator kind and operand of every repetition survive -/
theorem C15_repetition_survives (cap : Nat) (id : String) (k : RepKind) (n : ENode) (mn : Nat)
    (mx : Option Nat) (h : wf cap (.rep id k n mn mx) = true) :
    read cap (print Generated.printCfg (.rep id k n mn mx)) = some (.rep "" k (norm n) mn mx) :=
  C15_read_print cap _ h

/-- **computed bounds survive**: `<a>{int(<n>)}`, `<a>{1,int(<n>)}`, `<a>{int(<n>),}` are read back
    with the same bound expressions (Python text verbatim, selectors in their normal form),
    hence with the same static `min` / `max` -/
theorem C15_computed_bounds_survive (cap : Nat) (id : String) (n : ENode) (b : CB)
    (h : wf cap (.crep id n b) = true) :
    read cap (print Generated.printCfg (.crep id n b)) = some (.crep "" (norm n) (normCB b)) ∧
    cbMin (normCB b) = cbMin b ∧ cbMax (normCB b) = cbMax b :=
  ⟨C15_read_print cap _ h, cbMin_normCB b, cbMax_normCB b⟩

/-- non-vacuity: `<b>{1,int(<cnt>.<d>)}` and `('x' <b>){int(<cnt>)}` -/
def exBound : Expr := [.code "int(", .sel (.plain (.attr (.rule "<cnt>") (.rule "<d>"))), .code ")"]
def exCrep : ENode :=
  .cat "c" [.crep "r1" (.nt "<b>" none none) (.range (.num 1) (some (.expr exBound))),
            .crep "r2" (.cat "c2" [.term (.lit (.text [120])), .nt "<b>" none none])
              (.single [.code "int(", .sel (.plain (.rule "<cnt>")), .code ")"])]
example : wf 20 exCrep = true := by decide
example : read 20 (print Generated.printCfg exCrep) = some (norm exCrep) := by
  exact C15_read_print 20 exCrep (by decide)
example : print Generated.printCfg exCrep =
    [.nt "<b>" none none,
     .repC (.range (some (.num 1)) (some (.expr [.code "int(", .s (.nt "<cnt>"), .s .dot, .s (.nt "<d>"), .code ")"]))),
     .lp, .lit (.text [120]), .nt "<b>" none none, .rp,
     .repC (.single [.code "int(", .s (.nt "<cnt>"), .code ")"])] := by decide +kernel

/-- party annotations survive: `<sender:recipient:name>` and `<sender:name>` are read back with the
    same parties (a recipient without a sender is not expressible and not printed) -/
theorem C15_party_annotation_survives (cap : Nat) (name : String) (s r : Option String)
    (h : wf cap (.nt name s r) = true) :
    read cap (print Generated.printCfg (.nt name s r)) = some (.nt name s r) := by
  rw [C15_read_print cap _ h]
  cases s with
  | some _ => rfl
  | none =>
    cases r with
    | none => rfl
    | some _ => simp [wf] at h

/-- terminals are read back as the same terminal (the token carries the leaf / the regex id; the
    quoting of the leaf is §5, of the regex §6) -/
theorem C15_terminal_survives (cap : Nat) (t : Term) :
    read cap (print Generated.printCfg (.term t)) = some (.term t) :=
  C15_read_print cap _ rfl

/-! ## 4. the printer before ec9ecf03 (F5), machine-checked counterexamples -/

def litA : ENode := .term (.lit (.text [97]))
def litB : ENode := .term (.lit (.text [98]))

/-- `("a" "b")*` was printed `'a' 'b'*`, which reads back as `'a' ('b'*)`: the empty sequence is in
    the language of the original and not of the node read back (`rfl` / `decide +kernel`: finite witnesses) -/
theorem C15_prefix_printer_lost_group :
    print (PrintCfg.preFix 20) (.rep "" .star (.cat "" [litA, litB]) 0 none)
      = [.lit (.text [97]), .lit (.text [98]), .star] ∧
    read 20 (print (PrintCfg.preFix 20) (.rep "" .star (.cat "" [litA, litB]) 0 none))
      = some (.cat "" [litA, .rep "" .star litB 0 none]) ∧
    (∀ R, Matches R (erase (.rep "" .star (.cat "" [litA, litB]) 0 none)) []) ∧
    (∀ R, ¬ Matches R (erase (.cat "" [litA, .rep "" .star litB 0 none])) []) := by
  refine ⟨by decide +kernel, by rfl, fun R => ?_, fun R => ?_⟩
  · exact (matchIR_iff R [] _).1 (by rfl)
  · intro h
    have h1 := (matchIR_iff R [] _).2 h
    have h2 : matchIR R (erase (.cat "" [litA, .rep "" .star litB 0 none])) [] = false := by rfl
    rw [h2] at h1
    exact Bool.false_ne_true h1

/-- `'a'{2,}` was printed `'a'{2,5}` when the cap was 5: six `a` are in the language of the original
    (under a larger cap) and not of the node read back -/
theorem C15_prefix_printer_closed_open_bound :
    read 5 (print (PrintCfg.preFix 5) (.rep "" .braces litA 2 none))
      = some (.rep "" .braces litA 2 (some 5)) ∧
    (∀ R, Matches R (erase (.rep "" .braces litA 2 none)) (List.replicate 6 (.leaf (.text [97])))) ∧
    (∀ R, ¬ Matches R (erase (.rep "" .braces litA 2 (some 5))) (List.replicate 6 (.leaf (.text [97])))) := by
  refine ⟨by rfl, fun R => ?_, fun R => ?_⟩
  · exact (matchIR_iff R _ _).1 (by rfl)
  · intro h
    have h1 := (matchIR_iff R _ _).2 h
    have h2 : matchIR R (erase (.rep "" .braces litA 2 (some 5))) (List.replicate 6 (.leaf (.text [97]))) = false := by rfl
    rw [h2] at h1
    exact Bool.false_ne_true h1

/-- the same two nodes under the current printer: read back as themselves -/
example : read 20 (print Generated.printCfg (.rep "" .star (.cat "" [litA, litB]) 0 none))
    = some (.rep "" .star (.cat "" [litA, litB]) 0 none) := by rfl
example : read 5 (print Generated.printCfg (.rep "" .braces litA 2 none))
    = some (.rep "" .braces litA 2 none) := by rfl

/-! ## 5. quoting of string and bytes literals -/

/-- `eval(repr(s)) == s` for every `str` (code points below 0x110000, lone surrogates included),
    whatever CPython considers printable: quote choice, `\\ \' \"`, `\t \n \r`, `\xNN`, `\uNNNN`,
    `\UNNNNNNNN` -/
theorem C15_literal_roundtrip_str (P : Nat → Bool) (s : Str) (h : ∀ c ∈ s, c < 1114112) :
    PyLit.evalStr (PyLit.reprStr P s) = some s :=
  PyLit.evalStr_reprStr P s h

/-- `eval(repr(b)) == b` for every `bytes` -/
theorem C15_literal_roundtrip_bytes (b : Bytes) :
    PyLit.evalBytes (PyLit.reprBytes (b.map (·.val))) = some (b.map (·.val)) := by
  apply PyLit.evalBytes_reprBytes
  intro c hc
  obtain ⟨x, _, rfl⟩ := List.mem_map.1 hc
  exact x.isLt

/-- non-vacuity: `it's "q"\n\x00é` (é printable) and `b"'\xff\\"` -/
example : PyLit.reprStr (fun c => c == 233) [105, 116, 39, 115, 32, 34, 113, 34, 10, 0, 233]
    = [39, 105, 116, 92, 39, 115, 32, 34, 113, 34, 92, 110, 92, 120, 48, 48, 233, 39] := by decide +kernel
example : PyLit.reprBytes [39, 255, 92] = [98, 34, 39, 92, 120, 102, 102, 92, 92, 34] := by decide +kernel

/-! ## 6. quoting of regex terminals (`Terminal.format_as_spec` for `is_regex`, `_spell_regex`)

FULL STATEMENT: for every regex pattern the spec language can express (`regexWf`: the value of a raw
literal, str or bytes), the printed literal is accepted by the lexer + CPython and evaluates to a
pattern that denotes the same regex.
PROVED: `C15_regex_literal_roundtrip` — under the guard `noBareFF` (no *unescaped* form feed in a str
pattern; the guard is necessary: `C15_regex_formfeed_rejected`, finding C15/regex-formfeed):
  (a) the literal is read back as the *spelled* pattern, of the same type (str / bytes);
  (b) where the printer rewrites nothing the spelled pattern IS the pattern (identical string);
  (c) where it rewrites (`'`→`\x27` with both quote kinds, `\n` `\r`, non-printable-ASCII of a bytes
      pattern; an escaped `\c` is replaced as a whole) the spelled pattern denotes what the pattern
      denotes for every `D` that satisfies the named oracle assumption `PyLit.HexEscapeSound`
      ("wherever a unit stands, `c`, `\c` and `\xNN` mean the same").  The harness checks every
      instance the proof uses (`PyLit.spellSteps`) against CPython `re` on its candidate set; CPython
      refutes the assumption exactly for whitespace in verbose `(?x)` patterns
      (finding C15/regex-verbose-whitespace). -/

/-- **regex literal round trip** (a), (b), (c) above -/
theorem C15_regex_literal_roundtrip (isBytes : Bool) (pat : List Nat)
    (hw : PyLit.regexWf isBytes pat = true) (hff : isBytes = false → PyLit.noBareFF pat = true) :
    PyLit.evalRaw (PyLit.printRegex isBytes pat) = some (isBytes, PyLit.spelled isBytes pat) ∧
    (PyLit.rewrites (PyLit.regexQuote pat).2 isBytes pat = false → PyLit.spelled isBytes pat = pat) ∧
    (∀ {α : Type} (D : List Nat → α),
      PyLit.HexEscapeSound D (PyLit.needsSpell (PyLit.regexQuote pat).2 isBytes) →
      D (PyLit.spelled isBytes pat) = D pat) := by
  refine ⟨PyLit.evalRaw_printRegex isBytes pat hw hff, fun h => ?_, fun D H => ?_⟩
  · apply PyLit.spellRegex_id
    intro c hc
    simp only [PyLit.rewrites, List.any_eq_false] at h
    simpa using h c hc
  · simpa [PyLit.spelled] using PyLit.spellRegex_denotes D _ _ H pat [] (PyLit.spelled_lt_256 isBytes pat hw) rfl

/-- the spelled form is stable: printing the pattern read back spells nothing new, so
    `print ∘ read ∘ print = print` on regex literals whose delimiter choice is unchanged
    (stated on the spelling function: spelling is idempotent) -/
theorem C15_regex_spelling_idempotent (isBytes : Bool) (pat : List Nat) :
    PyLit.spellRegex (PyLit.regexQuote pat).2 isBytes (PyLit.spelled isBytes pat)
      = PyLit.spelled isBytes pat :=
  PyLit.spellRegex_idem' _ isBytes (PyLit.quoteOk_regexQuote pat) pat

/-- non-vacuity: `x'y"z\\` (both quote kinds, two backslashes at the end), `é+` and the bytes
    pattern `\<ff>'"` are expressible; their printed forms -/
example : PyLit.regexWf false [120, 39, 121, 34, 122, 92, 92] = true ∧
    PyLit.noBareFF [120, 39, 121, 34, 122, 92, 92] = true := by decide
example : PyLit.printRegex false [120, 39, 121, 34, 122, 92, 92]
    = [114, 39, 120, 92, 120, 50, 55, 121, 34, 122, 92, 92, 39] := by decide +kernel
example : PyLit.printRegex false [233, 43] = [114, 39, 233, 43, 39] := by decide +kernel
example : PyLit.regexWf true [92, 255, 39, 34] = true := by decide
example : PyLit.printRegex true [92, 255, 39, 34]
    = [114, 98, 39, 92, 120, 102, 102, 92, 120, 50, 55, 34, 39] := by decide +kernel
/-- the oracle assumption is satisfiable by a non-constant `D`: the spelling itself -/
example (isBytes : Bool) (pat : List Nat) :
    PyLit.HexEscapeSound (PyLit.spellRegex (PyLit.regexQuote pat).2 isBytes)
      (PyLit.needsSpell (PyLit.regexQuote pat).2 isBytes) :=
  PyLit.hexEscapeSound_spell' _ isBytes (PyLit.quoteOk_regexQuote pat)

/-- **finding C15/regex-formfeed**: the str pattern `a\fb` is expressible (`r\'\'\'a<FF>b\'\'\'`), but its
    printed form `r'a<FF>b'` is rejected (the lexer's one-line string excludes a form feed), while
    the escaped `a\<FF>b` is read back as itself (`decide`: finite witnesses) -/
theorem C15_regex_formfeed_rejected :
    PyLit.regexWf false [97, 12, 98] = true ∧
    PyLit.printRegex false [97, 12, 98] = [114, 39, 97, 12, 98, 39] ∧
    PyLit.evalRaw (PyLit.printRegex false [97, 12, 98]) = none ∧
    PyLit.evalRaw (PyLit.printRegex false [97, 92, 12, 98]) = some (false, [97, 92, 12, 98]) := by
  decide +kernel

/-! ## 7. expressions with embedded selectors, generators, productions, grammars

`Repetition.bounds_constraint.expr_data_*` and `LiteralGenerator.call` are Python text with
placeholder names for the selector occurrences; `format_as_spec` substitutes each placeholder by its
search's text, the front end gives each occurrence a fresh placeholder again.  The model keeps the
structure (`Expr`: text chunks carried verbatim + selector occurrences) and drops the names.
(The selector printer is the one of the current source: `Generated.printCfg.parenSelBase = true`,
part of `C15_generated_printer_is_sound`.) -/

/-- **the payload survives**: every text chunk verbatim and in place, every selector occurrence as its
    normal form -/
theorem C15_expression_read_print (e : Expr) (h : wfE e = true) :
    readE (printE Generated.printCfg.parenSelBase e) = some (normE e) :=
  readE_printE e h

/-- … and the expression read back prints as the same text -/
theorem C15_expression_print_stable (e : Expr) :
    printE Generated.printCfg.parenSelBase (normE e) = printE Generated.printCfg.parenSelBase e :=
  printE_normE e

/-- **a production with a generator** `<a> ::= … := f(<b>, <c>)` is read back as the same
    production: right-hand side in normal form, the generator expression with its symbol arguments -/
theorem C15_rule_read_print (cap : Nat) (r : Rule) (h : wfRule cap r = true) :
    readRule cap (printRule Generated.printCfg r) = some (normRule r) :=
  readRule_printRule _ C15_generated_printer_is_sound cap r h

/-- **`repr(grammar)`** (`Grammar.__repr__`: one production per rule, in order) is read back as the same
    list of rules, for every grammar with pairwise different rule names (which a `dict` of rules has) -/
theorem C15_grammar_read_print (cap : Nat) (g : List Rule) (h : wfG cap g = true) :
    readG cap (printG Generated.printCfg g) = some (normG g) :=
  readG_printG _ C15_generated_printer_is_sound cap g h

/-- non-vacuity: `<a> ::= 'x' | 'xx' := dup(<b>)`, `<b> ::= <c>{int(<cnt>)}` -/
def exGrammar : List Rule :=
  [⟨"<a>", .alt "a1" [.term (.lit (.text [120])), .term (.lit (.text [120, 120]))],
      some [.code "dup(", .sel (.plain (.rule "<b>")), .code ")"]⟩,
   ⟨"<b>", .crep "r1" (.nt "<c>" none none) (.single [.code "int(", .sel (.plain (.rule "<cnt>")), .code ")"]), none⟩]
example : wfG 20 exGrammar = true := by decide
example : readG 20 (printG Generated.printCfg exGrammar) = some (normG exGrammar) :=
  C15_grammar_read_print 20 exGrammar (by decide)

/-! ## 8. the selector sub-grammar (`search.py` `format_as_spec` / `SearchProcessor`)

BOUNDARY: these theorems are about a selector term on its own.  The layer above — the Python
expression around the placeholders, comparisons, `and` / `or` / `not`, quantifiers — is NOT proved
(open findings F18, F21, F22, F67 live there).  The printer is the one of the current source
(`pb = true`: the base of a group goes through `format_as_base`, fix 9a10ad80). -/

/-- **reading a printed search back** yields its normal form: the same search with the dots nested to
    the left (`<a>.(<b>.<c>)` is printed `<a>.<b>.<c>` and read `(<a>.<b>).<c>`), everything else —
    every `[…]` / `{…}` group with its slices / entries and its base — in place.  For every search the
    spec language can express (`wfSel`: non-empty groups, `*` entries). -/
theorem C15_search_print_read (s : PS.Sel) (h : PS.wfSel s = true) :
    PS.readSel (PS.printSel true s) = some (PS.normSel s) :=
  PS.readSel_printSel s h

/-- **exact round trip** for every search in normal form (what the front end builds from a text
    without redundant parentheses) -/
theorem C15_search_print_read_exact (s : PS.Sel) (h : PS.wfSel s = true) (hf : PS.isNorm s = true) :
    PS.readSel (PS.printSel true s) = some s := by
  rw [PS.readSel_printSel s h, PS.normSel_isNorm s hf]

/-- the reading is in normal form, and prints as the same tokens: `print ∘ read ∘ print = print` -/
theorem C15_search_norm_stable (s : PS.Sel) :
    PS.isNorm (PS.normSel s) = true ∧ PS.printSel true (PS.normSel s) = PS.printSel true s :=
  ⟨PS.isNorm_normSel s, PS.printSel_normSel s⟩

/-- `*<a>…`, `|<a>…|`, `len(*<a>…)`: the whole `selector_length` -/
theorem C15_selector_print_read (t : PS.Top) (h : PS.wfTop t = true) :
    PS.readTop (PS.printTop true t) = some (PS.normTop t) :=
  PS.readTop_printTop t h

/-- **the search read back FINDS what the original finds**: for every tree, scope and mode (`find` /
    `find_direct`) the same containers with the same trees in the same order, and it raises exactly when
    the original raises (`PS.sem`: the result of the shared model of `find`, `Model/Search.lean`, with the
    identity of the exception forgotten — after `<a>.(<b>.<c>)` has become `(<a>.<b>).<c>` another base
    tree's exception may be met first). -/
theorem C15_search_roundtrip_same_find (t : PS.Top) (h : PS.wfTop t = true) :
    ∃ t', PS.readTop (PS.printTop true t) = some t' ∧
      ∀ (direct : Bool) (tree : Tree) (σ : Scope),
        PS.sem direct (PS.topSearch t') tree σ = PS.sem direct (PS.topSearch t) tree σ :=
  ⟨PS.normTop t, PS.readTop_printTop t h, fun d tr σ => PS.sem_normTop t d tr σ⟩

/-- slices with omitted bounds keep their places: `[:2]` is not `[2:]`, `[::2]` keeps its step
    (`decide`: finite witnesses) -/
theorem C15_slice_bounds_keep_their_places :
    PS.readSel (PS.printSel true (.item (.rule "<a>") [.rng none (some 2) none])) = some (.item (.rule "<a>") [.rng none (some 2) none]) ∧
    PS.readSel (PS.printSel true (.item (.rule "<a>") [.rng (some 2) none none])) = some (.item (.rule "<a>") [.rng (some 2) none none]) ∧
    PS.readSel (PS.printSel true (.item (.rule "<a>") [.rng none none (some 2), .idx 0, .rng none none none]))
      = some (.item (.rule "<a>") [.rng none none (some 2), .idx 0, .rng none none none]) ∧
    PS.printSel true (.item (.rule "<a>") [.rng none (some 2) none]) ≠ PS.printSel true (.item (.rule "<a>") [.rng (some 2) none none]) := by
  decide +kernel

/-- **the printer before 9a10ad80 (finding F66, fixed)**, machine-checked counterexample: it printed
    the base of a group bare, so `(<start>.<a>.<c>){*<x>, *<y>}` came out as `<start>.<a>.<c>{*<x>, *<y>}`
    and was read back as `<start>.<a>.(<c>{*<x>, *<y>})`; a `{…}` group looks up its entries one after
    the other over ALL base trees, so on the tree of `prqs` (`<start> ::= <a> <a>; <a> ::= <c>;
    <c> ::= <x> <y>`) the search finds `p q r s` and the search read back `p r q s` (same trees, other
    order — visible through a `*` selection).  Under the current printer it is read back as itself.
    On the shared model of `find` (`Model/Search.lean`); `decide +kernel`: a finite witness. -/
def exParens : PS.Sel :=
  .sel (.attr (.attr (.rule "<start>") (.rule "<a>")) (.rule "<c>")) [⟨"<x>", false, none⟩, ⟨"<y>", false, none⟩]
def exParensOld : PS.Sel :=
  .attr (.attr (.rule "<start>") (.rule "<a>")) (.sel (.rule "<c>") [⟨"<x>", false, none⟩, ⟨"<y>", false, none⟩])
def exParensTree : Tree :=
  let c (x y : Nat) : Tree := .node "<c>" [.node "<x>" [.leaf (.text [x])], .node "<y>" [.leaf (.text [y])]]
  .node "<start>" [.node "<a>" [c 112 114], .node "<a>" [c 113 115]]

theorem C15_search_parens_matter :
    PS.readSel (PS.printSel false exParens) = some exParensOld ∧
    PS.foundLeaves exParens exParensTree
      = some [[.text [112]], [.text [113]], [.text [114]], [.text [115]]] ∧
    PS.foundLeaves exParensOld exParensTree
      = some [[.text [112]], [.text [114]], [.text [113]], [.text [115]]] ∧
    PS.readSel (PS.printSel true exParens) = some exParens := by
  decide +kernel

/-- non-vacuity: `(<a>..<b>.<c>){*<d>, *<e>: 0:2}` is in normal form and read back as itself; a
    parenthesised attribute `<a>.((<b>.<c>)[0])` keeps its group on the dotted base and loses only the
    redundant nesting of the dots; a group on a group `(<a>[0])[1]` is read back as itself -/
def exSel : PS.Sel :=
  .sel (.attr (.desc (.rule "<a>") (.rule "<b>")) (.rule "<c>")) [⟨"<d>", false, none⟩, ⟨"<e>", false, some (.rng (some 0) (some 2) none)⟩]
example : PS.wfSel exSel = true ∧ PS.isNorm exSel = true := by decide
example : PS.readSel (PS.printSel true exSel) = some exSel := C15_search_print_read_exact exSel (by decide) (by decide)
example : PS.normSel (.attr (.rule "<a>") (.attr (.item (.attr (.rule "<b>") (.rule "<c>")) [.idx 0]) (.rule "<d>")))
    = .attr (.attr (.rule "<a>") (.item (.attr (.rule "<b>") (.rule "<c>")) [.idx 0])) (.rule "<d>") := by decide
example : PS.readSel (PS.printSel true (.item (.item (.rule "<a>") [.idx 0]) [.idx 1]))
    = some (.item (.item (.rule "<a>") [.idx 0]) [.idx 1]) := by decide +kernel

end FV
