/-
C16 — generator-defined fields carry generator output and are not edited behind it.   (PARTIAL, see §6)

Model: `Model/Gen.lean` (trees with `sources` and read-only flags, `generate`, `fuzzGen`, `regen`, the
invariant `GenInv`, its checker `genInvB`).  `Generated/GenFlags.lean` is rewritten on every run from /repo's
source by `harness/translate_gen.py`; the theorems below are stated for those constants.
Tie: `harness/props/c16.py` wraps the generator calls of real runs, sends every emitted tree and every population
member (with sources, flags and the call log) to `genInvB` (proved ↔ `GenInv` here), and compares `generate` /
`regen` / `replaceAt` with the real `Grammar.generate` / `replace_multiple`.
Every `theorem` in this file is an obligation audited with `#print axioms`.
-/
import Proofs.Gen
import Generated.GenFlags
namespace FV.Gen
open GTree

/-- the parser returns children whose text is the value it was given (its fit with the rule is C04/C05) -/
def ParseFits (parse : Parser) : Prop := ∀ s v kids, parse s v = some kids → textL kids = v

/-! ## 0. what the current source does (regenerated constants) -/

/-- the code paths the theorems below rely on are still there: `NonTerminalNode.fuzz` and
    `_populate_sources` mark generator output read-only, `replace_multiple` tests `read_only`,
    `Grammar.generate` raises when the value does not parse and assigns no substitute -/
theorem C16_source_facts :
    Generated.fuzzMarksReadOnly = true ∧ Generated.populateMarksReadOnly = true ∧
    Generated.replaceChecksReadOnly = true ∧ Generated.unfitValueRaises = true := by decide

/-! ## 1. the checker decides the invariant -/

theorem C16_checker_decides_inv (S : Spec) (log : Log) (path : List String) (t : GTree) :
    genInvB S log path t = true ↔ GenInv S log path t :=
  genInvB_iff S log path t

/-! ## 2. a generator call: the value is logged, parsed under the symbol, or an error is raised -/

/-- what `Grammar.generate` returns: the symbol's node over the parse of the returned value, with the
    arguments recorded as sources; the call is logged with the argument *values* -/
theorem C16_generate_ok (S : Spec) (parse : Parser) (s : String) (srcs : List GTree) (v : Val) (t : GTree)
    (e : LogEntry) (h : generate S parse s srcs v = .ok (t, e)) :
    ∃ ps args kids, S.params s = some ps ∧ argsOf ps srcs = some args ∧ parse s v = some kids ∧
      t = .node s false kids srcs ∧ e = ⟨s, args, v⟩ := by
  unfold generate at h
  split at h
  · simp at h
  · rename_i ps hps
    split at h
    · simp at h
    · rename_i args ha
      split at h
      · simp at h
      · rename_i kids hk
        simp only [Except.ok.injEq, Prod.mk.injEq] at h
        exact ⟨ps, args, kids, hps, ha, hk, h.1.symm, h.2.symm⟩

/-- **a generator value that does not fit the rule raises** — `generate` never returns a tree then -/
theorem C16_unfit_value_raises (S : Spec) (parse : Parser) (s : String) (srcs : List GTree) (v : Val)
    (ps : List String) (args : List Val) (hps : S.params s = some ps) (ha : argsOf ps srcs = some args)
    (hunfit : parse s v = none) :
    generate S parse s srcs v = .error .parseError ∧ fuzzGen S parse s srcs v = .error .parseError ∧
      ∀ m ro, regen m S parse s ro srcs v = .error .parseError := by
  have hg : generate S parse s srcs v = .error .parseError := by
    unfold generate; simp [hps, ha, hunfit]
  refine ⟨hg, ?_, ?_⟩
  · unfold fuzzGen; simp [hg]
  · intro m ro; unfold regen; simp [hg]

/-- **`NonTerminalNode.fuzz`, generator branch, establishes the invariant**: the node's text is the returned
    value, logged for the values of the arguments it keeps as sources, and its children are read-only -/
theorem C16_fuzz_establishes_inv (S : Spec) (parse : Parser) (hp : ParseFits parse) (log : Log)
    (path : List String) (s : String) (ps : List String) (params : List GTree) (v : Val) (t : GTree) (e : LogEntry)
    (huse : S.useGen (path ++ [s]) s = some ps)
    (hparams : GenInvL S log (path ++ [s]) params)
    (h : fuzzGen S parse s params v = .ok (t, e)) :
    GenInv S (e :: log) path t ∧ t.text = v ∧ e.value = v := by
  unfold fuzzGen at h
  cases hg : generate S parse s params v with
  | error x => simp [hg] at h
  | ok r =>
    obtain ⟨t0, e0⟩ := r
    obtain ⟨ps', args, kids, hps, ha, hk, rfl, rfl⟩ := C16_generate_ok S parse s params v t0 e0 hg
    simp only [hg, Except.ok.injEq, Prod.mk.injEq] at h
    obtain ⟨rfl, rfl⟩ := h
    have hpseq : ps' = ps := by
      have := useGen_params huse
      rw [hps] at this
      exact Option.some.inj this
    subst hpseq
    have htext : textL (setROL true kids) = v := by rw [textL_setROL]; exact hp s v kids hk
    refine ⟨?_, by simpa [text] using htext, rfl⟩
    simp only [GenInv, huse]
    refine ⟨⟨⟨args, ha, ?_⟩, allROL_setROL kids⟩,
      genInvL_mono (fun x hx => List.mem_cons_of_mem _ hx) _ params hparams⟩
    rw [htext]
    exact List.mem_cons_self ..

/-! ## 3. search operators -/

/-- everything below a generator node is read-only: a path that enters generated output ends at a
    read-only node -/
theorem C16_generated_output_is_read_only (S : Spec) (log : Log) (path : List String) (s : String) (r : Bool)
    (kids srcs : List GTree) (ps : List String) (i : Nat) (p : List Nat) (k u : GTree)
    (hinv : GenInv S log path (.node s r kids srcs)) (huse : S.useGen (path ++ [s]) s = some ps)
    (hk : kids[i]? = some k) (hu : subAt k p = some u) : u.ro = true := by
  simp only [GenInv, huse] at hinv
  exact allRO_sub k p u (allROL_get kids i k hinv.1.2 hk) hu

/-- **a read-only node is not replaced** (`replace_multiple`'s `not self.read_only` test) -/
theorem C16_readonly_untouched (t u x : GTree) (p : List Nat) (hx : subAt t p = some x) (hro : x.ro = true) :
    replaceAt t p u = t := by
  unfold replaceAt
  simp [hx, hro]

/-- hence generated text cannot be replaced in place -/
theorem C16_generated_text_not_replaced (S : Spec) (log : Log) (s : String) (r : Bool) (kids srcs : List GTree)
    (ps : List String) (i : Nat) (p : List Nat) (u : GTree)
    (hinv : GenInv S log [] (.node s r kids srcs)) (huse : S.useGen [s] s = some ps) :
    replaceAt (.node s r kids srcs) (i :: p) u = .node s r kids srcs := by
  cases hsub : subAt (.node s r kids srcs) (i :: p) with
  | none => unfold replaceAt; simp [hsub]
  | some x =>
    have hx := hsub
    simp only [subAt] at hx
    cases hk : kids[i]? with
    | none => simp [hk] at hx
    | some k =>
      simp only [hk] at hx
      exact C16_readonly_untouched _ u x _ hsub
        (C16_generated_output_is_read_only S log [] s r kids srcs ps i p k x hinv (by simpa using huse) hk hx)

/-- **replacement outside generated output keeps the invariant** (crossover, mutation, repair at a node that
    no generator owns), given the incoming subtree meets the invariant at that place -/
theorem C16_replace_outside_inv (S : Spec) (log : Log) (path : List String) (t u : GTree) (p : List Nat)
    (ht : GenInv S log path t) (hout : NoGenOnPath S path t p) (hu : GenInv S log (pathAt path t p) u) :
    GenInv S log path (replaceAt t p u) := by
  unfold replaceAt
  split
  · split
    · exact putAt_inv p path t u ht hout hu
    · exact ht
  · exact ht

/-- **re-running the generator after an argument changed** restores "text = value returned for the recorded
    arguments"; the children are read-only again iff the branch marks them -/
theorem C16_regen_text (m : Bool) (S : Spec) (parse : Parser) (hp : ParseFits parse) (s : String) (ro : Bool)
    (srcs' : List GTree) (v : Val) (t : GTree) (e : LogEntry) (h : regen m S parse s ro srcs' v = .ok (t, e)) :
    ∃ ps args kids, S.params s = some ps ∧ argsOf ps srcs' = some args ∧ e = ⟨s, args, v⟩ ∧
      t = .node s ro kids srcs' ∧ textL kids = v ∧ (m = true → allROL kids = true) := by
  unfold regen at h
  cases hg : generate S parse s srcs' v with
  | error x => simp [hg] at h
  | ok r =>
    obtain ⟨t0, e0⟩ := r
    obtain ⟨ps, args, kids, hps, ha, hk, rfl, rfl⟩ := C16_generate_ok S parse s srcs' v t0 e0 hg
    simp only [hg, Except.ok.injEq, Prod.mk.injEq] at h
    obtain ⟨rfl, rfl⟩ := h
    refine ⟨ps, args, _, hps, ha, rfl, rfl, ?_, ?_⟩
    · cases m
      · simpa using hp s v kids hk
      · simp only [if_true]; rw [textL_setROL]; exact hp s v kids hk
    · intro hm; subst hm; simp only [if_true]; exact allROL_setROL kids

/-- with the marking, the regenerated node meets the invariant -/
theorem C16_regen_restores_inv (S : Spec) (parse : Parser) (hp : ParseFits parse) (log : Log)
    (path : List String) (s : String) (ps : List String) (ro : Bool) (srcs' : List GTree) (v : Val) (t : GTree)
    (e : LogEntry) (huse : S.useGen (path ++ [s]) s = some ps) (hsrc : GenInvL S log (path ++ [s]) srcs')
    (h : regen true S parse s ro srcs' v = .ok (t, e)) : GenInv S (e :: log) path t := by
  obtain ⟨ps', args, kids, hps, ha, rfl, rfl, htext, hro⟩ := C16_regen_text true S parse hp s ro srcs' v t e h
  have hpseq : ps' = ps := by
    have := useGen_params huse
    rw [hps] at this
    exact Option.some.inj this
  subst hpseq
  simp only [GenInv, huse]
  refine ⟨⟨⟨args, ha, ?_⟩, hro rfl⟩, genInvL_mono (fun x hx => List.mem_cons_of_mem _ hx) _ srcs' hsrc⟩
  rw [htext]
  exact List.mem_cons_self ..

/-! ## 4. all sequences of the operators above -/

/-- (log, population) pairs reachable by: fresh trees whose generator nodes were all produced by the generator
    branch of `fuzz` (`fresh`; `C16_fuzz_establishes_inv` discharges its premise node by node), replacement
    outside generated output by a subtree that meets the invariant in place (`replace`), re-running a generator
    whose arguments changed (`regenAt`, with the marking), more logging (`log`), selection (`select`). -/
inductive GReach (S : Spec) (parse : Parser) : Log → List GTree → Prop
  | init : GReach S parse [] []
  | fresh {log : Log} {pop : List GTree} {t : GTree} :
      GReach S parse log pop → GenInv S log [] t → GReach S parse log (t :: pop)
  | log {log : Log} {pop : List GTree} (e : LogEntry) :
      GReach S parse log pop → GReach S parse (e :: log) pop
  | replace {log : Log} {pop : List GTree} {t u : GTree} {p : List Nat} :
      GReach S parse log pop → t ∈ pop → NoGenOnPath S [] t p → GenInv S log (pathAt [] t p) u →
      GReach S parse log (replaceAt t p u :: pop)
  | regenAt {log : Log} {pop : List GTree} {t a : GTree} {p : List Nat} {s : String} {ro : Bool}
      {kids srcs srcs' : List GTree} {ps : List String} {v : Val} {e : LogEntry} :
      GReach S parse log pop → t ∈ pop → NoGenOnPath S [] t p → subAt t p = some (.node s ro kids srcs) →
      S.useGen (pathAt [] t p ++ [s]) s = some ps → GenInvL S log (pathAt [] t p ++ [s]) srcs' →
      regen true S parse s ro srcs' v = .ok (a, e) →
      GReach S parse (e :: log) (putAt t p a :: pop)
  | select {log : Log} {pop pop' : List GTree} :
      GReach S parse log pop → (∀ t ∈ pop', t ∈ pop) → GReach S parse log pop'

/-- **the invariant holds in every reachable population** (induction over operator sequences) -/
theorem C16_reachable_inv (S : Spec) (parse : Parser) (hp : ParseFits parse) (log : Log) (pop : List GTree)
    (h : GReach S parse log pop) : ∀ t ∈ pop, GenInv S log [] t := by
  induction h with
  | init => intro t ht; simp at ht
  | fresh _ hinv ih =>
    intro t ht
    rcases List.mem_cons.1 ht with rfl | ht
    · exact hinv
    · exact ih t ht
  | log e _ ih =>
    intro t ht
    exact genInv_mono (fun x hx => List.mem_cons_of_mem _ hx) _ t (ih t ht)
  | replace _ hm hout hu ih =>
    intro t ht
    rcases List.mem_cons.1 ht with rfl | ht
    · exact C16_replace_outside_inv S _ [] _ _ _ (ih _ hm) hout hu
    · exact ih t ht
  | @regenAt log0 pop0 t0 a0 p0 s0 ro0 kids0 srcs0 srcs1 ps0 v0 e0 _ hm hout _ huse hsrc hreg ih =>
    intro t ht
    rcases List.mem_cons.1 ht with rfl | ht
    · have hold : GenInv S (e0 :: log0) [] t0 :=
        genInv_mono (fun x hx => List.mem_cons_of_mem _ hx) [] _ (ih _ hm)
      exact putAt_inv _ [] _ _ hold hout (C16_regen_restores_inv S parse hp _ _ _ _ _ _ _ _ _ huse hsrc hreg)
    · exact genInv_mono (fun x hx => List.mem_cons_of_mem _ hx) _ t (ih t ht)
  | select _ hsub ih =>
    intro t ht
    exact ih t (hsub t ht)

/-! ## 5. witnesses: where the current code leaves the invariant -/

/-- `<g> ::= … := "abc"` -/
def exS : Spec := { gens := [("<g>", [])] }
def exLog : Log := [⟨"<g>", [], [97, 98, 99]⟩]
/-- `<start>(<g>("abc"), "-")`, as fuzzed -/
def exT : GTree := .node "<start>" false [.node "<g>" false [.leaf [97, 98, 99] true] [], .leaf [45] false] []
/-- what equality repair (`where <g> == "xyz"`) installs: the wanted value parsed under `<g>`,
    children marked read-only by `populate_sources` -/
def exRepair : GTree := .node "<g>" false [.leaf [120, 121, 122] true] []

/-- **parse-based equality repair on the generator node itself breaks the invariant**: the node is not
    read-only, has the right symbol — `replace_multiple` swaps it — and the text "xyz" was never returned.
    (Replayed on the implementation by `harness/props/c16.py`, case `eq_repair_witness`.) -/
theorem C16_parse_repair_breaks_inv :
    genInvB exS exLog [] exT = true ∧ genInvB exS exLog [] (replaceAt exT [0] exRepair) = false ∧
      (replaceAt exT [0] exRepair).text = [120, 121, 122, 45] := by decide

/-- a parser that returns writable children, as `Grammar.parse` does -/
def exParse : Parser := fun _ v => some [.leaf v false]

/-- **without the marking, re-running the generator leaves its output writable** and the invariant fails;
    with it, it holds -/
theorem C16_regen_writable_breaks_inv :
    (match regen false exS exParse "<g>" false [] [97] with
     | .ok (t, e) => genInvB exS (e :: exLog) [] t
     | .error _ => true) = false ∧
    (match regen true exS exParse "<g>" false [] [97] with
     | .ok (t, e) => genInvB exS (e :: exLog) [] t
     | .error _ => false) = true := by decide

/-- what that means for the source as it is now (`Generated.regenMarksReadOnly`) -/
theorem C16_regen_current :
    (Generated.regenMarksReadOnly = true →
      ∀ (S : Spec) (parse : Parser), ParseFits parse → ∀ (log : Log) (path : List String) (s : String)
        (ps : List String) (ro : Bool) (srcs' : List GTree) (v : Val) (t : GTree) (e : LogEntry),
        S.useGen (path ++ [s]) s = some ps → GenInvL S log (path ++ [s]) srcs' →
        regen Generated.regenMarksReadOnly S parse s ro srcs' v = .ok (t, e) → GenInv S (e :: log) path t) ∧
    (Generated.regenMarksReadOnly = false →
      (match regen Generated.regenMarksReadOnly exS exParse "<g>" false [] [97] with
       | .ok (t, e) => genInvB exS (e :: exLog) [] t
       | .error _ => true) = false) := by
  constructor
  · intro hflag S parse hp log path s ps ro srcs' v t e huse hsrc h
    rw [hflag] at h
    exact C16_regen_restores_inv S parse hp log path s ps ro srcs' v t e huse hsrc h
  · intro hflag
    rw [hflag]
    exact C16_regen_writable_breaks_inv.1

/-! ## 6. what is NOT proved (why this file is `partial`)

`replace_multiple` as a whole — its recursion through `sources`, the cascade of `regen_children`, `regen_params`
with converters (`derive_sources`), `populate_sources` on the installed copy — is not modelled as one function;
the theorems above cover its building blocks (read-only refusal, replacement outside generated output,
regeneration) and every sequence of those (`C16_reachable_inv`).  That the real recursion only ever performs
these steps is checked by correspondence and by running `genInvB` on every real tree, not proved.
The full statement, for a faithful recursive model `replaceG` of `replace_multiple`, would be: -/

/-- full statement (NOT proved), for a faithful model `replaceG` of the whole of `replace_multiple`
    (replacement list keyed by child/source paths, threading the call log): it keeps the invariant whenever the
    individual and the replacement trees meet it -/
def C16_FullStatement
    (replaceG : Spec → Parser → Log → GTree → List (List Nat × GTree) → Option (GTree × Log)) : Prop :=
  ∀ (S : Spec) (parse : Parser), ParseFits parse →
    ∀ (log log' : Log) (t t' : GTree) (repl : List (List Nat × GTree)),
      GenInv S log [] t → (∀ r ∈ repl, GenInv S log [] r.2) → replaceG S parse log t repl = some (t', log') →
      GenInv S log' [] t'

/-! ## 7. non-vacuity -/

/-- `C16_fuzz_establishes_inv`: a dependent generator `<len> := str(len(<body>))`, argument "ab" -/
def exS2 : Spec := { gens := [("<len>", ["<body>"])] }
def exBody : GTree := .node "<body>" false [.leaf [97, 98] false] []
example : fuzzGen exS2 exParse "<len>" [exBody] [50]
    = .ok (.node "<len>" false [.leaf [50] true] [exBody], ⟨"<len>", [[97, 98]], [50]⟩) := by rfl
example : ParseFits exParse := by
  intro s v kids h
  simp only [exParse, Option.some.injEq] at h
  subst h
  simp [textL, text]
example : exS2.useGen ([] ++ ["<len>"]) "<len>" = some ["<body>"] := by decide
example : GenInvL exS2 [] ([] ++ ["<len>"]) [exBody] := (genInvLB_iff _ _ _ _).1 (by decide)
/-- `C16_unfit_value_raises`: a parser that rejects everything -/
example : generate exS2 (fun _ _ => none) "<len>" [exBody] [50] = .error .parseError := by rfl
/-- `C16_readonly_untouched` / `C16_generated_text_not_replaced` -/
example : replaceAt exT [0, 0] (.leaf [120] false) = exT := by rfl
/-- `C16_replace_outside_inv`: the `"-"` leaf is outside generated output -/
example : NoGenOnPath exS [] exT [1] := ⟨by decide, trivial⟩
example : GReach exS exParse exLog [exT] :=
  .fresh (.log _ .init) ((genInvB_iff _ _ _ _).1 (by decide))

end FV.Gen
