/-
C16 — generator-defined fields carry generator output and are not edited behind it.

Model: `Model/Gen.lean` (trees with `sources` and read-only flags, `generate`, `fuzzGen`, `regen`, the invariant
`GenInv`, its checker `genInvB`) and `Model/GenReplace.lean` (the WHOLE of `DerivationTree.replace_multiple` as one
function `replaceTop`, with `populate_sources`, `derive_sources`, `_topological_sort`, `derive_generator_output`,
the generator as an oracle with a call log).  `Generated/GenFlags.lean` is rewritten on every run from /repo's source
by `harness/translate_gen.py`.
Tie: `harness/props/c16.py` (a) runs the REAL `replace_multiple` on real trees with sources (constant / random /
dependent / converter / nested / chained generators; replacements aimed at generated fields, their arguments, nodes
inside generated output, nodes outside, several at once) and compares tree, sources, read-only flags and generator
call log with `replaceTop` exactly; (b) sends every emitted tree and population member to `genInvB`.

PROVED for the whole function (§6): `C16_replace_multiple_inv` (invariant kept for all trees / replacement lists /
generator oracles / fuel, given the installed copies meet it as `populate_sources` left them),
`C16_replace_multiple_generated_untouched`, `C16_replace_multiple_inv_genfree` (no proviso for generator-free
replacement material), `C16_reachable_inv_whole` (all sequences with the whole function as a step).
REFUTED: the unconditional `C16_FullStatement` (`C16_FullStatement_refuted`: a converter that is not inverse to its
generator; `C16_whole_parse_repair_breaks_inv`: F31 through the whole function;
`C16_derive_param_writable_breaks_inv` / `C16_derive_current`: `derive_sources` re-creates a generator-defined parameter
with writable output — finding C16/derive-sources-leaves-parameter-output-writable).
Every `theorem` in this file is an obligation audited with `#print axioms`.
-/
import Proofs.Gen
import Proofs.GenReplace
import Generated.GenFlags
namespace FV.Gen
open GTree

/-! ## 0. what the current source does (regenerated constants) -/

/-- the code paths the theorems below rely on are still there: `NonTerminalNode.fuzz` and
    `_populate_sources` mark generator output read-only, `replace_multiple` tests `read_only`,
    `Grammar.generate` raises when the value does not parse and assigns no substitute -/
theorem C16_source_facts :
    Generated.fuzzMarksReadOnly = true ∧ Generated.populateMarksReadOnly = true ∧
    Generated.replaceChecksReadOnly = true ∧ Generated.unfitValueRaises = true := by decide

/-! ## 1. the checker decides the invariant -/

theorem C16_checker_decides_inv (S : Spec) (log : Log) (path : List String) (t : GTree) :
    genInvB S log path t = true ↔ GenInv S log path t :=
  genInvB_iff S log path t

/-! ## 2. a generator call: the value is logged, parsed under the symbol, or an error is raised -/

/-- what `Grammar.generate` returns: the symbol's node over the parse of the returned value, with the
    arguments recorded as sources; the call is logged with the argument *values* -/
theorem C16_generate_ok (S : Spec) (parse : Parser) (s : String) (srcs : List GTree) (v : Val) (t : GTree)
    (e : LogEntry) (h : generate S parse s srcs v = .ok (t, e)) :
    ∃ ps args kids, S.params s = some ps ∧ argsOf ps srcs = some args ∧ parse s v = some kids ∧
      t = .node s false kids srcs ∧ e = ⟨s, args, v⟩ := by
  unfold generate at h
  split at h
  · simp at h
  · rename_i ps hps
    split at h
    · simp at h
    · rename_i args ha
      split at h
      · simp at h
      · rename_i kids hk
        simp only [Except.ok.injEq, Prod.mk.injEq] at h
        exact ⟨ps, args, kids, hps, ha, hk, h.1.symm, h.2.symm⟩

/-- **a generator value that does not fit the rule raises** — `generate` never returns a tree then -/
theorem C16_unfit_value_raises (S : Spec) (parse : Parser) (s : String) (srcs : List GTree) (v : Val)
    (ps : List String) (args : List Val) (hps : S.params s = some ps) (ha : argsOf ps srcs = some args)
    (hunfit : parse s v = none) :
    generate S parse s srcs v = .error .parseError ∧ fuzzGen S parse s srcs v = .error .parseError ∧
      ∀ m ro, regen m S parse s ro srcs v = .error .parseError := by
  have hg : generate S parse s srcs v = .error .parseError := by
    unfold generate; simp [hps, ha, hunfit]
  refine ⟨hg, ?_, ?_⟩
  · unfold fuzzGen; simp [hg]
  · intro m ro; unfold regen; simp [hg]

/-- **`NonTerminalNode.fuzz`, generator branch, establishes the invariant**: the node's text is the returned
    value, logged for the values of the arguments it keeps as sources, and its children are read-only -/
theorem C16_fuzz_establishes_inv (S : Spec) (parse : Parser) (hp : ParseFits parse) (log : Log)
    (path : List String) (s : String) (ps : List String) (params : List GTree) (v : Val) (t : GTree) (e : LogEntry)
    (huse : S.useGen (path ++ [s]) s = some ps)
    (hparams : GenInvL S log (path ++ [s]) params)
    (h : fuzzGen S parse s params v = .ok (t, e)) :
    GenInv S (e :: log) path t ∧ t.text = v ∧ e.value = v := by
  unfold fuzzGen at h
  cases hg : generate S parse s params v with
  | error x => simp [hg] at h
  | ok r =>
    obtain ⟨t0, e0⟩ := r
    obtain ⟨ps', args, kids, hps, ha, hk, rfl, rfl⟩ := C16_generate_ok S parse s params v t0 e0 hg
    simp only [hg, Except.ok.injEq, Prod.mk.injEq] at h
    obtain ⟨rfl, rfl⟩ := h
    have hpseq : ps' = ps := by
      have := useGen_params huse
      rw [hps] at this
      exact Option.some.inj this
    subst hpseq
    have htext : textL (setROL true kids) = v := by rw [textL_setROL]; exact hp s v kids hk
    refine ⟨?_, by simpa [text] using htext, rfl⟩
    simp only [GenInv, huse]
    refine ⟨⟨⟨args, ha, ?_⟩, allROL_setROL kids⟩,
      genInvL_mono (fun x hx => List.mem_cons_of_mem _ hx) _ params hparams⟩
    rw [htext]
    exact List.mem_cons_self ..

/-! ## 3. search operators -/

/-- everything below a generator node is read-only: a path that enters generated output ends at a
    read-only node -/
theorem C16_generated_output_is_read_only (S : Spec) (log : Log) (path : List String) (s : String) (r : Bool)
    (kids srcs : List GTree) (ps : List String) (i : Nat) (p : List Nat) (k u : GTree)
    (hinv : GenInv S log path (.node s r kids srcs)) (huse : S.useGen (path ++ [s]) s = some ps)
    (hk : kids[i]? = some k) (hu : subAt k p = some u) : u.ro = true := by
  simp only [GenInv, huse] at hinv
  exact allRO_sub k p u (allROL_get kids i k hinv.1.2 hk) hu

/-- **a read-only node is not replaced** (`replace_multiple`'s `not self.read_only` test) -/
theorem C16_readonly_untouched (t u x : GTree) (p : List Nat) (hx : subAt t p = some x) (hro : x.ro = true) :
    replaceAt t p u = t := by
  unfold replaceAt
  simp [hx, hro]

/-- hence generated text cannot be replaced in place -/
theorem C16_generated_text_not_replaced (S : Spec) (log : Log) (s : String) (r : Bool) (kids srcs : List GTree)
    (ps : List String) (i : Nat) (p : List Nat) (u : GTree)
    (hinv : GenInv S log [] (.node s r kids srcs)) (huse : S.useGen [s] s = some ps) :
    replaceAt (.node s r kids srcs) (i :: p) u = .node s r kids srcs := by
  cases hsub : subAt (.node s r kids srcs) (i :: p) with
  | none => unfold replaceAt; simp [hsub]
  | some x =>
    have hx := hsub
    simp only [subAt] at hx
    cases hk : kids[i]? with
    | none => simp [hk] at hx
    | some k =>
      simp only [hk] at hx
      exact C16_readonly_untouched _ u x _ hsub
        (C16_generated_output_is_read_only S log [] s r kids srcs ps i p k x hinv (by simpa using huse) hk hx)

/-- **replacement outside generated output keeps the invariant** (crossover, mutation, repair at a node that
    no generator owns), given the incoming subtree meets the invariant at that place -/
theorem C16_replace_outside_inv (S : Spec) (log : Log) (path : List String) (t u : GTree) (p : List Nat)
    (ht : GenInv S log path t) (hout : NoGenOnPath S path t p) (hu : GenInv S log (pathAt path t p) u) :
    GenInv S log path (replaceAt t p u) := by
  unfold replaceAt
  split
  · split
    · exact putAt_inv p path t u ht hout hu
    · exact ht
  · exact ht

/-- **re-running the generator after an argument changed** restores "text = value returned for the recorded
    arguments"; the children are read-only again iff the branch marks them -/
theorem C16_regen_text (m : Bool) (S : Spec) (parse : Parser) (hp : ParseFits parse) (s : String) (ro : Bool)
    (srcs' : List GTree) (v : Val) (t : GTree) (e : LogEntry) (h : regen m S parse s ro srcs' v = .ok (t, e)) :
    ∃ ps args kids, S.params s = some ps ∧ argsOf ps srcs' = some args ∧ e = ⟨s, args, v⟩ ∧
      t = .node s ro kids srcs' ∧ textL kids = v ∧ (m = true → allROL kids = true) := by
  unfold regen at h
  cases hg : generate S parse s srcs' v with
  | error x => simp [hg] at h
  | ok r =>
    obtain ⟨t0, e0⟩ := r
    obtain ⟨ps, args, kids, hps, ha, hk, rfl, rfl⟩ := C16_generate_ok S parse s srcs' v t0 e0 hg
    simp only [hg, Except.ok.injEq, Prod.mk.injEq] at h
    obtain ⟨rfl, rfl⟩ := h
    refine ⟨ps, args, _, hps, ha, rfl, rfl, ?_, ?_⟩
    · cases m
      · simpa using hp s v kids hk
      · simp only [if_true]; rw [textL_setROL]; exact hp s v kids hk
    · intro hm; subst hm; simp only [if_true]; exact allROL_setROL kids

/-- with the marking, the regenerated node meets the invariant -/
theorem C16_regen_restores_inv (S : Spec) (parse : Parser) (hp : ParseFits parse) (log : Log)
    (path : List String) (s : String) (ps : List String) (ro : Bool) (srcs' : List GTree) (v : Val) (t : GTree)
    (e : LogEntry) (huse : S.useGen (path ++ [s]) s = some ps) (hsrc : GenInvL S log (path ++ [s]) srcs')
    (h : regen true S parse s ro srcs' v = .ok (t, e)) : GenInv S (e :: log) path t := by
  obtain ⟨ps', args, kids, hps, ha, rfl, rfl, htext, hro⟩ := C16_regen_text true S parse hp s ro srcs' v t e h
  have hpseq : ps' = ps := by
    have := useGen_params huse
    rw [hps] at this
    exact Option.some.inj this
  subst hpseq
  simp only [GenInv, huse]
  refine ⟨⟨⟨args, ha, ?_⟩, hro rfl⟩, genInvL_mono (fun x hx => List.mem_cons_of_mem _ hx) _ srcs' hsrc⟩
  rw [htext]
  exact List.mem_cons_self ..

/-! ## 4. all sequences of the operators above -/

/-- (log, population) pairs reachable by: fresh trees whose generator nodes were all produced by the generator
    branch of `fuzz` (`fresh`; `C16_fuzz_establishes_inv` discharges its premise node by node), replacement
    outside generated output by a subtree that meets the invariant in place (`replace`), re-running a generator
    whose arguments changed (`regenAt`, with the marking), more logging (`log`), selection (`select`). -/
inductive GReach (S : Spec) (parse : Parser) : Log → List GTree → Prop
  | init : GReach S parse [] []
  | fresh {log : Log} {pop : List GTree} {t : GTree} :
      GReach S parse log pop → GenInv S log [] t → GReach S parse log (t :: pop)
  | log {log : Log} {pop : List GTree} (e : LogEntry) :
      GReach S parse log pop → GReach S parse (e :: log) pop
  | replace {log : Log} {pop : List GTree} {t u : GTree} {p : List Nat} :
      GReach S parse log pop → t ∈ pop → NoGenOnPath S [] t p → GenInv S log (pathAt [] t p) u →
      GReach S parse log (replaceAt t p u :: pop)
  | regenAt {log : Log} {pop : List GTree} {t a : GTree} {p : List Nat} {s : String} {ro : Bool}
      {kids srcs srcs' : List GTree} {ps : List String} {v : Val} {e : LogEntry} :
      GReach S parse log pop → t ∈ pop → NoGenOnPath S [] t p → subAt t p = some (.node s ro kids srcs) →
      S.useGen (pathAt [] t p ++ [s]) s = some ps → GenInvL S log (pathAt [] t p ++ [s]) srcs' →
      regen true S parse s ro srcs' v = .ok (a, e) →
      GReach S parse (e :: log) (putAt t p a :: pop)
  | select {log : Log} {pop pop' : List GTree} :
      GReach S parse log pop → (∀ t ∈ pop', t ∈ pop) → GReach S parse log pop'

/-- **the invariant holds in every reachable population** (induction over operator sequences) -/
theorem C16_reachable_inv (S : Spec) (parse : Parser) (hp : ParseFits parse) (log : Log) (pop : List GTree)
    (h : GReach S parse log pop) : ∀ t ∈ pop, GenInv S log [] t := by
  induction h with
  | init => intro t ht; simp at ht
  | fresh _ hinv ih =>
    intro t ht
    rcases List.mem_cons.1 ht with rfl | ht
    · exact hinv
    · exact ih t ht
  | log e _ ih =>
    intro t ht
    exact genInv_mono (fun x hx => List.mem_cons_of_mem _ hx) _ t (ih t ht)
  | replace _ hm hout hu ih =>
    intro t ht
    rcases List.mem_cons.1 ht with rfl | ht
    · exact C16_replace_outside_inv S _ [] _ _ _ (ih _ hm) hout hu
    · exact ih t ht
  | @regenAt log0 pop0 t0 a0 p0 s0 ro0 kids0 srcs0 srcs1 ps0 v0 e0 _ hm hout _ huse hsrc hreg ih =>
    intro t ht
    rcases List.mem_cons.1 ht with rfl | ht
    · have hold : GenInv S (e0 :: log0) [] t0 :=
        genInv_mono (fun x hx => List.mem_cons_of_mem _ hx) [] _ (ih _ hm)
      exact putAt_inv _ [] _ _ hold hout (C16_regen_restores_inv S parse hp _ _ _ _ _ _ _ _ _ huse hsrc hreg)
    · exact genInv_mono (fun x hx => List.mem_cons_of_mem _ hx) _ t (ih t ht)
  | select _ hsub ih =>
    intro t ht
    exact ih t (hsub t ht)

/-! ## 5. witnesses: where the current code leaves the invariant -/

/-- `<g> ::= … := "abc"` -/
def exS : Spec := { gens := [("<g>", [])] }
def exLog : Log := [⟨"<g>", [], [97, 98, 99]⟩]
/-- `<start>(<g>("abc"), "-")`, as fuzzed -/
def exT : GTree := .node "<start>" false [.node "<g>" false [.leaf [97, 98, 99] true] [], .leaf [45] false] []
/-- what equality repair (`where <g> == "xyz"`) installs: the wanted value parsed under `<g>`,
    children marked read-only by `populate_sources` -/
def exRepair : GTree := .node "<g>" false [.leaf [120, 121, 122] true] []

/-- **parse-based equality repair on the generator node itself breaks the invariant**: the node is not
    read-only, has the right symbol — `replace_multiple` swaps it — and the text "xyz" was never returned.
    (Replayed on the implementation by `harness/props/c16.py`, case `eq_repair_witness`.) -/
theorem C16_parse_repair_breaks_inv :
    genInvB exS exLog [] exT = true ∧ genInvB exS exLog [] (replaceAt exT [0] exRepair) = false ∧
      (replaceAt exT [0] exRepair).text = [120, 121, 122, 45] := by decide

/-- a parser that returns writable children, as `Grammar.parse` does -/
def exParse : Parser := fun _ v => some [.leaf v false]

/-- **without the marking, re-running the generator leaves its output writable** and the invariant fails;
    with it, it holds -/
theorem C16_regen_writable_breaks_inv :
    (match regen false exS exParse "<g>" false [] [97] with
     | .ok (t, e) => genInvB exS (e :: exLog) [] t
     | .error _ => true) = false ∧
    (match regen true exS exParse "<g>" false [] [97] with
     | .ok (t, e) => genInvB exS (e :: exLog) [] t
     | .error _ => false) = true := by decide

/-- what that means for the source as it is now (`Generated.regenMarksReadOnly`) -/
theorem C16_regen_current :
    (Generated.regenMarksReadOnly = true →
      ∀ (S : Spec) (parse : Parser), ParseFits parse → ∀ (log : Log) (path : List String) (s : String)
        (ps : List String) (ro : Bool) (srcs' : List GTree) (v : Val) (t : GTree) (e : LogEntry),
        S.useGen (path ++ [s]) s = some ps → GenInvL S log (path ++ [s]) srcs' →
        regen Generated.regenMarksReadOnly S parse s ro srcs' v = .ok (t, e) → GenInv S (e :: log) path t) ∧
    (Generated.regenMarksReadOnly = false →
      (match regen Generated.regenMarksReadOnly exS exParse "<g>" false [] [97] with
       | .ok (t, e) => genInvB exS (e :: exLog) [] t
       | .error _ => true) = false) := by
  constructor
  · intro hflag S parse hp log path s ps ro srcs' v t e huse hsrc h
    rw [hflag] at h
    exact C16_regen_restores_inv S parse hp log path s ps ro srcs' v t e huse hsrc h
  · intro hflag
    rw [hflag]
    exact C16_regen_writable_breaks_inv.1

/-! ## 6. `replace_multiple` as one function (`Model/GenReplace.lean`: `replaceG` / `replaceTop`)

The model follows tree.py line by line: recursion through `sources` then children, the replacement branch (copy
without its own sources, recursion into the copy, `populate_sources` → `derive_sources` with converters and
`_topological_sort`), `regen_children` (with the `self_is_generator_child` walk, membership by value) and
`regen_params`; generators are an oracle with a call log.  `Out.inst` lists the installed copies as
`populate_sources` left them (outermost ones; with the symbols above them). -/

/-- **`replace_multiple` keeps the invariant** — for all trees, replacement lists, generators (oracle), parsers
    that return the text they were given, and fuel: if the tree meets `GenInv` (and carries sources only at
    generator-defined nodes, `srcOKB`), then so does the result, with respect to the grown call log, *provided the
    copies that were installed meet it as `populate_sources` left them*.  Everything else the function does — the
    walk through sources, refusing read-only nodes, re-running generators whose arguments changed (cascading
    upwards through sources of sources), re-marking their output, clearing sources of other nodes — is covered
    unconditionally.  The proviso cannot be dropped: `C16_whole_parse_repair_breaks_inv`,
    `C16_FullStatement_refuted`. -/
theorem C16_replace_multiple_inv (E : Env) (hp : ParseFits E.parse) (repl : Repl) (fuel : Nat) (t : GTree)
    (log : Log) (o : Out) (hinv : GenInv E.S log [] t) (hsrc : srcOKB E.S [] t = true)
    (h : replaceTop E repl fuel t log = .ok o)
    (hi : ∀ i ∈ o.inst, GenInv E.S o.log i.1 i.2 ∧ srcOKB E.S i.1 i.2 = true) :
    GenInv E.S o.log [] o.tree ∧ srcOKB E.S [] o.tree = true ∧ (∀ e ∈ log, e ∈ o.log) := by
  have hG := (replace_inv E repl hp fuel).1 [] [] t log o trivial hinv hsrc h
  exact ⟨hG.1 o.log (LogLe.refl _) (fun i hm => (hi i hm).1), hG.2 (fun i hm => (hi i hm).2),
    (replace_mono E repl fuel).1 _ _ _ _ _ h⟩

/-- **generated output is not edited**: on a subtree that is read-only throughout (what lies below a
    generator-defined node), whatever the replacement list says, `replace_multiple` runs no generator, installs
    nothing, and returns the same symbols and text, still read-only -/
theorem C16_replace_multiple_generated_untouched (E : Env) (repl : Repl) (fuel : Nat) (ctx : List Frame)
    (path : List Nat) (t : GTree) (log : Log) (o : Out) (hro : allRO t = true)
    (h : replaceG E repl fuel ctx path t log = .ok o) :
    o.log = log ∧ o.inst = [] ∧ allRO o.tree = true ∧ beqShape o.tree t = true ∧ o.tree.text = t.text := by
  obtain ⟨a, b, c, d⟩ := (replace_ro E repl fuel).1 ctx path t log o hro h
  exact ⟨a, b, c, d, beqShape_text _ _ d⟩

/-- **with generator-free replacement material** (no generator-defined symbol in any replacement: plain mutation,
    crossover of plain subtrees, repairs of ordinary fields) the proviso holds by itself: the whole of
    `replace_multiple` keeps the invariant -/
theorem C16_replace_multiple_inv_genfree (E : Env) (hp : ParseFits E.parse) (repl : Repl) (fuel : Nat) (t : GTree)
    (log : Log) (o : Out) (hinv : GenInv E.S log [] t) (hsrc : srcOKB E.S [] t = true)
    (hfree : ∀ r ∈ repl, genFreeB E.S r.2 = true) (h : replaceTop E repl fuel t log = .ok o) :
    GenInv E.S o.log [] o.tree ∧ srcOKB E.S [] o.tree = true ∧ (∀ e ∈ log, e ∈ o.log) := by
  have hr : ReplFree E.S repl := fun q r hm => hfree (q, r) hm
  have hf := (replace_inst_free E repl hr fuel).1 _ _ _ _ _ h
  refine C16_replace_multiple_inv E hp repl fuel t log o hinv hsrc h ?_
  intro i hm
  obtain ⟨x, hx, hxe⟩ := hf i hm
  rw [hxe]
  exact genFree_inv E.S o.log i.1 x hx

/-- the property for a whole-function model, at full strength: whenever the individual and the replacement trees
    meet the invariant, so does the result — for every generator oracle and fuel -/
def C16_FullStatement
    (replaceW : Env → Repl → Nat → GTree → Log → Except Err Out) : Prop :=
  ∀ (E : Env), ParseFits E.parse →
    ∀ (repl : Repl) (fuel : Nat) (t : GTree) (log : Log) (o : Out),
      GenInv E.S log [] t → srcOKB E.S [] t = true →
      (∀ r ∈ repl, GenInv E.S log [] r.2 ∧ srcOKB E.S [] r.2 = true) →
      replaceW E repl fuel t log = .ok o → GenInv E.S o.log [] o.tree

/-! ### why the proviso is there: two witnesses through the whole function -/

/-- the F31 witness through the whole function: `<g> := "abc"`, equality repair installs the parse of "xyz" on the
    (writable, same-symbol) node `<g>`; `populate_sources` marks the children read-only and adopts the text -/
def exE : Env where
  S := { gens := [("<g>", [])], rules := ["<start>", "<g>"] }
  parse := fun _ v => some [.leaf v false]
  gen := fun _ _ _ => some [97, 98, 99]
def exRepairParsed : GTree := .node "<g>" false [.leaf [120, 121, 122] false] []

theorem C16_whole_parse_repair_breaks_inv :
    genInvB exE.S exLog [] exT = true ∧ srcOKB exE.S [] exT = true ∧
    (match replaceTop exE [([0], exRepairParsed)] 20 exT exLog with
     | .ok o => beqTree o.tree (replaceAt exT [0] exRepair) && o.log == exLog && !genInvB exE.S o.log [] o.tree
         && o.inst.any (fun i => !genInvB exE.S o.log i.1 i.2)
     | .error _ => false) = true := by decide

/-- `<g> := f(<a>)` with a converter `<a> := h(<g>)` that is not an inverse of `f` (f gives "x", h gives "q") -/
def wS : Spec := { gens := [("<g>", ["<a>"]), ("<a>", ["<g>"])], rules := ["<start>", "<g>", "<a>"] }
def wE : Env where
  S := wS
  parse := fun _ v => some [.leaf v false]
  gen := fun _ s _ => if s == "<a>" then some [113] else some [120]
/-- `<g>` = "x", generated from the recorded argument `<a>` = "p" -/
def wG : GTree := .node "<g>" false [.leaf [120] true] [.node "<a>" false [.leaf [112] false] []]
def wT : GTree := .node "<start>" false [wG, .leaf [45] false] []
def wLog : Log := [⟨"<g>", [[112]], [120]⟩]

/-- **the full statement is false of the code as it is**: crossover of a generated field onto itself.  Individual
    and replacement meet the invariant; the installed copy loses its recorded argument, `populate_sources` derives
    a new one with the converter ("q"), and the field now claims to be `f("q")`, which was never computed. -/
theorem C16_FullStatement_refuted : ¬ C16_FullStatement replaceTop := by
  intro hfull
  have hp : ParseFits wE.parse := by
    intro s v kids h
    simp only [wE, Option.some.injEq] at h
    subst h
    simp [textL, text]
  have h1 : GenInv wE.S wLog [] wT := (genInvB_iff _ _ _ _).1 (by decide)
  have h2 : ∀ r ∈ [(([0] : List Nat), wG)], GenInv wE.S wLog [] r.2 ∧ srcOKB wE.S [] r.2 = true := by
    intro r hr
    simp only [List.mem_singleton] at hr
    subst hr
    exact ⟨(genInvB_iff _ _ _ _).1 (by decide), by decide⟩
  have hb : (match replaceTop wE [([0], wG)] 50 wT wLog with
             | .ok o => genInvB wE.S o.log [] o.tree
             | .error _ => true) = false := by decide
  cases hrun : replaceTop wE [([0], wG)] 50 wT wLog with
  | error e => rw [hrun] at hb; simp at hb
  | ok o =>
    have := (genInvB_iff _ _ _ _).2 (hfull wE hp _ 50 wT wLog o h1 (by decide) h2 hrun)
    rw [hrun] at hb
    simp only at hb
    rw [hb] at this
    simp at this

/-- `<m> := up(<body>)` whose parameter is itself generator-defined, `<body> ::= <l>+ := "a"` -/
def pS : Spec := { gens := [("<m>", ["<body>"]), ("<body>", [])], rules := ["<start>", "<m>", "<body>", "<l>"] }
def pE (mark : Bool) : Env where
  S := pS
  parse := fun s v => if s == "<body>" then some [.node "<l>" false [.leaf v false] []] else some [.leaf v false]
  gen := fun _ s _ => if s == "<body>" then some [97] else some [65]
  markParam := mark
def pM : GTree := .node "<m>" false [.leaf [65] true]
  [.node "<body>" false [.node "<l>" true [.leaf [97] true] []] []]
def pT : GTree := .node "<start>" false [pM, .leaf [46] false] []
def pLog : Log := [⟨"<m>", [[97]], [65]⟩, ⟨"<body>", [], [97]⟩]

/-- **`derive_sources` re-creates a generator-defined parameter with writable output** (finding
    C16/derive-sources-leaves-parameter-output-writable): crossover of `<m>` (onto itself); `populate_sources` →
    `derive_sources` runs `<body>`'s generator for the recorded argument and leaves its children writable — the
    invariant fails at the source (verdict 2); with the marking that `NonTerminalNode.fuzz` applies, it holds.
    (Replayed on the implementation by `harness/props/c16.py`, case `witness:param_output_writable`.) -/
theorem C16_derive_param_writable_breaks_inv :
    genInvB pS pLog [] pT = true ∧ srcOKB pS [] pT = true ∧
    (match replaceTop (pE false) [([0], pM)] 50 pT pLog with
     | .ok o => genInvB pS o.log [] o.tree
     | .error _ => true) = false ∧
    (match replaceTop (pE true) [([0], pM)] 50 pT pLog with
     | .ok o => genInvB pS o.log [] o.tree && srcOKB pS [] o.tree
     | .error _ => false) = true := by decide +kernel

/-- what that means for the source as it is now (`Generated.deriveMarksParamReadOnly`) -/
theorem C16_derive_current :
    (match replaceTop (pE Generated.deriveMarksParamReadOnly) [([0], pM)] 50 pT pLog with
     | .ok o => genInvB pS o.log [] o.tree
     | .error _ => false) = Generated.deriveMarksParamReadOnly := by decide +kernel

/-! ### the cascade, on a concrete run (non-vacuity of `C16_replace_multiple_inv`) -/

/-- `<a> := up(<b>)`, `<b> := rev(<c>)`, `<c>` plain: sources of sources -/
def cS : Spec := { gens := [("<a>", ["<b>"]), ("<b>", ["<c>"])], rules := ["<start>", "<a>", "<b>", "<c>"] }
/-- the oracle: the first call (`<b>` on "ba") returns "ab", the second (`<a>` on "ab") returns "AB" -/
def cE : Env where
  S := cS
  parse := fun _ v => some [.leaf v false]
  gen := fun n _ _ => if n == 2 then some [97, 98] else some [65, 66]
def cC : GTree := .node "<c>" false [.leaf [99] false] []
def cB : GTree := .node "<b>" false [.leaf [99] true] [cC]
def cA : GTree := .node "<a>" false [.leaf [67] true] [cB]
def cT : GTree := .node "<start>" false [cA, .leaf [47] false] []
def cLog : Log := [⟨"<a>", [[99]], [67]⟩, ⟨"<b>", [[99]], [99]⟩]
def cNew : GTree := .node "<c>" false [.leaf [98, 97] false] []

/-- replacing the argument of the argument: `<c>` (path: child 0, source 0, source 0) becomes "ba"; `<b>` is
    re-run on it, then `<a>` on the new `<b>`; both outputs are read-only again; the hypotheses of
    `C16_replace_multiple_inv` hold and so does its conclusion -/
theorem C16_cascade_example :
    genInvB cS cLog [] cT = true ∧ srcOKB cS [] cT = true ∧
    (match replaceTop cE [([0, 1, 1], cNew)] 30 cT cLog with
     | .ok o =>
       beqTree o.tree (.node "<start>" false
         [.node "<a>" false [.leaf [65, 66] true]
            [.node "<b>" false [.leaf [97, 98] true] [.node "<c>" false [.leaf [98, 97] false] []]],
          .leaf [47] false] [])
       && o.log == (⟨"<a>", [[97, 98]], [65, 66]⟩ :: ⟨"<b>", [[98, 97]], [97, 98]⟩ :: cLog)
       && o.inst.all (fun i => genInvB cS o.log i.1 i.2 && srcOKB cS i.1 i.2)
       && genInvB cS o.log [] o.tree && srcOKB cS [] o.tree
     | .error _ => false) = true := by decide +kernel

/-! ### all sequences with the whole function as a step -/

/-- (log, population) pairs reachable by fresh trees that meet the invariant, more logging, selection, and
    **`replace_multiple` itself** (crossover, mutation, repair: any replacement list, any target paths) whose
    installed copies meet the invariant as `populate_sources` left them -/
inductive GReachW (E : Env) : Log → List GTree → Prop
  | init : GReachW E [] []
  | fresh {log : Log} {pop : List GTree} {t : GTree} :
      GReachW E log pop → GenInv E.S log [] t → srcOKB E.S [] t = true → GReachW E log (t :: pop)
  | log {log : Log} {pop : List GTree} (e : LogEntry) : GReachW E log pop → GReachW E (e :: log) pop
  | replaceMultiple {log : Log} {pop : List GTree} {t : GTree} {repl : Repl} {fuel : Nat} {o : Out} :
      GReachW E log pop → t ∈ pop → replaceTop E repl fuel t log = .ok o →
      (∀ i ∈ o.inst, GenInv E.S o.log i.1 i.2 ∧ srcOKB E.S i.1 i.2 = true) →
      GReachW E o.log (o.tree :: pop)
  | select {log : Log} {pop pop' : List GTree} :
      GReachW E log pop → (∀ t ∈ pop', t ∈ pop) → GReachW E log pop'

/-- **the invariant holds in every population reachable with the whole `replace_multiple` as a step** -/
theorem C16_reachable_inv_whole (E : Env) (hp : ParseFits E.parse) (log : Log) (pop : List GTree)
    (h : GReachW E log pop) : ∀ t ∈ pop, GenInv E.S log [] t ∧ srcOKB E.S [] t = true := by
  induction h with
  | init => intro t ht; simp at ht
  | fresh _ hinv hsrc ih =>
    intro t ht
    rcases List.mem_cons.1 ht with rfl | ht
    · exact ⟨hinv, hsrc⟩
    · exact ih t ht
  | log e _ ih =>
    intro t ht
    exact ⟨genInv_mono (fun x hx => List.mem_cons_of_mem _ hx) _ t (ih t ht).1, (ih t ht).2⟩
  | @replaceMultiple log0 pop0 t0 repl0 fuel0 o0 _ hm hrun hinst ih =>
    intro t ht
    obtain ⟨a, b, c⟩ := C16_replace_multiple_inv E hp repl0 fuel0 t0 log0 o0 (ih _ hm).1 (ih _ hm).2 hrun hinst
    rcases List.mem_cons.1 ht with rfl | ht
    · exact ⟨a, b⟩
    · exact ⟨genInv_mono c _ t (ih t ht).1, (ih t ht).2⟩
  | select _ hsub ih =>
    intro t ht
    exact ih t (hsub t ht)

/-! ### what remains open

* the proviso of `C16_replace_multiple_inv` for replacement material that *contains generator-defined symbols*:
  whether `populate_sources` → `derive_sources` leaves an installed copy in the invariant depends on the texts
  (F31: any parsed text is adopted), on the converters being inverse to the generators
  (`C16_FullStatement_refuted`), and on `derive_sources` marking what it re-creates
  (`C16_derive_param_writable_breaks_inv`).  It is decidable per run (`genInvB`/`srcOKB` on `Out.inst`, which the harness
  evaluates for every real call); it is a theorem for generator-free material (`…_inv_genfree`).
* `GReach`/`C16_reachable_inv` (§4, building blocks) are kept; `GReachW`/`C16_reachable_inv_whole` supersede them. -/

/-! ## 7. non-vacuity -/

/-- `C16_fuzz_establishes_inv`: a dependent generator `<len> := str(len(<body>))`, argument "ab" -/
def exS2 : Spec := { gens := [("<len>", ["<body>"])] }
def exBody : GTree := .node "<body>" false [.leaf [97, 98] false] []
example : fuzzGen exS2 exParse "<len>" [exBody] [50]
    = .ok (.node "<len>" false [.leaf [50] true] [exBody], ⟨"<len>", [[97, 98]], [50]⟩) := by rfl
example : ParseFits exParse := by
  intro s v kids h
  simp only [exParse, Option.some.injEq] at h
  subst h
  simp [textL, text]
example : exS2.useGen ([] ++ ["<len>"]) "<len>" = some ["<body>"] := by decide
example : GenInvL exS2 [] ([] ++ ["<len>"]) [exBody] := (genInvLB_iff _ _ _ _).1 (by decide)
/-- `C16_unfit_value_raises`: a parser that rejects everything -/
example : generate exS2 (fun _ _ => none) "<len>" [exBody] [50] = .error .parseError := by rfl
/-- `C16_readonly_untouched` / `C16_generated_text_not_replaced` -/
example : replaceAt exT [0, 0] (.leaf [120] false) = exT := by rfl
/-- `C16_replace_outside_inv`: the `"-"` leaf is outside generated output -/
example : NoGenOnPath exS [] exT [1] := ⟨by decide, trivial⟩
example : GReach exS exParse exLog [exT] :=
  .fresh (.log _ .init) ((genInvB_iff _ _ _ _).1 (by decide))

end FV.Gen
