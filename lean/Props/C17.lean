/-
C17 — fixed seeds reproduce the same run.

  "With the same spec, settings, random seed and hash seed, two runs in fresh processes emit the same
   sequence of solutions and the same parse results, byte for byte."   ∀ specs, settings; two processes.

HONEST SCOPE.  `FullStatement` cannot be a Lean theorem about a model: every Lean function is
deterministic, "same inputs ⇒ same output" is `rfl` and proves nothing.  The content of C17 is that the
program has NO HIDDEN INPUT (addresses / `id()`, time, pid, cwd, `os.urandom`, unseeded RNGs, the
iteration order of containers whose order the seeds do not fix).  That is decided by the two-process
differential with ambient perturbation in `harness/props/c17.py` (a test, level `other`).

What is logic, and is proved here for ALL inputs, are the order-independence facts that make the
hash-ordered containers in the code harmless — or, read the other way, that say exactly which ones are
not:

  * worklist closures over `set`s with an arbitrary pop order compute the same SET whatever the order
    (`C17_closure_is_reachability`, `C17_closure_order_irrelevant`): get_protocol_messages,
    StateGrammarConverter.process (key set), is_party_reachable, slice_parties' fixpoint;
  * where a set is turned into an ORDER that reaches output (`list(set(new_population))`, dict
    insertion in pop order), the order is a function of the hash values and the insertion sequence only
    (`C17_order_depends_only_on_hashes`): fixed by PYTHONHASHSEED for str-hashed content (trees, symbols),
    NOT fixed for identity-hashed objects (`C17_identity_hashes_can_reorder` — the hypothesis is needed);
  * constraint placeholder names embed `id()`; evaluation is invariant under any injective renaming of
    placeholders (`C17_placeholder_names_irrelevant`).

Not proved (not needed for C17, stated for honesty): termination of the worklist loops.
-/
import Proofs.Worklist
namespace FV
open FV.Wl

/-- the property as stated (over the real program; `run` is the real process, not a Lean function):
    kept here as the full statement; it is not a theorem of this file -/
def C17_FullStatement {Config Ambient Output : Type} (run : Config → Ambient → Output) : Prop :=
  ∀ (c : Config) (a₁ a₂ : Ambient), run c a₁ = run c a₂

/-! ## 1. worklist closures: any pop order, same set -/

/-- whatever order `set.pop()` hands the elements out in, when the loop ends `seen` is exactly the set
    of nodes reachable from `start` in one or more steps -/
theorem C17_closure_is_reachability {α : Type} [DecidableEq α] (succ : α → List α) (start : α)
    (result : List α) (r : Runs succ [start] [] result) :
    ∀ x, x ∈ result ↔ ReachPlus succ start x :=
  Inv.final succ start result (Runs.inv succ start [start] [] result r (Inv.init succ start))

/-- two executions of the loop with different pop orders (in two processes) end with the same set -/
theorem C17_closure_order_irrelevant {α : Type} [DecidableEq α] (succ : α → List α) (start : α)
    (result₁ result₂ : List α) (r₁ : Runs succ [start] [] result₁) (r₂ : Runs succ [start] [] result₂) :
    ∀ x, x ∈ result₁ ↔ x ∈ result₂ := fun x =>
  (C17_closure_is_reachability succ start result₁ r₁ x).trans
    (C17_closure_is_reachability succ start result₂ r₂ x).symm

/-- non-vacuity: 0 → {1,2}, 1 → {3}, 2 → {4}; popping 2 before 1 and 1 before 2 both end, with
    DIFFERENT lists (so an order that leaked into output would differ) and the same set -/
def succG : Fin 5 → List (Fin 5)
  | 0 => [1, 2]
  | 1 => [3]
  | 2 => [4]
  | _ => []

example : Runs succG [0] [] [3, 4, 2, 1] := by
  refine Runs.pop _ _ [] _ 0 (by decide) (by decide) ?_
  show Runs succG [2, 1] [2, 1] _
  refine Runs.pop _ _ [1] _ 2 (by decide) (by decide) ?_
  show Runs succG [4, 1] [4, 2, 1] _
  refine Runs.pop _ _ [1] _ 4 (by decide) (by decide) ?_
  show Runs succG [1] [4, 2, 1] _
  refine Runs.pop _ _ [] _ 1 (by decide) (by decide) ?_
  show Runs succG [3] [3, 4, 2, 1] _
  refine Runs.pop _ _ [] _ 3 (by decide) (by decide) ?_
  exact Runs.done _

example : Runs succG [0] [] [4, 3, 2, 1] := by
  refine Runs.pop _ _ [] _ 0 (by decide) (by decide) ?_
  show Runs succG [2, 1] [2, 1] _
  refine Runs.pop _ _ [2] _ 1 (by decide) (by decide) ?_
  show Runs succG [3, 2] [3, 2, 1] _
  refine Runs.pop _ _ [3] _ 2 (by decide) (by decide) ?_
  show Runs succG [4, 3] [4, 3, 2, 1] _
  refine Runs.pop _ _ [3] _ 4 (by decide) (by decide) ?_
  show Runs succG [3] [4, 3, 2, 1] _
  refine Runs.pop _ _ [] _ 3 (by decide) (by decide) ?_
  exact Runs.done _

/-! ## 2. set → order: a function of the hashes only -/

/-- two processes hold "the same" elements as different objects (`f` maps the objects of one process
    to those of the other, injectively) with the same hash values, inserted in the same sequence: the
    iteration order of the hash table is the same in both — for every probe function and table size.
    (CPython's `set`/`dict` are instances: their probe sequence is a function of the hash.) -/
theorem C17_order_depends_only_on_hashes {α β : Type} [DecidableEq α] [DecidableEq β]
    (probe : Nat → Nat → Nat) (f : α → β) (hf : ∀ a b, f a = f b → a = b)
    (hash : α → Nat) (hash' : β → Nat) (hh : ∀ a, hash' (f a) = hash a) (n : Nat) (xs : List α) :
    tableOrder probe hash' n (xs.map f) = (tableOrder probe hash n xs).map f := by
  unfold tableOrder
  have h0 : List.replicate n (none : Option β) = (List.replicate n (none : Option α)).map (Option.map f) := by
    simp
  rw [h0, foldl_insert1_map probe f hf hash hash' hh, filterMap_id_map]

/-- the hypothesis on the hashes is needed: the same three objects, inserted in the same sequence, come
    back in a different order when their hashes differ — which is what happens to identity-hashed
    objects (`hash = id() >> 4`) whose addresses differ between two processes.  (linear probing, 4 slots) -/
theorem C17_identity_hashes_can_reorder :
    tableOrder (fun h k => h + k) (fun x : Nat => x) 4 [10, 11, 12] = [12, 10, 11] ∧
    tableOrder (fun h k => h + k) (fun x : Nat => 3 * x + 1) 4 [10, 11, 12] = [12, 11, 10] := by
  decide

/-- non-vacuity of `C17_order_depends_only_on_hashes`: renamed objects, same hashes, same order -/
example : tableOrder (fun h k => h + k) (fun x : Nat => x % 100) 4 ([10, 11, 12].map (· + 100))
    = (tableOrder (fun h k => h + k) (fun x : Nat => x) 4 [10, 11, 12]).map (· + 100) := by decide

/-! ## 3. placeholder names embed `id()` and do not matter -/

/-- `___fandango_<id(self)>_<n>___`: the expression with renamed placeholders, evaluated against the
    bindings with the same renaming, gives the same value (or the same `NameError`), for every
    injective renaming, every expression, every interpretation of the operators and every bindings
    dict — other names (globals, user locals) are untouched -/
theorem C17_placeholder_names_irrelevant {β : Type} (f : Nat → Nat) (hf : ∀ a b, f a = f b → a = b)
    (i1 : Nat → β → Option β) (i2 : Nat → β → β → Option β) (env : List (Name × β)) (e : Expr β) :
    (e.rename f).eval i1 i2 (renameEnv f env) = e.eval i1 i2 env := by
  induction e with
  | var n => exact lookup_rename f hf n env
  | lit v => rfl
  | app1 op e ih => simp only [Expr.rename, Expr.eval, ih]
  | app2 op a b iha ihb => simp only [Expr.rename, Expr.eval, iha, ihb]

/-- non-vacuity: `ph 7 + other "k"` under {ph 7 ↦ 5, k ↦ 2}, ids shifted by 1000 -/
example :
    let e : Expr Nat := .app2 0 (.var (.ph 7)) (.var (.other "k"))
    let env : List (Name × Nat) := [(.ph 7, 5), (.other "k", 2)]
    (e.rename (· + 1000)).eval (fun _ _ => none) (fun _ a b => some (a + b)) (renameEnv (· + 1000) env) = some 7
    ∧ e.eval (fun _ _ => none) (fun _ a b => some (a + b)) env = some 7 := by decide

end FV
