/-
C18 — Fandango instances in one process do not influence each other.

  "The solutions and parse results obtained from one spec object are the same whether or not other
   spec objects were created, fuzzed or parsed earlier in the same process (under fixed seeds).
   Limits that adapt during one run - repetition caps, node budgets - and caches do not leak into
   another instance or into later parsing."     ∀ pairs (A, B), ∀ orders / amounts of activity on A.

Model: `Model/Globals.lean` (module-level state threaded through instance operations; the tuner
arithmetic of `adaptation.py` in exact binary64 arithmetic).  The constants, the keyword defaults and
— decisive — WHERE the repetition cap lives are read from /repo's source on every run
(`harness/translate_env.py` → `Generated/Env.lean`).  Tie: `harness/props/c18.py`.

Full statement for the model (`Isolated loc`): for every history `h` (any interleaving of operations
on any instances) and every instance `b`, what `b` lets its callers see is what it shows when only
its own operations run.  It is PROVED for the per-grammar design (`C18_isolation`), REFUTED for the
module-global design (`C18_global_cap_leak`), and `C18_source_design_verdict` says which of the two
the source currently is (per-grammar since /repo 59688743; before that commit the verdict was the
refutation, reproduced on the real code as finding `C18/global-MAX_REPETITIONS`).

Every `theorem` below is an audited obligation.  `decide +kernel` is used for the finite facts about
the generated constants (`C18_source_constants`) and in the non-vacuity examples only.
-/
import Proofs.Globals
import Generated.Env
import Generated.ProcessState
namespace FV
open FV.Env

/-- the property, for a design `loc`: full strength (all interleavings, all instances, any start) -/
def Isolated (loc : CapLoc) (cfg : Cfg) (dflt : Nat) (dset : Settings) : Prop :=
  ∀ (w : World) (h : List Op) (b : Nat),
    obs b (run loc cfg dflt dset w h).2
      = obs b (run loc cfg dflt dset w (h.filter (fun op => op.inst = b))).2

/-! ## 1. the adaptive tuner -/

/-- the facts about the generated constants that the theorems below need -/
theorem C18_source_constants :
    1 ≤ Generated.tunerCfg.minInc ∧ 0 < Generated.tunerCfg.fitThr.num ∧
    Generated.defaultMaxRepetitions < capEff Generated.defaultSettings.maxReps Generated.tunerCfg.safeRep := by
  decide +kernel

/-- `current_max_repetition` after `k` stagnating generations, for every rate, every pair of caps,
    every start value and every `k` (source constants): each step is
    `c ↦ min (c + max 1 ⌈rate·c⌉) capEff` below the effective cap `capEff = min(max_repetitions,
    max_safe_repetition)` and the identity from there on; the sequence is monotone, never exceeds
    `max c₀ capEff`, reaches `capEff` after at most `capEff - c₀` steps and stays there; a start value
    at or above `capEff` never moves. -/
theorem C18_tuner_trajectory (rate : Dy) (cap1 : Option Nat) (cap2 c0 : Nat) (k : Nat) :
    let m := Generated.tunerCfg.minInc
    let t := trajectory m rate cap1 cap2 c0
    let ce := capEff cap1 cap2
    t (k + 1) = (if t k < ce then min (t k + increment m rate (t k)) ce else t k)
    ∧ t k ≤ t (k + 1)
    ∧ t k ≤ max c0 ce
    ∧ (c0 ≤ ce → ce - c0 ≤ k → t k = ce)
    ∧ (ce ≤ c0 → t k = c0) := by
  intro m t ce
  have hm : 1 ≤ m := C18_source_constants.1
  refine ⟨grow_closed m rate cap1 cap2 (t k) hm, grow_mono m rate cap1 cap2 (t k) hm, ?_, ?_, ?_⟩
  · induction k with
    | zero => exact Nat.le_max_left _ _
    | succ k ih =>
      have := grow_le m rate cap1 cap2 (t k) hm
      show grow m rate cap1 cap2 (t k) ≤ max c0 ce
      simp only [Nat.max_def] at *
      grind
  · intro hc hk
    have := trajectory_lower m rate cap1 cap2 c0 hm hc k
    simp only [Nat.min_def] at this
    grind
  · intro hc
    induction k with
    | zero => rfl
    | succ k ih =>
      show grow m rate cap1 cap2 (t k) = c0
      rw [grow_closed m rate cap1 cap2 (t k) hm, ih]
      grind

/-- a run of generations with arbitrary inputs: -/
def runTuner (cfg : Cfg) (t : Tuner) (gens : List (Dy × Dy × Dy)) : Tuner :=
  gens.foldl (fun t g => t.update cfg g.1 g.2.1 g.2.2) t

/-- … the cap the tuner holds afterwards depends only on HOW MANY of the generations stagnated
    (any cfg, any inputs, any order): it is the trajectory at that count. -/
theorem C18_tuner_counts_stagnation (cfg : Cfg) (gens : List (Dy × Dy × Dy)) : ∀ (t : Tuner),
    (runTuner cfg t gens).curRep =
      trajectory cfg.minInc t.repRate t.maxReps cfg.safeRep t.curRep
        (gens.countP (fun g => stagnating cfg g.1 g.2.1 g.2.2)) := by
  induction gens with
  | nil => intro t; rfl
  | cons g gs ih =>
    intro t
    have hr : (t.update cfg g.1 g.2.1 g.2.2).repRate = t.repRate := rfl
    have hm : (t.update cfg g.1 g.2.1 g.2.2).maxReps = t.maxReps := rfl
    have hc : (t.update cfg g.1 g.2.1 g.2.2).curRep =
        if stagnating cfg g.1 g.2.1 g.2.2 then grow cfg.minInc t.repRate t.maxReps cfg.safeRep t.curRep
        else t.curRep := rfl
    show (runTuner cfg (t.update cfg g.1 g.2.1 g.2.2) gs).curRep = _
    rw [ih, hr, hm, hc, List.countP_cons]
    cases hs : stagnating cfg g.1 g.2.1 g.2.2 with
    | false => simp
    | true => simp only [if_true]; exact trajectory_shift _ _ _ _ _ _

/-- non-vacuity, and the values the design round observed: with the shipped defaults (20, rate 0.5,
    no user cap, safe cap 1000) the cap runs 20 → 30 → 45 → 68 → … → 1000 (by `decide +kernel`) -/
example : (List.range 12).map (trajectory 1 ⟨1, 1⟩ none 1000 20)
    = [20, 30, 45, 68, 102, 153, 230, 345, 518, 777, 1000, 1000] := by decide +kernel

example : (List.range 5).map (trajectory 1 ⟨3602879701896397, 55⟩ (some 25) 1000 20)   -- rate 0.1
    = [20, 22, 25, 25, 25] := by decide +kernel

/-! ## 2. isolation of the per-grammar design -/

/-- C18 for the design in which the cap belongs to the grammar: for ALL histories — any interleaving
    of operations on any number of other instances (creation, populations with any settings,
    generations with any fitness / diversity inputs, tuner resets, fuzzing, parser builds, parsing) —
    and any starting world, instance `b` shows exactly what it shows when only its own operations
    run. -/
theorem C18_isolation (cfg : Cfg) (dflt : Nat) (dset : Settings) : Isolated .perGrammar cfg dflt dset :=
  fun w h b => run_isolation cfg dflt dset b h w w rfl

/-- the form of the property statement: activity `histA` on other instances before `histB` on `b` -/
theorem C18_isolation_before (cfg : Cfg) (dflt : Nat) (dset : Settings) (w : World) (b : Nat)
    (histA histB : List Op) (hA : ∀ op ∈ histA, op.inst ≠ b) (hB : ∀ op ∈ histB, op.inst = b) :
    obs b (run .perGrammar cfg dflt dset w (histA ++ histB)).2
      = obs b (run .perGrammar cfg dflt dset w histB).2 := by
  rw [C18_isolation cfg dflt dset w (histA ++ histB) b]
  have h1 : histA.filter (fun op => op.inst = b) = [] := by
    apply List.filter_eq_nil_iff.mpr
    intro op hop
    simpa using hA op hop
  have h2 : histB.filter (fun op => op.inst = b) = histB := by
    apply List.filter_eq_self.mpr
    intro op hop
    simpa using hB op hop
  rw [List.filter_append, h1, h2, List.nil_append]

/-- non-vacuity: a stagnating run of instance 0 (cap 20 → 30 → 45) leaves what instance 1 shows
    untouched in the per-grammar design — and the run does move instance 0's own cap -/
example :
    let h : List Op := [⟨0, .newInstance⟩, ⟨0, .generation ⟨0, 0⟩ ⟨0, 0⟩ ⟨0, 0⟩⟩,
      ⟨0, .generation ⟨0, 0⟩ ⟨0, 0⟩ ⟨0, 0⟩⟩, ⟨0, .getCap⟩,
      ⟨1, .newInstance⟩, ⟨1, .fuzzOne⟩, ⟨1, .parse 25⟩, ⟨1, .getCap⟩]
    let r := run .perGrammar Generated.tunerCfg 20 Generated.defaultSettings (World.fresh 20) h
    obs 0 r.2 = [.cap 45] ∧ obs 1 r.2 = [.fuzz 20 1, .parse (accepts Generated.tunerCfg 20 25), .cap 20] := by decide +kernel

/-! ## 3. the module-global design leaks -/

/-- instance 0 is created and runs one generation without any fitness (prev = cur = diversity = 0) -/
def leakA : List Op := [⟨0, .newInstance⟩, ⟨0, .generation Dy.zero Dy.zero Dy.zero⟩]
/-- instance 1 is created, asked for its cap, fuzzes once and parses `cap + 1` items under `{m,}` -/
def leakB (n : Nat) : List Op := [⟨1, .newInstance⟩, ⟨1, .getCap⟩, ⟨1, .fuzzOne⟩, ⟨1, .parse n⟩]

/-- with the cap in a module global there IS activity on A that changes what B shows: after `leakA`
    instance 1 reads the grown cap `g = grow … dflt > dflt` — its `randint` range ends at `g`, its
    parser accepts `dflt + 1` repetitions — whereas alone it reads `dflt` and rejects them.
    (any constants with a positive threshold, a minimum increment ≥ 1 and room below the caps) -/
theorem C18_global_cap_leak (cfg : Cfg) (dflt : Nat) (dset : Settings)
    (h1 : 1 ≤ cfg.minInc) (h2 : 0 < cfg.fitThr.num) (h3 : dflt < capEff dset.maxReps cfg.safeRep) :
    let g := grow cfg.minInc dset.repRate dset.maxReps cfg.safeRep dflt
    (∀ op ∈ leakA, op.inst ≠ 1) ∧ (∀ op ∈ leakB (dflt + 1), op.inst = 1) ∧ dflt < g ∧
    obs 1 (run .moduleGlobal cfg dflt dset (World.fresh dflt) (leakA ++ leakB (dflt + 1))).2
      = [.cap g, .fuzz g 1, .parse (accepts cfg g (dflt + 1))] ∧
    obs 1 (run .moduleGlobal cfg dflt dset (World.fresh dflt) (leakB (dflt + 1))).2
      = [.cap dflt, .fuzz dflt 1, .parse (accepts cfg dflt (dflt + 1))] := by
  intro g
  have hg : dflt < g := grow_strict cfg.minInc dset.repRate dset.maxReps cfg.safeRep dflt h1 h3
  have hst : stagnating cfg Dy.zero Dy.zero Dy.zero = true := by
    simp [stagnating, improvementLow, Dy.zero, Dy.lt, h2]
  have hup : (Tuner.update cfg (Tuner.create dset dflt) Dy.zero Dy.zero Dy.zero).curRep = g := by
    show (if stagnating cfg Dy.zero Dy.zero Dy.zero then
      grow cfg.minInc dset.repRate dset.maxReps cfg.safeRep dflt else dflt) = g
    rw [hst]; rfl
  refine ⟨by simp [leakA], by simp [leakB], hg, ?_, ?_⟩
  · have hle : dflt + 1 ≤ g := hg
    simp [leakA, leakB, run, step, stepInst, prep, actLocal, rd, wr, setInst, World.fresh, obs, hup, hg, hle]
  · simp [leakB, run, step, stepInst, prep, actLocal, rd, wr, setInst, World.fresh, obs]

/-- hence the module-global design does not have the property -/
theorem C18_global_design_not_isolated (cfg : Cfg) (dflt : Nat) (dset : Settings)
    (h1 : 1 ≤ cfg.minInc) (h2 : 0 < cfg.fitThr.num) (h3 : dflt < capEff dset.maxReps cfg.safeRep) :
    ¬ Isolated .moduleGlobal cfg dflt dset := by
  intro iso
  have L := C18_global_cap_leak cfg dflt dset h1 h2 h3
  have e := iso (World.fresh dflt) (leakA ++ leakB (dflt + 1)) 1
  have hf : (leakA ++ leakB (dflt + 1)).filter (fun op => op.inst = 1) = leakB (dflt + 1) := by
    simp [leakA, leakB]
  rw [hf, L.2.2.2.1, L.2.2.2.2] at e
  have : grow cfg.minInc dset.repRate dset.maxReps cfg.safeRep dflt = dflt := by
    injection e with e1 _
    injection e1
  have := L.2.2.1
  omega

/-- the verdict for the design the source has NOW (read by the translator): either the cap is per
    grammar and the property holds for the model, or it is the module global and the property is
    violated by the witness above (finding `C18/global-MAX_REPETITIONS`; the check then also expects
    the differential on the real code to show it). -/
theorem C18_source_design_verdict :
    (Generated.capLocation = .perGrammar ∧
      Isolated Generated.capLocation Generated.tunerCfg Generated.defaultMaxRepetitions Generated.defaultSettings)
    ∨ (Generated.capLocation = .moduleGlobal ∧
      ¬ Isolated Generated.capLocation Generated.tunerCfg Generated.defaultMaxRepetitions Generated.defaultSettings) := by
  first
  | exact Or.inl ⟨rfl, C18_isolation _ _ _⟩
  | exact Or.inr ⟨rfl, C18_global_design_not_isolated _ _ _ C18_source_constants.1
      C18_source_constants.2.1 C18_source_constants.2.2⟩

/-- the witness on the source constants, evaluated (20 → 30): B alone `[cap 20, fuzz 20 1, reject]`,
    B after A `[cap 30, fuzz 30 1, accept]` -/
example :
    obs 1 (run .moduleGlobal Generated.tunerCfg 20 Generated.defaultSettings (World.fresh 20)
      (leakA ++ leakB 21)).2 = [.cap 30, .fuzz 30 1, .parse (accepts Generated.tunerCfg 30 21)] ∧
    obs 1 (run .moduleGlobal Generated.tunerCfg 20 Generated.defaultSettings (World.fresh 20)
      (leakB 21)).2 = [.cap 20, .fuzz 20 1, .parse (accepts Generated.tunerCfg 20 21)] := by decide +kernel

/-! ## 4. the shared iteration counter is harmless -/

/-- the code uses iteration tags only through equality tests and first-appearance grouping
    (`tagPattern`): any injective renaming of the tags leaves that unchanged -/
theorem C18_tag_renaming_invariant (f : Nat → Nat) (hf : ∀ x y, f x = f y → x = y) (l : List Nat) :
    tagPattern (l.map f) = tagPattern l :=
  tagPattern_map f hf l

/-- `Repetition.iteration` is never reset: whatever happened on a repetition node before (`c` earlier
    `fuzz` calls — by anyone who shares the node), the tags of the next `n` calls are those of a fresh
    node shifted by `c`, so everything the code derives from them is the same -/
theorem C18_iteration_counter_harmless (c n : Nat) :
    tagsFrom c n = (tagsFrom 0 n).map (· + c) ∧ tagPattern (tagsFrom c n) = tagPattern (tagsFrom 0 n) := by
  have h := tagsFrom_shift c n 0
  rw [Nat.zero_add] at h
  refine ⟨h, ?_⟩
  rw [h]
  exact tagPattern_map (· + c) (fun x y e => by simpa using e) _

example : tagsFrom 7 3 = [8, 9, 10] ∧ tagPattern [8, 9, 8, 10] = [0, 1, 0, 3]
    ∧ tagPattern [1, 2, 1, 3] = [0, 1, 0, 3] := by decide

/-! ## 5. the inventory of process-wide state is complete (checked, not assumed) -/

/-- REVIEWED inventory of every place in src/fandango where state can outlive one spec object (format and scope:
    harness/translate_globals.py).  Why none of them carries solutions or parse results from one instance to another:
    * `cli/…` — command-line shell only (`fandango shell` session settings, completion matches, progress colours, update notice): not reachable from spec objects used through the API; by design the shell's `set` persists for the session
    * `constraints/…` — mutable DEFAULT ARGUMENTS (`= dict()`, `= []`) of constraint / fitness constructors: stored, never mutated in place (every writer builds a new list: evaluation.py / comparison.py extend locals); latent, watched by C11's fresh-vs-cached differential
    * `evolution/algorithm.py…` — the default search operators `SimpleMutation()` / `SimpleSubtreeCrossover()` are ONE object for all instances: harmless exactly while these classes have no instance state — the `{}` in the entry is their list of `self.` attributes
    * `evolution/havoc.py…` — constant table and the default list of havoc mutation functions (read only)
    * `io/…` — `FandangoIO._instances` / `ProcessManager._instances` are keyed by the environment key of the spec object (fix a511dc56; modelled as `ioInst` in Model/Globals); `CURRENT_ENV_KEY` is a ContextVar holder set around every entry point
    * `language/grammar/…` — `NonTerminal("<start>")` default arguments (immutable symbols); `NODE_SETTINGS_DEFAULTS` constant table; `raw_settings = {}` / `searches_map = {}` defaults are read, never written
    * `language/parse/…` — list / dict default arguments of the spec front end: read and copied, never mutated
    * `language/parser/FandangoLexerBase.py…` — `global lexer` statements in the ANTLR action stubs (a name used by the generated lexer's embedded actions; rebound per lexer instance before use)
    * `language/stdlib.py…` — the standard-library rules, built once at import and deep-copied into each grammar
    * `language/tree_value.py…` — constant method tables; `trailing_bits = []` default is stored but never mutated in place (C09: `append` returns new lists; mutation detector in the C09 correspondence)
    * `logger.py…` — terminal visualisation flags (no influence on solutions or parse results)
    The model's `World` threads exactly the entries that DO matter (cap, tuner, iteration counters, IO instances). -/
def reviewedProcessState : List String := [
  "cli/commands.py::COMMANDS::module::container",
  "cli/commands.py::DEFAULT_CONSTRAINTS::module::container",
  "cli/commands.py::DEFAULT_SETTINGS::module::container",
  "cli/commands.py::reset_command::global::DEFAULT_CONSTRAINTS",
  "cli/commands.py::reset_command::global::DEFAULT_SETTINGS",
  "cli/commands.py::set_command::global::DEFAULT_CONSTRAINTS",
  "cli/commands.py::set_command::global::DEFAULT_FAN_CONTENT",
  "cli/commands.py::set_command::global::DEFAULT_SETTINGS",
  "cli/progress.py::FITNESS::module::container",
  "cli/shell.py::MATCHES::module::container",
  "cli/shell.py::_complete::global::MATCHES",
  "cli/shell.py::shell_command::global::MATCHES",
  "cli/upgrade.py::check_for_fandango_update::global::NOTIFIED_IN_THIS_SESSION",
  "cli/utils.py::exec_single::default::container",
  "cli/utils.py::make_fandango_settings::default::container",
  "cli/utils.py::parse_constraints_from_args::default::container",
  "cli/utils.py::parse_contents_from_args::default::container",
  "constraints/comparison.py::__init__::default::container",
  "constraints/fitness.py::__init__::default::container",
  "evolution/algorithm.py::__init__::default::call:SimpleMutation{}",
  "evolution/algorithm.py::__init__::default::call:SimpleSubtreeCrossover{}",
  "evolution/havoc.py::INTERESTING_VALUES::module::container",
  "evolution/havoc.py::havoc_mutate::default::call:havoc_mutations",
  "io/__init__.py::CURRENT_ENV_KEY::module::call:EnvContext{}",
  "io/__init__.py::EnvContext.contextVar::class::call:ContextVar",
  "io/__init__.py::FandangoIO._instances::class::container",
  "io/__init__.py::ProcessManager._instances::class::container",
  "io/navigation/grammarnavigator.py::__init__::default::call:NonTerminal{_is_regex,_type,_value}",
  "io/navigation/packetnavigator.py::__init__::default::call:NonTerminal{_is_regex,_type,_value}",
  "io/navigation/stategrammarconverter.py::process::default::call:NonTerminal{_is_regex,_type,_value}",
  "language/grammar/grammar.py::compute_kpath_coverage::default::call:NonTerminal{_is_regex,_type,_value}",
  "language/grammar/grammar.py::generate_all_k_paths::default::call:NonTerminal{_is_regex,_type,_value}",
  "language/grammar/grammar.py::get_protocol_messages::default::call:NonTerminal{_is_regex,_type,_value}",
  "language/grammar/grammar.py::get_uncovered_k_paths::default::call:NonTerminal{_is_regex,_type,_value}",
  "language/grammar/grammar.py::set_generator::default::container",
  "language/grammar/nodes/node.py::NODE_SETTINGS_DEFAULTS::module::container",
  "language/grammar/nodes/node.py::__init__::default::container",
  "language/parse/parse.py::check_grammar_consistency::default::container",
  "language/parse/parse.py::check_grammar_definitions::default::container",
  "language/parse/parse.py::parse::default::container",
  "language/parse/parse_spec.py::parse_content::default::container",
  "language/parse/spec.py::__init__::default::container",
  "language/parser/FandangoLexerBase.py::__init__::global::lexer",
  "language/parser/FandangoLexerBase.py::at_start_of_input::global::lexer",
  "language/parser/FandangoLexerBase.py::close_brace::global::lexer",
  "language/parser/FandangoLexerBase.py::filepath_end::global::lexer",
  "language/parser/FandangoLexerBase.py::filepath_start::global::lexer",
  "language/parser/FandangoLexerBase.py::fstring_end::global::lexer",
  "language/parser/FandangoLexerBase.py::fstring_start::global::lexer",
  "language/parser/FandangoLexerBase.py::is_not_fstring::global::lexer",
  "language/parser/FandangoLexerBase.py::on_newline::global::lexer",
  "language/parser/FandangoLexerBase.py::open_brace::global::lexer",
  "language/parser/FandangoLexerBase.py::python_end::global::lexer",
  "language/parser/FandangoLexerBase.py::python_start::global::lexer",
  "language/stdlib.py::ASCII_CONTROL::module::container",
  "language/stdlib.py::any_char::module::call:make_rule",
  "language/stdlib.py::ascii_char::module::call:make_rule",
  "language/stdlib.py::bits::module::call:make_rule",
  "language/stdlib.py::bytes::module::call:make_rule",
  "language/stdlib.py::dancer::module::call:make_rule",
  "language/stdlib.py::numbers::module::call:make_rule",
  "language/stdlib.py::printable::module::call:make_rule",
  "language/stdlib.py::utf8::module::call:make_rule",
  "language/tree_value.py::DIRECT_ACCESS_METHODS_BASE_TO_FIRST_ARG_TYPE::module::container",
  "language/tree_value.py::DIRECT_ACCESS_METHODS_BASE_TO_UNDERLYING_TYPE::module::container",
  "language/tree_value.py::__init__::default::container",
  "logger.py::clear_visualization::global::LINE_IS_CLEAR",
  "logger.py::set_visualization::global::USE_VISUALIZATION",
  "logger.py::use_visualization::global::COLUMNS",
  "logger.py::use_visualization::global::LINES",
  "logger.py::use_visualization::global::USE_VISUALIZATION",
  "logger.py::visualize_evaluation::global::LINE_IS_CLEAR"
]

/-- the inventory regenerated from the CURRENT source is the reviewed one: a new module-level / class-level cache,
    registry or counter, a new shared default-argument object, instance state added to a process-lived operator
    object, or a new memoised function changes `Generated.processState` and breaks this obligation (the check then
    searches for a pair of spec objects that shows the leak) -/
theorem C18_process_state_inventory_pinned : Generated.processState = reviewedProcessState := by decide +kernel

end FV
