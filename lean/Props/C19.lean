/-
C19 — protocol forecasting offers exactly the grammar's continuations.

Property theorems only; helper lemmas are in `Proofs/Forecast.lean`, the model in
`Model/Forecast.lean` (tied to /repo by `harness/props/c19.py`).

Full statement (for all protocol grammars `G`, start nodes, and histories `h`):
  (a) the forecast after `h` is exactly `Cont G start h` — the messages `m` such that `h ++ m :: w`
      is an interaction for some `w`;
  (b) `h` is reported complete iff `h` is an interaction;
  (c) repetition bounds are respected;
  (d) the same on the grammar sliced to a set of parties, whose interactions are the visible parts of
      the interactions of `G`.
(a)–(c) are proved for the *verified forecaster* `nexts`/`complete` under two explicit, machine-checkable
hypotheses (no left recursion — certificate `rankOk`; every rule productive — certificate
`productiveB`); both certificates are evaluated by the driver for every grammar of every run.
(d) is proved for `sliceG`, the line-by-line model of the current `slice_parties` / `PacketTruncator`
(`C19_slice_commutes`, `C19_slice_forecast`; hypothesis `sliceCert`, evaluated by the driver for every slice).
What the code computes for the forecast (`codeNexts`: prefix parse + `ContinuingNodeVisitor`) is modelled in
`Model/Forecast.lean`; `codeNexts = nexts` is proved for the empty history (`C19_code_forecast_partial`:
the exploring visitor computes the FIRST set), and is NOT proved for non-empty histories (`CodeForecastFull`
states it): for that part the per-run correspondence (implementation = `codeNexts`, and implementation =
`nexts` on every enumerated history) is the tie.  The model follows the code as repaired by ebdb490d,
8757f904, fc0f6663 (forecaster), ed4e9a62, e74d4443 (slicing), b48dd899 (parser bound of `{n,}`).
-/
import Proofs.Forecast
import Proofs.ForecastSlice
import Proofs.ForecastWalk
namespace FV
namespace Fc

/-! ## (a) the forecast is the set of continuations -/

/-- for every history (valid prefix or not) and every message: the verified forecaster offers `m`
    after `h` iff `m` can follow `h` in some interaction of the grammar -/
theorem C19_nexts_eq_cont (G : Grammar) (rank : String → Nat) (F : Nat) (start : Node)
    (hL : NoLeftRec G rank F) (hP : Productive G) (h : List Msg) (m : Msg) :
    m ∈ nexts G F start h ↔ Cont G start h m := by
  have key : isNext G F start h m = true ↔ Cont G start h m := by
    unfold isNext Cont
    rw [nonEmpty_iff hP]
    constructor
    · rintro ⟨w, hw⟩
      refine ⟨w, ?_⟩
      have := (derivs_iff hL (h ++ [m]) start w).1 hw
      simpa using this
    · rintro ⟨w, hw⟩
      exact ⟨w, (derivs_iff hL (h ++ [m]) start w).2 (by simpa using hw)⟩
  unfold nexts
  rw [List.mem_filter, key]
  constructor
  · exact fun h => h.2
  · intro hc
    obtain ⟨w, hw⟩ := hc
    exact ⟨mem_allMsgs hw m (by simp), ⟨w, hw⟩⟩

/-- the same with the hypotheses replaced by their executable certificates -/
theorem C19_nexts_eq_cont_cert (G : Grammar) (rank : String → Nat) (F F' : Nat) (start : Node)
    (hr : rankOk G rank F = true) (hp : productiveB G F' = true) (h : List Msg) (m : Msg) :
    m ∈ nexts G F start h ↔ Cont G start h m :=
  C19_nexts_eq_cont G rank F start (rankOk_sound hr) (productiveB_sound hp) h m

/-- a history is a prefix of an interaction iff the residual grammar is non-empty -/
theorem C19_prefix_iff (G : Grammar) (rank : String → Nat) (F : Nat) (start : Node)
    (hL : NoLeftRec G rank F) (hP : Productive G) (h : List Msg) :
    isPrefix G F start h = true ↔ PrefixLang G start h := by
  unfold isPrefix PrefixLang
  rw [nonEmpty_iff hP]
  constructor
  · rintro ⟨w, hw⟩; exact ⟨w, (derivs_iff hL h start w).1 hw⟩
  · rintro ⟨w, hw⟩; exact ⟨w, (derivs_iff hL h start w).2 hw⟩

/-- nothing is offered after a history that is not a prefix of an interaction, and every offer
    extends a valid prefix to a valid prefix -/
theorem C19_offers_keep_prefix (G : Grammar) (rank : String → Nat) (F : Nat) (start : Node)
    (hL : NoLeftRec G rank F) (hP : Productive G) (h : List Msg) (m : Msg)
    (hm : m ∈ nexts G F start h) : PrefixLang G start h ∧ PrefixLang G start (h ++ [m]) := by
  obtain ⟨w, hw⟩ := (C19_nexts_eq_cont G rank F start hL hP h m).1 hm
  exact ⟨⟨m :: w, hw⟩, ⟨w, by simpa using hw⟩⟩

/-! ## (b) completeness is reported exactly for full interactions -/

theorem C19_complete_iff (G : Grammar) (rank : String → Nat) (F : Nat) (start : Node)
    (hL : NoLeftRec G rank F) (h : List Msg) :
    complete G F start h = true ↔ LangMsg G start h := by
  unfold complete LangMsg
  rw [nullG_iff hL, derivs_iff hL]
  simp

/-! ## (c) repetition bounds -/

/-- message atom for a message -/
def atom (m : Msg) : Node := .nt m.type (some m.sender) m.recipient

/-- `k` iterations -/
def RepM (P : List Msg → Prop) : Nat → List Msg → Prop
  | 0, w => w = []
  | k + 1, w => ∃ w1 w2, w = w1 ++ w2 ∧ P w1 ∧ RepM P k w2

/-- a repetition describes exactly: some count `k` within the declared bounds, `k` iterations of the
    body (`max = none`: unbounded) — the same clause as `Matches` of the E2 core -/
theorem C19_rep_iff (G : Grammar) (id : String) (kind : RepKind) (n : Node) (w : List Msg) :
    ∀ (min : Nat) (max : Option Nat),
    GM G (.rep id kind n min max) w ↔ ∃ k, inBounds min max k ∧ RepM (GM G n) k w := by
  intro min max
  constructor
  · intro h
    generalize hx : Node.rep id kind n min max = x at h
    induction h generalizing min max with
    | msg => cases hx
    | unfold => cases hx
    | alt => cases hx
    | catNil => cases hx
    | catCons => cases hx
    | repNil id' kind' n' max' =>
      cases hx
      exact ⟨0, ⟨Nat.le_refl _, fun _ _ => Nat.zero_le _⟩, rfl⟩
    | repCons id' kind' n' min' max' w1 w2 hm h1 _ _ ih2 =>
      cases hx
      obtain ⟨k, hk, hr⟩ := ih2 _ _ rfl
      exact ⟨k + 1, predMax_bounds hm hk, w1, w2, rfl, h1, hr⟩
  · rintro ⟨k, hk, hr⟩
    induction k generalizing min max w with
    | zero =>
      have : min = 0 := by have := hk.1; omega
      subst this
      simp only [RepM] at hr
      subst hr
      exact GM.repNil id kind n max
    | succ k ih =>
      obtain ⟨w1, w2, rfl, h1, h2⟩ := hr
      have hmax : max ≠ some 0 := by
        intro h0; subst h0; have := hk.2 0 rfl; omega
      exact GM.repCons id kind n min max w1 w2 hmax h1 (ih w2 _ _ (bounds_predMax hk) h2)

theorem repM_atom (a : Msg) (G : Grammar) : ∀ (k : Nat) (w : List Msg),
    RepM (GM G (atom a)) k w ↔ w = List.replicate k a
  | 0, w => by simp [RepM]
  | k + 1, w => by
    simp only [RepM, atom, GM_msg_iff, List.replicate_succ]
    constructor
    · rintro ⟨w1, w2, rfl, rfl, h2⟩
      rw [(repM_atom a G k w2).1 h2]
      cases a; rfl
    · rintro rfl
      refine ⟨[a], List.replicate k a, ?_, ?_, (repM_atom a G k _).2 rfl⟩
      · rfl
      · cases a; rfl

/-- comparing `a^k x w'` with `a^j e` when `a ≠ e` -/
theorem replicate_cmp {a e x : Msg} (hne : a ≠ e) : ∀ (k j : Nat) (w' : List Msg),
    List.replicate k a ++ x :: w' = List.replicate j a ++ [e] ↔
      (x = e ∧ w' = [] ∧ j = k) ∨ (x = a ∧ k < j ∧ w' = List.replicate (j - k - 1) a ++ [e])
  | 0, 0, w' => by simp
  | 0, j + 1, w' => by
    simp only [List.replicate_zero, List.nil_append, List.replicate_succ, List.cons_append,
      List.cons.injEq, Nat.zero_lt_succ, true_and]
    constructor
    · rintro ⟨rfl, rfl⟩; right; simp
    · rintro (⟨_, _, h⟩ | ⟨rfl, h⟩)
      · omega
      · simpa using h
  | k + 1, 0, w' => by
    simp only [List.replicate_succ, List.cons_append, List.replicate_zero, List.nil_append,
      List.cons.injEq]
    constructor
    · rintro ⟨h, _⟩; exact absurd h hne
    · rintro (⟨_, _, h⟩ | ⟨_, h, _⟩) <;> omega
  | k + 1, j + 1, w' => by
    have := replicate_cmp (x := x) hne k j w'
    simp only [List.replicate_succ, List.cons_append, List.cons.injEq, true_and]
    rw [this]
    constructor
    · rintro (⟨h1, h2, h3⟩ | ⟨h1, h2, h3⟩)
      · exact Or.inl ⟨h1, h2, by omega⟩
      · refine Or.inr ⟨h1, by omega, ?_⟩
        have : j + 1 - (k + 1) - 1 = j - k - 1 := by omega
        rw [this]; exact h3
    · rintro (⟨h1, h2, h3⟩ | ⟨h1, h2, h3⟩)
      · exact Or.inl ⟨h1, h2, by omega⟩
      · refine Or.inr ⟨h1, by omega, ?_⟩
        have : j + 1 - (k + 1) - 1 = j - k - 1 := by omega
        rw [this] at h3; exact h3

/-- the protocol fragment `a{min,max} e` -/
def repThenExit (a e : Msg) (min : Nat) (max : Option Nat) : Node :=
  .cat "c" [.rep "r" .braces (atom a) min max, atom e]

theorem repThenExit_lang (G : Grammar) (a e : Msg) (min : Nat) (max : Option Nat) (w : List Msg) :
    GM G (repThenExit a e min max) w ↔ ∃ j, inBounds min max j ∧ w = List.replicate j a ++ [e] := by
  unfold repThenExit
  simp only [GM_cat_cons_iff, GM_cat_nil_iff, C19_rep_iff, repM_atom]
  constructor
  · rintro ⟨w1, w2, rfl, ⟨j, hj, rfl⟩, w3, w4, rfl, h3, rfl⟩
    have : w3 = [e] := by
      have := GM_msg_iff.1 (show GM G (.nt e.type (some e.sender) e.recipient) w3 from h3)
      rw [this]
    subst this
    exact ⟨j, hj, by simp⟩
  · rintro ⟨j, hj, rfl⟩
    refine ⟨List.replicate j a, [e], rfl, ⟨j, hj, rfl⟩, [e], [], by simp, ?_, rfl⟩
    exact GM_msg_iff.2 rfl

/-- **repetition bounds are respected** (specification level): in `a{min,max} e`, after `k`
    iterations the body `a` can follow iff a further iteration stays within `max`, and the exit `e`
    can follow iff `k` is within `[min,max]`.  In particular after the `max`-th iteration the body is
    not a continuation and before the `min`-th the exit is not. -/
theorem C19_rep_bound_respected (G : Grammar) (a e : Msg) (hne : a ≠ e) (lo : Nat) (hi : Option Nat)
    (k : Nat) :
    (Cont G (repThenExit a e lo hi) (List.replicate k a) a ↔
        ∀ mx, hi = some mx → k < mx ∧ lo ≤ mx) ∧
    (Cont G (repThenExit a e lo hi) (List.replicate k a) e ↔ inBounds lo hi k) := by
  constructor
  · unfold Cont
    simp only [repThenExit_lang]
    constructor
    · rintro ⟨w, j, hj, he⟩
      rcases (replicate_cmp hne k j w).1 he with ⟨h1, _, _⟩ | ⟨_, hkj, _⟩
      · exact absurd h1 hne
      · intro mx hmx
        have h1 := hj.1
        have h2 := hj.2 mx hmx
        omega
    · intro h
      have h1 : lo ≤ Nat.max lo (k + 1) := Nat.le_max_left _ _
      have h2 : k + 1 ≤ Nat.max lo (k + 1) := Nat.le_max_right _ _
      have h3 : ∀ mx, hi = some mx → Nat.max lo (k + 1) ≤ mx := by
        intro mx hmx
        have := h mx hmx
        exact Nat.max_le.2 ⟨this.2, this.1⟩
      generalize Nat.max lo (k + 1) = J at h1 h2 h3
      refine ⟨List.replicate (J - k - 1) a ++ [e], J, ⟨h1, h3⟩, ?_⟩
      exact (replicate_cmp hne k _ _).2 (Or.inr ⟨rfl, by omega, rfl⟩)
  · unfold Cont
    simp only [repThenExit_lang]
    constructor
    · rintro ⟨w, j, hj, he⟩
      rcases (replicate_cmp hne k j w).1 he with ⟨_, _, h3⟩ | ⟨h1, _, _⟩
      · subst h3; exact hj
      · exact absurd h1.symm hne
    · intro h
      exact ⟨[], k, h, (replicate_cmp hne k k []).2 (Or.inl ⟨rfl, rfl, rfl⟩)⟩

/-- the verified forecaster inherits the bounds (corollary of (a) and the previous theorem) -/
theorem C19_rep_bound_forecast (G : Grammar) (rank : String → Nat) (F : Nat)
    (hL : NoLeftRec G rank F) (hP : Productive G) (a e : Msg) (hne : a ≠ e) (min mx k : Nat) :
    (mx ≤ k → a ∉ nexts G F (repThenExit a e min (some mx)) (List.replicate k a)) ∧
    (k < min → e ∉ nexts G F (repThenExit a e min (some mx)) (List.replicate k a)) := by
  constructor
  · intro hk hm
    have := ((C19_rep_bound_respected G a e hne min (some mx) k).1).1
      ((C19_nexts_eq_cont G rank F _ hL hP _ _).1 hm) mx rfl
    omega
  · intro hk hm
    have := ((C19_rep_bound_respected G a e hne min (some mx) k).2).1
      ((C19_nexts_eq_cont G rank F _ hL hP _ _).1 hm)
    have := this.1
    omega

/-- **the documented repetition limit**: with an open upper bound read as the cap (`capNode`), after
    `k` iterations of `a* e` / `a{lo,} e` the body can follow iff `k < cap` — so after the `cap`-th
    iteration it is *not* a continuation (what `visitRepetitionType` implements with `node.max`) -/
theorem C19_open_bound_is_cap (G : Grammar) (a e : Msg) (hne : a ≠ e) (lo cap k : Nat) :
    (Cont G (capNode cap (repThenExit a e lo none)) (List.replicate k a) a ↔ k < cap ∧ lo ≤ cap) ∧
    (Cont G (capNode cap (repThenExit a e lo none)) (List.replicate k a) e ↔ lo ≤ k ∧ k ≤ cap) := by
  have hc : capNode cap (repThenExit a e lo none) = repThenExit a e lo (some cap) := by
    simp [repThenExit, capNode, capNodes, atom]
  rw [hc]
  have := C19_rep_bound_respected G a e hne lo (some cap) k
  constructor
  · rw [this.1]
    constructor
    · intro h; exact h cap rfl
    · intro h mx hmx; cases hmx; exact h
  · rw [this.2]
    unfold inBounds
    constructor
    · intro h; exact ⟨h.1, h.2 cap rfl⟩
    · intro h; exact ⟨h.1, fun mx hmx => by cases hmx; exact h.2⟩

/-! ## non-vacuity: an FTP/SMTP-style right-recursive protocol -/

def mA : Msg := ⟨"C", some "S", "<a>"⟩
def mB : Msg := ⟨"S", some "C", "<b>"⟩
def mC : Msg := ⟨"C", some "S", "<c>"⟩
def mQ : Msg := ⟨"C", some "S", "<q>"⟩

/-- `<start> ::= <st>`, `<st> ::= <C:S:a> <S:C:b> <st> | <C:S:q>` -/
def exRec : Grammar :=
  { rules := [("<start>", .nt "<st>" none none),
              ("<st>", .alt "a1" [.cat "c1" [atom mA, atom mB, .nt "<st>" none none], atom mQ])] }
def exRank : String → Nat := fun s => if s = "<start>" then 1 else 0

example : rankOk exRec exRank 2 = true := by decide
example : productiveB exRec 3 = true := by decide
example : nexts exRec 2 (.nt "<start>" none none) [mA, mB] = [mA, mQ] := by decide
example : nexts exRec 2 (.nt "<start>" none none) [mA] = [mB] := by decide
example : complete exRec 2 (.nt "<start>" none none) [mA, mB, mQ] = true := by decide
example : complete exRec 2 (.nt "<start>" none none) [mA, mB] = false := by decide
example : mA ≠ mC := by decide

/-! ## the model of the code on the witnesses of the repaired defects (F36, F38, F41, F42)

Regression witnesses (`decide`): the inputs on which the code used to deviate; the model of the current code
agrees with the verified forecaster on each of them (each is also in the corpus of the check and run on the
implementation). -/

/-- `<start> ::= (<C:S:a> <S:C:b>)* <C:S:c>` -/
def exStar : Grammar :=
  { rules := [("<start>", .cat "c2" [.rep "s1" .star (.cat "c1" [atom mA, atom mB]) 0 none, atom mC])] }
def exStarStart : Node := .nt "<start>" none none

/-- F36 (ebdb490d): after the history `[a]` of `(a b)* c` the only continuation is `b`; the visitor no longer
    leaves the repetition while its last iteration `a ·` is unfinished -/
theorem C19_code_on_unfinished_iteration :
    codeNexts exStar 20 2 exStarStart [mA] = [mB] ∧
    nexts exStar 2 exStarStart [mA] = [mB] ∧
    ¬ Cont exStar exStarStart [mA] mC ∧
    codeNexts exStar 20 2 exStarStart [mA, mB] = [mA, mC] ∧
    codeNexts exStar 20 2 exStarStart [] = [mA, mC] := by
  refine ⟨by decide, by decide, ?_, by decide, by decide⟩
  intro hc
  have hr : rankOk exStar (fun _ => 0) 2 = true := by decide
  have hp : productiveB exStar 2 = true := by decide
  have := (C19_nexts_eq_cont_cert exStar (fun _ => 0) 2 2 exStarStart hr hp [mA] mC).2 hc
  revert this
  decide

/-- F38 (fc0f6663): the empty history is complete when the empty interaction is in the language
    (`<start> ::= <C:S:a>?`) -/
theorem C19_code_empty_history_complete :
    let G : Grammar := { rules := [("<start>", .rep "o1" .opt (atom mA) 0 (some 1))] }
    complete G 2 exStarStart [] = true ∧ codeComplete G 2 exStarStart [] = true := by
  decide

/-- what `predict` reports as complete is, in the model of the code, the verified `complete` -/
theorem C19_code_complete_iff (G : Grammar) (rank : String → Nat) (F : Nat) (start : Node)
    (hL : NoLeftRec G rank F) (h : List Msg) :
    codeComplete G F start h = true ↔ LangMsg G start h :=
  C19_complete_iff G rank F start hL h

/-! ## the model of the code = the continuations, for the empty history

`codeNexts … []` is the exploring walk of `ContinuingNodeVisitor` from the start symbol (`current_tree[-1] is
None` everywhere: `walkNew…`).  It computes the FIRST set.  `walkCert` (evaluated by the driver): in every
rule the children of a concatenation each derive some interaction, repetition bounds are consistent and
`max > 0`.  For a non-empty history `codeNexts` walks the partial derivations of the history (`positions`, the
specification of the prefix parse) - the equality `codeNexts = nexts` is NOT proved there
(`C19_code_forecast_partial` names the gap); on those histories the tie is the per-run differential
implementation = `codeNexts` = `nexts`. -/

/-- **the exploring visitor offers exactly the messages that can start an interaction** (and reports
    `continue_exploring` exactly for nodes that derive the empty interaction) -/
theorem C19_code_walk_first (G : Grammar) (rank : String → Nat) (F cap : Nat) (n : Node)
    (hL : NoLeftRec G rank F) (hP : Productive G) (hW : walkCert G = true) (hn : walkOk G n = true) :
    (∀ m, m ∈ (walkNewWith (walkNewTab G cap F) cap n).1 ↔ ∃ w, GM G n (m :: w)) ∧
    ((walkNewWith (walkNewTab G cap F) cap n).2 = true ↔ GM G n []) :=
  walkNewWith_ok G hP (walkNewTab G cap F) cap n
    (fun name _ => walkNewTab_ok_all hL hP (walkCert_sound hW) cap name) hn

/-- the forecast of the model of the code for the empty history is the set of continuations -/
theorem C19_code_forecast_initial (G : Grammar) (rank : String → Nat) (F cap : Nat) (start : Node)
    (hL : NoLeftRec G rank F) (hP : Productive G) (hW : walkCert G = true) (hn : walkOk G start = true)
    (m : Msg) :
    m ∈ codeNexts G cap F start [] ↔ Cont G start [] m := by
  unfold codeNexts dedupM Cont
  simp only [List.mem_eraseDups, List.nil_append]
  exact (C19_code_walk_first G rank F cap start hL hP hW hn).1 m

/-- hence, for the empty history, the model of the code agrees with the verified forecaster -/
theorem C19_code_forecast_partial (G : Grammar) (rank : String → Nat) (F cap : Nat) (start : Node)
    (hL : NoLeftRec G rank F) (hP : Productive G) (hW : walkCert G = true) (hn : walkOk G start = true)
    (m : Msg) :
    m ∈ codeNexts G cap F start [] ↔ m ∈ nexts G F start [] := by
  rw [C19_code_forecast_initial G rank F cap start hL hP hW hn m,
    C19_nexts_eq_cont G rank F start hL hP [] m]

/-- full statement of which `C19_code_forecast_partial` is the case `h = []`: not proved for `h ≠ []` (it needs
    "`positions` = the partial derivations of `h`" and "the walk along a position = the derivative").  Grammars
    with an open-ended repetition are left out: there the visitor implements the repetition limit
    (`C19_open_bound_is_cap`, open finding F43). -/
def CodeForecastFull : Prop :=
  ∀ (G : Grammar) (rank : String → Nat) (F cap : Nat) (start : Node),
    NoLeftRec G rank F → Productive G → walkCert G = true → walkOk G start = true →
    (capG cap G).rules = G.rules →
    ∀ (h : List Msg) (m : Msg), PrefixLang G start h →
      (m ∈ codeNexts G cap ((h.length + 2) * (G.rules.length + 1)) start h ↔ Cont G start h m)

-- the hypotheses hold on the right-recursive example
example : walkCert exRec = true := by decide
example : walkOk exRec (.nt "<start>" none none) = true := by decide
example : codeNexts exRec 20 2 (.nt "<start>" none none) [] = [mA, mQ] := by decide

/-! ## (d) slicing: the sliced grammar describes the visible parts of the interactions

`sliceG` models `slice_parties` / `PacketTruncator` line by line (tied to the real function rule by rule, node
ids included, on every run).  `sliceCert G` (evaluated by the driver for every sliced grammar): rule names are
distinct, every rule body is well-formed (alternatives non-empty, `min ≤ max`), no message type is also
unfolded as a nonterminal of the protocol level.  The start symbol must survive the slicing
(`(sliceG cfg G).rule name ≠ none`; otherwise every interaction is invisible - `C19_slice_deleted_invisible`). -/

/-- **slicing commutes with projection**: the interactions of the sliced grammar are exactly the parts of
    the interactions of `G` that are visible to the kept parties -/
theorem C19_slice_commutes (cfg : SliceCfg) (G : Grammar) (hc : sliceCert G = true) (name : String)
    (r : Option String) (hs : (sliceG cfg G).rule name ≠ none) (w : List Msg) :
    LangMsg (sliceG cfg G) (.nt name none r) w ↔
      ∃ w', LangMsg G (.nt name none r) w' ∧ project cfg w' = w :=
  (sliceG_spec (cfg := cfg) hc).sem name r w hs

/-- a nonterminal that `slice_parties` deletes has invisible interactions only -/
theorem C19_slice_deleted_invisible (cfg : SliceCfg) (G : Grammar) (hc : sliceCert G = true) (name : String)
    (r : Option String) (h1 : G.rule name ≠ none) (h2 : (sliceG cfg G).rule name = none)
    (w' : List Msg) (hw : LangMsg G (.nt name none r) w') : project cfg w' = [] :=
  (sliceG_spec (cfg := cfg) hc).del name r h1 h2 w' hw

/-- the continuations in the sliced grammar are the continuations of the visible language -/
theorem C19_slice_cont (cfg : SliceCfg) (G : Grammar) (hc : sliceCert G = true) (name : String)
    (r : Option String) (hs : (sliceG cfg G).rule name ≠ none) (h : List Msg) (m : Msg) :
    Cont (sliceG cfg G) (.nt name none r) h m ↔
      ∃ w' w, LangMsg G (.nt name none r) w' ∧ project cfg w' = h ++ m :: w := by
  unfold Cont
  constructor
  · rintro ⟨w, hw⟩
    obtain ⟨w', hw', hp⟩ := (C19_slice_commutes cfg G hc name r hs _).1 hw
    exact ⟨w', w, hw', hp⟩
  · rintro ⟨w', w, hw', hp⟩
    exact ⟨w, (C19_slice_commutes cfg G hc name r hs _).2 ⟨w', hw', hp⟩⟩

/-- **forecasting on the sliced grammar = forecasting on `G` restricted to the kept parties' messages**:
    the verified forecaster on `sliceG cfg G` offers `m` after `h` iff some interaction of `G` has a visible
    part that continues `h` with `m`; `h` is complete iff it is the visible part of an interaction of `G`.
    (`NoLeftRec` / `Productive` of the sliced grammar: the certificates `rankOk` / `productiveB` that the driver
    evaluates for the sliced grammar.) -/
theorem C19_slice_forecast (cfg : SliceCfg) (G : Grammar) (hc : sliceCert G = true) (name : String)
    (r : Option String) (hs : (sliceG cfg G).rule name ≠ none) (rank : String → Nat) (F : Nat)
    (hL : NoLeftRec (sliceG cfg G) rank F) (hP : Productive (sliceG cfg G)) (h : List Msg) :
    (∀ m, m ∈ nexts (sliceG cfg G) F (.nt name none r) h ↔
      ∃ w' w, LangMsg G (.nt name none r) w' ∧ project cfg w' = h ++ m :: w) ∧
    (complete (sliceG cfg G) F (.nt name none r) h = true ↔
      ∃ w', LangMsg G (.nt name none r) w' ∧ project cfg w' = h) := by
  constructor
  · intro m
    rw [C19_nexts_eq_cont (sliceG cfg G) rank F _ hL hP h m]
    exact C19_slice_cont cfg G hc name r hs h m
  · rw [C19_complete_iff (sliceG cfg G) rank F _ hL h]
    exact C19_slice_commutes cfg G hc name r hs h

def sA0 : Msg := ⟨"A", some "B", "<m0>"⟩
def sB1 : Msg := ⟨"B", some "C", "<m1>"⟩
def sA2 : Msg := ⟨"A", some "B", "<m2>"⟩
def sC1 : Msg := ⟨"C", some "A", "<m1>"⟩

/-- `<start> ::= <A:B:m0> (<B:C:m1> | <A:B:m2>)` -/
def exSlice : Grammar :=
  { rules := [("<start>", .cat "c1" [atom sA0, .alt "a1" [atom sB1, atom sA2]])] }

/-- F42 (e74d4443): an alternative that consists of invisible messages is the empty way through: `m0 m1` is
    an interaction, its part visible to `A` is `m0`, and `m0` is an interaction of the sliced grammar -/
theorem C19_slice_keeps_invisible_alternative :
    complete exSlice 2 exStarStart [sA0, sB1] = true ∧
    project ⟨["A"], false⟩ [sA0, sB1] = [sA0] ∧
    complete (sliceG ⟨["A"], false⟩ exSlice) 2 exStarStart [sA0] = true ∧
    nexts (sliceG ⟨["A"], false⟩ exSlice) 2 exStarStart [sA0] = [sA2] := by
  decide

-- the hypotheses of `C19_slice_commutes` / `C19_slice_forecast` hold on the witness
example : sliceCert exSlice = true := by decide
example : (sliceG ⟨["A"], false⟩ exSlice).rule "<start>" ≠ none := by decide
example : rankOk (sliceG ⟨["A"], false⟩ exSlice) (fun _ => 0) 2 = true := by decide
example : productiveB (sliceG ⟨["A"], false⟩ exSlice) 2 = true := by decide

/-- a spec with a helper rule that is invisible to `A`: two rounds (`<x>` is deleted in the first, the
    reference to it in the second) -/
def exSlice2 : Grammar :=
  { rules := [("<start>", .cat "c1" [atom sA0, .nt "<x>" none none, .rep "s1" .star (.alt "a1" [atom sB1, atom sA2]) 0 none]),
              ("<x>", .cat "c2" [atom sB1, atom sB1])] }
example : sliceCert exSlice2 = true := by decide
example : (sliceG ⟨["A"], false⟩ exSlice2).rule "<x>" = none ∧
    (sliceG ⟨["A"], false⟩ exSlice2).rule "<start>" ≠ none ∧
    (sliceG ⟨["A"], false⟩ exSlice2).rules.length = 1 ∧
    nexts (sliceG ⟨["A"], false⟩ exSlice2) 2 exStarStart [sA0] = [sA2] ∧
    complete (sliceG ⟨["A"], false⟩ exSlice2) 2 exStarStart [sA0, sA2, sA2] = true ∧
    complete exSlice2 3 exStarStart [sA0, sB1, sB1, sA2, sB1, sA2] = true ∧
    project ⟨["A"], false⟩ [sA0, sB1, sB1, sA2, sB1, sA2] = [sA0, sA2, sA2] := by decide

/-- `<start> ::= (<C:A:m1> | <B:C:m1> | <A:B:m2>)` -/
def exSliceEq : Grammar :=
  { rules := [("<start>", .alt "a1" [atom sC1, atom sB1, atom sA2])] }

/-- F41 (ed4e9a62): slicing to `A` drops the invisible `<B:C:m1>` and keeps the visible `<C:A:m1>` -/
theorem C19_slice_removes_invisible_occurrence :
    nexts (sliceG ⟨["A"], false⟩ exSliceEq) 2 exStarStart [] = [sC1, sA2] ∧
    visible ⟨["A"], false⟩ sB1 = false ∧ visible ⟨["A"], false⟩ sC1 = true := by
  decide

end Fc
end FV
