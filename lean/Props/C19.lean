/-
C19 — protocol forecasting offers exactly the grammar's continuations.

Property theorems only; helper lemmas are in `Proofs/Forecast.lean`, the model in
`Model/Forecast.lean` (tied to /repo by `harness/props/c19.py`).

Full statement (for all protocol grammars `G`, start nodes, and histories `h`):
  (a) the forecast after `h` is exactly `Cont G start h` — the messages `m` such that `h ++ m :: w`
      is an interaction for some `w`;
  (b) `h` is reported complete iff `h` is an interaction;
  (c) repetition bounds are respected;
  (d) the same on the grammar sliced to a set of parties, whose interactions are the visible parts of
      the interactions of `G`.
(a)–(c) are proved for the *verified forecaster* `nexts`/`complete` under two explicit, machine-checkable
hypotheses (no left recursion — certificate `rankOk`; every rule productive — certificate
`productiveB`); both certificates are evaluated by the driver for every grammar of every run.
What the code computes (`codeNexts`: prefix parse + `ContinuingNodeVisitor`) is modelled in
`Model/Forecast.lean`; it is *not* equal to `nexts`: `C19_code_offers_non_continuation` proves the
counterexample (replayed on the implementation by the check), `C19_fixed_visitor_on_witness` shows the
repaired visitor agrees on it.  The general equality `codeNexts (fixed) = nexts` is not proved: for
that part the per-run correspondence (implementation = `codeNexts`, and implementation = `nexts` on
every enumerated history) is the tie.
-/
import Proofs.Forecast
namespace FV
namespace Fc

/-! ## (a) the forecast is the set of continuations -/

/-- for every history (valid prefix or not) and every message: the verified forecaster offers `m`
    after `h` iff `m` can follow `h` in some interaction of the grammar -/
theorem C19_nexts_eq_cont (G : Grammar) (rank : String → Nat) (F : Nat) (start : Node)
    (hL : NoLeftRec G rank F) (hP : Productive G) (h : List Msg) (m : Msg) :
    m ∈ nexts G F start h ↔ Cont G start h m := by
  have key : isNext G F start h m = true ↔ Cont G start h m := by
    unfold isNext Cont
    rw [nonEmpty_iff hP]
    constructor
    · rintro ⟨w, hw⟩
      refine ⟨w, ?_⟩
      have := (derivs_iff hL (h ++ [m]) start w).1 hw
      simpa using this
    · rintro ⟨w, hw⟩
      exact ⟨w, (derivs_iff hL (h ++ [m]) start w).2 (by simpa using hw)⟩
  unfold nexts
  rw [List.mem_filter, key]
  constructor
  · exact fun h => h.2
  · intro hc
    obtain ⟨w, hw⟩ := hc
    exact ⟨mem_allMsgs hw m (by simp), ⟨w, hw⟩⟩

/-- the same with the hypotheses replaced by their executable certificates -/
theorem C19_nexts_eq_cont_cert (G : Grammar) (rank : String → Nat) (F F' : Nat) (start : Node)
    (hr : rankOk G rank F = true) (hp : productiveB G F' = true) (h : List Msg) (m : Msg) :
    m ∈ nexts G F start h ↔ Cont G start h m :=
  C19_nexts_eq_cont G rank F start (rankOk_sound hr) (productiveB_sound hp) h m

/-- a history is a prefix of an interaction iff the residual grammar is non-empty -/
theorem C19_prefix_iff (G : Grammar) (rank : String → Nat) (F : Nat) (start : Node)
    (hL : NoLeftRec G rank F) (hP : Productive G) (h : List Msg) :
    isPrefix G F start h = true ↔ PrefixLang G start h := by
  unfold isPrefix PrefixLang
  rw [nonEmpty_iff hP]
  constructor
  · rintro ⟨w, hw⟩; exact ⟨w, (derivs_iff hL h start w).1 hw⟩
  · rintro ⟨w, hw⟩; exact ⟨w, (derivs_iff hL h start w).2 hw⟩

/-- nothing is offered after a history that is not a prefix of an interaction, and every offer
    extends a valid prefix to a valid prefix -/
theorem C19_offers_keep_prefix (G : Grammar) (rank : String → Nat) (F : Nat) (start : Node)
    (hL : NoLeftRec G rank F) (hP : Productive G) (h : List Msg) (m : Msg)
    (hm : m ∈ nexts G F start h) : PrefixLang G start h ∧ PrefixLang G start (h ++ [m]) := by
  obtain ⟨w, hw⟩ := (C19_nexts_eq_cont G rank F start hL hP h m).1 hm
  exact ⟨⟨m :: w, hw⟩, ⟨w, by simpa using hw⟩⟩

/-! ## (b) completeness is reported exactly for full interactions -/

theorem C19_complete_iff (G : Grammar) (rank : String → Nat) (F : Nat) (start : Node)
    (hL : NoLeftRec G rank F) (h : List Msg) :
    complete G F start h = true ↔ LangMsg G start h := by
  unfold complete LangMsg
  rw [nullG_iff hL, derivs_iff hL]
  simp

/-! ## (c) repetition bounds -/

/-- message atom for a message -/
def atom (m : Msg) : Node := .nt m.type (some m.sender) m.recipient

/-- `k` iterations -/
def RepM (P : List Msg → Prop) : Nat → List Msg → Prop
  | 0, w => w = []
  | k + 1, w => ∃ w1 w2, w = w1 ++ w2 ∧ P w1 ∧ RepM P k w2

/-- a repetition describes exactly: some count `k` within the declared bounds, `k` iterations of the
    body (`max = none`: unbounded) — the same clause as `Matches` of the E2 core -/
theorem C19_rep_iff (G : Grammar) (id : String) (kind : RepKind) (n : Node) (w : List Msg) :
    ∀ (min : Nat) (max : Option Nat),
    GM G (.rep id kind n min max) w ↔ ∃ k, inBounds min max k ∧ RepM (GM G n) k w := by
  intro min max
  constructor
  · intro h
    generalize hx : Node.rep id kind n min max = x at h
    induction h generalizing min max with
    | msg => cases hx
    | unfold => cases hx
    | alt => cases hx
    | catNil => cases hx
    | catCons => cases hx
    | repNil id' kind' n' max' =>
      cases hx
      exact ⟨0, ⟨Nat.le_refl _, fun _ _ => Nat.zero_le _⟩, rfl⟩
    | repCons id' kind' n' min' max' w1 w2 hm h1 _ _ ih2 =>
      cases hx
      obtain ⟨k, hk, hr⟩ := ih2 _ _ rfl
      exact ⟨k + 1, predMax_bounds hm hk, w1, w2, rfl, h1, hr⟩
  · rintro ⟨k, hk, hr⟩
    induction k generalizing min max w with
    | zero =>
      have : min = 0 := by have := hk.1; omega
      subst this
      simp only [RepM] at hr
      subst hr
      exact GM.repNil id kind n max
    | succ k ih =>
      obtain ⟨w1, w2, rfl, h1, h2⟩ := hr
      have hmax : max ≠ some 0 := by
        intro h0; subst h0; have := hk.2 0 rfl; omega
      exact GM.repCons id kind n min max w1 w2 hmax h1 (ih w2 _ _ (bounds_predMax hk) h2)

theorem repM_atom (a : Msg) (G : Grammar) : ∀ (k : Nat) (w : List Msg),
    RepM (GM G (atom a)) k w ↔ w = List.replicate k a
  | 0, w => by simp [RepM]
  | k + 1, w => by
    simp only [RepM, atom, GM_msg_iff, List.replicate_succ]
    constructor
    · rintro ⟨w1, w2, rfl, rfl, h2⟩
      rw [(repM_atom a G k w2).1 h2]
      cases a; rfl
    · rintro rfl
      refine ⟨[a], List.replicate k a, ?_, ?_, (repM_atom a G k _).2 rfl⟩
      · rfl
      · cases a; rfl

/-- comparing `a^k x w'` with `a^j e` when `a ≠ e` -/
theorem replicate_cmp {a e x : Msg} (hne : a ≠ e) : ∀ (k j : Nat) (w' : List Msg),
    List.replicate k a ++ x :: w' = List.replicate j a ++ [e] ↔
      (x = e ∧ w' = [] ∧ j = k) ∨ (x = a ∧ k < j ∧ w' = List.replicate (j - k - 1) a ++ [e])
  | 0, 0, w' => by simp
  | 0, j + 1, w' => by
    simp only [List.replicate_zero, List.nil_append, List.replicate_succ, List.cons_append,
      List.cons.injEq, Nat.zero_lt_succ, true_and]
    constructor
    · rintro ⟨rfl, rfl⟩; right; simp
    · rintro (⟨_, _, h⟩ | ⟨rfl, h⟩)
      · omega
      · simpa using h
  | k + 1, 0, w' => by
    simp only [List.replicate_succ, List.cons_append, List.replicate_zero, List.nil_append,
      List.cons.injEq]
    constructor
    · rintro ⟨h, _⟩; exact absurd h hne
    · rintro (⟨_, _, h⟩ | ⟨_, h, _⟩) <;> omega
  | k + 1, j + 1, w' => by
    have := replicate_cmp (x := x) hne k j w'
    simp only [List.replicate_succ, List.cons_append, List.cons.injEq, true_and]
    rw [this]
    constructor
    · rintro (⟨h1, h2, h3⟩ | ⟨h1, h2, h3⟩)
      · exact Or.inl ⟨h1, h2, by omega⟩
      · refine Or.inr ⟨h1, by omega, ?_⟩
        have : j + 1 - (k + 1) - 1 = j - k - 1 := by omega
        rw [this]; exact h3
    · rintro (⟨h1, h2, h3⟩ | ⟨h1, h2, h3⟩)
      · exact Or.inl ⟨h1, h2, by omega⟩
      · refine Or.inr ⟨h1, by omega, ?_⟩
        have : j + 1 - (k + 1) - 1 = j - k - 1 := by omega
        rw [this] at h3; exact h3

/-- the protocol fragment `a{min,max} e` -/
def repThenExit (a e : Msg) (min : Nat) (max : Option Nat) : Node :=
  .cat "c" [.rep "r" .braces (atom a) min max, atom e]

theorem repThenExit_lang (G : Grammar) (a e : Msg) (min : Nat) (max : Option Nat) (w : List Msg) :
    GM G (repThenExit a e min max) w ↔ ∃ j, inBounds min max j ∧ w = List.replicate j a ++ [e] := by
  unfold repThenExit
  simp only [GM_cat_cons_iff, GM_cat_nil_iff, C19_rep_iff, repM_atom]
  constructor
  · rintro ⟨w1, w2, rfl, ⟨j, hj, rfl⟩, w3, w4, rfl, h3, rfl⟩
    have : w3 = [e] := by
      have := GM_msg_iff.1 (show GM G (.nt e.type (some e.sender) e.recipient) w3 from h3)
      rw [this]
    subst this
    exact ⟨j, hj, by simp⟩
  · rintro ⟨j, hj, rfl⟩
    refine ⟨List.replicate j a, [e], rfl, ⟨j, hj, rfl⟩, [e], [], by simp, ?_, rfl⟩
    exact GM_msg_iff.2 rfl

/-- **repetition bounds are respected** (specification level): in `a{min,max} e`, after `k`
    iterations the body `a` can follow iff a further iteration stays within `max`, and the exit `e`
    can follow iff `k` is within `[min,max]`.  In particular after the `max`-th iteration the body is
    not a continuation and before the `min`-th the exit is not. -/
theorem C19_rep_bound_respected (G : Grammar) (a e : Msg) (hne : a ≠ e) (lo : Nat) (hi : Option Nat)
    (k : Nat) :
    (Cont G (repThenExit a e lo hi) (List.replicate k a) a ↔
        ∀ mx, hi = some mx → k < mx ∧ lo ≤ mx) ∧
    (Cont G (repThenExit a e lo hi) (List.replicate k a) e ↔ inBounds lo hi k) := by
  constructor
  · unfold Cont
    simp only [repThenExit_lang]
    constructor
    · rintro ⟨w, j, hj, he⟩
      rcases (replicate_cmp hne k j w).1 he with ⟨h1, _, _⟩ | ⟨_, hkj, _⟩
      · exact absurd h1 hne
      · intro mx hmx
        have h1 := hj.1
        have h2 := hj.2 mx hmx
        omega
    · intro h
      have h1 : lo ≤ Nat.max lo (k + 1) := Nat.le_max_left _ _
      have h2 : k + 1 ≤ Nat.max lo (k + 1) := Nat.le_max_right _ _
      have h3 : ∀ mx, hi = some mx → Nat.max lo (k + 1) ≤ mx := by
        intro mx hmx
        have := h mx hmx
        exact Nat.max_le.2 ⟨this.2, this.1⟩
      generalize Nat.max lo (k + 1) = J at h1 h2 h3
      refine ⟨List.replicate (J - k - 1) a ++ [e], J, ⟨h1, h3⟩, ?_⟩
      exact (replicate_cmp hne k _ _).2 (Or.inr ⟨rfl, by omega, rfl⟩)
  · unfold Cont
    simp only [repThenExit_lang]
    constructor
    · rintro ⟨w, j, hj, he⟩
      rcases (replicate_cmp hne k j w).1 he with ⟨_, _, h3⟩ | ⟨h1, _, _⟩
      · subst h3; exact hj
      · exact absurd h1.symm hne
    · intro h
      exact ⟨[], k, h, (replicate_cmp hne k k []).2 (Or.inl ⟨rfl, rfl, rfl⟩)⟩

/-- the verified forecaster inherits the bounds (corollary of (a) and the previous theorem) -/
theorem C19_rep_bound_forecast (G : Grammar) (rank : String → Nat) (F : Nat)
    (hL : NoLeftRec G rank F) (hP : Productive G) (a e : Msg) (hne : a ≠ e) (min mx k : Nat) :
    (mx ≤ k → a ∉ nexts G F (repThenExit a e min (some mx)) (List.replicate k a)) ∧
    (k < min → e ∉ nexts G F (repThenExit a e min (some mx)) (List.replicate k a)) := by
  constructor
  · intro hk hm
    have := ((C19_rep_bound_respected G a e hne min (some mx) k).1).1
      ((C19_nexts_eq_cont G rank F _ hL hP _ _).1 hm) mx rfl
    omega
  · intro hk hm
    have := ((C19_rep_bound_respected G a e hne min (some mx) k).2).1
      ((C19_nexts_eq_cont G rank F _ hL hP _ _).1 hm)
    have := this.1
    omega

/-- **the documented repetition limit**: with an open upper bound read as the cap (`capNode`), after
    `k` iterations of `a* e` / `a{lo,} e` the body can follow iff `k < cap` — so after the `cap`-th
    iteration it is *not* a continuation (what `visitRepetitionType` implements with `node.max`) -/
theorem C19_open_bound_is_cap (G : Grammar) (a e : Msg) (hne : a ≠ e) (lo cap k : Nat) :
    (Cont G (capNode cap (repThenExit a e lo none)) (List.replicate k a) a ↔ k < cap ∧ lo ≤ cap) ∧
    (Cont G (capNode cap (repThenExit a e lo none)) (List.replicate k a) e ↔ lo ≤ k ∧ k ≤ cap) := by
  have hc : capNode cap (repThenExit a e lo none) = repThenExit a e lo (some cap) := by
    simp [repThenExit, capNode, capNodes, atom]
  rw [hc]
  have := C19_rep_bound_respected G a e hne lo (some cap) k
  constructor
  · rw [this.1]
    constructor
    · intro h; exact h cap rfl
    · intro h mx hmx; cases hmx; exact h
  · rw [this.2]
    unfold inBounds
    constructor
    · intro h; exact ⟨h.1, h.2 cap rfl⟩
    · intro h; exact ⟨h.1, fun mx hmx => by cases hmx; exact h.2⟩

/-! ## non-vacuity: an FTP/SMTP-style right-recursive protocol -/

def mA : Msg := ⟨"C", some "S", "<a>"⟩
def mB : Msg := ⟨"S", some "C", "<b>"⟩
def mC : Msg := ⟨"C", some "S", "<c>"⟩
def mQ : Msg := ⟨"C", some "S", "<q>"⟩

/-- `<start> ::= <st>`, `<st> ::= <C:S:a> <S:C:b> <st> | <C:S:q>` -/
def exRec : Grammar :=
  { rules := [("<start>", .nt "<st>" none none),
              ("<st>", .alt "a1" [.cat "c1" [atom mA, atom mB, .nt "<st>" none none], atom mQ])] }
def exRank : String → Nat := fun s => if s = "<start>" then 1 else 0

example : rankOk exRec exRank 2 = true := by decide
example : productiveB exRec 3 = true := by decide
example : nexts exRec 2 (.nt "<start>" none none) [mA, mB] = [mA, mQ] := by decide
example : nexts exRec 2 (.nt "<start>" none none) [mA] = [mB] := by decide
example : complete exRec 2 (.nt "<start>" none none) [mA, mB, mQ] = true := by decide
example : complete exRec 2 (.nt "<start>" none none) [mA, mB] = false := by decide
example : mA ≠ mC := by decide

/-! ## the model of the code on the witnesses of the repaired defects (F36, F38, F41, F42)

Regression witnesses (`decide`): the inputs on which the code used to deviate; the model of the current code
agrees with the verified forecaster on each of them (each is also in the corpus of the check and run on the
implementation). -/

/-- `<start> ::= (<C:S:a> <S:C:b>)* <C:S:c>` -/
def exStar : Grammar :=
  { rules := [("<start>", .cat "c2" [.rep "s1" .star (.cat "c1" [atom mA, atom mB]) 0 none, atom mC])] }
def exStarStart : Node := .nt "<start>" none none

/-- F36 (ebdb490d): after the history `[a]` of `(a b)* c` the only continuation is `b`; the visitor no longer
    leaves the repetition while its last iteration `a ·` is unfinished -/
theorem C19_code_on_unfinished_iteration :
    codeNexts exStar 20 2 exStarStart [mA] = [mB] ∧
    nexts exStar 2 exStarStart [mA] = [mB] ∧
    ¬ Cont exStar exStarStart [mA] mC ∧
    codeNexts exStar 20 2 exStarStart [mA, mB] = [mA, mC] ∧
    codeNexts exStar 20 2 exStarStart [] = [mA, mC] := by
  refine ⟨by decide, by decide, ?_, by decide, by decide⟩
  intro hc
  have hr : rankOk exStar (fun _ => 0) 2 = true := by decide
  have hp : productiveB exStar 2 = true := by decide
  have := (C19_nexts_eq_cont_cert exStar (fun _ => 0) 2 2 exStarStart hr hp [mA] mC).2 hc
  revert this
  decide

/-- F38 (fc0f6663): the empty history is complete when the empty interaction is in the language
    (`<start> ::= <C:S:a>?`) -/
theorem C19_code_empty_history_complete :
    let G : Grammar := { rules := [("<start>", .rep "o1" .opt (atom mA) 0 (some 1))] }
    complete G 2 exStarStart [] = true ∧ codeComplete G 2 exStarStart [] = true := by
  decide

/-- what `predict` reports as complete is, in the model of the code, the verified `complete` -/
theorem C19_code_complete_iff (G : Grammar) (rank : String → Nat) (F : Nat) (start : Node)
    (hL : NoLeftRec G rank F) (h : List Msg) :
    codeComplete G F start h = true ↔ LangMsg G start h :=
  C19_complete_iff G rank F start hL h

/-! ## (d) slicing -/

def sA0 : Msg := ⟨"A", some "B", "<m0>"⟩
def sB1 : Msg := ⟨"B", some "C", "<m1>"⟩
def sA2 : Msg := ⟨"A", some "B", "<m2>"⟩
def sC1 : Msg := ⟨"C", some "A", "<m1>"⟩

/-- `<start> ::= <A:B:m0> (<B:C:m1> | <A:B:m2>)` -/
def exSlice : Grammar :=
  { rules := [("<start>", .cat "c1" [atom sA0, .alt "a1" [atom sB1, atom sA2]])] }

/-- F42 (e74d4443): an alternative that consists of invisible messages is the empty way through: `m0 m1` is
    an interaction, its part visible to `A` is `m0`, and `m0` is an interaction of the sliced grammar -/
theorem C19_slice_keeps_invisible_alternative :
    complete exSlice 2 exStarStart [sA0, sB1] = true ∧
    project ⟨["A"], false⟩ [sA0, sB1] = [sA0] ∧
    complete (sliceG ⟨["A"], false⟩ exSlice) 2 exStarStart [sA0] = true ∧
    nexts (sliceG ⟨["A"], false⟩ exSlice) 2 exStarStart [sA0] = [sA2] := by
  decide

/-- `<start> ::= (<C:A:m1> | <B:C:m1> | <A:B:m2>)` -/
def exSliceEq : Grammar :=
  { rules := [("<start>", .alt "a1" [atom sC1, atom sB1, atom sA2])] }

/-- F41 (ed4e9a62): slicing to `A` drops the invisible `<B:C:m1>` and keeps the visible `<C:A:m1>` -/
theorem C19_slice_removes_invisible_occurrence :
    nexts (sliceG ⟨["A"], false⟩ exSliceEq) 2 exStarStart [] = [sC1, sA2] ∧
    visible ⟨["A"], false⟩ sB1 = false ∧ visible ⟨["A"], false⟩ sC1 = true := by
  decide

end Fc
end FV
