/-
C19 — protocol forecasting offers exactly the grammar's continuations.

Property theorems only; helper lemmas are in `Proofs/Forecast.lean`, the model in
`Model/Forecast.lean` (tied to /repo by `harness/props/c19.py`).

Full statement (for all protocol grammars `G`, start nodes, and histories `h`):
  (a) the forecast after `h` is exactly `Cont G start h` — the messages `m` such that `h ++ m :: w`
      is an interaction for some `w`;
  (b) `h` is reported complete iff `h` is an interaction;
  (c) repetition bounds are respected;
  (d) the same on the grammar sliced to a set of parties, whose interactions are the visible parts of
      the interactions of `G`.
(a)–(c) are proved for the *verified forecaster* `nexts`/`complete` under two explicit, machine-checkable
hypotheses (no left recursion — certificate `rankOk`; every rule productive — certificate
`productiveB`); both certificates are evaluated by the driver for every grammar of every run.
(d) is proved for `sliceG`, the line-by-line model of the current `slice_parties` / `PacketTruncator`
(`C19_slice_commutes`, `C19_slice_forecast`; hypothesis `sliceCert`, evaluated by the driver for every slice).
What the code computes for the forecast (`codeNexts`: prefix parse + `ContinuingNodeVisitor` / `PathFinder`) is modelled
in `Model/Forecast.lean` for the code as repaired by ebdb490d, 8757f904, fc0f6663, 58f3e8e8, 07eb1fdf (forecaster),
ed4e9a62, e74d4443 (slicing), b48dd899 (parser bound of `{n,}`); the two last repairs of the visitor are pinned to the
source by `harness/translate_proto.py` (`C19_source_configuration`).  PROVED about that model, for every grammar that
passes the certificates (`rankOk`, `productiveB`, `walkCert`), every start node and EVERY history:
  * `C19_code_forecast_full : CodeForecastFull` - the model of `predict` offers `m` after `h` iff `m` can follow `h`
    (`C19_code_eq_nexts`: it agrees with the verified forecaster); `C19_code_complete_iff` - it reports `h` complete
    iff `h` is an interaction.  The proof has three parts:
      - the exploring visitor computes the FIRST set (`C19_code_walk_first`; the empty history:
        `C19_code_forecast_initial`, `C19_code_forecast_partial`);
      - the visitor along a partial derivation tree offers exactly the first messages of the completions of that
        tree (`C19_code_walk_along_position`; `C19_every_extension_completes_a_position`), hence: IF the right spines
        handed to the visitor meet `PositionsExact` - every one is a message-level partial derivation of the history
        (soundness of the prefix parse), every derivation that extends the history completes one of them (its
        completeness) - THEN the forecast is exactly the set of continuations (`C19_code_forecast_of_positions`);
      - the model's specification of the prefix parse meets `PositionsExact` (`C19_positions_sound`,
        `C19_positions_exact`; `C19_code_forecast_sound`: only continuations are offered, whatever the fuel).
  * the repetition rule of the code as it is: a closed bound stops the offer of the body after the `max`-th iteration,
    an open bound never does (`C19_rep_bound_code`); the OLD rule (cap on open bounds, finding F43, fixed by 07eb1fdf)
    survives only as the labelled witness `C19_OLD_RULE_open_bound_is_cap`.
NOT PROVED: `PositionsExact` of what the REAL prefix parse hands to the visitor.  Its `sound` half was FALSE of the
parser until 4549536c (finding F68 `C19/option-from-tree-that-is-no-partial-derivation`, found by this check: `predict`
re-parses the history by message TYPE, and a type-level parse that the party filter drops later left states behind with
which the forced completion of an unfinished node was advanced again; `C04_prefix_rightmost_path_only_is_false_witness`
is the parser-level witness for the old rule).  Since the fix (`ParseState.cut_short`) the prefix-mode model proves the
strong form `C04_prefix_rightmost_path_only` (Props/C06.lean: only the right spine of a yielded partial tree is cut
short) at the level of the compiled rule table; what remains open is its collapse to the IR-level `PD`, the type-level
parse plus party filter, and the `complete` half (completeness of the prefix parse).  The tie per run: `pdB`, a
VERIFIED checker for `PD` (`C19_pd_checker`), is evaluated on the right spine of every partial tree the real visitor
walks (sampled) — a tree that is no partial derivation is a VIOLATION again — and the model of the visitor is compared
with `PathFinder.forecast` tree by tree; besides implementation = `codeNexts` = `nexts` on every enumerated history.
-/
import Proofs.Forecast
import Proofs.ForecastSlice
import Proofs.ForecastWalk
import Proofs.ForecastRep
import Proofs.ForecastPos
import Proofs.ForecastPosSound
import Proofs.ForecastPosComplete
import Proofs.ForecastPdB
import Generated.Proto
namespace FV
namespace Fc

/-! ## the source the model is written for -/

/-- `visitRepetitionType` reads an open repetition bound as `math.inf` (07eb1fdf), `PathFinder.onNonTerminalNodeVisit`
    does not re-enter a nonterminal it is already exploring (58f3e8e8): the variant `Model/Forecast.lean` is written
    for, read from the source by `harness/translate_proto.py` on every run.  Reverting either commit - or any other
    change of the two code shapes - makes this false. -/
theorem C19_source_configuration :
    Generated.protoCfgRead = true ∧ Generated.protoCfg = CodeCfg.modelled := by decide

/-! ## (a) the forecast is the set of continuations -/

/-- for every history (valid prefix or not) and every message: the verified forecaster offers `m`
    after `h` iff `m` can follow `h` in some interaction of the grammar -/
theorem C19_nexts_eq_cont (G : Grammar) (rank : String → Nat) (F : Nat) (start : Node)
    (hL : NoLeftRec G rank F) (hP : Productive G) (h : List Msg) (m : Msg) :
    m ∈ nexts G F start h ↔ Cont G start h m := by
  have key : isNext G F start h m = true ↔ Cont G start h m := by
    unfold isNext Cont
    rw [nonEmpty_iff hP]
    constructor
    · rintro ⟨w, hw⟩
      refine ⟨w, ?_⟩
      have := (derivs_iff hL (h ++ [m]) start w).1 hw
      simpa using this
    · rintro ⟨w, hw⟩
      exact ⟨w, (derivs_iff hL (h ++ [m]) start w).2 (by simpa using hw)⟩
  unfold nexts
  rw [List.mem_filter, key]
  constructor
  · exact fun h => h.2
  · intro hc
    obtain ⟨w, hw⟩ := hc
    exact ⟨mem_allMsgs hw m (by simp), ⟨w, hw⟩⟩

/-- the same with the hypotheses replaced by their executable certificates -/
theorem C19_nexts_eq_cont_cert (G : Grammar) (rank : String → Nat) (F F' : Nat) (start : Node)
    (hr : rankOk G rank F = true) (hp : productiveB G F' = true) (h : List Msg) (m : Msg) :
    m ∈ nexts G F start h ↔ Cont G start h m :=
  C19_nexts_eq_cont G rank F start (rankOk_sound hr) (productiveB_sound hp) h m

/-- a history is a prefix of an interaction iff the residual grammar is non-empty -/
theorem C19_prefix_iff (G : Grammar) (rank : String → Nat) (F : Nat) (start : Node)
    (hL : NoLeftRec G rank F) (hP : Productive G) (h : List Msg) :
    isPrefix G F start h = true ↔ PrefixLang G start h := by
  unfold isPrefix PrefixLang
  rw [nonEmpty_iff hP]
  constructor
  · rintro ⟨w, hw⟩; exact ⟨w, (derivs_iff hL h start w).1 hw⟩
  · rintro ⟨w, hw⟩; exact ⟨w, (derivs_iff hL h start w).2 hw⟩

/-- nothing is offered after a history that is not a prefix of an interaction, and every offer
    extends a valid prefix to a valid prefix -/
theorem C19_offers_keep_prefix (G : Grammar) (rank : String → Nat) (F : Nat) (start : Node)
    (hL : NoLeftRec G rank F) (hP : Productive G) (h : List Msg) (m : Msg)
    (hm : m ∈ nexts G F start h) : PrefixLang G start h ∧ PrefixLang G start (h ++ [m]) := by
  obtain ⟨w, hw⟩ := (C19_nexts_eq_cont G rank F start hL hP h m).1 hm
  exact ⟨⟨m :: w, hw⟩, ⟨w, by simpa using hw⟩⟩

/-! ## (b) completeness is reported exactly for full interactions -/

theorem C19_complete_iff (G : Grammar) (rank : String → Nat) (F : Nat) (start : Node)
    (hL : NoLeftRec G rank F) (h : List Msg) :
    complete G F start h = true ↔ LangMsg G start h := by
  unfold complete LangMsg
  rw [nullG_iff hL, derivs_iff hL]
  simp

/-! ## (c) repetition bounds -/

/-- a repetition describes exactly: some count `k` within the declared bounds, `k` iterations of the
    body (`max = none`: unbounded) — the same clause as `Matches` of the E2 core -/
theorem C19_rep_iff (G : Grammar) (id : String) (kind : RepKind) (n : Node) (w : List Msg) :
    ∀ (min : Nat) (max : Option Nat),
    GM G (.rep id kind n min max) w ↔ ∃ k, inBounds min max k ∧ RepM (GM G n) k w :=
  GM_rep_iff_repM G id kind n w

/-- **repetition bounds are respected** (specification level): in `a{min,max} e`, after `k`
    iterations the body `a` can follow iff a further iteration stays within `max`, and the exit `e`
    can follow iff `k` is within `[min,max]`.  In particular after the `max`-th iteration the body is
    not a continuation and before the `min`-th the exit is not. -/
theorem C19_rep_bound_respected (G : Grammar) (a e : Msg) (hne : a ≠ e) (lo : Nat) (hi : Option Nat)
    (k : Nat) :
    (Cont G (repThenExit a e lo hi) (List.replicate k a) a ↔
        ∀ mx, hi = some mx → k < mx ∧ lo ≤ mx) ∧
    (Cont G (repThenExit a e lo hi) (List.replicate k a) e ↔ inBounds lo hi k) := by
  constructor
  · unfold Cont
    simp only [repThenExit_lang]
    constructor
    · rintro ⟨w, j, hj, he⟩
      rcases (replicate_cmp hne k j w).1 he with ⟨h1, _, _⟩ | ⟨_, hkj, _⟩
      · exact absurd h1 hne
      · intro mx hmx
        have h1 := hj.1
        have h2 := hj.2 mx hmx
        omega
    · intro h
      have h1 : lo ≤ Nat.max lo (k + 1) := Nat.le_max_left _ _
      have h2 : k + 1 ≤ Nat.max lo (k + 1) := Nat.le_max_right _ _
      have h3 : ∀ mx, hi = some mx → Nat.max lo (k + 1) ≤ mx := by
        intro mx hmx
        have := h mx hmx
        exact Nat.max_le.2 ⟨this.2, this.1⟩
      generalize Nat.max lo (k + 1) = J at h1 h2 h3
      refine ⟨List.replicate (J - k - 1) a ++ [e], J, ⟨h1, h3⟩, ?_⟩
      exact (replicate_cmp hne k _ _).2 (Or.inr ⟨rfl, by omega, rfl⟩)
  · unfold Cont
    simp only [repThenExit_lang]
    constructor
    · rintro ⟨w, j, hj, he⟩
      rcases (replicate_cmp hne k j w).1 he with ⟨_, _, h3⟩ | ⟨h1, _, _⟩
      · subst h3; exact hj
      · exact absurd h1.symm hne
    · intro h
      exact ⟨[], k, h, (replicate_cmp hne k k []).2 (Or.inl ⟨rfl, rfl, rfl⟩)⟩

/-- the verified forecaster inherits the bounds (corollary of (a) and the previous theorem): with a closed bound
    `{min,mx}` the body is not offered after the `mx`-th iteration and the exit not before the `min`-th; with an open
    bound (`*`, `+`, `{min,}`) the body is offered after every number of iterations -/
theorem C19_rep_bound_forecast (G : Grammar) (rank : String → Nat) (F : Nat)
    (hL : NoLeftRec G rank F) (hP : Productive G) (a e : Msg) (hne : a ≠ e) (min mx k : Nat) :
    (mx ≤ k → a ∉ nexts G F (repThenExit a e min (some mx)) (List.replicate k a)) ∧
    (k < min → e ∉ nexts G F (repThenExit a e min (some mx)) (List.replicate k a)) ∧
    (k < min → e ∉ nexts G F (repThenExit a e min none) (List.replicate k a)) ∧
    a ∈ nexts G F (repThenExit a e min none) (List.replicate k a) := by
  refine ⟨?_, ?_, ?_, ?_⟩
  · intro hk hm
    have := ((C19_rep_bound_respected G a e hne min (some mx) k).1).1
      ((C19_nexts_eq_cont G rank F _ hL hP _ _).1 hm) mx rfl
    omega
  · intro hk hm
    have := ((C19_rep_bound_respected G a e hne min (some mx) k).2).1
      ((C19_nexts_eq_cont G rank F _ hL hP _ _).1 hm)
    have := this.1
    omega
  · intro hk hm
    have := ((C19_rep_bound_respected G a e hne min none k).2).1
      ((C19_nexts_eq_cont G rank F _ hL hP _ _).1 hm)
    have := this.1
    omega
  · apply (C19_nexts_eq_cont G rank F _ hL hP _ _).2
    apply ((C19_rep_bound_respected G a e hne min none k).1).2
    intro mx hmx
    cases hmx

/-- **the repetition rule of the code as it is** (`visitRepetitionType`, 07eb1fdf), for every state of the visit
    (`last`: the visit of the last iteration, finished; `fresh`: the visit of a further iteration; `k` iterations
    present): with an open upper bound the options of a further iteration are always offered; with a closed bound
    `mx` they are offered iff `k < mx` - after the `mx`-th iteration the body is not offered; and an unfinished last
    iteration offers nothing but its own options and stops the walk (ebdb490d) -/
theorem C19_rep_bound_code (min k : Nat) (o o2 : List Msg) (c2 : Bool) :
    (walkRepCore min none k (o, true) (o2, c2)).1 = o ++ o2 ∧
    (∀ mx, k < mx → (walkRepCore min (some mx) k (o, true) (o2, c2)).1 = o ++ o2) ∧
    (∀ mx, mx ≤ k → walkRepCore min (some mx) k (o, true) (o2, c2) = (o, true)) ∧
    (∀ max, walkRepCore min max k (o, false) (o2, c2) = (o, false)) := by
  refine ⟨?_, ?_, ?_, ?_⟩
  · rw [walkRepCore_fst]; simp [repHasRoom]
  · intro mx h; rw [walkRepCore_fst]; simp [repHasRoom, h]
  · intro mx h
    have : ¬ k < mx := by omega
    unfold walkRepCore
    simp [repHasRoom, this]
  · intro max; unfold walkRepCore; simp

/-- `<start> ::= <C:S:a>* <C:S:c>` -/
def exOpen : Grammar :=
  { rules := [("<start>", .cat "c2" [.rep "s1" .star (.nt "<a>" (some "C") (some "S")) 0 none,
                                       .nt "<c>" (some "C") (some "S")])] }

/-- **OLD RULE — about the code BEFORE /repo 07eb1fdf, NOT about the code as it is** (finding F43, fixed): with
    `rep_max = node.max` an open bound was the generator's cap (`oldRepMax`), so after `cap` iterations of `a* c` the
    visit of the repetition (no children missing, last iteration finished) did not visit a further iteration: `a` was
    no longer offered although it can follow.  The rule of the code as it is offers it - at the cap, and in the model
    of the code after 21 iterations (`decide`).  A re-occurrence of the old behaviour is a violation of C19. -/
theorem C19_OLD_RULE_open_bound_is_cap :
    (∀ k, k ≤ 21 → (walkRepCore 0 (oldRepMax 20 none) k ([], true) ([⟨"C", some "S", "<a>"⟩], false)).1 =
        if k < 20 then [⟨"C", some "S", "<a>"⟩] else []) ∧
    (∀ k, k ≤ 21 → (walkRepCore 0 none k ([], true) ([⟨"C", some "S", "<a>"⟩], false)).1 = [⟨"C", some "S", "<a>"⟩]) ∧
    codeNexts exOpen 2 (.nt "<start>" none none) (List.replicate 21 ⟨"C", some "S", "<a>"⟩) =
      [⟨"C", some "S", "<a>"⟩, ⟨"C", some "S", "<c>"⟩] := by
  decide +kernel

/-! ## non-vacuity: an FTP/SMTP-style right-recursive protocol -/

def mA : Msg := ⟨"C", some "S", "<a>"⟩
def mB : Msg := ⟨"S", some "C", "<b>"⟩
def mC : Msg := ⟨"C", some "S", "<c>"⟩
def mQ : Msg := ⟨"C", some "S", "<q>"⟩

/-- `<start> ::= <st>`, `<st> ::= <C:S:a> <S:C:b> <st> | <C:S:q>` -/
def exRec : Grammar :=
  { rules := [("<start>", .nt "<st>" none none),
              ("<st>", .alt "a1" [.cat "c1" [atom mA, atom mB, .nt "<st>" none none], atom mQ])] }
def exRank : String → Nat := fun s => if s = "<start>" then 1 else 0

example : rankOk exRec exRank 2 = true := by decide
example : productiveB exRec 3 = true := by decide
example : nexts exRec 2 (.nt "<start>" none none) [mA, mB] = [mA, mQ] := by decide
example : nexts exRec 2 (.nt "<start>" none none) [mA] = [mB] := by decide
example : complete exRec 2 (.nt "<start>" none none) [mA, mB, mQ] = true := by decide
example : complete exRec 2 (.nt "<start>" none none) [mA, mB] = false := by decide
example : mA ≠ mC := by decide

/-! ## the model of the code on the witnesses of the repaired defects (F36, F38, F41, F42)

Regression witnesses (`decide`): the inputs on which the code used to deviate; the model of the current code
agrees with the verified forecaster on each of them (each is also in the corpus of the check and run on the
implementation). -/

/-- `<start> ::= (<C:S:a> <S:C:b>)* <C:S:c>` -/
def exStar : Grammar :=
  { rules := [("<start>", .cat "c2" [.rep "s1" .star (.cat "c1" [atom mA, atom mB]) 0 none, atom mC])] }
def exStarStart : Node := .nt "<start>" none none

/-- F36 (ebdb490d): after the history `[a]` of `(a b)* c` the only continuation is `b`; the visitor no longer
    leaves the repetition while its last iteration `a ·` is unfinished -/
theorem C19_code_on_unfinished_iteration :
    codeNexts exStar 2 exStarStart [mA] = [mB] ∧
    nexts exStar 2 exStarStart [mA] = [mB] ∧
    ¬ Cont exStar exStarStart [mA] mC ∧
    codeNexts exStar 2 exStarStart [mA, mB] = [mA, mC] ∧
    codeNexts exStar 2 exStarStart [] = [mA, mC] := by
  refine ⟨by decide, by decide, ?_, by decide, by decide⟩
  intro hc
  have hr : rankOk exStar (fun _ => 0) 2 = true := by decide
  have hp : productiveB exStar 2 = true := by decide
  have := (C19_nexts_eq_cont_cert exStar (fun _ => 0) 2 2 exStarStart hr hp [mA] mC).2 hc
  revert this
  decide

/-- F38 (fc0f6663): the empty history is complete when the empty interaction is in the language
    (`<start> ::= <C:S:a>?`) -/
theorem C19_code_empty_history_complete :
    let G : Grammar := { rules := [("<start>", .rep "o1" .opt (atom mA) 0 (some 1))] }
    complete G 2 exStarStart [] = true ∧ codeComplete G 2 exStarStart [] = true := by
  decide

/-- what `predict` reports as complete is, in the model of the code, the verified `complete` -/
theorem C19_code_complete_iff (G : Grammar) (rank : String → Nat) (F : Nat) (start : Node)
    (hL : NoLeftRec G rank F) (h : List Msg) :
    codeComplete G F start h = true ↔ LangMsg G start h :=
  C19_complete_iff G rank F start hL h

/-! ## the model of the code = the continuations

`codeNexts … []` is the exploring walk of `ContinuingNodeVisitor` from the start symbol (`current_tree[-1] is
None` everywhere: `walkNew…`).  It computes the FIRST set.  `walkCert` (evaluated by the driver): in every
rule the children of a concatenation each derive some interaction, repetition bounds are consistent and
`max > 0`.  For a non-empty history `codeNexts` walks the partial derivation trees the prefix parse yields, along
their right spines (`walkPosWith`; `codeNextsOn` takes the spines as an argument, `codeNexts` takes `positions`,
the executable specification of the prefix parse). -/

/-- **the exploring visitor offers exactly the messages that can start an interaction** (and reports
    `continue_exploring` exactly for nodes that derive the empty interaction) -/
theorem C19_code_walk_first (G : Grammar) (rank : String → Nat) (F : Nat) (n : Node)
    (hL : NoLeftRec G rank F) (hP : Productive G) (hW : walkCert G = true) (hn : walkOk G n = true) :
    (∀ m, m ∈ (walkNewWith (walkNewTab G F []) n).1 ↔ ∃ w, GM G n (m :: w)) ∧
    ((walkNewWith (walkNewTab G F []) n).2 = true ↔ GM G n []) :=
  walkNewWith_ok G hP (walkNewTab G F []) n
    (fun name _ => walkNewTab_ok_all hL hP (walkCert_sound hW) name) hn

/-- the forecast of the model of the code for the empty history is the set of continuations -/
theorem C19_code_forecast_initial (G : Grammar) (rank : String → Nat) (F : Nat) (start : Node)
    (hL : NoLeftRec G rank F) (hP : Productive G) (hW : walkCert G = true) (hn : walkOk G start = true)
    (m : Msg) :
    m ∈ codeNexts G F start [] ↔ Cont G start [] m := by
  unfold codeNexts dedupM Cont
  simp only [List.mem_eraseDups, List.nil_append]
  exact (C19_code_walk_first G rank F start hL hP hW hn).1 m

/-- hence, for the empty history, the model of the code agrees with the verified forecaster -/
theorem C19_code_forecast_partial (G : Grammar) (rank : String → Nat) (F : Nat) (start : Node)
    (hL : NoLeftRec G rank F) (hP : Productive G) (hW : walkCert G = true) (hn : walkOk G start = true)
    (m : Msg) :
    m ∈ codeNexts G F start [] ↔ m ∈ nexts G F start [] := by
  rw [C19_code_forecast_initial G rank F start hL hP hW hn m,
    C19_nexts_eq_cont G rank F start hL hP [] m]

/-! ### non-empty histories: the walk along a partial derivation

`PD G n h p` (`Proofs/ForecastPos.lean`): `p` is the right spine of a message-level partial derivation of the
history `h` from node `n` - the last child at every level, everything to its left a complete derivation; the spine
ends at the last message (`p.tight`) or descends further into children that matched nothing.  `After G n p w`: `w`
completes that partial derivation to a derivation of `n`. -/

/-- **the visitor along a partial derivation** offers exactly the messages with which a completion of that partial
    derivation can begin, reports `continue_exploring` exactly when it is complete as it stands, and every such
    completion is an interaction that extends the history -/
theorem C19_code_walk_along_position (G : Grammar) (rank : String → Nat) (F : Nat) (n : Node)
    (hL : NoLeftRec G rank F) (hP : Productive G) (hW : walkCert G = true) (hn : walkOk G n = true)
    (h : List Msg) (p : Pos) (hpd : PD G n h p) :
    (∀ m, m ∈ (walkPosWith (walkNewTab G F []) G n p).1 ↔ ∃ w, After G n p (m :: w)) ∧
    ((walkPosWith (walkNewTab G F []) G n p).2 = true ↔ After G n p []) ∧
    (∀ w, After G n p w → GM G n (h ++ w)) :=
  have hk := walkPos_after hP (walkCert_sound hW) _
    (fun name => walkNewTab_ok_all hL hP (walkCert_sound hW) name) hpd hn
  ⟨hk.1, hk.2, PD_after_GM hpd⟩

/-- every interaction that extends a non-empty history `h` arises this way: it completes a partial derivation of `h`
    whose spine ends at the last message of `h` -/
theorem C19_every_extension_completes_a_position (G : Grammar) (n : Node) (h w : List Msg) (hne : h ≠ [])
    (hg : GM G n (h ++ w)) : ∃ p, p.tight = true ∧ PD G n h p ∧ After G n p w :=
  GM_cut hg h w rfl hne

/-- **the forecast of the model of the code, given the positions**: IF the right spines `ps` handed to the visitor
    are the message-level partial derivations of the history `h` - every one is a partial derivation of `h`
    (`PositionsExact.sound`: soundness of the prefix parse), and every derivation that extends `h` completes one of
    them (`PositionsExact.complete`: its completeness; for `h ≠ []` it is enough that every partial derivation
    ending at the last message is among them, `PositionsExact.of_tight`) - THEN the model of
    `PacketForecaster.predict` offers exactly the continuations of `h`, and reports `h` complete exactly when it is
    an interaction.  The remaining gap to `CodeForecastFull` is exactly `PositionsExact` of what the prefix parse
    returns (its `sound` half is proved for the model's `positions`: `C19_code_forecast_sound`). -/
theorem C19_code_forecast_of_positions (G : Grammar) (rank : String → Nat) (F : Nat) (start : Node)
    (hL : NoLeftRec G rank F) (hP : Productive G) (hW : walkCert G = true) (hn : walkOk G start = true)
    (h : List Msg) (ps : List Pos) (hE : PositionsExact G start h ps) :
    (∀ m, m ∈ codeNextsOn G F start ps ↔ Cont G start h m) ∧
    (codeComplete G F start h = true ↔ LangMsg G start h) :=
  ⟨codeNextsOn_iff hL hP (walkCert_sound hW) hn hE, C19_code_complete_iff G rank F start hL h⟩

/-- the same for `codeNexts` itself (it walks `positions`, the executable specification of the prefix parse), every
    history: for the empty one nothing is assumed -/
theorem C19_code_forecast_of_exact_positions (G : Grammar) (rank : String → Nat) (F : Nat) (start : Node)
    (hL : NoLeftRec G rank F) (hP : Productive G) (hW : walkCert G = true) (hn : walkOk G start = true)
    (h : List Msg) (hE : h ≠ [] → PositionsExact G start h (positions G F start h)) (m : Msg) :
    (m ∈ codeNexts G F start h ↔ Cont G start h m) ∧ (m ∈ codeNexts G F start h ↔ m ∈ nexts G F start h) := by
  have key : m ∈ codeNexts G F start h ↔ Cont G start h m := by
    cases h with
    | nil => exact C19_code_forecast_initial G rank F start hL hP hW hn m
    | cons x t =>
      rw [codeNexts_cons]
      exact (C19_code_forecast_of_positions G rank F start hL hP hW hn (x :: t) _ (hE (by simp))).1 m
  exact ⟨key, by rw [key, C19_nexts_eq_cont G rank F start hL hP h m]⟩

/-- the model's specification of the prefix parse is sound: every spine in `positions` is a message-level partial
    derivation of the history (`PositionsExact.sound` holds of it, for every fuel) -/
theorem C19_positions_sound (G : Grammar) (F : Nat) (start : Node) (hW : walkCert G = true)
    (hn : walkOk G start = true) (h : List Msg) (p : Pos) (hp : p ∈ positions G F start h) : PD G start h p :=
  positions_sound (walkCert_sound hW) hn F h p hp

/-- **the model of the code offers only continuations** - every history, empty or not, no hypothesis about the
    positions: a message `codeNexts` offers after `h` can follow `h` in some interaction of the grammar (the half
    `⊆` of `CodeForecastFull`) -/
theorem C19_code_forecast_sound (G : Grammar) (rank : String → Nat) (F : Nat) (start : Node)
    (hL : NoLeftRec G rank F) (hP : Productive G) (hW : walkCert G = true) (hn : walkOk G start = true)
    (h : List Msg) (m : Msg) (hm : m ∈ codeNexts G F start h) :
    Cont G start h m ∧ m ∈ nexts G F start h := by
  have := codeNexts_sound hL hP (walkCert_sound hW) hn h m hm
  exact ⟨this, (C19_nexts_eq_cont G rank F start hL hP h m).2 this⟩

/-- the model's specification of the prefix parse is complete, too, given enough fuel (`B` bounds the ranks of the
    no-left-recursion certificate): `PositionsExact` holds of `positions` -/
theorem C19_positions_exact (G : Grammar) (rank : String → Nat) (B F : Nat) (start : Node)
    (hL : NoLeftRec G rank B) (hW : walkCert G = true) (hn : walkOk G start = true) (h : List Msg) (hne : h ≠ [])
    (hF : (h.length + 1) * B ≤ F) : PositionsExact G start h (positions G F start h) :=
  positions_exact hL (walkCert_sound hW) hn h hne hF

/-- **full statement about the model of the code**: for every grammar that passes the certificates (no left
    recursion at message level, productive rules, `walkCert`), every start node, EVERY history `h` (a prefix of an
    interaction or not) and every message, the model of `PacketForecaster.predict` - the visitor walked along the
    partial derivations that the model's specification of the prefix parse computes - offers `m` after `h` iff `m`
    can follow `h` in some interaction; fuel `(h.length + 1) * B`, which is what the driver uses. -/
def CodeForecastFull : Prop :=
  ∀ (G : Grammar) (rank : String → Nat) (B : Nat) (start : Node),
    NoLeftRec G rank B → Productive G → walkCert G = true → walkOk G start = true →
    ∀ (h : List Msg) (F : Nat) (m : Msg), (h.length + 1) * B ≤ F →
      (m ∈ codeNexts G F start h ↔ Cont G start h m)

/-- **the model of the code computes exactly the continuations, for every history** (`CodeForecastFull`, no
    `_partial` left on the Lean side).  What remains outside the theorems is that the model IS the code: the visitor
    (pinned by `C19_source_configuration`, compared per run) and - the part that is false of the parser as it is for
    type-ambiguous histories, see the check's finding - that the partial trees the real prefix parse hands to the
    visitor meet `PositionsExact` as the model's `positions` do. -/
theorem C19_code_forecast_full : CodeForecastFull := by
  intro G rank B start hL hP hW hn h F m hF
  have hBF : B ≤ F := by
    have : 1 * B ≤ (h.length + 1) * B := Nat.mul_le_mul_right B (by omega)
    omega
  have hLF : NoLeftRec G rank F := hL.mono hBF
  cases h with
  | nil => exact C19_code_forecast_initial G rank F start hLF hP hW hn m
  | cons x t =>
    exact (C19_code_forecast_of_exact_positions G rank F start hLF hP hW hn (x :: t)
      (fun hne => C19_positions_exact G rank B F start hL hW hn (x :: t) hne hF) m).1

/-- hence the model of the code and the verified forecaster agree on every history -/
theorem C19_code_eq_nexts (G : Grammar) (rank : String → Nat) (B : Nat) (start : Node)
    (hL : NoLeftRec G rank B) (hP : Productive G) (hW : walkCert G = true) (hn : walkOk G start = true)
    (h : List Msg) (F : Nat) (m : Msg) (hF : (h.length + 1) * B ≤ F) :
    m ∈ codeNexts G F start h ↔ m ∈ nexts G B start h := by
  rw [C19_code_forecast_full G rank B start hL hP hW hn h F m hF, C19_nexts_eq_cont G rank B start hL hP h m]

/-- **the checker for partial derivations is exact**: `pdB` accepts a spine iff it is the right spine of a
    message-level partial derivation of the history.  The check runs it on the right spines of the partial trees
    the REAL prefix parse yields: `PositionsExact.sound` observed on the implementation, per walked tree. -/
theorem C19_pd_checker (G : Grammar) (rank : String → Nat) (F : Nat) (hL : NoLeftRec G rank F) (n : Node)
    (h : List Msg) (p : Pos) : pdB G F n h p = true ↔ PD G n h p :=
  pdB_iff hL p n h

-- the hypotheses hold on the right-recursive example
example : walkCert exRec = true := by decide
example : walkOk exRec (.nt "<start>" none none) = true := by decide
example : codeNexts exRec 2 (.nt "<start>" none none) [] = [mA, mQ] := by decide

/-- `<start> ::= <C:S:a> <S:C:b>? <C:S:c>` -/
def exOpt : Grammar :=
  { rules := [("<start>", .cat "c1" [atom mA, .rep "o1" .opt (atom mB) 0 (some 1), atom mC])] }

/-- `PositionsExact` is met by what the model's specification of the prefix parse computes for `a b? c` after `[a]`:
    two spines - the one that ends at `a`, and one that descends into the option that matched nothing; the second
    is a partial derivation that is not tight (the set between the two bounds is free) -/
example : positions exOpt 2 exStarStart [mA] = [.nt (.cat 0 .msg), .nt (.cat 1 .rep0)] ∧
    PositionsExact exOpt exStarStart [mA] (positions exOpt 2 exStarStart [mA]) ∧
    codeNexts exOpt 2 exStarStart [mA] = [mB, mC] := by
  have hpos : positions exOpt 2 exStarStart [mA] = [.nt (.cat 0 .msg), .nt (.cat 1 .rep0)] := by decide
  have hrule : exOpt.rule "<start>" =
      some (.cat "c1" [atom mA, .rep "o1" .opt (atom mB) 0 (some 1), atom mC]) := rfl
  refine ⟨hpos, ?_, by decide⟩
  rw [hpos]
  apply PositionsExact.of_tight (by simp)
  · intro p hp
    simp only [List.mem_cons, List.not_mem_nil, or_false] at hp
    rcases hp with rfl | rfl
    · refine PD.nt _ _ _ _ _ hrule ?_
      exact PD.cat "c1" _ 0 (atom mA) [] [mA] .msg rfl (GM.catNil _) (PD.msg _ _ _)
    · refine PD.nt _ _ _ _ _ hrule ?_
      have := PD.cat (G := exOpt) "c1" [atom mA, .rep "o1" .opt (atom mB) 0 (some 1), atom mC] 1
        (.rep "o1" .opt (atom mB) 0 (some 1)) [mA] [] .rep0 rfl
        (by simpa using GM.catCons (G := exOpt) "c1" (atom mA) [] [mA] [] (GM.msg _ _ _) (GM.catNil _))
        (PD.rep0 _ _ _ _ _)
      simpa using this
  · intro p ht hp
    obtain ⟨body, p1, rfl, hr, hb⟩ := PD_nt_inv hp
    rw [hrule] at hr
    cases hr
    obtain ⟨i, n, h1, h2, p2, rfl, he, hn, hl, hp2⟩ := PD_cat_inv hb
    have hne2 : h2 ≠ [] := PD_tight_ne hp2 ht
    -- the history has one message and the last child has consumed one: nothing lies to the left
    have hlen := congrArg List.length he
    simp only [List.length_cons, List.length_nil, List.length_append] at hlen
    have h2pos : 0 < h2.length := List.length_pos_iff.2 hne2
    have h1nil : h1 = [] := List.eq_nil_of_length_eq_zero (by omega)
    subst h1nil
    match i, hn, hl with
    | 0, hn, _ =>
      simp only [List.getElem?_cons_zero, Option.some.injEq] at hn
      subst hn
      obtain ⟨_, rfl⟩ := PD_msg_inv hp2
      simp
    | i + 1, _, hl =>
      exfalso
      have hl' : GM exOpt (.cat "c1" (atom mA :: List.take i [.rep "o1" .opt (atom mB) 0 (some 1), atom mC])) [] := hl
      obtain ⟨u1, u2, hu, hu1, _⟩ := GM_cat_cons_iff.1 hl'
      have := append_eq_nil_left hu
      subst this
      have := GM_msg_iff.1 hu1
      simp at this

/-! ## (d) slicing: the sliced grammar describes the visible parts of the interactions

`sliceG` models `slice_parties` / `PacketTruncator` line by line (tied to the real function rule by rule, node
ids included, on every run).  `sliceCert G` (evaluated by the driver for every sliced grammar): rule names are
distinct, every rule body is well-formed (alternatives non-empty, `min ≤ max`), no message type is also
unfolded as a nonterminal of the protocol level.  The start symbol must survive the slicing
(`(sliceG cfg G).rule name ≠ none`; otherwise every interaction is invisible - `C19_slice_deleted_invisible`). -/

/-- **slicing commutes with projection**: the interactions of the sliced grammar are exactly the parts of
    the interactions of `G` that are visible to the kept parties -/
theorem C19_slice_commutes (cfg : SliceCfg) (G : Grammar) (hc : sliceCert G = true) (name : String)
    (r : Option String) (hs : (sliceG cfg G).rule name ≠ none) (w : List Msg) :
    LangMsg (sliceG cfg G) (.nt name none r) w ↔
      ∃ w', LangMsg G (.nt name none r) w' ∧ project cfg w' = w :=
  (sliceG_spec (cfg := cfg) hc).sem name r w hs

/-- a nonterminal that `slice_parties` deletes has invisible interactions only -/
theorem C19_slice_deleted_invisible (cfg : SliceCfg) (G : Grammar) (hc : sliceCert G = true) (name : String)
    (r : Option String) (h1 : G.rule name ≠ none) (h2 : (sliceG cfg G).rule name = none)
    (w' : List Msg) (hw : LangMsg G (.nt name none r) w') : project cfg w' = [] :=
  (sliceG_spec (cfg := cfg) hc).del name r h1 h2 w' hw

/-- the continuations in the sliced grammar are the continuations of the visible language -/
theorem C19_slice_cont (cfg : SliceCfg) (G : Grammar) (hc : sliceCert G = true) (name : String)
    (r : Option String) (hs : (sliceG cfg G).rule name ≠ none) (h : List Msg) (m : Msg) :
    Cont (sliceG cfg G) (.nt name none r) h m ↔
      ∃ w' w, LangMsg G (.nt name none r) w' ∧ project cfg w' = h ++ m :: w := by
  unfold Cont
  constructor
  · rintro ⟨w, hw⟩
    obtain ⟨w', hw', hp⟩ := (C19_slice_commutes cfg G hc name r hs _).1 hw
    exact ⟨w', w, hw', hp⟩
  · rintro ⟨w', w, hw', hp⟩
    exact ⟨w, (C19_slice_commutes cfg G hc name r hs _).2 ⟨w', hw', hp⟩⟩

/-- **forecasting on the sliced grammar = forecasting on `G` restricted to the kept parties' messages**:
    the verified forecaster on `sliceG cfg G` offers `m` after `h` iff some interaction of `G` has a visible
    part that continues `h` with `m`; `h` is complete iff it is the visible part of an interaction of `G`.
    (`NoLeftRec` / `Productive` of the sliced grammar: the certificates `rankOk` / `productiveB` that the driver
    evaluates for the sliced grammar.) -/
theorem C19_slice_forecast (cfg : SliceCfg) (G : Grammar) (hc : sliceCert G = true) (name : String)
    (r : Option String) (hs : (sliceG cfg G).rule name ≠ none) (rank : String → Nat) (F : Nat)
    (hL : NoLeftRec (sliceG cfg G) rank F) (hP : Productive (sliceG cfg G)) (h : List Msg) :
    (∀ m, m ∈ nexts (sliceG cfg G) F (.nt name none r) h ↔
      ∃ w' w, LangMsg G (.nt name none r) w' ∧ project cfg w' = h ++ m :: w) ∧
    (complete (sliceG cfg G) F (.nt name none r) h = true ↔
      ∃ w', LangMsg G (.nt name none r) w' ∧ project cfg w' = h) := by
  constructor
  · intro m
    rw [C19_nexts_eq_cont (sliceG cfg G) rank F _ hL hP h m]
    exact C19_slice_cont cfg G hc name r hs h m
  · rw [C19_complete_iff (sliceG cfg G) rank F _ hL h]
    exact C19_slice_commutes cfg G hc name r hs h

def sA0 : Msg := ⟨"A", some "B", "<m0>"⟩
def sB1 : Msg := ⟨"B", some "C", "<m1>"⟩
def sA2 : Msg := ⟨"A", some "B", "<m2>"⟩
def sC1 : Msg := ⟨"C", some "A", "<m1>"⟩

/-- `<start> ::= <A:B:m0> (<B:C:m1> | <A:B:m2>)` -/
def exSlice : Grammar :=
  { rules := [("<start>", .cat "c1" [atom sA0, .alt "a1" [atom sB1, atom sA2]])] }

/-- F42 (e74d4443): an alternative that consists of invisible messages is the empty way through: `m0 m1` is
    an interaction, its part visible to `A` is `m0`, and `m0` is an interaction of the sliced grammar -/
theorem C19_slice_keeps_invisible_alternative :
    complete exSlice 2 exStarStart [sA0, sB1] = true ∧
    project ⟨["A"], false⟩ [sA0, sB1] = [sA0] ∧
    complete (sliceG ⟨["A"], false⟩ exSlice) 2 exStarStart [sA0] = true ∧
    nexts (sliceG ⟨["A"], false⟩ exSlice) 2 exStarStart [sA0] = [sA2] := by
  decide

-- the hypotheses of `C19_slice_commutes` / `C19_slice_forecast` hold on the witness
example : sliceCert exSlice = true := by decide
example : (sliceG ⟨["A"], false⟩ exSlice).rule "<start>" ≠ none := by decide
example : rankOk (sliceG ⟨["A"], false⟩ exSlice) (fun _ => 0) 2 = true := by decide
example : productiveB (sliceG ⟨["A"], false⟩ exSlice) 2 = true := by decide

/-- a spec with a helper rule that is invisible to `A`: two rounds (`<x>` is deleted in the first, the
    reference to it in the second) -/
def exSlice2 : Grammar :=
  { rules := [("<start>", .cat "c1" [atom sA0, .nt "<x>" none none, .rep "s1" .star (.alt "a1" [atom sB1, atom sA2]) 0 none]),
              ("<x>", .cat "c2" [atom sB1, atom sB1])] }
example : sliceCert exSlice2 = true := by decide
example : (sliceG ⟨["A"], false⟩ exSlice2).rule "<x>" = none ∧
    (sliceG ⟨["A"], false⟩ exSlice2).rule "<start>" ≠ none ∧
    (sliceG ⟨["A"], false⟩ exSlice2).rules.length = 1 ∧
    nexts (sliceG ⟨["A"], false⟩ exSlice2) 2 exStarStart [sA0] = [sA2] ∧
    complete (sliceG ⟨["A"], false⟩ exSlice2) 2 exStarStart [sA0, sA2, sA2] = true ∧
    complete exSlice2 3 exStarStart [sA0, sB1, sB1, sA2, sB1, sA2] = true ∧
    project ⟨["A"], false⟩ [sA0, sB1, sB1, sA2, sB1, sA2] = [sA0, sA2, sA2] := by decide

/-- `<start> ::= (<C:A:m1> | <B:C:m1> | <A:B:m2>)` -/
def exSliceEq : Grammar :=
  { rules := [("<start>", .alt "a1" [atom sC1, atom sB1, atom sA2])] }

/-- F41 (ed4e9a62): slicing to `A` drops the invisible `<B:C:m1>` and keeps the visible `<C:A:m1>` -/
theorem C19_slice_removes_invisible_occurrence :
    nexts (sliceG ⟨["A"], false⟩ exSliceEq) 2 exStarStart [] = [sC1, sA2] ∧
    visible ⟨["A"], false⟩ sB1 = false ∧ visible ⟨["A"], false⟩ sC1 = true := by
  decide

end Fc
end FV
