/-
C20 — a protocol run is always a valid, correctly attributed interaction.

Model: `Model/IoRun.lean` (the run as a labelled transition system; events = data arriving from an
external party at ANY time, the fuzzer's send, the steps of `parse_next_remote_packet`, and the three
time-outs as events).  Helper lemmas: `Proofs/IoRun.lean`.

FULL STATEMENT (properties.jsonl):  for every spec, every behaviour of the external parties and every
fragmentation / arrival interleaving of their data,
  (1) the recorded history is at every step a prefix of an interaction of the spec's language;
  (2) each message is attributed to the party that produced it …
  (3) … and reaches the specified recipient exactly once and in order;
  (4) every message Fandango sends satisfies the constraints;
  (5) a remote message that fits no expected type, or violates a constraint, ends the run with an error
      and is not accepted.

What is proved, for ALL schedules of the event-level machine (no bound on anything):
  (1) `C20_history_valid`, `C20_history_grows_stepwise`, `C20_history_prefix_of_language` (through C19)
  (2) `C20_sender_attribution`, `C20_stream_accounting` (per sender: recorded payloads ++ still buffered
      = everything that sender's data, in order, each datum once)
  (3) for Fandango's own messages `C20_sent_exactly_once_in_order`; for remote messages the RECIPIENT part is
      FALSE of the current code (`C20_recipient_misattributed`, `C20_full_statement_false`: the buffer is
      searched and cleared by sender only) and is proved under the side condition that a sender's data all
      goes to the recipient the spec names for it: `C20_recipient_attribution_partial`
  (4) `C20_every_message_checked` (the constraint verdict itself is the oracle `Spec.ok`: C02/C07)
  (5) `C20_bad_remote_fails`, `C20_truncated_remote_fails`, `C20_unexpected_party_fails`,
      `C20_accepted_remote_was_parsed_and_checked`, `C20_failed_is_final`
  fragmentation / interleaving: `C20_fragmentation_irrelevant` (+ `C20_chunking_same_state`): how a party's data is
      cut into receive() calls is invisible; `C20_recv_commutes_with_exStep`: data arriving while an extraction
      reads does not disturb it.  NOT proved as one theorem: "the extracted message is a function of the
      per-sender stream alone" across buffers that interleave several senders differently (it follows from
      `findNext_spec` + `C20_stream_accounting` informally; the harness checks it on every run).

PARTIAL with respect to: threads, sockets, wall-clock (time-outs are events the environment may fire
whenever the code waits); the parser of one message type and the constraint evaluation are oracles
(`Spec.complete/cont/ok` — functions of the concatenated word: that is C13's chunking statement).
-/
import Proofs.IoRun
import Props.C19
namespace FV
namespace Io

/-! ## the invariant, every event, every schedule -/

theorem C20_run_inv_init (S : Spec) : RunInv S init := runInv_init S

/-- every enabled event — data arriving at any moment, a fuzzer send, each step of the extraction,
    each time-out — keeps the run invariant -/
theorem C20_run_inv_step (S : Spec) (s s' : State) (ev : Event) (inv : RunInv S s)
    (h : step S s ev = some s') : RunInv S s' := runInv_step S s s' ev inv h

theorem C20_run_inv_reachable (S : Spec) (s : State) (h : Reachable S s) : RunInv S s :=
  runInv_reachable S s h

/-- … in particular after any schedule given as a list of events -/
theorem C20_run_inv_schedule (S : Spec) (evs : List Event) (s : State)
    (h : runEvents S init evs = some s) : RunInv S s :=
  runInv_reachable S s (reachable_runEvents S evs init s Reachable.init h)

/-! ## (1) the history is a prefix of an interaction, at every step -/

theorem C20_history_valid (S : Spec) (s : State) (h : Reachable S s) : Valid S s.history :=
  (runInv_reachable S s h).valid

/-- an event leaves the history alone or appends exactly one message: nothing is ever rewritten -/
theorem C20_history_grows_stepwise (S : Spec) (s s' : State) (ev : Event) (h : step S s ev = some s') :
    s'.history = s.history ∨ ∃ m, s'.history = s.history ++ [m] := step_history S s s' ev h

def toFc (m : Msg) : Fc.Msg := ⟨m.sender, m.recipient, m.type⟩

/-- tie to C19: when everything the forecast offers is offered by the verified forecaster `nexts`
    (that is C19's statement about `PacketForecaster.predict`), a valid history is a prefix of an
    interaction of the grammar's message-level language -/
theorem C20_history_prefix_of_language (S : Spec) (G : Grammar) (rank : String → Nat) (F : Nat) (start : Node)
    (hL : Fc.NoLeftRec G rank F) (hP : Fc.Productive G)
    (h0 : Fc.PrefixLang G start [])
    (hF : ∀ h o, o ∈ S.forecast h → (⟨o.sender, o.recipient, o.type⟩ : Fc.Msg) ∈ Fc.nexts G F start (h.map toFc))
    (h : List Msg) (hv : Valid S h) : Fc.PrefixLang G start (h.map toFc) := by
  induction hv with
  | nil => exact h0
  | snoc h m _ a _ _ _ _ =>
    have := (Fc.C19_offers_keep_prefix G rank F start hL hP (h.map toFc) _ (hF h m.opt a)).2
    simpa [toFc, Msg.opt] using this

theorem C20_run_prefix_of_language (S : Spec) (G : Grammar) (rank : String → Nat) (F : Nat) (start : Node)
    (hL : Fc.NoLeftRec G rank F) (hP : Fc.Productive G) (h0 : Fc.PrefixLang G start [])
    (hF : ∀ h o, o ∈ S.forecast h → (⟨o.sender, o.recipient, o.type⟩ : Fc.Msg) ∈ Fc.nexts G F start (h.map toFc))
    (s : State) (hr : Reachable S s) : Fc.PrefixLang G start (s.history.map toFc) :=
  C20_history_prefix_of_language S G rank F start hL hP h0 hF _ (C20_history_valid S s hr)

/-! ## (2) attribution to the producer; exactly once, in order -/

/-- every remote message of the history (and the one the constraints rejected) was built from exactly
    one consumed group of fragments, every one of them produced by the recorded sender -/
theorem C20_sender_attribution (S : Spec) (s : State) (h : Reachable S s) :
    ∀ m ∈ remoteMsgs s.history, ∃ g ∈ s.used,
      m.payload = g.map (·.data) ∧ (∀ f ∈ g, f.sender = m.sender) ∧ (∀ f ∈ g, f ∈ s.recvd) := by
  intro m hm
  have inv := runInv_reachable S s h
  obtain ⟨g, hg, ha⟩ := paired_get _ _ inv.attributed m (List.mem_append_left _ hm)
  exact ⟨g, hg, ha.2.1, ha.2.2, inv.used_sub g hg⟩

/-- per sender, for every schedule: the payloads recorded for that sender (accepted, then the rejected
    one if any), followed by what is still in the buffer, are exactly the data received from that
    sender, in order — nothing lost, duplicated, reordered or taken from another sender's data -/
theorem C20_stream_accounting (S : Spec) (s : State) (h : Reachable S s) (p : Party) :
    recorded p (remoteMsgs s.history ++ s.rejected.toList) ++ streamOf p s.buffer = streamOf p s.recvd := by
  have inv := runInv_reachable S s h
  rw [paired_recorded p _ _ inv.attributed]
  exact inv.once p

/-- remote data comes from external parties only, and a locally generated message from a
    fuzzer-controlled one -/
theorem C20_producers (S : Spec) (s : State) (h : Reachable S s) :
    (∀ f ∈ s.recvd, S.fuzzer f.sender = false) ∧
    (∀ h1 m h2, s.history = h1 ++ m :: h2 → m.remote = false → S.fuzzer m.sender = true) := by
  have inv := runInv_reachable S s h
  exact ⟨inv.external, fun h1 m h2 e => (valid_at S _ inv.valid h1 m h2 e).2.2.2⟩

/-! ## (3) Fandango's own messages reach `party.send` exactly once and in order -/

theorem C20_sent_exactly_once_in_order (S : Spec) (s : State) (h : Reachable S s) :
    s.outbox = transmitted S s.history := (runInv_reachable S s h).outbox

/-! ## (4) every message of the history passed the constraint check when it was appended -/

theorem C20_every_message_checked (S : Spec) (s : State) (h : Reachable S s)
    (h1 : List Msg) (m : Msg) (h2 : List Msg) (e : s.history = h1 ++ m :: h2) :
    m.opt ∈ S.forecast h1 ∧ S.ok h1 m = true :=
  let r := valid_at S _ (runInv_reachable S s h).valid h1 m h2 e
  ⟨r.1, r.2.1⟩

/-- the fuzzer's step is only enabled for a message that the forecast offers and the constraints accept -/
theorem C20_fuzzer_msgs_satisfy (S : Spec) (s s' : State) (m : Msg) (h : step S s (.fuzzerSend m) = some s') :
    S.ok s.history m = true ∧ m.opt ∈ S.forecast s.history ∧ s.buffer = [] ∧ s'.history = s.history ++ [m] := by
  simp only [step] at h
  split at h
  · rename_i hc; injection h with h; subst h; exact ⟨hc.2.2.2.2.2.2, hc.2.2.2.2.2.1, hc.2.2.1, rfl⟩
  · simp at h

/-! ## (5) bad remote data ends the run with an error and is not accepted -/

/-- no forecast type parsed the sender's data ∨ the parsed message violates the constraints
    ⇒ the extraction ends in a failed state with the history unchanged -/
theorem C20_bad_remote_fails (S : Spec) (s : State) (e : Ex)
    (bad : bestOf e.compl = none ∨
      ∃ t i w o, bestOf e.compl = some (t, i, w) ∧ optFor e.opts e.sender t = some o ∧
        S.ok s.history ⟨o.sender, o.recipient, t, w, true⟩ = false) :
    (finish S s e).failed.isSome = true ∧ (finish S s e).history = s.history := by
  rcases bad with hb | ⟨t, i, w, o, hb, ho, hok⟩
  · simp [finish, hb]
  · simp [finish, hb, ho, hok]

/-- the same as events: when no type can continue (`exFinish`) … -/
theorem C20_bad_remote_fails_event (S : Spec) (s s' : State) (e : Ex) (he : s.ex = some e)
    (h : step S s .exFinish = some s')
    (bad : bestOf e.compl = none ∨
      ∃ t i w o, bestOf e.compl = some (t, i, w) ∧ optFor e.opts e.sender t = some o ∧
        S.ok s.history ⟨o.sender, o.recipient, t, w, true⟩ = false) :
    s'.failed.isSome = true ∧ s'.history = s.history := by
  simp only [step, he] at h
  split at h
  · injection h with h; subst h; exact C20_bad_remote_fails S s e bad
  · simp at h

/-- … and a truncated message (silence before any type completed) fails as well -/
theorem C20_truncated_remote_fails (S : Spec) (s s' : State) (e : Ex) (he : s.ex = some e)
    (hc : e.compl = []) (h : step S s .silence = some s') :
    s'.failed = some .timeoutFragment ∧ s'.history = s.history := by
  simp only [step, he] at h
  split at h
  · simp [hc] at h; subst h; exact ⟨rfl, rfl⟩
  · simp at h

theorem C20_unexpected_party_fails (S : Spec) (s s' : State) (h : step S s .unexpected = some s') :
    s'.failed = some .unexpectedParty ∧ s'.history = s.history := by
  simp only [step] at h
  split at h
  · injection h with h; subst h; exact ⟨rfl, rfl⟩
  · simp at h

/-- conversely, whatever remote message is in the history was parsed completely by the type it is
    recorded with, that type was forecast for its sender, and the constraints accepted it -/
theorem C20_accepted_remote_was_parsed_and_checked (S : Spec) (s : State) (h : Reachable S s)
    (h1 : List Msg) (m : Msg) (h2 : List Msg) (e : s.history = h1 ++ m :: h2) (hm : m.remote = true) :
    S.complete m.type m.payload = true ∧ m.opt ∈ S.forecast h1 ∧ S.ok h1 m = true :=
  let r := valid_at S _ (runInv_reachable S s h).valid h1 m h2 e
  ⟨r.2.2.1 hm, r.1, r.2.1⟩

/-- once failed (or finished) no event is enabled: the history is final -/
theorem C20_failed_is_final (S : Spec) (s : State) (ev : Event) (h : s.failed.isSome = true ∨ s.finished = true) :
    step S s ev = none := by
  apply step_dead
  unfold live
  rcases h with h | h
  · cases hf : s.failed <;> simp [hf] at h ⊢
  · simp [h]

/-! ## fragmentation -/

/-- however a party's data is cut into `receive()` calls, the events — hence every later state and
    extraction result — are those of one call with the whole data (`add_receive` stores characters) -/
theorem C20_fragmentation_irrelevant (p r : Party) (chunks : List (List Nat)) (w : List Nat)
    (h : chunks.flatten = w) : chunks.flatMap (recvChunk p r) = recvChunk p r w := by
  subst h
  induction chunks with
  | nil => rfl
  | cons c cs ih => simp [List.flatMap_cons, recvChunk_append, ih]

theorem C20_chunking_same_state (S : Spec) (s : State) (p r : Party) (chunks : List (List Nat))
    (rest : List Event) :
    runEvents S s (chunks.flatMap (recvChunk p r) ++ rest) = runEvents S s (recvChunk p r chunks.flatten ++ rest) := by
  rw [C20_fragmentation_irrelevant p r chunks _ rfl]

/-- arrival interleaving, at event level: data that arrives while an extraction is reading does not
    disturb it — feeding the next fragment and then receiving `f` gives the same state as receiving `f`
    first (so every recv can be moved in front of the extraction steps it interleaves with) -/
theorem C20_recv_commutes_with_exStep (S : Spec) (s s1 s2 : State) (f : Frag)
    (h1 : step S s .exStep = some s1) (h2 : step S s (.recv f) = some s2) :
    ∃ s3, step S s2 .exStep = some s3 ∧ step S s1 (.recv f) = some s3 := by
  simp only [step] at h1 h2
  split at h2
  · rename_i hc2
    injection h2 with h2; subst h2
    split at h1
    · rename_i e he
      split at h1
      · rename_i hc1
        split at h1
        · rename_i i d hfn
          injection h1 with h1; subst h1
          have hfn' := findNext_append e.sender s.buffer f e.pos (i, d) hfn
          have hl : live s = true := hc1.1
          refine ⟨{ s with buffer := s.buffer ++ [f], recvd := s.recvd ++ [f],
                           ex := some { e with avail := (feedTypes S i (e.word ++ [d]) e.avail e.compl).1,
                                               compl := (feedTypes S i (e.word ++ [d]) e.avail e.compl).2,
                                               pos := i + 1, word := e.word ++ [d] } }, ?_, ?_⟩
          · simp only [step, he]
            rw [if_pos ⟨by simpa [live] using hl, hc1.2⟩, hfn']
          · simp only [step]
            rw [if_pos ⟨by simpa [live] using hl, hc2.2⟩]
        · simp at h1
      · simp at h1
    · simp at h1
  · simp at h2

/-! ## (3) the recipient of a remote message -/

/-- the fragments a remote message was built from were addressed to the recipient it is recorded with -/
def RecipientsMatch (s : State) : Prop :=
  ∀ m ∈ remoteMsgs s.history, ∀ g ∈ s.used, Attributed m g → g ≠ [] → ∀ f ∈ g, some f.recipient = m.recipient

/-- the statement at full strength (for the model of the code as it is) -/
def C20_FullStatement : Prop := ∀ (S : Spec) (s : State), Reachable S s → RunInv S s ∧ RecipientsMatch s

/-- proved part: if all data of a sender is addressed to one recipient `R sender`, and the forecast names
    that recipient for the sender's messages, recorded and actual recipient agree -/
theorem C20_recipient_attribution_partial (S : Spec) (s : State) (h : Reachable S s) (R : Party → Party)
    (hR : ∀ f ∈ s.recvd, f.recipient = R f.sender)
    (hF : ∀ hh o, o ∈ S.forecast hh → S.fuzzer o.sender = false → o.recipient = some (R o.sender)) :
    RecipientsMatch s := by
  intro m hm g hg ha hne f hf
  have inv := runInv_reachable S s h
  have hfr := inv.used_sub g hg f hf
  obtain ⟨h1, h2, e⟩ := List.append_of_mem (List.mem_filter.1 hm).1
  have va := valid_at S _ inv.valid h1 m h2 e
  have hs : f.sender = m.sender := ha.2.2 f hf
  have hext : S.fuzzer m.sender = false := hs ▸ inv.external f hfr
  have := hF h1 m.opt va.1 hext
  simp only [Msg.opt] at this
  rw [this, hR f hfr, hs]

/-! ### the witness: one sender, two recipients -/

def wSpec : Spec where
  forecast := fun _ => [⟨"Ex", some "Fz", "<a>"⟩]
  done := fun _ => false
  fuzzer := fun p => p != "Ex"
  complete := fun _ w => w == [121]
  cont := fun _ _ => false
  ok := fun _ _ => true

/-- "y" arrives at party Fy; the forecast expects `<Ex:Fz:a>` -/
def wSchedule : List Event := [.recv ⟨"Ex", "Fy", 121⟩, .exStart, .exStep, .exFinish]

def wFinal : State :=
  { init with history := [⟨"Ex", some "Fz", "<a>", [121], true⟩], recvd := [⟨"Ex", "Fy", 121⟩],
              used := [[⟨"Ex", "Fy", 121⟩]] }

/-- the data that reached Fy is recorded as a message received by Fz (kernel-evaluated run) -/
theorem C20_recipient_misattributed : runEvents wSpec init wSchedule = some wFinal := by decide

theorem C20_full_statement_false : ¬ C20_FullStatement := by
  intro hfull
  have hr : Reachable wSpec wFinal :=
    reachable_runEvents wSpec wSchedule init wFinal Reachable.init C20_recipient_misattributed
  have := (hfull wSpec wFinal hr).2 ⟨"Ex", some "Fz", "<a>", [121], true⟩ (by decide)
    [⟨"Ex", "Fy", 121⟩] (by decide) ⟨rfl, rfl, by decide⟩ (by decide) ⟨"Ex", "Fy", 121⟩ (by decide)
  exact absurd this (by decide)

/-! ## non-vacuity -/

/-- ping / pong with a constraint-violating variant -/
def exSpec : Spec where
  forecast := fun h => match h.length with
    | 0 => [⟨"Fz", some "Ex", "<ping>"⟩]
    | 1 => [⟨"Ex", some "Fz", "<pong>"⟩, ⟨"Ex", some "Fz", "<po>"⟩]
    | _ => []
  done := fun h => h.length == 2
  fuzzer := fun p => p == "Fz"
  complete := fun t w => (t == "<pong>" && w == [1, 2, 3]) || (t == "<po>" && w == [1, 2])
  cont := fun t w => (t == "<pong>" && (w == [1] || w == [1, 2])) || (t == "<po>" && w == [1])
  ok := fun _ m => m.payload != [1, 2]

def exPing : Msg := ⟨"Fz", some "Ex", "<ping>", [9], false⟩

/-- interleaved arrival, two candidate types, the longer parse wins, the run completes -/
example : (runEvents exSpec init
    [.fuzzerSend exPing, .recv ⟨"Ex", "Fz", 1⟩, .exStart, .exStep, .recv ⟨"Ex", "Fz", 2⟩, .exStep,
     .recv ⟨"Ex", "Fz", 3⟩, .exStep, .exFinish, .finishRun]).map (fun s => (s.history.map (·.type), s.buffer, s.failed, s.finished))
    = some (["<ping>", "<pong>"], [], none, true) := by decide

/-- the peer stops after "po": `<po>` parses, the constraint rejects it, the run fails, history unchanged -/
example : (runEvents exSpec init
    [.fuzzerSend exPing, .recv ⟨"Ex", "Fz", 1⟩, .recv ⟨"Ex", "Fz", 2⟩, .exStart, .exStep, .exStep, .silence]).map
      (fun s => (s.history.map (·.type), s.failed, s.rejected.map (·.type)))
    = some (["<ping>"], some .constraint, some "<po>") := by decide

/-- truncated: silence before anything completed -/
example : (runEvents exSpec init
    [.fuzzerSend exPing, .recv ⟨"Ex", "Fz", 1⟩, .exStart, .exStep, .silence]).map (fun s => (s.history.length, s.failed))
    = some (1, some .timeoutFragment) := by decide

/-- wrong data: no type parses -/
example : (runEvents exSpec init
    [.fuzzerSend exPing, .recv ⟨"Ex", "Fz", 7⟩, .exStart, .exStep, .exFinish]).map (fun s => (s.history.length, s.failed, s.buffer))
    = some (1, some .noParse, [⟨"Ex", "Fz", 7⟩]) := by decide

/-- the fuzzer does not send while remote data is buffered; a dead run takes no event -/
example : runEvents exSpec init [.recv ⟨"Ex", "Fz", 1⟩, .fuzzerSend exPing] = none := by decide

/-- hypotheses of `C20_recipient_attribution_partial` are satisfiable on a run that accepts a message -/
example : ∃ s, Reachable exSpec s ∧ (remoteMsgs s.history).length = 1 ∧
    (∀ f ∈ s.recvd, f.recipient = (fun _ => "Fz") f.sender) := by
  refine ⟨_, reachable_runEvents exSpec
    [.fuzzerSend exPing, .recv ⟨"Ex", "Fz", 1⟩, .recv ⟨"Ex", "Fz", 2⟩, .recv ⟨"Ex", "Fz", 3⟩, .exStart, .exStep,
      .exStep, .exStep, .exFinish] init _ Reachable.init rfl, by decide, by decide⟩

end Io
end FV
